//! Shared helpers for the correspondence harness binaries.
use std::io::{self, BufRead, Write};

/// Read all non-empty lines from stdin.
pub fn read_cases() -> Vec<String> {
    let stdin = io::stdin();
    stdin
        .lock()
        .lines()
        .map(|l| l.expect("stdin"))
        .filter(|l| !l.trim().is_empty())
        .collect()
}

/// Buffered stdout writer.
pub fn out() -> io::BufWriter<io::Stdout> {
    io::BufWriter::with_capacity(1 << 16, io::stdout())
}

pub fn emit(w: &mut impl Write, s: &str) {
    w.write_all(s.as_bytes()).unwrap();
    w.write_all(b"\n").unwrap();
}

/// Run a closure catching panics; returns Err(message) when it panicked.
pub fn catch<T>(f: impl FnOnce() -> T + std::panic::UnwindSafe) -> Result<T, String> {
    match std::panic::catch_unwind(f) {
        Ok(v) => Ok(v),
        Err(e) => {
            let msg = if let Some(s) = e.downcast_ref::<&str>() {
                s.to_string()
            } else if let Some(s) = e.downcast_ref::<String>() {
                s.clone()
            } else {
                "panic".to_string()
            };
            Err(msg)
        }
    }
}
