//! C20: drives the public ValidateSNI layer around a recording inner service.
//!
//! case line: <version 10|11|2> <host header hex|-|+hex,hex (several)> <uri> <tls none|nosni|sni:hex> [<premarked 0|1>]
//!   premarked 1: the TlsConnectionInfo arrives with validated_server_name already true
//! output:    <hdr authority parse ok? host|!|-> <uri authority host|-> <sni authority host|!|-> ;; FWD <validated 0|1> | REJ Invalid | REJ Missing | PANIC
use std::sync::{Arc, Mutex};

use hd_harness::*;
use hyperdriver::info::TlsConnectionInfo;
use hyperdriver::server::conn::tls::sni::{SNIMiddlewareError, ValidateSNI, ValidateSNIError};
use tower::{Layer, Service};

fn unhex(s: &str) -> Vec<u8> {
    (0..s.len()).step_by(2).map(|i| u8::from_str_radix(&s[i..i + 2], 16).unwrap()).collect()
}

fn auth_host(raw: &[u8]) -> String {
    match std::str::from_utf8(raw).ok().and_then(|s| s.parse::<http::uri::Authority>().ok()) {
        Some(a) => a.host().to_string(),
        None => "!".to_string(),
    }
}

type Built = (http::Request<()>, String, String, String);

fn build_req(line: &str) -> Result<Built, String> {
    let f: Vec<&str> = line.split(' ').collect();
    let version = match f[0] {
        "10" => http::Version::HTTP_10,
        "2" => http::Version::HTTP_2,
        _ => http::Version::HTTP_11,
    };
    let mut b = http::Request::builder().version(version).uri(f[2]);
    let mut first_host: Option<Vec<u8>> = None;
    if f[1] != "-" {
        for h in f[1].trim_start_matches('+').split(',') {
            let v = unhex(h);
            if first_host.is_none() {
                first_host = Some(v.clone());
            }
            b = b.header(http::header::HOST, v);
        }
    }
    let mut req = match b.body(()) {
        Ok(r) => r,
        Err(_) => return Err("- - - ;; BADREQ".into()),
    };
    let pre = f.get(4).map(|x| *x == "1").unwrap_or(false);
    let mut sni_dec = "-".to_string();
    match f[3] {
        "none" => {}
        "nosni" => {
            req.extensions_mut().insert(TlsConnectionInfo { server_name: None, validated_server_name: pre, alpn: None });
        }
        s => {
            let name = unhex(&s[4..]);
            sni_dec = auth_host(&name);
            req.extensions_mut().insert(TlsConnectionInfo {
                server_name: Some(String::from_utf8_lossy(&name).to_string()),
                validated_server_name: pre,
                alpn: None,
            });
        }
    }
    let hdr_dec = first_host.as_ref().map(|h| auth_host(h)).unwrap_or_else(|| "-".into());
    let uri_dec = req.uri().authority().map(|a| a.host().to_string()).unwrap_or_else(|| "-".into());

    Ok((req, hdr_dec, uri_dec, sni_dec))
}

/// one or several requests (separated by " || ") through ONE ValidateSNI service value; from the second
/// request on, every other request goes through a clone of the (already used) service
fn run_case(line: &str) -> String {
    let seen: Arc<Mutex<Option<Option<bool>>>> = Arc::new(Mutex::new(None));
    let seen2 = seen.clone();
    let inner = tower::service_fn(move |r: http::Request<()>| {
        let v = r.extensions().get::<TlsConnectionInfo>().map(|t| t.validated_server_name);
        *seen2.lock().unwrap() = Some(v);
        async move { Ok::<_, std::io::Error>(http::Response::new(())) }
    });
    let mut svc = ValidateSNI.layer(inner);
    let rt = tokio::runtime::Builder::new_current_thread().build().unwrap();
    let mut outs = Vec::new();
    for (i, one) in line.split(" || ").enumerate() {
        let (req, hdr_dec, uri_dec, sni_dec) = match build_req(one) {
            Ok(b) => b,
            Err(e) => {
                outs.push(e);
                continue;
            }
        };
        *seen.lock().unwrap() = None;
        let res = if i > 0 && i % 2 == 0 {
            let mut c = svc.clone();
            catch(std::panic::AssertUnwindSafe(|| rt.block_on(c.call(req))))
        } else {
            catch(std::panic::AssertUnwindSafe(|| rt.block_on(svc.call(req))))
        };
        let out = match res {
            Err(_) => "PANIC".to_string(),
            Ok(Ok(_)) => match seen.lock().unwrap().take() {
                Some(v) => format!("FWD {}", if v == Some(true) { 1 } else { 0 }),
                None => "LOST".to_string(),
            },
            Ok(Err(SNIMiddlewareError::SNI(ValidateSNIError::InvalidSNI { .. }))) => "REJ Invalid".to_string(),
            Ok(Err(SNIMiddlewareError::SNI(ValidateSNIError::MissingSNI { .. }))) => "REJ Missing".to_string(),
            Ok(Err(_)) => "REJ Other".to_string(),
        };
        outs.push(format!("{} {} {} ;; {}", hdr_dec, uri_dec, sni_dec, out));
    }
    outs.join(" || ")
}

fn main() {
    std::panic::set_hook(Box::new(|_| {}));
    let mut w = out();
    for line in read_cases() {
        emit(&mut w, &run_case(&line));
    }
}
