//! M-CONN (C02 / C05 anchors): the REAL `hyperdriver::client::conn::connection::HttpConnection`, built
//! through the public `HttpConnectionBuilder` (HTTP/1.1 and HTTP/2 prior knowledge) over the in-process
//! duplex stream, against a scripted hyper server end.  After every operation (+ settling) it prints what
//! the pool can see of the connection: PoolableConnection::{is_open, can_share, reuse().is_some()},
//! Connection::{version, poll_ready (polled once)}, the same through a handle obtained from `reuse()`
//! right after the handshake (HTTP/2), the number of requests completed / failed so far and the version
//! of the last request the server handler was given.
//!
//! case line:  <h1|h2> <op> <op> ...
//!   S10 S11 S2  send a request whose version field says 1.0 / 1.1 / 2 (HttpConnection::send_request)
//!   K  the server answers its oldest held request (keep-alive); the client reads the body
//!   C  the server answers its oldest held request with `Connection: close`
//!   D  the server end is dropped (peer closes abruptly)
//!   G  the server calls graceful_shutdown (HTTP/2: GOAWAY; HTTP/1: close when idle / after the response)
//!   Q  settle only
//! output: one observation per op, separated by " | ", first the one right after the handshake:
//!   o=<0|1> s=<0|1> r=<0|1> v=<11|2> p=<ok|pend|err> c=<-|o.s.p> ok=<n> err=<n> sv=<-|10|11|2>
use std::collections::VecDeque;
use std::sync::atomic::{AtomicUsize, Ordering};
use std::sync::{Arc, Mutex};
use std::task::{Context, Poll};

use hd_harness::*;
use http_body_util::BodyExt;
use hyperdriver::bridge::io::TokioIo;
use hyperdriver::bridge::rt::TokioExecutor;
use hyperdriver::client::conn::connection::HttpConnection;
use hyperdriver::client::conn::protocol::auto::HttpConnectionBuilder;
use hyperdriver::client::conn::protocol::HttpProtocol;
use hyperdriver::client::conn::{Connection, Protocol};
use hyperdriver::client::pool::PoolableConnection;
use hyperdriver::stream::duplex::DuplexStream;
use hyperdriver::Body;
use tokio::sync::{mpsc, oneshot};

type BoxError = Box<dyn std::error::Error + Send + Sync + 'static>;

#[derive(Clone, Copy)]
enum Reply {
    Keep,
    Close,
}
enum Ctl {
    Goaway,
    Drop,
}

#[derive(Default)]
struct Shared {
    held: Mutex<VecDeque<oneshot::Sender<Reply>>>,
    seen: Mutex<Option<&'static str>>,
    ok: AtomicUsize,
    err: AtomicUsize,
}

fn ver_str(v: http::Version) -> &'static str {
    match v {
        http::Version::HTTP_09 => "09",
        http::Version::HTTP_10 => "10",
        http::Version::HTTP_11 => "11",
        http::Version::HTTP_2 => "2",
        _ => "3",
    }
}

async fn handle(sh: Arc<Shared>, req: http::Request<hyper::body::Incoming>) -> Result<http::Response<Body>, BoxError> {
    *sh.seen.lock().unwrap() = Some(ver_str(req.version()));
    let _ = req.into_body().collect().await;
    let (tx, rx) = oneshot::channel();
    sh.held.lock().unwrap().push_back(tx);
    match rx.await {
        Ok(Reply::Keep) => Ok(http::Response::builder().status(200).body(Body::from("kept"))?),
        Ok(Reply::Close) => Ok(http::Response::builder().status(200).header(http::header::CONNECTION, "close").body(Body::from("last"))?),
        Err(_) => Err("handler abandoned".into()),
    }
}

async fn settle() {
    for _ in 0..60 {
        tokio::task::yield_now().await;
    }
}

fn poll_class<C: Connection<Body>>(c: &mut C) -> &'static str {
    let waker = futures_util::task::noop_waker();
    let mut cx = Context::from_waker(&waker);
    match c.poll_ready(&mut cx) {
        Poll::Ready(Ok(())) => "ok",
        Poll::Ready(Err(_)) => "err",
        Poll::Pending => "pend",
    }
}

fn observe(conn: &mut HttpConnection<Body>, clone: &mut Option<HttpConnection<Body>>, sh: &Shared) -> String {
    let o = conn.is_open() as u8;
    let s = conn.can_share() as u8;
    let r = conn.reuse().is_some() as u8;
    let v = ver_str(conn.version());
    let p = poll_class(conn);
    let c = match clone.as_mut() {
        Some(k) => format!("{}.{}.{}", k.is_open() as u8, k.can_share() as u8, poll_class(k)),
        None => "-".to_string(),
    };
    format!(
        "o={o} s={s} r={r} v={v} p={p} c={c} ok={} err={} sv={}",
        sh.ok.load(Ordering::SeqCst),
        sh.err.load(Ordering::SeqCst),
        sh.seen.lock().unwrap().unwrap_or("-")
    )
}

async fn run_case(line: String) -> String {
    let f: Vec<&str> = line.split_whitespace().collect();
    if f.is_empty() {
        return "BADCASE".into();
    }
    let h2 = f[0] == "h2";
    let sh = Arc::new(Shared::default());
    let (client_io, server_io) = DuplexStream::new(4096);

    // scripted server end (plain hyper)
    let (ctl_tx, mut ctl_rx) = mpsc::unbounded_channel::<Ctl>();
    let sh2 = sh.clone();
    let service = hyper::service::service_fn(move |req| handle(sh2.clone(), req));
    let server = tokio::spawn(async move {
        macro_rules! drive {
            ($conn:expr) => {{
                let conn = $conn;
                tokio::pin!(conn);
                loop {
                    tokio::select! {
                        biased;
                        cmd = ctl_rx.recv() => match cmd {
                            Some(Ctl::Goaway) => conn.as_mut().graceful_shutdown(),
                            Some(Ctl::Drop) | None => return,
                        },
                        _ = conn.as_mut() => return,
                    }
                }
            }};
        }
        if h2 {
            drive!(hyper::server::conn::http2::Builder::new(TokioExecutor::new()).serve_connection(TokioIo::new(server_io), service))
        } else {
            drive!(hyper::server::conn::http1::Builder::new().serve_connection(TokioIo::new(server_io), service))
        }
    });

    // the real connection, through the library's own builder
    let mut builder: HttpConnectionBuilder<Body> = HttpConnectionBuilder::default();
    let proto = if h2 { HttpProtocol::Http2 } else { HttpProtocol::Http1 };
    let mut conn: HttpConnection<Body> = match builder.connect(hyperdriver::client::conn::Stream::new(client_io), proto).await {
        Ok(c) => c,
        Err(e) => return format!("CONNECT-ERR {e:?}").replace('\n', " "),
    };
    settle().await;
    let mut clone = conn.reuse();
    let mut out = vec![observe(&mut conn, &mut clone, &sh)];

    for op in &f[1..] {
        match *op {
            "S10" | "S11" | "S2" => {
                let v = match *op {
                    "S10" => http::Version::HTTP_10,
                    "S2" => http::Version::HTTP_2,
                    _ => http::Version::HTTP_11,
                };
                let req = http::Request::builder().method("GET").uri("http://conn.test/x").version(v).body(Body::empty()).unwrap();
                let fut = conn.send_request(req);
                let sh3 = sh.clone();
                tokio::spawn(async move {
                    let good = match fut.await {
                        Ok(resp) => resp.into_body().collect().await.is_ok(),
                        Err(_) => false,
                    };
                    if good { sh3.ok.fetch_add(1, Ordering::SeqCst) } else { sh3.err.fetch_add(1, Ordering::SeqCst) };
                });
            }
            "K" | "C" => {
                // bind first: the guard must not live across the send
                let tx = sh.held.lock().unwrap().pop_front();
                if let Some(tx) = tx {
                    let _ = tx.send(if *op == "K" { Reply::Keep } else { Reply::Close });
                }
            }
            "D" => {
                let _ = ctl_tx.send(Ctl::Drop);
            }
            "G" => {
                let _ = ctl_tx.send(Ctl::Goaway);
            }
            _ => {}
        }
        settle().await;
        out.push(observe(&mut conn, &mut clone, &sh));
    }
    server.abort();
    out.join(" | ")
}

fn main() {
    std::panic::set_hook(Box::new(|_| {}));
    let mut w = out();
    for line in read_cases() {
        let res = catch(std::panic::AssertUnwindSafe(|| {
            let rt = tokio::runtime::Builder::new_current_thread().enable_all().build().unwrap();
            let out = rt.block_on(run_case(line.clone()));
            rt.shutdown_timeout(std::time::Duration::from_millis(50));
            out
        }));
        match res {
            Ok(s) => emit(&mut w, &s),
            Err(m) => emit(&mut w, &format!("PANIC {}", m.replace('\n', " "))),
        }
    }
}
