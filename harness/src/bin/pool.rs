//! M-POOL correspondence harness (C02-C06, C14, C15, C19 cleanup): drives the real
//! `ConnectionPoolService` through its public API with its own transport, protocol, connection
//! and inner-service types, under manual polling inside one current-thread `block_on`.
//!
//! case line:  <pool 0|1> <idle timeout ms|-> <max idle> <cont 0|1> ; op op op ...
//!   ops: I<uri idx>.<1|2>   issue a request (ids are allocated 0,1,2,... in issue order)
//!        P<r> poll   X<r> cancel (drop the future)   F<r> let the inner service finish   U<r> upgrade
//!        D<r>.<o|a|c|h>  the dial of request r resolves: ok / ok + ALPN h2 / connect error / handshake error
//!        R<c> connection c reports ready   C<c> peer closes connection c   B run background tasks   T<ms> sleep
//! output: one line per case; per op `events # snapshot ~ woken requests`, ops separated by " | ".
use std::collections::HashMap;
use std::future::Future;
use std::pin::Pin;
use std::sync::atomic::{AtomicBool, Ordering};
use std::sync::{Arc, Mutex};
use std::task::{Context, Poll, Wake, Waker};
use std::time::Duration;

use bytes::Bytes;
use hd_harness::*;
use http_body_util::Empty;
use hyperdriver::client::conn::connection::ConnectionError;
use hyperdriver::client::conn::protocol::{HttpProtocol, ProtocolRequest};
use hyperdriver::client::conn::Connection;
use hyperdriver::client::pool::{PoolableConnection, PoolableStream, Pooled};
use hyperdriver::client::{ConnectionPoolService, PoolConfig};
use hyperdriver::info::{ConnectionInfo, HasConnectionInfo};
use hyperdriver::service::ExecuteRequest;

type B = Empty<Bytes>;

pub const URIS: &[&str] = &[
    "http://a.test",
    "https://a.test",
    "http://a.test:8080",
    "http://b.test",
    "http://A.TEST",
    "HTTP://a.test",
    "http://a.test:80",
    "",
    // "<uri>|<host>": the request carries an explicit Host header; the pool key must come from the URI all the same
    "http://a.test|b.test",
    "http://b.test|a.test",
    "http://a.test|a.test",
    // userinfo in the authority: part of the key as the library builds it; must never merge different ports
    "http://u:p@a.test:8080",
    "http://x@a.test",
    // websocket schemes: same authority as entries 0 / 1, different origins
    "ws://a.test",
    "wss://a.test",
];

#[derive(Debug)]
struct HErr(&'static str);
impl std::fmt::Display for HErr {
    fn fmt(&self, f: &mut std::fmt::Formatter<'_>) -> std::fmt::Result {
        f.write_str(self.0)
    }
}
impl std::error::Error for HErr {}

#[derive(Clone, Copy)]
enum DialRes {
    Ok { alpn: bool },
    ErrConnect,
    /// the protocol handshake fails; `alpn`: the transport had negotiated h2 before (the connector is told
    /// "connected, can be shared" and then the handshake dies): must make no difference
    ErrHandshake { alpn: bool },
}

#[derive(Default)]
struct Dial {
    result: Option<DialRes>,
    waker: Option<Waker>,
    gone: bool,
}

struct Conn {
    share: bool,
    open: bool,
    ready: bool,
    refs: usize,
    holders: usize,
    wakers: Vec<Waker>,
}

#[derive(Default)]
struct Req {
    finish: bool,
    panic: bool,
    hold_waker: Option<Waker>,
    holding: Option<usize>,
}

#[derive(Default)]
struct World {
    events: Vec<String>,
    dials: HashMap<usize, Dial>,
    conns: Vec<Conn>,
    reqs: Vec<Req>,
    done: bool,
}
impl World {
    fn ev(&mut self, s: String) {
        if !self.done {
            self.events.push(s);
        }
    }
}
type W = Arc<Mutex<World>>;

fn rid_of(uri: &http::Uri) -> usize {
    uri.path().trim_start_matches("/r").parse().unwrap_or(usize::MAX)
}

// ------------------------------------------------------------------ transport
#[derive(Clone)]
struct HT {
    w: W,
}
struct HStream {
    rid: usize,
    alpn: bool,
    hsfail: bool,
}
#[derive(Debug, Clone)]
struct Addr;
impl std::fmt::Display for Addr {
    fn fmt(&self, f: &mut std::fmt::Formatter<'_>) -> std::fmt::Result {
        f.write_str("harness")
    }
}
impl HasConnectionInfo for HStream {
    type Addr = Addr;
    fn info(&self) -> ConnectionInfo<Addr> {
        ConnectionInfo { local_addr: Addr, remote_addr: Addr }
    }
}
impl PoolableStream for HStream {
    fn can_share(&self) -> bool {
        self.alpn
    }
}
struct DialFut {
    w: W,
    rid: usize,
}
impl Future for DialFut {
    type Output = Result<HStream, HErr>;
    fn poll(self: Pin<&mut Self>, cx: &mut Context<'_>) -> Poll<Self::Output> {
        let mut w = self.w.lock().unwrap();
        let d = w.dials.entry(self.rid).or_default();
        match d.result {
            None => {
                d.waker = Some(cx.waker().clone());
                Poll::Pending
            }
            Some(DialRes::Ok { alpn }) => Poll::Ready(Ok(HStream { rid: self.rid, alpn, hsfail: false })),
            Some(DialRes::ErrHandshake { alpn }) => Poll::Ready(Ok(HStream { rid: self.rid, alpn, hsfail: true })),
            Some(DialRes::ErrConnect) => Poll::Ready(Err(HErr("dialfail"))),
        }
    }
}
impl Drop for DialFut {
    fn drop(&mut self) {
        // the connector was dropped or has consumed the result: later DialDone events find nobody
        let mut w = self.w.lock().unwrap();
        if let Some(d) = w.dials.get_mut(&self.rid) {
            d.gone = true;
            d.waker = None;
        }
    }
}
impl tower::Service<http::request::Parts> for HT {
    type Response = HStream;
    type Error = HErr;
    type Future = DialFut;
    fn poll_ready(&mut self, _: &mut Context<'_>) -> Poll<Result<(), HErr>> {
        Poll::Ready(Ok(()))
    }
    fn call(&mut self, parts: http::request::Parts) -> DialFut {
        let rid = rid_of(&parts.uri);
        let mut w = self.w.lock().unwrap();
        let key = format!(
            "{}://{}",
            parts.uri.scheme_str().unwrap_or("-"),
            parts.uri.authority().map(|a| a.as_str()).unwrap_or("-")
        );
        w.ev(format!("dial:{}:{}", rid, key));
        w.dials.entry(rid).or_default();
        DialFut { w: self.w.clone(), rid }
    }
}

// ------------------------------------------------------------------ protocol + connection
#[derive(Clone)]
struct HP {
    w: W,
}
struct HC {
    w: W,
    id: usize,
}
impl tower::Service<ProtocolRequest<HStream, B>> for HP {
    type Response = HC;
    type Error = ConnectionError;
    type Future = std::future::Ready<Result<HC, ConnectionError>>;
    fn poll_ready(&mut self, _: &mut Context<'_>) -> Poll<Result<(), ConnectionError>> {
        Poll::Ready(Ok(()))
    }
    fn call(&mut self, req: ProtocolRequest<HStream, B>) -> Self::Future {
        if req.transport.hsfail {
            return std::future::ready(Err(ConnectionError::Handshake(Box::new(HErr("hsfail")))));
        }
        let share = matches!(req.version, HttpProtocol::Http2) || req.transport.alpn;
        let mut w = self.w.lock().unwrap();
        let id = w.conns.len();
        w.conns.push(Conn { share, open: true, ready: true, refs: 1, holders: 0, wakers: vec![] });
        w.ev(format!("new:{}:{}:{}", id, share as u8, req.transport.rid));
        std::future::ready(Ok(HC { w: self.w.clone(), id }))
    }
}
impl Connection<B> for HC {
    type ResBody = B;
    type Error = HErr;
    type Future = std::future::Ready<Result<http::Response<B>, HErr>>;
    fn send_request(&mut self, _request: http::Request<B>) -> Self::Future {
        std::future::ready(Err(HErr("unused")))
    }
    fn poll_ready(&mut self, cx: &mut Context<'_>) -> Poll<Result<(), HErr>> {
        let mut w = self.w.lock().unwrap();
        let id = self.id;
        let (share, open, ready) = {
            let c = &w.conns[id];
            (c.share, c.open, c.ready)
        };
        if !open {
            w.ev(format!("rdy:{}:err", id));
            return Poll::Ready(Err(HErr("closed")));
        }
        if share || ready {
            w.ev(format!("rdy:{}:ok", id));
            return Poll::Ready(Ok(()));
        }
        w.conns[id].wakers.push(cx.waker().clone());
        Poll::Pending
    }
    fn version(&self) -> http::Version {
        if self.w.lock().unwrap().conns[self.id].share {
            http::Version::HTTP_2
        } else {
            http::Version::HTTP_11
        }
    }
}
impl PoolableConnection<B> for HC {
    fn is_open(&self) -> bool {
        let w = self.w.lock().unwrap();
        let c = &w.conns[self.id];
        if c.share {
            c.open
        } else {
            c.open && c.ready
        }
    }
    fn can_share(&self) -> bool {
        self.w.lock().unwrap().conns[self.id].share
    }
    fn reuse(&mut self) -> Option<Self> {
        let mut w = self.w.lock().unwrap();
        if w.conns[self.id].share {
            w.conns[self.id].refs += 1;
            Some(HC { w: self.w.clone(), id: self.id })
        } else {
            None
        }
    }
}
impl Drop for HC {
    fn drop(&mut self) {
        let mut w = self.w.lock().unwrap();
        let id = self.id;
        w.conns[id].refs -= 1;
        if w.conns[id].refs == 0 {
            w.ev(format!("drop:{}", id));
        }
    }
}

// ------------------------------------------------------------------ inner service
#[derive(Clone)]
struct Svc {
    w: W,
}
struct HoldFut {
    w: W,
    rid: usize,
    cid: usize,
    pooled: Option<Pooled<HC, B>>,
    released: bool,
}
impl Future for HoldFut {
    type Output = Result<http::Response<B>, hyperdriver::client::Error>;
    fn poll(self: Pin<&mut Self>, cx: &mut Context<'_>) -> Poll<Self::Output> {
        let this = self.get_mut();
        let boom = this.w.lock().unwrap().reqs[this.rid].panic;
        if boom {
            // the task holding the connection panics: the handle is a local of the panicking frame, so it is dropped
            // DURING unwinding (std::thread::panicking() is true inside Pooled::drop).  The release is logged first, as
            // in the plain drop (HoldFut::drop logs before its fields are dropped), so that the event order is the same.
            this.release();
            let _held = this.pooled.take();
            panic!("scripted panic of the request holding the connection");
        }
        let mut w = this.w.lock().unwrap();
        let r = &mut w.reqs[this.rid];
        if r.finish {
            Poll::Ready(Ok(http::Response::new(Empty::new())))
        } else {
            r.hold_waker = Some(cx.waker().clone());
            Poll::Pending
        }
    }
}
impl HoldFut {
    fn release(&mut self) {
        if self.released {
            return;
        }
        self.released = true;
        let mut w = self.w.lock().unwrap();
        let (rid, cid) = (self.rid, self.cid);
        w.conns[cid].holders -= 1;
        w.reqs[rid].holding = None;
        w.ev(format!("rel:{}:{}", rid, cid));
    }
}
impl Drop for HoldFut {
    fn drop(&mut self) {
        self.release();
    }
}
impl tower::Service<ExecuteRequest<Pooled<HC, B>, B>> for Svc {
    type Response = http::Response<B>;
    type Error = hyperdriver::client::Error;
    type Future = HoldFut;
    fn poll_ready(&mut self, _: &mut Context<'_>) -> Poll<Result<(), Self::Error>> {
        Poll::Ready(Ok(()))
    }
    fn call(&mut self, req: ExecuteRequest<Pooled<HC, B>, B>) -> HoldFut {
        let (pooled, request) = req.into_parts();
        let rid = rid_of(request.uri());
        let cid = pooled.id;
        let reused = pooled.is_reused();
        let mut w = self.w.lock().unwrap();
        let (share, open, ready, holders) = {
            let c = &w.conns[cid];
            (c.share, c.open, c.ready, c.holders)
        };
        w.ev(format!("hand:{}:{}:{}:{}:{}:{}", rid, cid, reused as u8, open as u8, ready as u8, holders));
        if !share {
            w.conns[cid].ready = false;
        }
        w.conns[cid].holders += 1;
        w.reqs[rid].holding = Some(cid);
        HoldFut { w: self.w.clone(), rid, cid, pooled: Some(pooled), released: false }
    }
}

// ------------------------------------------------------------------ driver
struct Flag(AtomicBool);
impl Wake for Flag {
    fn wake(self: Arc<Self>) {
        self.0.store(true, Ordering::SeqCst);
    }
    fn wake_by_ref(self: &Arc<Self>) {
        self.0.store(true, Ordering::SeqCst);
    }
}

fn classify(e: &hyperdriver::client::Error) -> &'static str {
    let s = format!("{e}");
    if s.contains("dialfail") {
        "econn"
    } else if s.contains("hsfail") {
        "ehs"
    } else if s.contains("pool closed") {
        "eunavail"
    } else if s.contains("invalid URI") || s.contains("missing scheme") {
        "euri"
    } else {
        "eother"
    }
}

type Svc0 = ConnectionPoolService<HT, HP, Svc, B>;
type RFut = Pin<Box<<Svc0 as tower::Service<http::Request<B>>>::Future>>;

async fn run_case(line: String) -> String {
    let (cfg, ops) = line.split_once(';').unwrap_or((line.as_str(), ""));
    let c: Vec<&str> = cfg.split_whitespace().collect();
    let pool = c[0] == "1";
    let mut config = PoolConfig::default();
    config.idle_timeout = if c[1] == "-" { None } else { Some(Duration::from_millis(c[1].parse().unwrap())) };
    config.max_idle_per_host = c[2].parse().unwrap();
    config.continue_after_preemption = c[3] == "1";

    let w: W = Arc::new(Mutex::new(World::default()));
    let mut svc: Svc0 = ConnectionPoolService::new(HT { w: w.clone() }, HP { w: w.clone() }, Svc { w: w.clone() }, config);
    if !pool {
        svc = svc.without_pool();
    }
    let mut futs: Vec<Option<RFut>> = Vec::new();
    let mut flags: Vec<Arc<Flag>> = Vec::new();
    let mut out: Vec<String> = Vec::new();

    for op in ops.split_whitespace() {
        let (k, rest) = op.split_at(1);
        match k {
            "I" => {
                let (u, p) = rest.split_once('.').unwrap();
                let u: usize = u.parse().unwrap();
                let rid = futs.len();
                // table indices >= 100 are synthetic origins http://o<u>.test (histories over hundreds of origins)
                let synthetic = format!("http://o{u}.test");
                let entry: &str = if u >= 100 { &synthetic } else { URIS[u] };
                let (base, host_hdr) = match entry.split_once('|') {
                    Some((b, h)) => (b, Some(h)),
                    None => (entry, None),
                };
                let uri = format!("{}/r{}", base, rid);
                let version = if p == "2" { http::Version::HTTP_2 } else { http::Version::HTTP_11 };
                let mut req = http::Request::new(Empty::<Bytes>::new());
                *req.uri_mut() = uri.parse().unwrap();
                *req.version_mut() = version;
                if let Some(h) = host_hdr {
                    req.headers_mut().insert(http::header::HOST, http::HeaderValue::from_str(h).unwrap());
                }
                w.lock().unwrap().reqs.push(Req::default());
                let fut = tower::Service::call(&mut svc, req);
                futs.push(Some(Box::pin(fut)));
                flags.push(Arc::new(Flag(AtomicBool::new(false))));
            }
            "P" => {
                let r: usize = rest.parse().unwrap();
                if let Some(Some(f)) = futs.get_mut(r) {
                    flags[r].0.store(false, Ordering::SeqCst);
                    let waker = Waker::from(flags[r].clone());
                    let mut cx = Context::from_waker(&waker);
                    match f.as_mut().poll(&mut cx) {
                        Poll::Pending => w.lock().unwrap().ev(format!("pend:{}", r)),
                        Poll::Ready(res) => {
                            futs[r] = None; // the caller drops a finished future
                            let cls = match &res {
                                Ok(_) => "ok",
                                Err(e) => classify(e),
                            };
                            w.lock().unwrap().ev(format!("res:{}:{}", r, cls));
                        }
                    }
                }
            }
            "X" => {
                let r: usize = rest.parse().unwrap();
                if let Some(slot) = futs.get_mut(r) {
                    *slot = None;
                    flags[r].0.store(false, Ordering::SeqCst);
                }
            }
            "Z" => {
                // like X, but a request that holds a connection is ended by a PANIC inside its future (the handle is
                // dropped during unwinding) instead of a plain drop: must make no difference
                let r: usize = rest.parse().unwrap();
                let holding = w.lock().unwrap().reqs.get(r).map(|q| q.holding.is_some()).unwrap_or(false);
                if let Some(slot) = futs.get_mut(r) {
                    if holding {
                        w.lock().unwrap().reqs[r].panic = true;
                        if let Some(f) = slot.as_mut() {
                            let waker = Waker::from(flags[r].clone());
                            let mut cx = Context::from_waker(&waker);
                            let _ = std::panic::catch_unwind(std::panic::AssertUnwindSafe(|| {
                                let _ = f.as_mut().poll(&mut cx);
                            }));
                        }
                    }
                    *slot = None;
                    flags[r].0.store(false, Ordering::SeqCst);
                }
            }
            "F" => {
                let r: usize = rest.parse().unwrap();
                let wk = {
                    let mut g = w.lock().unwrap();
                    match g.reqs.get_mut(r) {
                        Some(q) if q.holding.is_some() => {
                            q.finish = true;
                            q.hold_waker.take()
                        }
                        _ => None,
                    }
                };
                if let Some(wk) = wk {
                    wk.wake();
                }
            }
            "U" => {
                let r: usize = rest.parse().unwrap();
                let mut g = w.lock().unwrap();
                if let Some(cid) = g.reqs.get(r).and_then(|q| q.holding) {
                    g.conns[cid].open = false;
                    let wk: Vec<Waker> = g.conns[cid].wakers.drain(..).collect();
                    drop(g);
                    for x in wk {
                        x.wake();
                    }
                }
            }
            "D" => {
                let (r, o) = rest.split_once('.').unwrap();
                let r: usize = r.parse().unwrap();
                let res = match o {
                    "o" => DialRes::Ok { alpn: false },
                    "a" => DialRes::Ok { alpn: true },
                    "c" => DialRes::ErrConnect,
                    "H" => DialRes::ErrHandshake { alpn: true },
                    _ => DialRes::ErrHandshake { alpn: false },
                };
                let wk = {
                    let mut g = w.lock().unwrap();
                    match g.dials.get_mut(&r) {
                        Some(d) if d.result.is_none() && !d.gone => {
                            d.result = Some(res);
                            d.waker.take()
                        }
                        _ => None,
                    }
                };
                if let Some(wk) = wk {
                    wk.wake();
                }
            }
            "R" | "C" => {
                let cid: usize = rest.parse().unwrap();
                let wk: Vec<Waker> = {
                    let mut g = w.lock().unwrap();
                    match g.conns.get_mut(cid) {
                        Some(cn) => {
                            if k == "R" {
                                cn.ready = true;
                            } else {
                                cn.open = false;
                            }
                            cn.wakers.drain(..).collect()
                        }
                        None => vec![],
                    }
                };
                for x in wk {
                    x.wake();
                }
            }
            "B" => {
                for _ in 0..8 {
                    tokio::task::yield_now().await;
                }
            }
            "T" => {
                std::thread::sleep(Duration::from_millis(rest.parse().unwrap()));
            }
            _ => {}
        }
        let evs: Vec<String> = w.lock().unwrap().events.drain(..).collect();
        let snap = svc.verif_pool_snapshot(|c| c.id as u64);
        let snap: Vec<String> = snap
            .iter()
            .filter(|s| !s.idle.is_empty() || s.waiters_live + s.waiters_closed > 0 || s.connecting)
            .map(|s| {
                format!(
                    "t{}:{}:{}:{}:{}",
                    s.token,
                    s.idle.iter().map(|x| x.to_string()).collect::<Vec<_>>().join(","),
                    s.waiters_live,
                    s.waiters_closed,
                    s.connecting as u8
                )
            })
            .collect();
        let woken: Vec<String> = flags
            .iter()
            .enumerate()
            .filter(|(_, f)| f.0.load(Ordering::SeqCst))
            .map(|(i, _)| i.to_string())
            .collect();
        out.push(format!("{} # {} ~ {}", evs.join(" "), snap.join(" "), woken.join(",")));
    }
    w.lock().unwrap().done = true;
    drop(futs);
    drop(svc);
    out.join(" | ")
}

fn main() {
    let mut o = out();
    if std::env::args().nth(1).as_deref() == Some("--uris") {
        // oracle O7: how the http crate decomposes the URI table
        let synth: Vec<String> = (0..400).map(|u| if u < URIS.len() { URIS[u].to_string() } else if u < 100 { String::new() } else { format!("http://o{u}.test") }).collect();
        for u in synth.iter().map(|s| s.as_str()) {
            if u.is_empty() {
                emit(&mut o, "- -");
                continue;
            }
            let uri: http::Uri = format!("{}/", u.split('|').next().unwrap()).parse().unwrap();
            emit(&mut o, &format!("{} {}", uri.scheme_str().unwrap_or("-"), uri.authority().map(|a| a.as_str()).unwrap_or("-")));
        }
        return;
    }
    for line in read_cases() {
        let l2 = line.clone();
        let res = catch(move || {
            let rt = tokio::runtime::Builder::new_current_thread().build().unwrap();
            let r = rt.block_on(tokio::task::unconstrained(run_case(l2)));
            drop(rt);
            r
        });
        match res {
            Ok(s) => emit(&mut o, &s),
            Err(m) => emit(&mut o, &format!("PANIC {}", m.replace('\n', " "))),
        }
    }
}
