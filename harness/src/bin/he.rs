//! C10/C11: drives the real EyeballSet (re-exported under verif-hooks) with scripted attempts
//! under tokio's paused clock.
//!
//! case line:  <delay|-> <timeout|-> <conc|-> <o:lat,o:lat,...|->     o in {S,F,N}; times in ms
//! output:     <OK i|ERR i|NOPROGRESS|TIMEOUT|HANG|PANIC msg>;<completion ms|->;<events>
//!             events = S<i>@<t> (first poll), D<i>@<t> (returned Ready), X<i>@<t> (dropped), comma separated
use std::cell::RefCell;
use std::future::Future;
use std::pin::Pin;
use std::rc::Rc;
use std::task::{Context, Poll};
use std::time::Duration;

use hd_harness::*;
use hyperdriver::verif_hooks::{EyeballSet, HappyEyeballsError};
use tokio::time::{Instant, Sleep};

#[derive(Clone, Copy, PartialEq)]
enum Out {
    S,
    F,
    N,
}

type Log = Rc<RefCell<Vec<String>>>;

struct Attempt {
    idx: usize,
    out: Out,
    lat: u64,
    base: Instant,
    log: Log,
    sleep: Option<Pin<Box<Sleep>>>,
    started: bool,
    done: bool,
}

impl Attempt {
    fn now(&self) -> u128 {
        (Instant::now() - self.base).as_millis()
    }
}

impl Future for Attempt {
    type Output = Result<usize, usize>;
    fn poll(mut self: Pin<&mut Self>, cx: &mut Context<'_>) -> Poll<Self::Output> {
        let this = &mut *self;
        if !this.started {
            this.started = true;
            this.log.borrow_mut().push(format!("S{}@{}", this.idx, this.now()));
            if this.out != Out::N && this.lat > 0 {
                this.sleep = Some(Box::pin(tokio::time::sleep(Duration::from_millis(this.lat))));
            }
        }
        if this.out == Out::N {
            return Poll::Pending;
        }
        if let Some(s) = this.sleep.as_mut() {
            if s.as_mut().poll(cx).is_pending() {
                return Poll::Pending;
            }
        }
        this.done = true;
        this.log.borrow_mut().push(format!("D{}@{}", this.idx, this.now()));
        Poll::Ready(if this.out == Out::S { Ok(this.idx) } else { Err(this.idx) })
    }
}

impl Drop for Attempt {
    fn drop(&mut self) {
        if !self.done {
            let t = self.now();
            self.log.borrow_mut().push(format!("X{}@{}", self.idx, t));
        }
    }
}

fn opt(s: &str) -> Option<u64> {
    if s == "-" {
        None
    } else {
        Some(s.parse().unwrap())
    }
}

fn run_case(line: &str) -> String {
    let f: Vec<&str> = line.split_whitespace().collect();
    let delay = opt(f[0]).map(Duration::from_millis);
    let timeout = opt(f[1]).map(Duration::from_millis);
    let conc = opt(f[2]).map(|c| c as usize);
    let atts: Vec<(Out, u64)> = if f[3] == "-" {
        vec![]
    } else {
        f[3].split(',')
            .map(|a| {
                let (o, l) = a.split_once(':').unwrap();
                (
                    match o {
                        "S" => Out::S,
                        "F" => Out::F,
                        _ => Out::N,
                    },
                    l.parse().unwrap(),
                )
            })
            .collect()
    };
    let rt = tokio::runtime::Builder::new_current_thread()
        .enable_time()
        .start_paused(true)
        .build()
        .unwrap();
    let log: Log = Rc::new(RefCell::new(Vec::new()));
    let log2 = log.clone();
    let (res, at) = rt.block_on(async move {
        let base = Instant::now();
        let mut set: EyeballSet<Attempt, usize, usize> = EyeballSet::new(delay, timeout, conc);
        for (idx, (out, lat)) in atts.into_iter().enumerate() {
            set.push(Attempt { idx, out, lat, base, log: log2.clone(), sleep: None, started: false, done: false });
        }
        let r = tokio::time::timeout(Duration::from_millis(100_000_000), set.finish()).await;
        let at = (Instant::now() - base).as_millis();
        drop(set);
        (r, at)
    });
    let evs = log.borrow().join(",");
    let evs = if evs.is_empty() { "-".to_string() } else { evs };
    match res {
        Err(_) => format!("HANG;-;{}", evs),
        Ok(Ok(i)) => format!("OK {};{};{}", i, at, evs),
        Ok(Err(HappyEyeballsError::Error(i))) => format!("ERR {};{};{}", i, at, evs),
        Ok(Err(HappyEyeballsError::NoProgress)) => format!("NOPROGRESS;{};{}", at, evs),
        Ok(Err(HappyEyeballsError::Timeout(_))) => format!("TIMEOUT;{};{}", at, evs),
        Ok(Err(_)) => format!("OTHER;{};{}", at, evs),
    }
}

fn main() {
    std::panic::set_hook(Box::new(|_| {}));
    let mut w = out();
    for line in read_cases() {
        let l = line.clone();
        match catch(move || run_case(&l)) {
            Ok(s) => emit(&mut w, &s),
            Err(m) => emit(&mut w, &format!("PANIC {};-;-", m.replace('\n', " ").replace(';', ","))),
        }
    }
}
