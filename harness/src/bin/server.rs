//! C07 / C09: drives the REAL `hyperdriver::server::Server` (plain and `with_graceful_shutdown`)
//! with scripted clients and prints the observable event log.
//!
//! case line: <mode g|p|k> <proto h1|h2|auto> <transport duplex|dtls|tcp|unix>[@<cap>] <ev> <ev> ...
//!   mode k = g, but the harness KEEPS the completed serving future alive until the end of the case (a caller
//!   that pins the future and goes on working); the listener inside it stays open, queued connects get no answer.
//!   @<cap>: DuplexIncoming::with_max_buf_size(cap) (duplex / dtls); a connect token may carry `:<n>`, the
//!   buffer size that client asks for (default 65536; `C0:0` = a raw client asking for a zero-capacity stream).
//!   Both are variation the model abstracts from: the observable behaviour must not depend on them.
//!   C0 raw silent client | C1 hyper h1 client | C2 hyper h2 client | C3 hyper h2 client whose
//!   writes are cut after 10 bytes (partial preface)      -- queue a connect (no settle)
//!   X  queue a connect, then go away before the server polls (cancelled connect)
//!   Cr / Cf (tcp, unix) a client completes the transport-level connect and is gone before the server
//!        accepts it: Cr resets (SO_LINGER 0 close; unix: plain close), Cf closes (FIN).  Blocking std
//!        connect + drop, synchronously, so the dead connection sits in the listen backlog; logged C<c> F<c>
//!   U  (unix) connect from a socket bound to a non-UTF-8 path (even client index) or to an abstract-namespace
//!      address (odd client index); behaves like C1
//!   L  lose the listener (drop every client handle; duplex only)   M  arm a make-service failure
//!   G  fire the shutdown signal (mode g)                  S  settle (run everything to quiescence)
//!   K<n> (mode g) arm: the make-service future resolves the shutdown signal while it admits the (n+1)-th
//!        connection from now, i.e. INSIDE the accept loop (logged as G at that moment)
//!   P<c> begin a request, head cut after 10 bytes (h1)    R<c> begin a request / complete the cut head
//!   T<c> advance the oldest unfinished request of c by one stage:
//!        body rest -> handler released (response head + first chunk) -> response finished
//!   Fd<c> disconnect   Fg<c> garbage bytes (raw client)   Fe<c> handler error (at the release stage)
//!   (P R T F settle before and after)
//! output: the event log, space separated:
//!   echo of the environment: C<c> X L M G B<c> (request begun) J<c> (environment did its last step) F<c>
//!   reactions: A<k> accept returned conn k | E accept error | Sp<k> driver spawned | T<k> graceful_shutdown
//!   called | D<k> driver finished | H<k> handler invoked | V<c> complete response received | W<c> request
//!   failed | K<c> client saw the close | N<c> connect refused | Z+ / Z- server future Ok / Err | Z! server future panicked | Q quiescent
//!   (K and W are for the reader; the Coq side does not use them)
//!
//! How it runs: one current-thread tokio runtime per case; the server future is one task, every
//! driver goes through a logging executor, every client is a task.  "Settle" = yield until the log has
//! not changed for 30 rounds (real sockets additionally sleep in short rounds so that Nagle / delayed
//! ACK cannot hold data back; no wall-clock value is ever observed).  Connects are queued synchronously
//! (the connect future is polled once by hand), so "queued but not yet accepted" is a scripted position.
//! Rules shared with the model (coq/server/Model.v): connection id = order of the connect events; P/R/T/F
//! on a client that does not exist / has gone / is closed are no-ops; HTTP/1 clients have one request at
//! a time; once the serving future of a graceful server has completed no new request is begun.
use std::collections::HashMap;
use std::future::Future;
use std::pin::Pin;
use std::sync::atomic::{AtomicBool, AtomicUsize, Ordering};
use std::sync::{Arc, Mutex};
use std::task::{Context, Poll, Waker};

use bytes::Bytes;
use hd_harness::*;
use http_body_util::BodyExt;
use hyperdriver::bridge::io::TokioIo;
use hyperdriver::bridge::rt::TokioExecutor;
use hyperdriver::server::conn::{Accept, Acceptor, Connection};
use hyperdriver::server::{Protocol, Server};
use hyperdriver::service::make_service_fn;
use rustls::pki_types::pem::PemObject;
use rustls::pki_types::{CertificateDer, PrivateKeyDer};
use tokio::io::{AsyncRead, AsyncReadExt, AsyncWrite, AsyncWriteExt, ReadBuf};
use tokio::sync::{mpsc, oneshot};

type BoxError = Box<dyn std::error::Error + Send + Sync + 'static>;
const FIX: &str = "/verif/fixtures/tls";

// ------------------------------------------------------------------------------------------ log
#[derive(Clone, Default)]
struct Log(Arc<Mutex<Vec<String>>>);
impl Log {
    fn put(&self, s: String) {
        self.0.lock().unwrap().push(s);
    }
    fn len(&self) -> usize {
        self.0.lock().unwrap().len()
    }
}

// ------------------------------------------------------------------------- channel-fed body
struct ChanBody(mpsc::UnboundedReceiver<Bytes>);
impl http_body::Body for ChanBody {
    type Data = Bytes;
    type Error = std::convert::Infallible;
    fn poll_frame(mut self: Pin<&mut Self>, cx: &mut Context<'_>) -> Poll<Option<Result<http_body::Frame<Bytes>, Self::Error>>> {
        self.0.poll_recv(cx).map(|o| o.map(|b| Ok(http_body::Frame::data(b))))
    }
}

// ------------------------------------------------------------- client-side write throttle
#[derive(Default)]
struct Gate {
    limit: AtomicUsize, // total number of bytes that may pass
    written: AtomicUsize,
    waker: Mutex<Option<Waker>>,
}
impl Gate {
    fn open(&self) {
        self.limit.store(usize::MAX, Ordering::SeqCst);
        if let Some(w) = self.waker.lock().unwrap().take() {
            w.wake();
        }
    }
    fn cut_after(&self, n: usize) {
        self.limit.store(self.written.load(Ordering::SeqCst) + n, Ordering::SeqCst);
    }
}
struct Throttle<T> {
    io: T,
    gate: Arc<Gate>,
}
impl<T: AsyncRead + Unpin> AsyncRead for Throttle<T> {
    fn poll_read(mut self: Pin<&mut Self>, cx: &mut Context<'_>, buf: &mut ReadBuf<'_>) -> Poll<std::io::Result<()>> {
        Pin::new(&mut self.io).poll_read(cx, buf)
    }
}
impl<T: AsyncWrite + Unpin> AsyncWrite for Throttle<T> {
    fn poll_write(mut self: Pin<&mut Self>, cx: &mut Context<'_>, buf: &[u8]) -> Poll<std::io::Result<usize>> {
        let room = self.gate.limit.load(Ordering::SeqCst).saturating_sub(self.gate.written.load(Ordering::SeqCst));
        if room == 0 && !buf.is_empty() {
            *self.gate.waker.lock().unwrap() = Some(cx.waker().clone());
            return Poll::Pending;
        }
        let n = room.min(buf.len());
        match Pin::new(&mut self.io).poll_write(cx, &buf[..n]) {
            Poll::Ready(Ok(k)) => {
                self.gate.written.fetch_add(k, Ordering::SeqCst);
                Poll::Ready(Ok(k))
            }
            other => other,
        }
    }
    fn poll_flush(mut self: Pin<&mut Self>, cx: &mut Context<'_>) -> Poll<std::io::Result<()>> {
        Pin::new(&mut self.io).poll_flush(cx)
    }
    fn poll_shutdown(mut self: Pin<&mut Self>, cx: &mut Context<'_>) -> Poll<std::io::Result<()>> {
        Pin::new(&mut self.io).poll_shutdown(cx)
    }
}

trait Io: AsyncRead + AsyncWrite + Unpin + Send {}
impl<T: AsyncRead + AsyncWrite + Unpin + Send> Io for T {}
type BoxIo = Box<dyn Io>;

// ------------------------------------------------------------------- server-side wrappers
/// Acceptor wrapper: logs every result handed to the accept loop.
struct LogAccept<A> {
    inner: A,
    log: Log,
    n: usize,
}
impl<A: Accept + Unpin> Accept for LogAccept<A> {
    type Conn = A::Conn;
    type Error = A::Error;
    fn poll_accept(mut self: Pin<&mut Self>, cx: &mut Context<'_>) -> Poll<Result<Self::Conn, Self::Error>> {
        match Pin::new(&mut self.inner).poll_accept(cx) {
            Poll::Pending => Poll::Pending,
            Poll::Ready(Ok(c)) => {
                let k = self.n;
                self.n += 1;
                self.log.put(format!("A{k}"));
                Poll::Ready(Ok(c))
            }
            Poll::Ready(Err(e)) => {
                self.log.put("E".into());
                Poll::Ready(Err(e))
            }
        }
    }
}

/// Protocol wrapper: logs `graceful_shutdown` calls on each connection.
#[derive(Clone)]
struct LogProto<P> {
    inner: P,
    log: Log,
    n: Arc<AtomicUsize>,
}
#[pin_project::pin_project]
struct LogConn<C> {
    #[pin]
    inner: C,
    log: Log,
    k: usize,
}
impl<C: Future> Future for LogConn<C> {
    type Output = C::Output;
    fn poll(self: Pin<&mut Self>, cx: &mut Context<'_>) -> Poll<Self::Output> {
        self.project().inner.poll(cx)
    }
}
impl<C: Connection> Connection for LogConn<C> {
    fn graceful_shutdown(self: Pin<&mut Self>) {
        let this = self.project();
        this.log.put(format!("T{}", this.k));
        this.inner.graceful_shutdown()
    }
}
impl<P, S, IO, B> Protocol<S, IO, B> for LogProto<P>
where
    P: Protocol<S, IO, B>,
{
    type ResponseBody = P::ResponseBody;
    type Error = P::Error;
    type Connection = LogConn<P::Connection>;
    fn serve_connection_with_upgrades(&self, stream: IO, service: S) -> Self::Connection {
        let k = self.n.fetch_add(1, Ordering::SeqCst);
        LogConn { inner: self.inner.serve_connection_with_upgrades(stream, service), log: self.log.clone(), k }
    }
}

/// Executor wrapper: counts spawned and finished connection drivers.
#[derive(Clone)]
struct LogExec {
    log: Log,
    n: Arc<AtomicUsize>,
}
impl<F> hyper::rt::Executor<F> for LogExec
where
    F: Future + Send + 'static,
    F::Output: Send + 'static,
{
    fn execute(&self, fut: F) {
        let k = self.n.fetch_add(1, Ordering::SeqCst);
        self.log.put(format!("Sp{k}"));
        let log = self.log.clone();
        tokio::spawn(async move {
            let _ = fut.await;
            log.put(format!("D{k}"));
        });
    }
}

// ------------------------------------------------------------------------------- handler
struct HandlerGate {
    release: Option<oneshot::Sender<bool>>, // true = proceed, false = handler error
    finish: Option<mpsc::UnboundedSender<Bytes>>,
}
type Gates = Arc<Mutex<HashMap<(usize, usize), HandlerGate>>>;

const REQ_BODY: usize = 8;
const RESP_BODY: usize = 10;

async fn handle(
    k: usize,
    r: usize,
    gates: Gates,
    log: Log,
    req: http::Request<hyperdriver::Body>,
) -> Result<http::Response<ChanBody>, BoxError> {
    log.put(format!("H{k}"));
    let (rel_tx, rel_rx) = oneshot::channel();
    let (body_tx, body_rx) = mpsc::unbounded_channel();
    gates.lock().unwrap().insert((k, r), HandlerGate { release: Some(rel_tx), finish: Some(body_tx.clone()) });
    let data = req.into_body().collect().await?.to_bytes();
    if data.len() != REQ_BODY {
        return Err("short request body".into());
    }
    match rel_rx.await {
        Ok(true) => {}
        _ => return Err("scripted handler error".into()),
    }
    let _ = body_tx.send(Bytes::from_static(b"hello"));
    drop(body_tx);
    Ok(http::Response::new(ChanBody(body_rx)))
}

// ------------------------------------------------------------------------------- clients
enum Sender {
    H1(hyper::client::conn::http1::SendRequest<ChanBody>),
    H2(hyper::client::conn::http2::SendRequest<ChanBody>),
}
#[derive(Default)]
struct Shared {
    raw: Option<tokio::io::WriteHalf<BoxIo>>,
    sender: Option<Sender>,
    closed: bool,
    tasks: Vec<tokio::task::AbortHandle>,
}
struct Req {
    stage: u8, // 0 head cut, 1 head sent, 2 body sent, 3 handler released, 4 finished
    body: Option<mpsc::UnboundedSender<Bytes>>,
}
struct Client {
    kind: u8,
    gate: Arc<Gate>,
    sh: Arc<Mutex<Shared>>,
    reqs: Vec<Req>,
    gone: bool,
}

enum Dial {
    Duplex(Option<hyperdriver::stream::duplex::DuplexClient>),
    Tcp(std::net::SocketAddr),
    Unix(std::path::PathBuf),
}

fn poll_once<F: Future + ?Sized>(f: Pin<&mut F>) -> Poll<F::Output> {
    let w = futures_util::task::noop_waker();
    f.poll(&mut Context::from_waker(&w))
}

fn tls_client_config() -> Arc<rustls::ClientConfig> {
    let mut roots = rustls::RootCertStore::empty();
    roots.add(CertificateDer::from_pem_file(format!("{FIX}/ca.pem")).unwrap()).unwrap();
    Arc::new(rustls::ClientConfig::builder().with_root_certificates(roots).with_no_client_auth())
}
fn tls_server_config() -> Arc<rustls::ServerConfig> {
    let cert = CertificateDer::from_pem_file(format!("{FIX}/good.pem")).unwrap();
    let key = PrivateKeyDer::from_pem_file(format!("{FIX}/good.key")).unwrap();
    Arc::new(rustls::ServerConfig::builder().with_no_client_auth().with_single_cert(vec![cert], key).unwrap())
}

/// What a client does once its transport-level connect has succeeded.
async fn client_main(c: usize, kind: u8, tls: bool, stream: BoxIo, gate: Arc<Gate>, sh: Arc<Mutex<Shared>>, log: Log) {
    let closed = |sh: &Arc<Mutex<Shared>>, log: &Log| {
        let mut s = sh.lock().unwrap();
        if !s.closed {
            s.closed = true;
            log.put(format!("K{c}"));
        }
    };
    if kind == 0 {
        let (mut rd, wr) = tokio::io::split(stream);
        sh.lock().unwrap().raw = Some(wr);
        let mut buf = [0u8; 256];
        loop {
            match rd.read(&mut buf).await {
                Ok(0) | Err(_) => break,
                Ok(_) => {}
            }
        }
        closed(&sh, &log);
        return;
    }
    let stream: BoxIo = if tls {
        let name = rustls::pki_types::ServerName::try_from("localhost").unwrap();
        match tokio_rustls::TlsConnector::from(tls_client_config()).connect(name, stream).await {
            Ok(s) => Box::new(s),
            Err(_) => {
                closed(&sh, &log);
                return;
            }
        }
    } else {
        stream
    };
    let io = TokioIo::new(Throttle { io: stream, gate });
    if kind == 1 {
        match hyper::client::conn::http1::handshake::<_, ChanBody>(io).await {
            Ok((sender, conn)) => {
                sh.lock().unwrap().sender = Some(Sender::H1(sender));
                let _ = conn.await;
            }
            Err(_) => {}
        }
    } else {
        match hyper::client::conn::http2::Builder::new(TokioExecutor::new()).handshake::<_, ChanBody>(io).await {
            Ok((sender, conn)) => {
                sh.lock().unwrap().sender = Some(Sender::H2(sender));
                let _ = conn.await;
            }
            Err(_) => {}
        }
    }
    closed(&sh, &log);
}

struct World {
    log: Log,
    /// (sleep per round in ms, quiet rounds needed) for real sockets, (0, 0) in memory
    sockets: (u64, usize),
    tls: bool,
    dial: Dial,
    clients: Vec<Client>,
    gates: Gates,
    /// graceful mode and the serving future has completed: no new requests are begun
    stop: Arc<AtomicBool>,
}

impl World {
    async fn settle(&self) {
        // real sockets: give the kernel and the reactor time (Nagle / delayed ACK on TCP); the log
        // must have been unchanged for `need` sleeping rounds.  Wall-clock is never observed.
        if self.sockets.0 > 0 {
            let (ms, need) = self.sockets;
            let mut last = self.log.len();
            let mut stable = 0;
            let mut rounds = 0;
            while stable < need && rounds < 400 {
                for _ in 0..20 {
                    tokio::task::yield_now().await;
                }
                tokio::time::sleep(std::time::Duration::from_millis(ms)).await;
                rounds += 1;
                let n = self.log.len();
                if n == last {
                    stable += 1;
                } else {
                    stable = 0;
                    last = n;
                }
            }
        }
        // at least 60 rounds, and the log must have been unchanged for the last 30 of them
        let mut stable = 0;
        let mut last = self.log.len();
        let mut rounds = 0;
        while rounds < 60 || stable < 30 {
            tokio::task::yield_now().await;
            rounds += 1;
            let n = self.log.len();
            if n == last {
                stable += 1;
            } else {
                stable = 0;
                last = n;
            }
            if rounds > 5000 {
                break;
            }
        }
    }

    /// a client that connects at transport level and is gone (reset / closed) before the server accepts
    fn connect_dead(&mut self, reset: bool) {
        let c = self.clients.len();
        match &self.dial {
            Dial::Tcp(addr) => {
                if let Ok(s) = std::net::TcpStream::connect(addr) {
                    if reset {
                        let _ = socket2::SockRef::from(&s).set_linger(Some(std::time::Duration::ZERO));
                    }
                    drop(s);
                }
                // loopback delivers the RST / FIN in-line; give the kernel a moment anyway
                std::thread::sleep(std::time::Duration::from_millis(2));
            }
            Dial::Unix(path) => {
                if let Ok(s) = std::os::unix::net::UnixStream::connect(path) {
                    drop(s);
                }
            }
            Dial::Duplex(_) => return, // not scripted on the in-memory transport (that is X)
        }
        self.log.put(format!("C{c}"));
        self.log.put(format!("F{c}"));
        let sh = Arc::new(Mutex::new(Shared::default()));
        sh.lock().unwrap().closed = true;
        self.clients.push(Client { kind: 0, gate: Arc::new(Gate::default()), sh, reqs: Vec::new(), gone: true });
    }

    fn connect(&mut self, kind: u8, cancel: bool, odd_path: bool, buf: usize) {
        let c = self.clients.len();
        let fut: Pin<Box<dyn Future<Output = std::io::Result<BoxIo>> + Send>> = match &self.dial {
            Dial::Duplex(Some(cl)) => {
                let cl = cl.clone();
                Box::pin(async move { cl.connect(buf).await.map(|s| Box::new(s) as BoxIo) })
            }
            Dial::Duplex(None) => Box::pin(async { Err(std::io::ErrorKind::ConnectionReset.into()) }),
            Dial::Tcp(addr) => {
                let addr = *addr;
                Box::pin(async move { tokio::net::TcpStream::connect(addr).await.map(|s| Box::new(s) as BoxIo) })
            }
            Dial::Unix(path) => {
                let path = path.clone();
                let n = c;
                Box::pin(async move {
                    if odd_path && n % 2 == 1 {
                        // a client bound to a Linux abstract-namespace address ("\0name"): no pathname at all
                        let sock = tokio::net::UnixSocket::new_stream()?;
                        sock.bind(format!("\0hd-verif-{}-{}", std::process::id(), n))?;
                        sock.connect(&path).await.map(|s| Box::new(s) as BoxIo)
                    } else if odd_path {
                        use std::os::unix::ffi::OsStrExt;
                        let mut name = b"cl\xff".to_vec();
                        name.extend_from_slice(format!("{n}.sock").as_bytes());
                        let p = path.parent().unwrap().join(std::ffi::OsStr::from_bytes(&name));
                        let sock = tokio::net::UnixSocket::new_stream()?;
                        sock.bind(&p)?;
                        sock.connect(&path).await.map(|s| Box::new(s) as BoxIo)
                    } else {
                        tokio::net::UnixStream::connect(&path).await.map(|s| Box::new(s) as BoxIo)
                    }
                })
            }
        };
        let mut fut = fut;
        // queue the connect request now, before anybody else runs
        let first = poll_once(fut.as_mut());
        if cancel {
            self.log.put("X".into());
            drop(fut);
            return;
        }
        self.log.put(format!("C{c}"));
        let gate = Arc::new(Gate::default());
        gate.limit.store(if kind == 3 { 10 } else { usize::MAX }, Ordering::SeqCst);
        let sh = Arc::new(Mutex::new(Shared::default()));
        let (log, g2, s2, tls) = (self.log.clone(), gate.clone(), sh.clone(), self.tls);
        let h = tokio::spawn(async move {
            let res = match first {
                Poll::Ready(r) => r,
                Poll::Pending => fut.await,
            };
            match res {
                Ok(stream) => client_main(c, kind, tls, stream, g2, s2, log).await,
                Err(_) => {
                    s2.lock().unwrap().closed = true;
                    log.put(format!("N{c}"));
                }
            }
        });
        sh.lock().unwrap().tasks.push(h.abort_handle());
        self.clients.push(Client { kind, gate, sh, reqs: Vec::new(), gone: false });
    }

    fn usable(&self, c: usize) -> bool {
        match self.clients.get(c) {
            Some(cl) => !cl.gone && cl.kind != 0 && {
                let s = cl.sh.lock().unwrap();
                !s.closed && s.sender.is_some()
            },
            None => false,
        }
    }

    /// hand a new request to the hyper client of `c`
    fn start_request(&mut self, c: usize, cut: bool) {
        let log = self.log.clone();
        let cl = &mut self.clients[c];
        if cut {
            cl.gate.cut_after(10);
        }
        let (tx, rx) = mpsc::unbounded_channel();
        let _ = tx.send(Bytes::from_static(b"abcd"));
        let req = http::Request::builder()
            .method("POST")
            .uri("http://localhost/x")
            .header("host", "localhost")
            .body(ChanBody(rx))
            .unwrap();
        let mut sh = cl.sh.lock().unwrap();
        let fut: Pin<Box<dyn Future<Output = hyper::Result<http::Response<hyper::body::Incoming>>> + Send>> =
            match sh.sender.as_mut().unwrap() {
                Sender::H1(s) => Box::pin(s.send_request(req)),
                Sender::H2(s) => Box::pin(s.send_request(req)),
            };
        log.put(format!("B{c}"));
        let h = tokio::spawn(async move {
            let ok = match fut.await {
                Ok(resp) => match resp.into_body().collect().await {
                    Ok(b) => b.to_bytes().len() == RESP_BODY,
                    Err(_) => false,
                },
                Err(_) => false,
            };
            log.put(format!("{}{c}", if ok { "V" } else { "W" }));
        });
        sh.tasks.push(h.abort_handle());
        drop(sh);
        cl.reqs.push(Req { stage: if cut { 0 } else { 1 }, body: Some(tx) });
    }

    fn unfinished(&self, c: usize) -> Option<usize> {
        self.clients.get(c).and_then(|cl| cl.reqs.iter().position(|r| r.stage < 4))
    }

    async fn event(&mut self, tok: &str) {
        let num = |s: &str| s.parse::<usize>().unwrap_or(usize::MAX);
        match tok {
            _ if tok.len() >= 2 && tok.starts_with('C') && matches!(tok.as_bytes()[1], b'0'..=b'3') && (tok.len() == 2 || tok.as_bytes()[2] == b':') => {
                let buf = if tok.len() > 3 { tok[3..].parse::<usize>().unwrap_or(1 << 16) } else { 1 << 16 };
                self.connect(tok.as_bytes()[1] - b'0', false, false, buf)
            }
            "Cr" => self.connect_dead(true),
            "Cf" => self.connect_dead(false),
            "U" => self.connect(1, false, true, 1 << 16),
            "X" => self.connect(1, true, false, 1 << 16),
            "L" => {
                if let Dial::Duplex(cl) = &mut self.dial {
                    if cl.take().is_some() {
                        self.log.put("L".into());
                    }
                }
            }
            "S" => {
                self.settle().await;
                self.log.put("Q".into());
            }
            _ if tok.starts_with('P') => {
                let c = num(&tok[1..]);
                self.settle().await;
                if self.usable(c) && self.clients[c].kind == 1 && self.unfinished(c).is_none() && !self.stop.load(Ordering::SeqCst) {
                    self.start_request(c, true);
                }
                self.settle().await;
                self.log.put("Q".into());
            }
            _ if tok.starts_with('R') => {
                let c = num(&tok[1..]);
                self.settle().await;
                if c < self.clients.len() && !self.clients[c].gone {
                    if self.clients[c].kind == 3 {
                        self.clients[c].gate.open();
                        self.settle().await;
                    }
                    let cut = self.clients[c].reqs.iter().position(|r| r.stage == 0);
                    if let Some(i) = cut {
                        self.clients[c].gate.open();
                        self.clients[c].reqs[i].stage = 1;
                    } else if self.usable(c)
                        && !self.stop.load(Ordering::SeqCst)
                        && (self.clients[c].kind != 1 || self.unfinished(c).is_none())
                    {
                        self.start_request(c, false);
                    }
                }
                self.settle().await;
                self.log.put("Q".into());
            }
            _ if tok.starts_with('T') => {
                let c = num(&tok[1..]);
                self.settle().await;
                if let Some(i) = self.unfinished(c) {
                    if !self.clients[c].gone {
                        let stage = self.clients[c].reqs[i].stage;
                        match stage {
                            1 => {
                                if let Some(tx) = self.clients[c].reqs[i].body.take() {
                                    let _ = tx.send(Bytes::from_static(b"efgh"));
                                }
                                self.clients[c].reqs[i].stage = 2;
                            }
                            2 => {
                                let mut g = self.gates.lock().unwrap();
                                if let Some(tx) = g.get_mut(&(c, i)).and_then(|h| h.release.take()) {
                                    let _ = tx.send(true);
                                    self.clients[c].reqs[i].stage = 3;
                                }
                            }
                            3 => {
                                let mut g = self.gates.lock().unwrap();
                                if let Some(tx) = g.get_mut(&(c, i)).and_then(|h| h.finish.take()) {
                                    let _ = tx.send(Bytes::from_static(b"world"));
                                }
                                self.clients[c].reqs[i].stage = 4;
                                self.log.put(format!("J{c}"));
                            }
                            _ => {}
                        }
                    }
                }
                self.settle().await;
                self.log.put("Q".into());
            }
            _ if tok.starts_with("Fd") => {
                let c = num(&tok[2..]);
                self.settle().await;
                if c < self.clients.len() && !self.clients[c].gone {
                    self.log.put(format!("F{c}"));
                    let cl = &mut self.clients[c];
                    cl.gone = true;
                    cl.reqs.clear();
                    let mut s = cl.sh.lock().unwrap();
                    s.closed = true;
                    s.raw = None;
                    s.sender = None;
                    for t in s.tasks.drain(..) {
                        t.abort();
                    }
                }
                self.settle().await;
                self.log.put("Q".into());
            }
            _ if tok.starts_with("Fg") => {
                let c = num(&tok[2..]);
                self.settle().await;
                if c < self.clients.len() && !self.clients[c].gone && self.clients[c].kind == 0 {
                    let raw = {
                        let mut s = self.clients[c].sh.lock().unwrap();
                        if s.closed {
                            None
                        } else {
                            s.raw.take()
                        }
                    };
                    if let Some(mut wr) = raw {
                        self.log.put(format!("F{c}"));
                        let _ = wr.write_all(b"\x00\x01garbage \xff\xfe not a protocol\r\n\r\n\x16\x03\x09").await;
                        let _ = wr.flush().await;
                        self.clients[c].sh.lock().unwrap().raw = Some(wr);
                    }
                }
                self.settle().await;
                self.log.put("Q".into());
            }
            _ if tok.starts_with("Fe") => {
                let c = num(&tok[2..]);
                self.settle().await;
                if let Some(i) = self.unfinished(c) {
                    if !self.clients[c].gone && self.clients[c].reqs[i].stage == 2 {
                        let tx = self.gates.lock().unwrap().get_mut(&(c, i)).and_then(|h| h.release.take());
                        if let Some(tx) = tx {
                            self.log.put(format!("F{c}"));
                            let _ = tx.send(false);
                            self.clients[c].reqs[i].stage = 4;
                        }
                    }
                }
                self.settle().await;
                self.log.put("Q".into());
            }
            _ => {}
        }
    }
}

async fn run_case(line: String) -> String {
    let f: Vec<&str> = line.split_whitespace().collect();
    if f.len() < 3 {
        return "BADCASE".into();
    }
    let (graceful, keep, proto) = (f[0] == "g" || f[0] == "k", f[0] == "k", f[1]);
    let (transport, cap) = match f[2].split_once('@') {
        Some((t, c)) => (t, c.parse::<usize>().ok()),
        None => (f[2], None),
    };
    let log = Log::default();
    let gates: Gates = Default::default();
    let armed = Arc::new(AtomicBool::new(false));
    let mut tmpdir: Option<std::path::PathBuf> = None;

    let (dial, acceptor) = match transport {
        "tcp" => {
            let l = tokio::net::TcpListener::bind("127.0.0.1:0").await.unwrap();
            (Dial::Tcp(l.local_addr().unwrap()), Acceptor::from(l))
        }
        "unix" => {
            static N: AtomicUsize = AtomicUsize::new(0);
            let dir = std::env::temp_dir().join(format!("hd-server-{}-{}", std::process::id(), N.fetch_add(1, Ordering::SeqCst)));
            std::fs::create_dir_all(&dir).unwrap();
            let p = dir.join("s.sock");
            let l = tokio::net::UnixListener::bind(&p).unwrap();
            tmpdir = Some(dir);
            (Dial::Unix(p), Acceptor::from(l))
        }
        _ => {
            let (client, incoming) = hyperdriver::stream::duplex::pair();
            let incoming = match cap {
                Some(n) => incoming.with_max_buf_size(n),
                None => incoming,
            };
            (Dial::Duplex(Some(client)), Acceptor::from(incoming))
        }
    };
    let tls = transport == "dtls";
    let acceptor = if tls { acceptor.with_tls(tls_server_config()) } else { acceptor };
    let acceptor = LogAccept { inner: acceptor, log: log.clone(), n: 0 };

    let (sig_tx, sig_rx) = oneshot::channel::<()>();
    let sig_tx = Arc::new(Mutex::new(Some(sig_tx)));
    // Some(n): the make-service resolves the signal after admitting n more connections
    let sigarm: Arc<Mutex<Option<usize>>> = Default::default();
    let (mk_n, mk_gates, mk_armed, mk_log) = (Arc::new(AtomicUsize::new(0)), gates.clone(), armed.clone(), log.clone());
    let (mk_sig, mk_arm) = (sig_tx.clone(), sigarm.clone());
    let make = make_service_fn(move |_: &<Acceptor as Accept>::Conn| {
        let k = mk_n.fetch_add(1, Ordering::SeqCst);
        let fail = mk_armed.swap(false, Ordering::SeqCst);
        let gates = mk_gates.clone();
        let hlog = mk_log.clone();
        let (sig, arm) = (mk_sig.clone(), mk_arm.clone());
        async move {
            if fail {
                return Err::<_, std::io::Error>(std::io::Error::new(std::io::ErrorKind::Other, "scripted make-service failure"));
            }
            // State::Making: this future is polled by poll_once; resolving the signal here resolves it
            // inside the accept loop, before the connection is spawned
            let fire = {
                let mut a = arm.lock().unwrap();
                match *a {
                    Some(0) => {
                        *a = None;
                        true
                    }
                    Some(n) => {
                        *a = Some(n - 1);
                        false
                    }
                    None => false,
                }
            };
            if fire {
                if let Some(tx) = sig.lock().unwrap().take() {
                    hlog.put("G".into());
                    let _ = tx.send(());
                }
            }
            let r = Arc::new(AtomicUsize::new(0));
            Ok(tower::service_fn(move |req: http::Request<hyperdriver::Body>| {
                handle(k, r.fetch_add(1, Ordering::SeqCst), gates.clone(), hlog.clone(), req)
            }))
        }
    });
    let exec = LogExec { log: log.clone(), n: Arc::new(AtomicUsize::new(0)) };
    let slog = log.clone();
    let stop = Arc::new(AtomicBool::new(false));
    let stop2 = stop.clone();
    macro_rules! launch {
        ($p:expr) => {{
            let server = Server::builder::<hyperdriver::Body>()
                .with_acceptor(acceptor)
                .with_protocol(LogProto { inner: $p, log: log.clone(), n: Arc::new(AtomicUsize::new(0)) })
                .with_make_service(make)
                .with_executor(exec);
            if graceful {
                let fut = server.with_graceful_shutdown(async move {
                    let _ = sig_rx.await;
                });
                tokio::spawn(async move {
                    let mut fut = Box::pin(fut);
                    let r = futures_util::FutureExt::catch_unwind(std::panic::AssertUnwindSafe(fut.as_mut())).await;
                    stop2.store(true, Ordering::SeqCst);
                    slog.put(match r {
                        Ok(Ok(())) => "Z+".into(),
                        Ok(Err(_)) => "Z-".into(),
                        Err(_) => "Z!".into(),
                    });
                    if keep {
                        // the caller goes on with other work while the completed future is still alive
                        std::future::pending::<()>().await;
                    }
                    drop(fut);
                })
            } else {
                drop(sig_rx);
                let fut = std::future::IntoFuture::into_future(server);
                tokio::spawn(async move {
                    let r = futures_util::FutureExt::catch_unwind(std::panic::AssertUnwindSafe(fut)).await;
                    slog.put(match r {
                        Ok(Ok(())) => "Z+".into(),
                        Ok(Err(_)) => "Z-".into(),
                        Err(_) => "Z!".into(),
                    });
                })
            }
        }};
    }
    let server_task = match proto {
        "h1" => launch!(hyperdriver::server::conn::http1::Builder::new()),
        "h2" => launch!(hyperdriver::server::conn::http2::Builder::new(TokioExecutor::new())),
        _ => launch!(hyperdriver::server::conn::auto::Builder::default()),
    };

    let mut w = World { log: log.clone(), sockets: match transport { "tcp" => (10, 12), "unix" => (2, 5), _ => (0, 0) }, tls, dial, clients: Vec::new(), gates, stop };
    for tok in &f[3..] {
        match *tok {
            "G" => {
                if graceful {
                    if let Some(tx) = sig_tx.lock().unwrap().take() {
                        log.put("G".into());
                        let _ = tx.send(());
                    }
                }
            }
            t if t.starts_with('K') => {
                if graceful {
                    *sigarm.lock().unwrap() = Some(t[1..].parse::<usize>().unwrap_or(0));
                }
            }
            "M" => {
                armed.store(true, Ordering::SeqCst);
                log.put("M".into());
            }
            t => w.event(t).await,
        }
    }
    server_task.abort();
    drop(w);
    drop(sig_tx);
    if let Some(d) = tmpdir {
        let _ = std::fs::remove_dir_all(d);
    }
    let out = log.0.lock().unwrap().join(" ");
    out
}

fn main() {
    std::panic::set_hook(Box::new(|_| {}));
    let mut w = out();
    for line in read_cases() {
        let res = catch(std::panic::AssertUnwindSafe(|| {
            let rt = tokio::runtime::Builder::new_current_thread().enable_all().build().unwrap();
            let out = rt.block_on(run_case(line.clone()));
            rt.shutdown_timeout(std::time::Duration::from_millis(100));
            out
        }));
        match res {
            Ok(s) => emit(&mut w, &s),
            Err(m) => emit(&mut w, &format!("PANIC {}", m.replace('\n', " "))),
        }
    }
}
