//! C12: drives TlsTransport<DuplexTransport> against a recording peer.
//!
//! case line: <tls yes|no> <uri> <cert good|wrongname|untrusted> <salpn none|h2|h11> <calpn none|h2> <fault none|close|plaintext|truncate|transport> [<Host header value|->] [<method, default GET>]
//! output:    <OKTLS|OKPLAIN|ERRCONN|ERRHS|ERRNODOMAIN|ERROTHER|PANIC> <first bytes at peer: tls|ascii|nothing> <marker seen in clear 0|1> <sni seen by server|-> <client alpn h2|h11|none|-> ;; <uri scheme|-> <uri host|->
use std::pin::Pin;
use std::sync::{Arc, Mutex};
use std::task::{Context, Poll};
use std::time::Duration;

use hd_harness::*;
use hyperdriver::client::conn::transport::duplex::DuplexTransport;
use hyperdriver::client::conn::transport::{TlsConnectionError, TlsTransport};
use hyperdriver::info::HasTlsConnectionInfo;
use hyperdriver::server::conn::AcceptExt;
use hyperdriver::stream::tls::TlsHandshakeStream;
use hyperdriver::IntoRequestParts;
use rustls::pki_types::pem::PemObject;
use rustls::pki_types::{CertificateDer, PrivateKeyDer};
use tokio::io::{AsyncRead, AsyncReadExt, AsyncWrite, AsyncWriteExt, ReadBuf};
use tower::Service;

const FIX: &str = "/verif/fixtures/tls";
const MARKER: &[u8] = b"PLAINTEXT-MARKER-0123456789";

struct Recorder<IO> {
    io: IO,
    seen: Arc<Mutex<Vec<u8>>>,
}
impl<IO: AsyncRead + Unpin> AsyncRead for Recorder<IO> {
    fn poll_read(mut self: Pin<&mut Self>, cx: &mut Context<'_>, buf: &mut ReadBuf<'_>) -> Poll<std::io::Result<()>> {
        let before = buf.filled().len();
        let r = Pin::new(&mut self.io).poll_read(cx, buf);
        if let Poll::Ready(Ok(())) = r {
            self.seen.lock().unwrap().extend_from_slice(&buf.filled()[before..]);
        }
        r
    }
}
impl<IO: AsyncWrite + Unpin> AsyncWrite for Recorder<IO> {
    fn poll_write(mut self: Pin<&mut Self>, cx: &mut Context<'_>, buf: &[u8]) -> Poll<std::io::Result<usize>> {
        Pin::new(&mut self.io).poll_write(cx, buf)
    }
    fn poll_flush(mut self: Pin<&mut Self>, cx: &mut Context<'_>) -> Poll<std::io::Result<()>> {
        Pin::new(&mut self.io).poll_flush(cx)
    }
    fn poll_shutdown(mut self: Pin<&mut Self>, cx: &mut Context<'_>) -> Poll<std::io::Result<()>> {
        Pin::new(&mut self.io).poll_shutdown(cx)
    }
}

fn load_cert(name: &str) -> (Vec<CertificateDer<'static>>, PrivateKeyDer<'static>) {
    let cert = CertificateDer::from_pem_file(format!("{FIX}/{name}.pem")).unwrap();
    let key = PrivateKeyDer::from_pem_file(format!("{FIX}/{name}.key")).unwrap();
    (vec![cert], key)
}

fn server_config(cert: &str, alpn: &str) -> rustls::ServerConfig {
    let (c, k) = load_cert(cert);
    let mut cfg = rustls::ServerConfig::builder().with_no_client_auth().with_single_cert(c, k).unwrap();
    match alpn {
        "h2" => cfg.alpn_protocols = vec![b"h2".to_vec(), b"http/1.1".to_vec()],
        "h11" => cfg.alpn_protocols = vec![b"http/1.1".to_vec()],
        _ => {}
    }
    cfg
}

fn client_config(alpn: &str) -> rustls::ClientConfig {
    let mut roots = rustls::RootCertStore::empty();
    roots.add(CertificateDer::from_pem_file(format!("{FIX}/ca.pem")).unwrap()).unwrap();
    let mut cfg = rustls::ClientConfig::builder().with_root_certificates(roots).with_no_client_auth();
    if alpn == "h2" {
        cfg.alpn_protocols = vec![b"h2".to_vec(), b"http/1.1".to_vec()];
    }
    cfg
}

async fn run(f: Vec<String>) -> String {
    let tls_on = f[0] == "yes";
    let mut parts = match f[1].parse::<http::Uri>() {
        Ok(u) => u.into_request_parts(),
        Err(_) => return "BADURI nothing 0 - - ;; - - -".into(),
    };
    if let Some(m) = f.get(7) {
        parts.method = http::Method::from_bytes(m.as_bytes()).unwrap_or(http::Method::GET);
    }
    // the request parts handed to the transport may already carry a Host header (set by the caller);
    // the server name must come from the URI all the same
    if let Some(h) = f.get(6).filter(|h| h.as_str() != "-") {
        if let Ok(v) = http::HeaderValue::from_str(h) {
            parts.headers.insert(http::header::HOST, v);
        }
    }
    let kind = match parts.uri.host() {
        None => "-",
        Some(h) => match rustls::pki_types::ServerName::try_from(h.trim_start_matches('[').trim_end_matches(']')) {
            Ok(rustls::pki_types::ServerName::DnsName(_)) => "dns",
            Ok(_) => "ip",
            Err(_) => "invalid",
        },
    };
    let dec = format!(
        "{} {} {}",
        parts.uri.scheme_str().unwrap_or("-"),
        parts.uri.host().unwrap_or("-"),
        kind
    );
    let (client, incoming) = hyperdriver::stream::duplex::pair();
    let transport = DuplexTransport::new(1 << 16, client);
    let mut transport = TlsTransport::new(transport);
    if tls_on {
        transport = transport.with_tls(Arc::new(client_config(&f[4])));
    }
    let seen = Arc::new(Mutex::new(Vec::new()));
    let sni: Arc<Mutex<Option<String>>> = Arc::new(Mutex::new(None));
    let (cert, salpn, fault) = (f[2].clone(), f[3].clone(), f[5].clone());
    let (seen2, sni2) = (seen.clone(), sni.clone());
    let server = tokio::spawn(async move {
        if fault == "transport" {
            drop(incoming); // the transport connect fails
            return;
        }
        let Ok(io) = incoming.accept().await else { return };
        let mut rec = Recorder { io, seen: seen2 };
        match fault.as_str() {
            "close" => {
                let mut b = [0u8; 4096];
                let _ = tokio::time::timeout(Duration::from_millis(100), rec.read(&mut b)).await;
                drop(rec);
            }
            "plaintext" => {
                let _ = rec.write_all(b"HTTP/1.1 400 Bad Request\r\n\r\n").await;
                let mut b = vec![0u8; 4096];
                loop {
                    match tokio::time::timeout(Duration::from_millis(150), rec.read(&mut b)).await {
                        Ok(Ok(n)) if n > 0 => {}
                        _ => break,
                    }
                }
            }
            "truncate" => {
                let mut b = vec![0u8; 4096];
                let _ = tokio::time::timeout(Duration::from_millis(100), rec.read(&mut b)).await;
                // first half of a TLS record header for a ServerHello, then close
                let _ = rec.write_all(&[0x16, 0x03, 0x03, 0x00, 0x7a, 0x02, 0x00]).await;
                drop(rec);
            }
            _ => {
                // try TLS if the first byte looks like a handshake record, else read plaintext
                let mut first = [0u8; 1];
                let n = match tokio::time::timeout(Duration::from_millis(300), rec.io.read(&mut first)).await {
                    Ok(Ok(n)) => n,
                    _ => 0,
                };
                if n == 0 {
                    return;
                }
                rec.seen.lock().unwrap().push(first[0]);
                if first[0] == 0x16 {
                    let acceptor = tokio_rustls::LazyConfigAcceptor::new(
                        rustls::server::Acceptor::default(),
                        Prefixed { first: Some(first[0]), io: rec },
                    );
                    if let Ok(start) = acceptor.await {
                        *sni2.lock().unwrap() = start.client_hello().server_name().map(|s| s.to_string());
                        let cfg = Arc::new(server_config(&cert, &salpn));
                        if let Ok(mut s) = start.into_stream(cfg).await {
                            let mut b = vec![0u8; 256];
                            let _ = tokio::time::timeout(Duration::from_millis(200), s.read(&mut b)).await;
                        }
                    }
                } else {
                    let mut b = vec![0u8; 256];
                    let _ = tokio::time::timeout(Duration::from_millis(200), rec.read(&mut b)).await;
                }
            }
        }
    });

    let res = tokio::time::timeout(Duration::from_secs(5), async {
        futures_util::future::poll_fn(|cx| transport.poll_ready(cx)).await?;
        transport.call(parts).await
    })
    .await;
    let mut client_alpn = "-".to_string();
    let class = match res {
        Err(_) => "HANG",
        Ok(Err(TlsConnectionError::Connection(_))) => "ERRCONN",
        Ok(Err(TlsConnectionError::Handshake(_))) => "ERRHS",
        Ok(Err(TlsConnectionError::NoDomain)) => "ERRNODOMAIN",
        Ok(Err(_)) => "ERROTHER",
        Ok(Ok(mut stream)) => {
            // the transport has handed the stream over: now the application writes
            let hs = tokio::time::timeout(Duration::from_secs(2), stream.finish_handshake()).await;
            let is_tls = stream.tls_info().is_some();
            if let Some(info) = stream.tls_info() {
                client_alpn = match &info.alpn {
                    Some(hyperdriver::info::Protocol::Http(http::Version::HTTP_2)) => "h2".into(),
                    Some(hyperdriver::info::Protocol::Http(_)) => "h11".into(),
                    Some(_) => "other".into(),
                    None => "none".into(),
                };
            }
            let _ = tokio::time::timeout(Duration::from_millis(500), async {
                let _ = stream.write_all(MARKER).await;
                let _ = stream.flush().await;
            })
            .await;
            match hs {
                Ok(Ok(())) if is_tls => "OKTLS",
                Ok(Ok(())) => "OKPLAIN",
                _ => "OKBROKEN",
            }
        }
    };
    let _ = tokio::time::timeout(Duration::from_secs(2), server).await;
    let bytes = seen.lock().unwrap().clone();
    let first = if bytes.is_empty() { "nothing" } else if bytes[0] == 0x16 && bytes.get(1) == Some(&0x03) { "tls" } else { "ascii" };
    let marker = bytes.windows(MARKER.len()).any(|w| w == MARKER) as u8;
    format!(
        "{} {} {} {} {} ;; {}",
        class,
        first,
        marker,
        sni.lock().unwrap().clone().unwrap_or_else(|| "-".into()),
        client_alpn,
        dec
    )
}

/// Re-inserts the byte we peeked at.
struct Prefixed<IO> {
    first: Option<u8>,
    io: IO,
}
impl<IO: AsyncRead + Unpin> AsyncRead for Prefixed<IO> {
    fn poll_read(mut self: Pin<&mut Self>, cx: &mut Context<'_>, buf: &mut ReadBuf<'_>) -> Poll<std::io::Result<()>> {
        if let Some(b) = self.first.take() {
            buf.put_slice(&[b]);
            return Poll::Ready(Ok(()));
        }
        Pin::new(&mut self.io).poll_read(cx, buf)
    }
}
impl<IO: AsyncWrite + Unpin> AsyncWrite for Prefixed<IO> {
    fn poll_write(mut self: Pin<&mut Self>, cx: &mut Context<'_>, buf: &[u8]) -> Poll<std::io::Result<usize>> {
        Pin::new(&mut self.io).poll_write(cx, buf)
    }
    fn poll_flush(mut self: Pin<&mut Self>, cx: &mut Context<'_>) -> Poll<std::io::Result<()>> {
        Pin::new(&mut self.io).poll_flush(cx)
    }
    fn poll_shutdown(mut self: Pin<&mut Self>, cx: &mut Context<'_>) -> Poll<std::io::Result<()>> {
        Pin::new(&mut self.io).poll_shutdown(cx)
    }
}

fn main() {
    std::panic::set_hook(Box::new(|_| {}));
    let _ = rustls::crypto::ring::default_provider().install_default();
    let mut w = out();
    for line in read_cases() {
        let f: Vec<String> = line.split(' ').map(|s| s.to_string()).collect();
        let res = catch(std::panic::AssertUnwindSafe(move || {
            let rt = tokio::runtime::Builder::new_current_thread().enable_all().build().unwrap();
            rt.block_on(run(f))
        }));
        match res {
            Ok(s) => emit(&mut w, &s),
            Err(m) => emit(&mut w, &format!("PANIC nothing 0 - - ;; - - - {}", m.replace('\n', " "))),
        }
    }
}
