//! R1 support run (testing, not proof): the real `ConnectionPoolService` on a MULTI-THREAD tokio runtime
//! with many concurrent request tasks, random cancellations, dial failures, peer closes and releases,
//! checking the safety halves of the pool properties that must hold under ANY interleaving:
//!   C02  a non-multiplexed connection is never handed to a request while another request holds it,
//!        and never while it is still busy with its previous exchange;
//!   C05  (weak form) no request is handed a connection that was closed before the request was issued;
//!   C06  a request is only handed a connection dialled for its own origin;
//!   C15  the snapshot never shows more idle connections for an origin than max_idle_per_host.
//! The Coq model treats one poll of a request future as atomic (exact for a current-thread runtime); this
//! run exercises the interleavings inside one `Checkout::poll` that the model cannot exhibit.
//!
//! usage: poolstress <seed> <threads> <tasks> <requests per task> <max_idle> <cont 0|1>
//! output: one line "OK <stats>" or "VIOLATION <what>"
use std::future::Future;
use std::pin::Pin;
use std::sync::atomic::{AtomicBool, AtomicU64, AtomicUsize, Ordering};
use std::sync::{Arc, Mutex};
use std::task::{Context, Poll};
use std::time::Duration;

use bytes::Bytes;
use http_body_util::Empty;
use hyperdriver::client::conn::connection::ConnectionError;
use hyperdriver::client::conn::protocol::{HttpProtocol, ProtocolRequest};
use hyperdriver::client::conn::Connection;
use hyperdriver::client::pool::{PoolableConnection, PoolableStream, Pooled};
use hyperdriver::client::{ConnectionPoolService, PoolConfig};
use hyperdriver::info::{ConnectionInfo, HasConnectionInfo};
use hyperdriver::service::ExecuteRequest;

type B = Empty<Bytes>;
const ORIGINS: &[&str] = &["http://a.test", "https://a.test", "http://a.test:8080", "http://b.test"];

#[derive(Debug)]
struct HErr(&'static str);
impl std::fmt::Display for HErr {
    fn fmt(&self, f: &mut std::fmt::Formatter<'_>) -> std::fmt::Result {
        f.write_str(self.0)
    }
}
impl std::error::Error for HErr {}

struct ConnState {
    origin: usize,
    share: bool,
    open: AtomicBool,
    busy: AtomicBool,
    holders: AtomicUsize,
    closed_at: AtomicU64, // logical clock of the close, 0 = open
    ready_waker: Mutex<Option<std::task::Waker>>,
}

#[derive(Default)]
struct World {
    clock: AtomicU64,
    conns: Mutex<Vec<Arc<ConnState>>>,
    violations: Mutex<Vec<String>>,
    dials: AtomicUsize,
    handoffs: AtomicUsize,
    reuses: AtomicUsize,
}
impl World {
    fn tick(&self) -> u64 {
        self.clock.fetch_add(1, Ordering::SeqCst) + 1
    }
    fn violate(&self, s: String) {
        self.violations.lock().unwrap().push(s);
    }
}
type W = Arc<World>;

fn rng_next(state: &mut u64) -> u64 {
    // xorshift64*
    let mut x = *state;
    x ^= x >> 12;
    x ^= x << 25;
    x ^= x >> 27;
    *state = x;
    x.wrapping_mul(0x2545F4914F6CDD1D)
}

fn origin_of(uri: &http::Uri) -> usize {
    let s = format!("{}://{}", uri.scheme_str().unwrap_or("-"), uri.authority().map(|a| a.as_str()).unwrap_or("-"));
    ORIGINS.iter().position(|o| *o == s).unwrap_or(usize::MAX)
}

#[derive(Clone)]
struct HT {
    w: W,
}
struct HStream {
    origin: usize,
    alpn: bool,
    hsfail: bool,
}
#[derive(Debug, Clone)]
struct Addr;
impl std::fmt::Display for Addr {
    fn fmt(&self, f: &mut std::fmt::Formatter<'_>) -> std::fmt::Result {
        f.write_str("stress")
    }
}
impl HasConnectionInfo for HStream {
    type Addr = Addr;
    fn info(&self) -> ConnectionInfo<Addr> {
        ConnectionInfo { local_addr: Addr, remote_addr: Addr }
    }
}
impl PoolableStream for HStream {
    fn can_share(&self) -> bool {
        self.alpn
    }
}
impl tower::Service<http::request::Parts> for HT {
    type Response = HStream;
    type Error = HErr;
    type Future = Pin<Box<dyn Future<Output = Result<HStream, HErr>> + Send>>;
    fn poll_ready(&mut self, _: &mut Context<'_>) -> Poll<Result<(), HErr>> {
        Poll::Ready(Ok(()))
    }
    fn call(&mut self, parts: http::request::Parts) -> Self::Future {
        let w = self.w.clone();
        let origin = origin_of(&parts.uri);
        // behaviour scripted through the query: d=<delay us>&o=<outcome>
        let q = parts.uri.query().unwrap_or("").to_string();
        let mut delay = 0u64;
        let mut outcome = 0u64;
        for kv in q.split('&') {
            if let Some(v) = kv.strip_prefix("d=") {
                delay = v.parse().unwrap_or(0);
            }
            if let Some(v) = kv.strip_prefix("o=") {
                outcome = v.parse().unwrap_or(0);
            }
        }
        Box::pin(async move {
            w.dials.fetch_add(1, Ordering::SeqCst);
            if delay > 0 {
                tokio::time::sleep(Duration::from_micros(delay)).await;
            } else {
                tokio::task::yield_now().await;
            }
            match outcome {
                1 => Err(HErr("dialfail")),
                2 => Ok(HStream { origin, alpn: false, hsfail: true }),
                3 => Ok(HStream { origin, alpn: true, hsfail: false }),
                _ => Ok(HStream { origin, alpn: false, hsfail: false }),
            }
        })
    }
}

#[derive(Clone)]
struct HP {
    w: W,
}
struct HC {
    w: W,
    st: Arc<ConnState>,
    id: usize,
}
impl tower::Service<ProtocolRequest<HStream, B>> for HP {
    type Response = HC;
    type Error = ConnectionError;
    type Future = std::future::Ready<Result<HC, ConnectionError>>;
    fn poll_ready(&mut self, _: &mut Context<'_>) -> Poll<Result<(), ConnectionError>> {
        Poll::Ready(Ok(()))
    }
    fn call(&mut self, req: ProtocolRequest<HStream, B>) -> Self::Future {
        if req.transport.hsfail {
            return std::future::ready(Err(ConnectionError::Handshake(Box::new(HErr("hsfail")))));
        }
        let share = matches!(req.version, HttpProtocol::Http2) || req.transport.alpn;
        let st = Arc::new(ConnState {
            origin: req.transport.origin,
            share,
            open: AtomicBool::new(true),
            busy: AtomicBool::new(false),
            holders: AtomicUsize::new(0),
            closed_at: AtomicU64::new(0),
            ready_waker: Mutex::new(None),
        });
        let mut conns = self.w.conns.lock().unwrap();
        let id = conns.len();
        conns.push(st.clone());
        std::future::ready(Ok(HC { w: self.w.clone(), st, id }))
    }
}
impl Connection<B> for HC {
    type ResBody = B;
    type Error = HErr;
    type Future = std::future::Ready<Result<http::Response<B>, HErr>>;
    fn send_request(&mut self, _request: http::Request<B>) -> Self::Future {
        std::future::ready(Err(HErr("unused")))
    }
    fn poll_ready(&mut self, cx: &mut Context<'_>) -> Poll<Result<(), HErr>> {
        // like hyper: an HTTP/1 sender reports ready once its exchange is over (`busy` is cleared a little
        // AFTER the holder dropped its handle: the response body is still being consumed)
        if !self.st.open.load(Ordering::SeqCst) {
            return Poll::Ready(Err(HErr("closed")));
        }
        if !self.st.share && self.st.busy.load(Ordering::SeqCst) {
            *self.st.ready_waker.lock().unwrap() = Some(cx.waker().clone());
            if self.st.busy.load(Ordering::SeqCst) {
                return Poll::Pending;
            }
        }
        Poll::Ready(Ok(()))
    }
    fn version(&self) -> http::Version {
        if self.st.share {
            http::Version::HTTP_2
        } else {
            http::Version::HTTP_11
        }
    }
}
impl PoolableConnection<B> for HC {
    fn is_open(&self) -> bool {
        // deliberately independent of `busy`: only waiting for poll_ready protects a busy connection
        self.st.open.load(Ordering::SeqCst)
    }
    fn can_share(&self) -> bool {
        self.st.share
    }
    fn reuse(&mut self) -> Option<Self> {
        if self.st.share {
            Some(HC { w: self.w.clone(), st: self.st.clone(), id: self.id })
        } else {
            None
        }
    }
}

#[derive(Clone)]
struct Svc {
    w: W,
}
impl tower::Service<ExecuteRequest<Pooled<HC, B>, B>> for Svc {
    type Response = http::Response<B>;
    type Error = hyperdriver::client::Error;
    type Future = Pin<Box<dyn Future<Output = Result<http::Response<B>, hyperdriver::client::Error>> + Send>>;
    fn poll_ready(&mut self, _: &mut Context<'_>) -> Poll<Result<(), Self::Error>> {
        Poll::Ready(Ok(()))
    }
    fn call(&mut self, req: ExecuteRequest<Pooled<HC, B>, B>) -> Self::Future {
        let (pooled, request) = req.into_parts();
        let w = self.w.clone();
        let st = pooled.st.clone();
        let id = pooled.id;
        let origin = origin_of(request.uri());
        let issued: u64 = request.headers().get("x-issued").and_then(|v| v.to_str().ok()).and_then(|v| v.parse().ok()).unwrap_or(0);
        let hold: u64 = request.headers().get("x-hold").and_then(|v| v.to_str().ok()).and_then(|v| v.parse().ok()).unwrap_or(0);
        w.handoffs.fetch_add(1, Ordering::SeqCst);
        if pooled.is_reused() {
            w.reuses.fetch_add(1, Ordering::SeqCst);
        }
        // ---- the checks, at the instant of the hand-off
        if st.origin != origin {
            w.violate(format!("C06 request for origin {} handed connection {} dialled for origin {}", origin, id, st.origin));
        }
        if !st.share {
            let prev = st.holders.fetch_add(1, Ordering::SeqCst);
            if prev != 0 {
                w.violate(format!("C02 connection {} handed out while {} other request(s) hold it", id, prev));
            }
            if st.busy.swap(true, Ordering::SeqCst) {
                w.violate(format!("C02 connection {} handed out while still busy", id));
            }
        }
        let cl = st.closed_at.load(Ordering::SeqCst);
        if cl != 0 && cl < issued {
            // closed (logical clock cl) strictly before the request was issued: the pop at Issue must have
            // discarded it, and nothing closed is ever handed back to the pool
            w.violate(format!("C05 connection {} closed at {} handed to a request issued at {}", id, cl, issued));
        }
        Box::pin(async move {
            if hold > 0 {
                tokio::time::sleep(Duration::from_micros(hold)).await;
            } else {
                tokio::task::yield_now().await;
            }
            if !st.share {
                st.holders.fetch_sub(1, Ordering::SeqCst);
            }
            drop(pooled);      // the handle goes back (hand-back task waits for readiness)
            if !st.share {
                // the exchange is over a little later
                let st2 = st.clone();
                tokio::spawn(async move {
                    tokio::task::yield_now().await;
                    st2.busy.store(false, Ordering::SeqCst);
                    if let Some(wk) = st2.ready_waker.lock().unwrap().take() {
                        wk.wake();
                    }
                });
            }
            Ok(http::Response::new(Empty::new()))
        })
    }
}

fn main() {
    let a: Vec<String> = std::env::args().collect();
    let seed: u64 = a.get(1).and_then(|s| s.parse().ok()).unwrap_or(1);
    let threads: usize = a.get(2).and_then(|s| s.parse().ok()).unwrap_or(4);
    let tasks: usize = a.get(3).and_then(|s| s.parse().ok()).unwrap_or(16);
    let per_task: usize = a.get(4).and_then(|s| s.parse().ok()).unwrap_or(200);
    let max_idle: usize = a.get(5).and_then(|s| s.parse().ok()).unwrap_or(2);
    let cont = a.get(6).map(|s| s == "1").unwrap_or(true);

    let w: W = Arc::new(World::default());
    let rt = tokio::runtime::Builder::new_multi_thread().worker_threads(threads).enable_time().build().unwrap();
    let mut config = PoolConfig::default();
    config.idle_timeout = Some(Duration::from_secs(3600));
    config.max_idle_per_host = max_idle;
    config.continue_after_preemption = cont;
    let svc: ConnectionPoolService<HT, HP, Svc, B> =
        ConnectionPoolService::new(HT { w: w.clone() }, HP { w: w.clone() }, Svc { w: w.clone() }, config);

    let done = Arc::new(AtomicBool::new(false));
    rt.block_on(async {
        // snapshot watcher (C15) and a "peer" closing random connections
        let watcher = {
            let (svc, w, done) = (svc.clone(), w.clone(), done.clone());
            tokio::spawn(async move {
                let mut st = seed ^ 0x9E3779B97F4A7C15;
                while !done.load(Ordering::SeqCst) {
                    for s in svc.verif_pool_snapshot(|c| c.id as u64) {
                        if s.idle.len() > max_idle {
                            w.violate(format!("C15 token {} has {} idle connections, max_idle_per_host = {}", s.token, s.idle.len(), max_idle));
                        }
                    }
                    if rng_next(&mut st) % 4 == 0 {
                        let conns = w.conns.lock().unwrap();
                        if !conns.is_empty() {
                            let c = &conns[(rng_next(&mut st) as usize) % conns.len()];
                            if c.open.swap(false, Ordering::SeqCst) {
                                c.closed_at.store(w.tick(), Ordering::SeqCst);
                            }
                        }
                    }
                    tokio::time::sleep(Duration::from_micros(200)).await;
                }
            })
        };
        let mut handles = Vec::new();
        for t in 0..tasks {
            let (svc, w) = (svc.clone(), w.clone());
            handles.push(tokio::spawn(async move {
                let mut st = seed.wrapping_mul(6364136223846793005).wrapping_add(t as u64 + 1) | 1;
                for i in 0..per_task {
                    let o = (rng_next(&mut st) % 100) as usize;
                    let origin = if o < 55 { 0 } else { 1 + (o % 3) };
                    // origins 0 and 2 are HTTP/1 only (exclusivity is exercised), 1 and 3 mix in HTTP/2 and ALPN
                    let mixed = origin % 2 == 1;
                    let outcome = match rng_next(&mut st) % 20 { 0 => 1, 1 => 2, 2 | 3 if mixed => 3, _ => 0 };
                    let delay = [0u64, 0, 50, 200, 1000][(rng_next(&mut st) % 5) as usize];
                    let hold = [0u64, 0, 50, 300][(rng_next(&mut st) % 4) as usize];
                    let h2 = mixed && rng_next(&mut st) % 4 == 0;
                    let uri = format!("{}/t{}/{}?d={}&o={}", ORIGINS[origin], t, i, delay, outcome);
                    let mut req = http::Request::new(Empty::<Bytes>::new());
                    *req.uri_mut() = uri.parse().unwrap();
                    *req.version_mut() = if h2 { http::Version::HTTP_2 } else { http::Version::HTTP_11 };
                    req.headers_mut().insert("x-issued", w.tick().to_string().parse().unwrap());
                    req.headers_mut().insert("x-hold", hold.to_string().parse().unwrap());
                    let fut = svc.request(req);
                    let cancel_after = [u64::MAX, u64::MAX, u64::MAX, 0, 30, 150, 600][(rng_next(&mut st) % 7) as usize];
                    if cancel_after == u64::MAX {
                        let _ = tokio::time::timeout(Duration::from_secs(20), fut).await;
                    } else {
                        let _ = tokio::time::timeout(Duration::from_micros(cancel_after), fut).await;
                    }
                    if rng_next(&mut st) % 3 == 0 {
                        tokio::task::yield_now().await;
                    }
                }
            }));
        }
        for h in handles {
            let _ = h.await;
        }
        done.store(true, Ordering::SeqCst);
        let _ = watcher.await;
    });
    let v = w.violations.lock().unwrap();
    if v.is_empty() {
        println!(
            "OK seed={} threads={} tasks={} requests={} dials={} handoffs={} reused_handles={} connections={}",
            seed, threads, tasks, tasks * per_task,
            w.dials.load(Ordering::SeqCst), w.handoffs.load(Ordering::SeqCst), w.reuses.load(Ordering::SeqCst),
            w.conns.lock().unwrap().len()
        );
    } else {
        println!("VIOLATION {} (and {} more)", v[0], v.len() - 1);
    }
}
