//! C17: no request value makes the client panic.
//!
//! Sweeps request values through the three public entry points of the real crate
//!   client | clientnp   hyperdriver::Client built by client::Builder (pool on / off; timeout + redirect layers on)
//!   pool | poolnp       ConnectionPoolService (pool on / off) over SetHostHeader -> Http2Checks -> Http1Checks -> RequestExecutor
//!   conn | connbare     ConnectorService over the same lower stack | directly over RequestExecutor
//! over TlsTransport<DuplexTransport> or TlsTransport<TcpTransport<scripted resolver>> with or without a
//! TLS client configuration, against an in-process peer (rustls server when TLS is spoken, hyper HTTP/2
//! server when the peer sees the h2 preface, canned HTTP/1 responder otherwise).
//!
//! case line (single spaces):
//!   <entry> <base duplex|tcp> <tls no|yes> <cert good|wrongname|untrusted> <salpn none|h2|h11> <calpn none|h2>
//!   <method> <version 09|10|11|2|3> <uri> <headers name:hexvalue,...|-> <body 0|1> [<repeat 1..4>]
//!   repeat = how many times the same request value is sent, one after the other, through the same client/pool
//!   (class DIFF .. if the sends are not treated alike)
//!   In <uri> the text {P} is replaced by the port of the in-process TCP listener; for base=tcp the scripted
//!   resolver answers with the listener's address exactly when the URI contained {P} and fails otherwise.
//! output line:
//!   <uri decomposition> <hostkind dns|ip|invalid|-> ;; <class> ;; caller=<..>[ port=<listener port>] panics=<n> alive=<n>
//!   class = SENT <h1|h2> <method> <version> <uri decomposition> <host values hex,..|->    (request reached Connection::send_request)
//!         | ERR <InvalidUri|UnsupportedProtocol|NoDomain|TlsHandshake|Transport|TcpUri|ProtoHandshake|InvalidMethod|Protocol|Other:..>
//!         | PANIC <file:line> <message>      (any panic seen by the panic hook in any task/thread, or unwinding out of the caller)
//!         | HANG | BADREQ
//!   decomposition = scheme|authority|host|portrepr|portnum|pq|path|query   ('-' = None)
//! A recording wrapper around the real HttpConnectionBuilder/HttpConnection notes the request handed to
//! Connection::send_request; everything else is the crate's own code.  After the caller's future resolved,
//! client and peer are dropped and the runtime is driven until no spawned task is alive (= all joined).
use std::future::Future;
use std::net::SocketAddr;
use std::pin::Pin;
use std::sync::{Arc, Mutex};
use std::task::{Context, Poll};
use std::time::Duration;

use hd_harness::*;
use hyperdriver::bridge::io::TokioIo;
use hyperdriver::bridge::rt::TokioExecutor;
use hyperdriver::client::conn::connection::{ConnectionError, HttpConnection};
use hyperdriver::client::conn::connector::ConnectorLayer;
use hyperdriver::client::conn::dns::SocketAddrs;
use hyperdriver::client::conn::protocol::auto::HttpConnectionBuilder;
use hyperdriver::client::conn::transport::duplex::DuplexTransport;
use hyperdriver::client::conn::transport::tcp::{TcpConnectionError, TcpTransport};
use hyperdriver::client::conn::transport::{TlsConnectionError, TlsTransport};
use hyperdriver::client::conn::{Connection, ProtocolRequest};
use hyperdriver::client::pool::PoolableConnection;
use hyperdriver::client::{ConnectionPoolLayer, Error as ClientError};
use hyperdriver::info::HasConnectionInfo;
use hyperdriver::service::{Http1ChecksLayer, Http2ChecksLayer, RequestExecutor, SetHostHeaderLayer};
use hyperdriver::stream::tcp::TcpStream;
use hyperdriver::Body;
use rustls::pki_types::pem::PemObject;
use rustls::pki_types::{CertificateDer, PrivateKeyDer};
use tokio::io::{AsyncRead, AsyncReadExt, AsyncWrite, AsyncWriteExt, ReadBuf};
use tower::{Layer, Service, ServiceExt};

const FIX: &str = "/verif/fixtures/tls";

// ------------------------------------------------------------------ panic bookkeeping
static PANICS: Mutex<Vec<String>> = Mutex::new(Vec::new());

fn install_hook() {
    std::panic::set_hook(Box::new(|info| {
        let loc = info.location().map(|l| format!("{}:{}", l.file(), l.line())).unwrap_or_else(|| "?".into());
        let msg = if let Some(s) = info.payload().downcast_ref::<&str>() {
            s.to_string()
        } else if let Some(s) = info.payload().downcast_ref::<String>() {
            s.clone()
        } else {
            "panic".to_string()
        };
        if let Ok(mut p) = PANICS.lock() {
            p.push(format!("{} {}", loc, msg.replace(['\n', '\r'], " ")));
        }
    }));
}

// ------------------------------------------------------------------ small helpers
fn parse_version(s: &str) -> http::Version {
    match s {
        "09" => http::Version::HTTP_09,
        "10" => http::Version::HTTP_10,
        "11" => http::Version::HTTP_11,
        "2" => http::Version::HTTP_2,
        _ => http::Version::HTTP_3,
    }
}
fn show_version(v: http::Version) -> &'static str {
    match v {
        http::Version::HTTP_09 => "09",
        http::Version::HTTP_10 => "10",
        http::Version::HTTP_11 => "11",
        http::Version::HTTP_2 => "2",
        _ => "3",
    }
}
fn hex(b: &[u8]) -> String {
    b.iter().map(|x| format!("{:02x}", x)).collect()
}
fn unhex(s: &str) -> Vec<u8> {
    (0..s.len()).step_by(2).map(|i| u8::from_str_radix(&s[i..i + 2], 16).unwrap()).collect()
}
fn o(s: Option<&str>) -> String {
    s.map(|x| if x.is_empty() { "\"\"".to_string() } else { x.to_string() }).unwrap_or_else(|| "-".to_string())
}
fn decompose(u: &http::Uri) -> String {
    format!(
        "{}|{}|{}|{}|{}|{}|{}|{}",
        o(u.scheme_str()),
        o(u.authority().map(|a| a.as_str())),
        o(u.host()),
        o(u.port().as_ref().map(|p| p.as_str())),
        u.port_u16().map(|p| p.to_string()).unwrap_or_else(|| "-".into()),
        o(u.path_and_query().map(|p| p.as_str())),
        o(Some(u.path())),
        o(u.query()),
    )
}

// ------------------------------------------------------------------ recording protocol / connection
#[derive(Clone, Default)]
struct Seen(Arc<Mutex<Option<String>>>);

struct RecConn {
    inner: HttpConnection<Body>,
    seen: Seen,
}
impl std::fmt::Debug for RecConn {
    fn fmt(&self, f: &mut std::fmt::Formatter<'_>) -> std::fmt::Result {
        f.write_str("RecConn")
    }
}
impl Connection<Body> for RecConn {
    type ResBody = hyper::body::Incoming;
    type Error = hyper::Error;
    type Future = <HttpConnection<Body> as Connection<Body>>::Future;
    fn send_request(&mut self, request: http::Request<Body>) -> Self::Future {
        let conn = if self.inner.version() == http::Version::HTTP_2 { "h2" } else { "h1" };
        let hosts: Vec<String> = request.headers().get_all(http::header::HOST).iter().map(|v| hex(v.as_bytes())).collect();
        let rec = format!(
            "SENT {} {} {} {} {}",
            conn,
            request.method(),
            show_version(request.version()),
            decompose(request.uri()),
            if hosts.is_empty() { "-".to_string() } else { hosts.join(",") }
        );
        let mut s = self.seen.0.lock().unwrap();
        if s.is_none() {
            *s = Some(rec);
        }
        drop(s);
        self.inner.send_request(request)
    }
    fn poll_ready(&mut self, cx: &mut Context<'_>) -> Poll<Result<(), Self::Error>> {
        self.inner.poll_ready(cx)
    }
    fn version(&self) -> http::Version {
        self.inner.version()
    }
}
impl PoolableConnection<Body> for RecConn {
    fn is_open(&self) -> bool {
        self.inner.is_open()
    }
    fn can_share(&self) -> bool {
        self.inner.can_share()
    }
    fn reuse(&mut self) -> Option<Self> {
        self.inner.reuse().map(|inner| RecConn { inner, seen: self.seen.clone() })
    }
}

#[derive(Clone)]
struct RecProto {
    inner: HttpConnectionBuilder<Body>,
    seen: Seen,
}
impl std::fmt::Debug for RecProto {
    fn fmt(&self, f: &mut std::fmt::Formatter<'_>) -> std::fmt::Result {
        f.write_str("RecProto")
    }
}
impl<IO> Service<ProtocolRequest<IO, Body>> for RecProto
where
    IO: hyperdriver::info::HasTlsConnectionInfo + HasConnectionInfo + AsyncRead + AsyncWrite + Send + Unpin + 'static,
    IO::Addr: Clone + Send + Sync,
{
    type Response = RecConn;
    type Error = ConnectionError;
    type Future = Pin<Box<dyn Future<Output = Result<RecConn, ConnectionError>> + Send>>;
    fn poll_ready(&mut self, cx: &mut Context<'_>) -> Poll<Result<(), Self::Error>> {
        <HttpConnectionBuilder<Body> as Service<ProtocolRequest<IO, Body>>>::poll_ready(&mut self.inner, cx)
    }
    fn call(&mut self, req: ProtocolRequest<IO, Body>) -> Self::Future {
        let fut = self.inner.call(req);
        let seen = self.seen.clone();
        Box::pin(async move { fut.await.map(|inner| RecConn { inner, seen }) })
    }
}

// ------------------------------------------------------------------ peer
fn load_cert(name: &str) -> (Vec<CertificateDer<'static>>, PrivateKeyDer<'static>) {
    let cert = CertificateDer::from_pem_file(format!("{FIX}/{name}.pem")).unwrap();
    let key = PrivateKeyDer::from_pem_file(format!("{FIX}/{name}.key")).unwrap();
    (vec![cert], key)
}
fn server_config(cert: &str, alpn: &str) -> rustls::ServerConfig {
    let (c, k) = load_cert(cert);
    let mut cfg = rustls::ServerConfig::builder().with_no_client_auth().with_single_cert(c, k).unwrap();
    match alpn {
        "h2" => cfg.alpn_protocols = vec![b"h2".to_vec(), b"http/1.1".to_vec()],
        "h11" => cfg.alpn_protocols = vec![b"http/1.1".to_vec()],
        _ => {}
    }
    cfg
}
fn client_config(alpn: &str) -> rustls::ClientConfig {
    let mut roots = rustls::RootCertStore::empty();
    roots.add(CertificateDer::from_pem_file(format!("{FIX}/ca.pem")).unwrap()).unwrap();
    let mut cfg = rustls::ClientConfig::builder().with_root_certificates(roots).with_no_client_auth();
    if alpn == "h2" {
        cfg.alpn_protocols = vec![b"h2".to_vec(), b"http/1.1".to_vec()];
    }
    cfg
}

/// Re-inserts the bytes consumed while sniffing.
struct Prefixed<IO> {
    pre: Vec<u8>,
    io: IO,
}
impl<IO: AsyncRead + Unpin> AsyncRead for Prefixed<IO> {
    fn poll_read(mut self: Pin<&mut Self>, cx: &mut Context<'_>, buf: &mut ReadBuf<'_>) -> Poll<std::io::Result<()>> {
        if !self.pre.is_empty() {
            let n = self.pre.len().min(buf.remaining());
            let rest = self.pre.split_off(n);
            buf.put_slice(&self.pre);
            self.pre = rest;
            return Poll::Ready(Ok(()));
        }
        Pin::new(&mut self.io).poll_read(cx, buf)
    }
}
impl<IO: AsyncWrite + Unpin> AsyncWrite for Prefixed<IO> {
    fn poll_write(mut self: Pin<&mut Self>, cx: &mut Context<'_>, buf: &[u8]) -> Poll<std::io::Result<usize>> {
        Pin::new(&mut self.io).poll_write(cx, buf)
    }
    fn poll_flush(mut self: Pin<&mut Self>, cx: &mut Context<'_>) -> Poll<std::io::Result<()>> {
        Pin::new(&mut self.io).poll_flush(cx)
    }
    fn poll_shutdown(mut self: Pin<&mut Self>, cx: &mut Context<'_>) -> Poll<std::io::Result<()>> {
        Pin::new(&mut self.io).poll_shutdown(cx)
    }
}

const PREFACE: &[u8] = b"PRI * HTTP/2.0\r\n\r\nSM\r\n\r\n";

async fn serve_plain<IO: AsyncRead + AsyncWrite + Unpin + Send + 'static>(mut io: IO) {
    // sniff: HTTP/2 preface or HTTP/1 text
    let mut pre = Vec::new();
    let mut b = [0u8; 1024];
    loop {
        let n = match io.read(&mut b).await {
            Ok(0) | Err(_) => return,
            Ok(n) => n,
        };
        pre.extend_from_slice(&b[..n]);
        let k = pre.len().min(PREFACE.len());
        if pre[..k] != PREFACE[..k] {
            break; // not HTTP/2
        }
        if pre.len() >= PREFACE.len() {
            let svc = hyper::service::service_fn(|_req: http::Request<hyper::body::Incoming>| async {
                Ok::<_, std::convert::Infallible>(http::Response::new(http_body_util::Empty::<bytes::Bytes>::new()))
            });
            let _ = hyper::server::conn::http2::Builder::new(TokioExecutor::new())
                .serve_connection(TokioIo::new(Prefixed { pre, io }), svc)
                .await;
            return;
        }
    }
    // canned HTTP/1 responder: one 200 per header block
    let mut buf = pre;
    loop {
        while let Some(pos) = buf.windows(4).position(|w| w == b"\r\n\r\n") {
            buf.drain(..pos + 4);
            if io.write_all(b"HTTP/1.1 200 OK\r\ncontent-length: 0\r\n\r\n").await.is_err() {
                return;
            }
            let _ = io.flush().await;
        }
        match io.read(&mut b).await {
            Ok(0) | Err(_) => return,
            Ok(n) => buf.extend_from_slice(&b[..n]),
        }
        if buf.len() > 1 << 20 {
            return;
        }
    }
}

async fn serve_conn<IO: AsyncRead + AsyncWrite + Unpin + Send + 'static>(io: IO, tls: Option<Arc<rustls::ServerConfig>>) {
    match tls {
        None => serve_plain(io).await,
        Some(cfg) => {
            // the client speaks TLS only for https/wss with TLS configured: sniff the record type
            let mut io = io;
            let mut first = [0u8; 1];
            match io.read(&mut first).await {
                Ok(1) => {}
                _ => return,
            }
            let io = Prefixed { pre: vec![first[0]], io };
            if first[0] == 0x16 {
                if let Ok(s) = tokio_rustls::TlsAcceptor::from(cfg).accept(io).await {
                    serve_plain(s).await;
                }
            } else {
                serve_plain(io).await;
            }
        }
    }
}

// ------------------------------------------------------------------ scripted resolver
#[derive(Clone)]
struct Resolver(Option<SocketAddr>);
impl Service<Box<str>> for Resolver {
    type Response = SocketAddrs;
    type Error = std::io::Error;
    type Future = std::future::Ready<Result<SocketAddrs, std::io::Error>>;
    fn poll_ready(&mut self, _cx: &mut Context<'_>) -> Poll<Result<(), Self::Error>> {
        Poll::Ready(Ok(()))
    }
    fn call(&mut self, _host: Box<str>) -> Self::Future {
        std::future::ready(match self.0 {
            Some(a) => Ok(std::iter::once(a).collect()),
            None => Err(std::io::Error::new(std::io::ErrorKind::NotFound, "scripted resolver: no such host")),
        })
    }
}

// ------------------------------------------------------------------ error classes
fn classify_tcp(e: &TcpConnectionError) -> String {
    let s = e.to_string();
    if s.starts_with("missing host") || s.starts_with("missing port") {
        "TcpUri".into()
    } else {
        "Transport".into()
    }
}
fn classify(e: &ClientError) -> String {
    match e {
        ClientError::InvalidMethod(_) => "InvalidMethod".into(),
        ClientError::UnsupportedProtocol => "UnsupportedProtocol".into(),
        ClientError::Protocol(_) => "Protocol".into(),
        ClientError::RequestTimeout => "Timeout".into(),
        ClientError::Transport(_) => "ProtoHandshake".into(),
        ClientError::Connection(b) => {
            if let Some(ce) = b.downcast_ref::<ConnectionError>() {
                match ce {
                    ConnectionError::InvalidUri(_) => "InvalidUri".into(),
                    ConnectionError::Connecting(inner) => match inner.downcast_ref::<ClientError>() {
                        Some(ClientError::UnsupportedProtocol) => "UnsupportedProtocol".into(),
                        _ => "Other:connecting".into(),
                    },
                    _ => "Other:connection-error".into(),
                }
            } else if let Some(te) = b.downcast_ref::<TlsConnectionError<std::io::Error>>() {
                match te {
                    TlsConnectionError::NoDomain => "NoDomain".into(),
                    TlsConnectionError::Handshake(_) => "TlsHandshake".into(),
                    TlsConnectionError::Connection(_) => "Transport".into(),
                    _ => "Other:tls".into(),
                }
            } else if let Some(te) = b.downcast_ref::<TlsConnectionError<TcpConnectionError>>() {
                match te {
                    TlsConnectionError::NoDomain => "NoDomain".into(),
                    TlsConnectionError::Handshake(_) => "TlsHandshake".into(),
                    TlsConnectionError::Connection(t) => classify_tcp(t),
                    _ => "Other:tls".into(),
                }
            } else if b.downcast_ref::<hyper::Error>().is_some() {
                "Send".into()
            } else {
                format!("Other:{}", b.to_string().replace(' ', "_"))
            }
        }
        other => format!("Other:{}", other.to_string().replace(' ', "_")),
    }
}

// ------------------------------------------------------------------ one case
struct Case {
    entry: String,
    base: String,
    tls: bool,
    cert: String,
    salpn: String,
    calpn: String,
    method: String,
    version: String,
    uri: String,
    headers: String,
    body: bool,
    repeat: usize,
}

fn build_request(c: &Case, uri: &str) -> Option<http::Request<Body>> {
    let mut b = http::Request::builder().method(c.method.as_str()).version(parse_version(&c.version)).uri(uri);
    if c.headers != "-" {
        for h in c.headers.split(',') {
            let (n, v) = h.split_once(':')?;
            b = b.header(n, unhex(v));
        }
    }
    b.body(if c.body { Body::from("hello") } else { Body::empty() }).ok()
}

type Out = Result<u16, ClientError>;

/// Sends the requests one after the other through clones of the same service (same pool).
async fn drive<S, B>(svc: S, reqs: Vec<http::Request<Body>>, seen: &Seen) -> Vec<(Option<Out>, Option<String>)>
where
    S: Service<http::Request<Body>, Response = http::Response<B>, Error = ClientError> + Clone,
{
    let mut out = Vec::new();
    for req in reqs {
        *seen.0.lock().unwrap() = None;
        let r = match tokio::time::timeout(Duration::from_secs(10), svc.clone().oneshot(req)).await {
            Err(_) => None,
            Ok(r) => Some(r.map(|resp| resp.status().as_u16())),
        };
        let sent = seen.0.lock().unwrap().take();
        out.push((r, sent));
    }
    out
}

/// The caller's task: a panic unwinding out of the request future is caught here (and seen by the hook).
async fn guarded<F: Future>(f: F) -> Result<F::Output, String> {
    use futures_util::FutureExt;
    std::panic::AssertUnwindSafe(f).catch_unwind().await.map_err(|e| {
        if let Some(s) = e.downcast_ref::<&str>() {
            s.to_string()
        } else if let Some(s) = e.downcast_ref::<String>() {
            s.clone()
        } else {
            "panic".to_string()
        }
        .replace(['\n', '\r'], " ")
    })
}

/// Runs the request through the entry point over transport `t`.
async fn through<T>(c: &Case, t: T, seen: Seen, req: Vec<http::Request<Body>>) -> Vec<(Option<Out>, Option<String>)>
where
    T: hyperdriver::client::conn::Transport + Clone + Send + Sync + 'static,
    T::IO: hyperdriver::client::pool::PoolableStream + AsyncRead + AsyncWrite + Unpin,
    <T::IO as HasConnectionInfo>::Addr: Unpin + Clone + Send + Sync,
{
    let proto = RecProto { inner: HttpConnectionBuilder::default(), seen: seen.clone() };
    let tls_cfg = if c.tls { Some(client_config(&c.calpn)) } else { None };
    match c.entry.as_str() {
        "client" | "clientnp" => {
            let b = hyperdriver::Client::builder()
                .with_protocol(proto)
                .with_transport(t)
                .with_timeout(Duration::from_secs(30))
                .with_standard_redirect_policy();
            let b = if c.entry == "client" { b.with_default_pool() } else { b.without_pool() };
            let b = match tls_cfg {
                Some(cfg) => b.with_tls(cfg),
                None => b.without_tls(),
            };
            let client = b.build();
            drive(client, req, &seen).await
        }
        "pool" | "poolnp" => {
            let transport = match tls_cfg {
                Some(cfg) => TlsTransport::new(t).with_tls(Arc::new(cfg)),
                None => TlsTransport::new(t),
            };
            let pool = if c.entry == "pool" { Some(hyperdriver::client::PoolConfig::default()) } else { None };
            let svc = tower::ServiceBuilder::new()
                .layer(
                    ConnectionPoolLayer::<_, _, Body, hyperdriver::client::pool::UriKey>::new(transport, proto)
                        .with_optional_pool(pool),
                )
                .layer(SetHostHeaderLayer::new())
                .layer(Http2ChecksLayer::new())
                .layer(Http1ChecksLayer::new())
                .service(RequestExecutor::new());
            drive(svc, req, &seen).await
        }
        "conn" => {
            let transport = match tls_cfg {
                Some(cfg) => TlsTransport::new(t).with_tls(Arc::new(cfg)),
                None => TlsTransport::new(t),
            };
            let inner = RequestExecutor::<RecConn, Body>::new();
            let inner = Http1ChecksLayer::<RecConn, Body>::new().layer(inner);
            let inner = Http2ChecksLayer::<RecConn, Body>::new().layer(inner);
            let inner = SetHostHeaderLayer::new().layer(inner);
            let svc = ConnectorLayer::new(transport, proto).layer(inner);
            drive(svc, req, &seen).await
        }
        _ => {
            let transport = match tls_cfg {
                Some(cfg) => TlsTransport::new(t).with_tls(Arc::new(cfg)),
                None => TlsTransport::new(t),
            };
            let svc = ConnectorLayer::new(transport, proto).layer(RequestExecutor::<RecConn, Body>::new());
            drive(svc, req, &seen).await
        }
    }
}

async fn run(c: Case) -> (String, String, String) {
    let mut port_note = String::new();
    // peer side
    let server_tls = if c.tls { Some(Arc::new(server_config(&c.cert, &c.salpn))) } else { None };
    let seen = Seen::default();
    let mut peer_tasks: Vec<tokio::task::JoinHandle<()>> = Vec::new();
    let result;
    let dec;
    let hk;
    if c.base == "tcp" {
        let listener = tokio::net::TcpListener::bind("127.0.0.1:0").await.unwrap();
        let addr = listener.local_addr().unwrap();
        let dial = c.uri.contains("{P}");
        port_note = format!(" port={}", addr.port());
        let uri = c.uri.replace("{P}", &addr.port().to_string());
        let Some(req) = build_request(&c, &uri) else { return ("- -".into(), "BADREQ".into(), "none".into()) };
        dec = decompose(req.uri());
        hk = hostkind(req.uri());
        let mut req = vec![req];
        for _ in 1..c.repeat {
            req.push(build_request(&c, &uri).unwrap());
        }
        let stls = server_tls.clone();
        peer_tasks.push(tokio::spawn(async move {
            let mut conns = tokio::task::JoinSet::new();
            loop {
                match tokio::net::TcpListener::accept(&listener).await {
                    Ok((s, _)) => {
                        conns.spawn(serve_conn(s, stls.clone()));
                    }
                    Err(_) => break,
                }
            }
        }));
        let t: TcpTransport<Resolver, TcpStream> =
            TcpTransport::builder().with_resolver(Resolver(if dial { Some(addr) } else { None })).build();
        result = guarded(through(&c, t, seen.clone(), req)).await;
    } else {
        let Some(req) = build_request(&c, &c.uri) else { return ("- -".into(), "BADREQ".into(), "none".into()) };
        dec = decompose(req.uri());
        hk = hostkind(req.uri());
        let mut req = vec![req];
        for _ in 1..c.repeat {
            req.push(build_request(&c, &c.uri).unwrap());
        }
        let (client, incoming) = hyperdriver::stream::duplex::pair();
        let stls = server_tls.clone();
        peer_tasks.push(tokio::spawn(async move {
            use futures_util::StreamExt;
            let mut incoming = incoming;
            let mut conns = tokio::task::JoinSet::new();
            while let Some(Ok(s)) = incoming.next().await {
                conns.spawn(serve_conn(s, stls.clone()));
            }
            // every DuplexClient is gone: keep serving the accepted connections until they close
            while conns.join_next().await.is_some() {}
        }));
        let t = DuplexTransport::new(1 << 16, client);
        result = guarded(through(&c, t, seen.clone(), req)).await;
    }
    let mut callers = Vec::new();
    let mut classes = Vec::new();
    match &result {
        Err(m) => {
            callers.push("panic".to_string());
            classes.push(format!("PANIC ? {}", m));
        }
        Ok(rs) => {
            for (r, sent) in rs {
                callers.push(match r {
                    None => "hang".to_string(),
                    Some(Ok(code)) => format!("ok{}", code),
                    Some(Err(e)) => {
                        if std::env::var_os("C17_DEBUG").is_some() {
                            eprintln!("caller error: {:?}", e);
                        }
                        format!("err:{}", classify(e))
                    }
                });
                classes.push(match (r, sent) {
                    (None, _) => "HANG".to_string(),
                    (_, Some(s)) => s.clone(),
                    (Some(Ok(_)), None) => "ERR Other:response-without-send".to_string(),
                    (Some(Err(e)), None) => format!("ERR {}", classify(e)),
                });
            }
        }
    }
    // a repeated request must be treated like the first one
    let class = if classes.iter().all(|k| *k == classes[0]) {
        classes[0].clone()
    } else if classes.iter().any(|k| k == "HANG") {
        "HANG".to_string()
    } else {
        format!("DIFF {}", classes.join(" || "))
    };
    let caller = callers.join("+");
    // the caller is done: drop its side, stop the accept loops, then join everything that was spawned
    drop(result);
    for t in &peer_tasks {
        t.abort();
    }
    for t in peer_tasks {
        let _ = t.await;
    }
    (format!("{} {}", dec, hk), class, format!("{}{}", caller, port_note))
}

fn hostkind(u: &http::Uri) -> &'static str {
    match u.host() {
        None => "-",
        Some(h) => match rustls::pki_types::ServerName::try_from(h.trim_start_matches('[').trim_end_matches(']')) {
            Ok(rustls::pki_types::ServerName::DnsName(_)) => "dns",
            Ok(_) => "ip",
            Err(_) => "invalid",
        },
    }
}

fn main() {
    install_hook();
    let _ = rustls::crypto::ring::default_provider().install_default();
    let mut w = out();
    for line in read_cases() {
        let f: Vec<&str> = line.split(' ').collect();
        if f.len() != 11 && f.len() != 12 {
            emit(&mut w, "- - ;; BADREQ ;; caller=none panics=0 alive=0");
            continue;
        }
        let c = Case {
            entry: f[0].into(),
            base: f[1].into(),
            tls: f[2] == "yes",
            cert: f[3].into(),
            salpn: f[4].into(),
            calpn: f[5].into(),
            method: f[6].into(),
            version: f[7].into(),
            uri: f[8].into(),
            headers: f[9].into(),
            body: f[10] == "1",
            repeat: if f.len() == 12 { f[11].parse().unwrap_or(1).clamp(1, 4) } else { 1 },
        };
        PANICS.lock().unwrap().clear();
        let rt = tokio::runtime::Builder::new_current_thread().enable_all().build().unwrap();
        let res = catch(std::panic::AssertUnwindSafe(|| rt.block_on(run(c))));
        // join: drive the runtime until no task spawned during the request is alive
        let alive = catch(std::panic::AssertUnwindSafe(|| {
            rt.block_on(async {
                let m = tokio::runtime::Handle::current().metrics();
                let deadline = tokio::time::Instant::now() + Duration::from_secs(3);
                loop {
                    tokio::task::yield_now().await;
                    let n = m.num_alive_tasks();
                    if n == 0 || tokio::time::Instant::now() > deadline {
                        return n;
                    }
                    tokio::time::sleep(Duration::from_millis(1)).await;
                }
            })
        }))
        .unwrap_or(usize::MAX);
        drop(rt);
        let panics = PANICS.lock().unwrap().clone();
        let (dec, mut class, caller) = match res {
            Ok(t) => t,
            Err(m) => ("- -".to_string(), format!("PANIC ? {}", m.replace('\n', " ")), "panic".to_string()),
        };
        if let Some(p) = panics.first() {
            class = format!("PANIC {}", p);
        }
        emit(&mut w, &format!("{} ;; {} ;; caller={} panics={} alive={}", dec, class, caller, panics.len(), alive));
    }
}
