//! C13 / C17 (pure part): request rewriting layers and protocol choice.
//!
//! case lines (fields separated by a single space; '-' = absent):
//!   L <conn h1|h2> <method> <version 09|10|11|2|3> <uri> <headers name:hexvalue,...|->
//!       drives SetHostHeaderLayer -> Http2ChecksLayer -> Http1ChecksLayer -> RequestExecutor with a stub connection
//!   P <req h1|h2> <alpn none|h2|h11|other|notls>
//!       drives the real HttpConnectionBuilder over a duplex with an IO that reports the ALPN result
//!   V <version 09|10|11|2|3>           HttpProtocol::from(http::Version)
//! output:
//!   L: <input uri decomposition> ;; OK <method> <version> <uri decomposition> <headers> | ERR <kind> | PANIC <msg> | BADREQ
//!      decomposition = scheme|authority|host|portrepr|portnum|pq|path|query   ('-' = None)
//!   P: <conn version 11|2> <peer saw h2preface|h1|nothing>
//!   V: H1 | H2 | PANIC
use std::future::Future;
use std::pin::Pin;
use std::sync::{Arc, Mutex};
use std::task::{Context, Poll};

use hd_harness::*;
use hyperdriver::client::conn::protocol::auto::HttpConnectionBuilder;
use hyperdriver::client::conn::protocol::HttpProtocol;
use hyperdriver::client::conn::{Connection, Protocol};
use hyperdriver::info::{ConnectionInfo, HasConnectionInfo, HasTlsConnectionInfo, TlsConnectionInfo};
use hyperdriver::service::{ExecuteRequest, Http1ChecksLayer, Http2ChecksLayer, RequestExecutor, SetHostHeaderLayer};
use tower::{Layer, Service};

type Body = http_body_util::Empty<bytes::Bytes>;

fn parse_version(s: &str) -> http::Version {
    match s {
        "09" => http::Version::HTTP_09,
        "10" => http::Version::HTTP_10,
        "11" => http::Version::HTTP_11,
        "2" => http::Version::HTTP_2,
        _ => http::Version::HTTP_3,
    }
}
fn show_version(v: http::Version) -> &'static str {
    match v {
        http::Version::HTTP_09 => "09",
        http::Version::HTTP_10 => "10",
        http::Version::HTTP_11 => "11",
        http::Version::HTTP_2 => "2",
        _ => "3",
    }
}

fn hex(b: &[u8]) -> String {
    b.iter().map(|x| format!("{:02x}", x)).collect()
}
fn unhex(s: &str) -> Vec<u8> {
    (0..s.len()).step_by(2).map(|i| u8::from_str_radix(&s[i..i + 2], 16).unwrap()).collect()
}
fn o(s: Option<&str>) -> String {
    s.map(|x| if x.is_empty() { "\"\"".to_string() } else { x.to_string() }).unwrap_or_else(|| "-".to_string())
}

fn decompose(u: &http::Uri) -> String {
    format!(
        "{}|{}|{}|{}|{}|{}|{}|{}",
        o(u.scheme_str()),
        o(u.authority().map(|a| a.as_str())),
        o(u.host()),
        o(u.port().as_ref().map(|p| p.as_str())),
        u.port_u16().map(|p| p.to_string()).unwrap_or_else(|| "-".into()),
        o(u.path_and_query().map(|p| p.as_str())),
        o(Some(u.path())),
        o(u.query()),
    )
}

/// Stub connection: reports a version, records what it is asked to send.
struct Stub {
    version: http::Version,
    seen: Arc<Mutex<Option<http::Request<Body>>>>,
}
impl Connection<Body> for Stub {
    type ResBody = Body;
    type Error = std::io::Error;
    type Future = Pin<Box<dyn Future<Output = Result<http::Response<Body>, std::io::Error>> + Send>>;
    fn send_request(&mut self, request: http::Request<Body>) -> Self::Future {
        *self.seen.lock().unwrap() = Some(request);
        Box::pin(async { Ok(http::Response::new(Body::new())) })
    }
    fn poll_ready(&mut self, _cx: &mut Context<'_>) -> Poll<Result<(), Self::Error>> {
        Poll::Ready(Ok(()))
    }
    fn version(&self) -> http::Version {
        self.version
    }
}

fn block<F: Future>(f: F) -> F::Output {
    tokio::runtime::Builder::new_current_thread().enable_all().build().unwrap().block_on(f)
}

fn layers(f: &[&str]) -> String {
    let conn_version = if f[1] == "h2" { http::Version::HTTP_2 } else { http::Version::HTTP_11 };
    let mut b = http::Request::builder().method(f[2]).version(parse_version(f[3])).uri(f[4]);
    if f[5] != "-" {
        for h in f[5].split(',') {
            let (n, v) = h.split_once(':').unwrap();
            b = b.header(n, unhex(v));
        }
    }
    let req = match b.body(Body::new()) {
        Ok(r) => r,
        Err(_) => return "- ;; BADREQ".into(),
    };
    let indec = decompose(req.uri());
    let seen = Arc::new(Mutex::new(None));
    let stub = Stub { version: conn_version, seen: seen.clone() };
    let res = catch(std::panic::AssertUnwindSafe(move || {
        let svc = RequestExecutor::<Stub, Body>::new();
        let svc = Http1ChecksLayer::<Stub, Body>::new().layer(svc);
        let svc = Http2ChecksLayer::<Stub, Body>::new().layer(svc);
        let mut svc = SetHostHeaderLayer::new().layer(svc);
        block(async move { svc.call(ExecuteRequest::new(stub, req)).await })
    }));
    let out = match res {
        Err(m) => format!("PANIC {}", m.replace('\n', " ")),
        Ok(Err(e)) => {
            let kind = match e {
                hyperdriver::client::Error::InvalidMethod(_) => "InvalidMethod",
                hyperdriver::client::Error::Connection(_) => "Connection",
                hyperdriver::client::Error::User(_) => "User",
                _ => "Other",
            };
            format!("ERR {}", kind)
        }
        Ok(Ok(_resp)) => {
            let r = seen.lock().unwrap().take();
            match r {
                None => "ERR NotSent".to_string(),
                Some(r) => {
                    let mut hs: Vec<(String, String)> =
                        r.headers().iter().map(|(n, v)| (n.as_str().to_string(), hex(v.as_bytes()))).collect();
                    hs.sort_by(|a, b| a.0.cmp(&b.0)); // stable: keeps the order of repeated names
                    let hs: Vec<String> = hs.into_iter().map(|(n, v)| format!("{}:{}", n, v)).collect();
                    format!(
                        "OK {} {} {} {}",
                        r.method(),
                        show_version(r.version()),
                        decompose(r.uri()),
                        if hs.is_empty() { "-".to_string() } else { hs.join(",") }
                    )
                }
            }
        }
    };
    format!("{} ;; {}", indec, out)
}

// ---- protocol choice over a duplex with scripted ALPN
#[derive(Debug)]
struct AlpnIo {
    io: tokio::io::DuplexStream,
    tls: Option<TlsConnectionInfo>,
}
#[derive(Debug, Clone, Default)]
struct NoAddr;
impl std::fmt::Display for NoAddr {
    fn fmt(&self, f: &mut std::fmt::Formatter<'_>) -> std::fmt::Result {
        write!(f, "alpn-io")
    }
}
impl HasConnectionInfo for AlpnIo {
    type Addr = NoAddr;
    fn info(&self) -> ConnectionInfo<NoAddr> {
        ConnectionInfo { local_addr: NoAddr, remote_addr: NoAddr }
    }
}
impl HasTlsConnectionInfo for AlpnIo {
    fn tls_info(&self) -> Option<&TlsConnectionInfo> {
        self.tls.as_ref()
    }
}
impl tokio::io::AsyncRead for AlpnIo {
    fn poll_read(mut self: Pin<&mut Self>, cx: &mut Context<'_>, buf: &mut tokio::io::ReadBuf<'_>) -> Poll<std::io::Result<()>> {
        Pin::new(&mut self.io).poll_read(cx, buf)
    }
}
impl tokio::io::AsyncWrite for AlpnIo {
    fn poll_write(mut self: Pin<&mut Self>, cx: &mut Context<'_>, buf: &[u8]) -> Poll<std::io::Result<usize>> {
        Pin::new(&mut self.io).poll_write(cx, buf)
    }
    fn poll_flush(mut self: Pin<&mut Self>, cx: &mut Context<'_>) -> Poll<std::io::Result<()>> {
        Pin::new(&mut self.io).poll_flush(cx)
    }
    fn poll_shutdown(mut self: Pin<&mut Self>, cx: &mut Context<'_>) -> Poll<std::io::Result<()>> {
        Pin::new(&mut self.io).poll_shutdown(cx)
    }
}

fn protocol(f: &[&str]) -> String {
    use tokio::io::AsyncReadExt;
    let req = if f[1] == "h2" { HttpProtocol::Http2 } else { HttpProtocol::Http1 };
    let tls = match f[2] {
        "notls" => None,
        "none" => Some(TlsConnectionInfo { server_name: None, validated_server_name: false, alpn: None }),
        "h2" => Some(TlsConnectionInfo { server_name: None, validated_server_name: false, alpn: Some(hyperdriver::info::Protocol::Http(http::Version::HTTP_2)) }),
        "h11" => Some(TlsConnectionInfo { server_name: None, validated_server_name: false, alpn: Some(hyperdriver::info::Protocol::Http(http::Version::HTTP_11)) }),
        _ => Some(TlsConnectionInfo { server_name: None, validated_server_name: false, alpn: Some(hyperdriver::info::Protocol::Other("spdy/3".into())) }),
    };
    let res = catch(std::panic::AssertUnwindSafe(move || {
        block(async move {
            let (a, mut b) = tokio::io::duplex(4096);
            let io = AlpnIo { io: a, tls };
            let mut builder: HttpConnectionBuilder<Body> = HttpConnectionBuilder::default();
            let peer = tokio::spawn(async move {
                let mut buf = vec![0u8; 24];
                let mut n = 0;
                while n < 14 {
                    match tokio::time::timeout(std::time::Duration::from_millis(300), b.read(&mut buf[n..])).await {
                        Ok(Ok(0)) | Err(_) | Ok(Err(_)) => break,
                        Ok(Ok(k)) => n += k,
                    }
                }
                (buf[..n].to_vec(), b)
            });
            let conn = tokio::time::timeout(std::time::Duration::from_millis(500), Protocol::connect(&mut builder, io, req)).await;
            let mut version = "none".to_string();
            if let Ok(Ok(mut conn)) = conn {
                version = show_version(conn.version()).to_string();
                let r = http::Request::builder().uri("http://x.test/").body(Body::new()).unwrap();
                let fut = conn.send_request(r);
                tokio::spawn(async move {
                    let _ = tokio::time::timeout(std::time::Duration::from_millis(300), fut).await;
                    drop(conn);
                });
            }
            let (seen, _b) = peer.await.unwrap();
            let class = if seen.starts_with(b"PRI * HTTP/2.0") { "h2preface" } else if seen.is_empty() { "nothing" } else if seen.starts_with(b"GET / HTTP/1.1") { "h1" } else { "other" };
            format!("{} {}", version, class)
        })
    }));
    res.unwrap_or_else(|m| format!("PANIC {}", m))
}

fn main() {
    std::panic::set_hook(Box::new(|_| {}));
    let mut w = out();
    for line in read_cases() {
        let f: Vec<&str> = line.split(' ').collect();
        let s = match f[0] {
            "L" => layers(&f),
            "P" => protocol(&f),
            "V" => {
                let v = parse_version(f[1]);
                match catch(move || HttpProtocol::from(v)) {
                    Ok(HttpProtocol::Http1) => "H1".to_string(),
                    Ok(HttpProtocol::Http2) => "H2".to_string(),
                    Err(_) => "PANIC".to_string(),
                }
            }
            _ => "?".to_string(),
        };
        emit(&mut w, &s);
    }
}
