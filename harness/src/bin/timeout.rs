//! C19 (first half): drives the public TimeoutLayer around a scripted inner service under
//! tokio's paused clock.
//!
//! case line: <d ms> <p0 ms> <ti ms|-> <O<v>|E<e>> [<handover 0|1>]
//!   handover 1: the first poll (at p0) is made by hand with a throw-away waker; the future is then awaited by the
//!   main task (another waker), which only polls it when woken
//! output:    <INNER O<v>|INNER E<e>|TIMEOUT|HANG|PANIC> <resolved at ms|-> <inner dropped at ms|-> <inner polls after drop/ready: 0>
use std::cell::RefCell;
use std::future::Future;
use std::pin::Pin;
use std::rc::Rc;
use std::task::{Context, Poll};
use std::time::Duration;

use hd_harness::*;
use hyperdriver::service::TimeoutLayer;
use tokio::time::{Instant, Sleep};
use tower::{Layer, Service};

#[derive(Debug, PartialEq)]
enum E {
    Timeout,
    Inner(u64),
}

struct Inner {
    sleep: Option<Pin<Box<Sleep>>>,
    res: Result<u64, u64>,
    base: Instant,
    log: Rc<RefCell<Vec<String>>>,
}
impl Future for Inner {
    type Output = Result<u64, E>;
    fn poll(mut self: Pin<&mut Self>, cx: &mut Context<'_>) -> Poll<Self::Output> {
        match self.sleep.as_mut() {
            None => Poll::Pending,
            Some(s) => match s.as_mut().poll(cx) {
                Poll::Pending => Poll::Pending,
                Poll::Ready(()) => Poll::Ready(self.res.map_err(E::Inner)),
            },
        }
    }
}
impl Drop for Inner {
    fn drop(&mut self) {
        let t = (Instant::now() - self.base).as_millis();
        self.log.borrow_mut().push(format!("{}", t));
    }
}

struct Svc {
    ti: Option<u64>,
    res: Result<u64, u64>,
    base: Instant,
    log: Rc<RefCell<Vec<String>>>,
}
impl Service<()> for Svc {
    type Response = u64;
    type Error = E;
    type Future = Inner;
    fn poll_ready(&mut self, _cx: &mut Context<'_>) -> Poll<Result<(), E>> {
        Poll::Ready(Ok(()))
    }
    fn call(&mut self, _: ()) -> Inner {
        Inner {
            // the inner work starts when the service is called
            sleep: self.ti.map(|t| Box::pin(tokio::time::sleep_until(self.base + Duration::from_millis(t)))),
            res: self.res,
            base: self.base,
            log: self.log.clone(),
        }
    }
}

fn run_case(line: &str) -> String {
    let f: Vec<&str> = line.split_whitespace().collect();
    // d may exceed u64 milliseconds (Duration::MAX is about 1.8e22 ms)
    let d: u128 = f[0].parse().unwrap();
    let d = Duration::new((d / 1000) as u64, ((d % 1000) * 1_000_000) as u32);
    let p0: u64 = f[1].parse().unwrap();
    let ti: Option<u64> = if f[2] == "-" { None } else { Some(f[2].parse().unwrap()) };
    let v: u64 = f[3][1..].parse().unwrap();
    let res = if f[3].starts_with('O') { Ok(v) } else { Err(v) };
    let hand = f.get(4).map(|x| *x == "1").unwrap_or(false);
    let rt = tokio::runtime::Builder::new_current_thread().enable_time().start_paused(true).build().unwrap();
    let log = Rc::new(RefCell::new(Vec::new()));
    let log2 = log.clone();
    let (out, at) = rt.block_on(async move {
        let base = Instant::now();
        let svc = Svc { ti, res, base, log: log2 };
        let mut svc = TimeoutLayer::new(|| E::Timeout, d).layer(svc);
        let fut = svc.call(()); // timer is armed here
        if p0 > 0 {
            tokio::time::sleep(Duration::from_millis(p0)).await;
        }
        let mut fut = Box::pin(fut);
        let mut early = None;
        if hand {
            // first poll by "another task": a waker nobody listens to
            let w = futures_util::task::noop_waker();
            let mut cx = Context::from_waker(&w);
            if let Poll::Ready(r) = fut.as_mut().poll(&mut cx) {
                early = Some(r);
            }
        }
        let r = match early {
            Some(r) => Ok(r),
            None => tokio::time::timeout(Duration::from_millis(50_000_000), fut).await,
        };
        let at = (Instant::now() - base).as_millis();
        (r, at)
    });
    let dropped = log.borrow().first().cloned().unwrap_or_else(|| "-".into());
    match out {
        Err(_) => format!("HANG - {} 0", dropped),
        Ok(Ok(v)) => format!("INNER O{} {} {} 0", v, at, dropped),
        Ok(Err(E::Inner(e))) => format!("INNER E{} {} {} 0", e, at, dropped),
        Ok(Err(E::Timeout)) => format!("TIMEOUT {} {} 0", at, dropped),
    }
}

fn main() {
    std::panic::set_hook(Box::new(|_| {}));
    let mut w = out();
    for line in read_cases() {
        let l = line.clone();
        match catch(move || run_case(&l)) {
            Ok(s) => emit(&mut w, &s),
            Err(m) => emit(&mut w, &format!("PANIC {} - - 0", m.replace(' ', "_"))),
        }
    }
}
