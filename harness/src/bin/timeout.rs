//! C19 (first half): drives the public TimeoutLayer around a scripted inner service under
//! tokio's paused clock.
//!
//! case line: <d ms> <p0 ms> <ti ms|-> <O<v>|E<e>> [<handover 0|1>] [B | S<t1,t2,...>]
//!   S: the driving task additionally polls the future at the instants t1,t2,... (spurious polls: sleeps polled next to
//!   the future by the same task, so their expiry wakes the task and the future is polled again although neither the inner
//!   future nor the deadline fired)
//!   B: the same deadline through the public client Builder (`Client::builder().with_timeout(d)`) over the in-process duplex
//!   transport against a server whose handler answers after ti (never for '-'); p0 and handover do not apply; the instant
//!   at which the inner future was dropped is not observable there ('-')
//!   BR: as B, with the standard redirect policy switched on and a handler that answers `/` after ti/2 with a redirect
//!   to `/next`, which answers after the rest of ti (ti '-': the redirect comes after 1 ms and `/next` never answers): the
//!   deadline is one deadline for the whole request as the caller issued it, every hop included
//!   handover 1: the first poll (at p0) is made by hand with a throw-away waker; the future is then awaited by the
//!   main task (another waker), which only polls it when woken
//! output:    <INNER O<v>|INNER E<e>|TIMEOUT|HANG|PANIC> <resolved at ms|-> <inner dropped at ms|-> <inner polls after drop/ready: 0>
use std::cell::RefCell;
use std::future::Future;
use std::pin::Pin;
use std::rc::Rc;
use std::task::{Context, Poll};
use std::time::Duration;

use hd_harness::*;
use hyperdriver::service::TimeoutLayer;
use tokio::time::{Instant, Sleep};
use tower::{Layer, Service};

#[derive(Debug, PartialEq)]
enum E {
    Timeout,
    Inner(u64),
}

struct Inner {
    sleep: Option<Pin<Box<Sleep>>>,
    res: Result<u64, u64>,
    base: Instant,
    log: Rc<RefCell<Vec<String>>>,
}
impl Future for Inner {
    type Output = Result<u64, E>;
    fn poll(mut self: Pin<&mut Self>, cx: &mut Context<'_>) -> Poll<Self::Output> {
        match self.sleep.as_mut() {
            None => Poll::Pending,
            Some(s) => match s.as_mut().poll(cx) {
                Poll::Pending => Poll::Pending,
                Poll::Ready(()) => Poll::Ready(self.res.map_err(E::Inner)),
            },
        }
    }
}
impl Drop for Inner {
    fn drop(&mut self) {
        let t = (Instant::now() - self.base).as_millis();
        self.log.borrow_mut().push(format!("{}", t));
    }
}

struct Svc {
    ti: Option<u64>,
    res: Result<u64, u64>,
    base: Instant,
    log: Rc<RefCell<Vec<String>>>,
}
impl Service<()> for Svc {
    type Response = u64;
    type Error = E;
    type Future = Inner;
    fn poll_ready(&mut self, _cx: &mut Context<'_>) -> Poll<Result<(), E>> {
        Poll::Ready(Ok(()))
    }
    fn call(&mut self, _: ()) -> Inner {
        Inner {
            // the inner work starts when the service is called
            sleep: self.ti.map(|t| Box::pin(tokio::time::sleep_until(self.base + Duration::from_millis(t)))),
            res: self.res,
            base: self.base,
            log: self.log.clone(),
        }
    }
}

type BoxError = Box<dyn std::error::Error + Send + Sync + 'static>;

async fn answer(ti: Option<u64>, v: u64, redir: bool, req: http::Request<hyperdriver::Body>) -> Result<http::Response<hyperdriver::Body>, BoxError> {
    if redir {
        let (t1, t2) = match ti {
            Some(t) => (t / 2, Some(t - t / 2)),
            None => (1, None),
        };
        if req.uri().path() == "/" {
            tokio::time::sleep(Duration::from_millis(t1)).await;
            return Ok(http::Response::builder()
                .status(302)
                .header(http::header::LOCATION, "/next")
                .body(hyperdriver::Body::empty())
                .unwrap());
        }
        match t2 {
            Some(t) => tokio::time::sleep(Duration::from_millis(t)).await,
            None => std::future::pending::<()>().await,
        }
        return Ok(http::Response::new(hyperdriver::Body::from(v.to_string())));
    }
    match ti {
        Some(t) => tokio::time::sleep(Duration::from_millis(t)).await,
        None => std::future::pending::<()>().await,
    }
    Ok(http::Response::new(hyperdriver::Body::from(v.to_string())))
}

fn run_builder(d: Duration, ti: Option<u64>, v: u64, redir: bool) -> String {
    use hyperdriver::client::conn::transport::duplex::DuplexTransport;
    use hyperdriver::server::conn::Acceptor;
    let rt = tokio::runtime::Builder::new_current_thread().enable_time().start_paused(true).build().unwrap();
    rt.block_on(async move {
        let (client_end, incoming) = hyperdriver::stream::duplex::pair();
        let make = hyperdriver::service::make_service_fn(move |_: &<Acceptor as hyperdriver::server::conn::Accept>::Conn| async move {
            Ok::<_, std::io::Error>(tower::service_fn(move |req: http::Request<hyperdriver::Body>| answer(ti, v, redir, req)))
        });
        let server = hyperdriver::server::Server::builder::<hyperdriver::Body>()
            .with_acceptor(Acceptor::from(incoming))
            .with_protocol(hyperdriver::server::conn::http1::Builder::new())
            .with_make_service(make)
            .with_tokio();
        let srv = tokio::spawn(async move {
            let _ = std::future::IntoFuture::into_future(server).await;
        });
        let b = hyperdriver::Client::builder()
            .with_transport(DuplexTransport::new(1 << 16, client_end))
            .with_auto_http()
            .with_pool(Default::default())
            .with_timeout(d);
        let mut client: hyperdriver::Client = if redir { b.with_standard_redirect_policy().build() } else { b.build() };
        let base = Instant::now();
        let req = http::Request::builder().uri("http://a.test/").body(hyperdriver::Body::empty()).unwrap();
        let r = tokio::time::timeout(Duration::from_millis(50_000_000), client.request(req)).await;
        let at = (Instant::now() - base).as_millis();
        srv.abort();
        match r {
            Err(_) => "HANG - - 0".to_string(),
            Ok(Ok(r)) if redir && r.status() != 200 => format!("INNER E{} {} - 0", r.status().as_u16(), at),
            Ok(Ok(_)) => format!("INNER O{} {} - 0", v, at),
            Ok(Err(hyperdriver::client::Error::RequestTimeout)) => format!("TIMEOUT {} - 0", at),
            Ok(Err(e)) => format!("INNER E{} {} - 0", format!("{e:?}").len() % 7, at),
        }
    })
}

fn run_case(line: &str) -> String {
    let f: Vec<&str> = line.split_whitespace().collect();
    if f.get(5) == Some(&"B") || f.get(5) == Some(&"BR") {
        let d: u128 = f[0].parse().unwrap();
        let d = Duration::new((d / 1000) as u64, ((d % 1000) * 1_000_000) as u32);
        let ti: Option<u64> = if f[2] == "-" { None } else { Some(f[2].parse().unwrap()) };
        return run_builder(d, ti, f[3][1..].parse().unwrap(), f[5] == "BR");
    }
    // d may exceed u64 milliseconds (Duration::MAX is about 1.8e22 ms)
    let d: u128 = f[0].parse().unwrap();
    let d = Duration::new((d / 1000) as u64, ((d % 1000) * 1_000_000) as u32);
    let p0: u64 = f[1].parse().unwrap();
    let ti: Option<u64> = if f[2] == "-" { None } else { Some(f[2].parse().unwrap()) };
    let v: u64 = f[3][1..].parse().unwrap();
    let res = if f[3].starts_with('O') { Ok(v) } else { Err(v) };
    let hand = f.get(4).map(|x| *x == "1").unwrap_or(false);
    let spurious: Vec<u64> = match f.get(5) {
        Some(x) if x.starts_with('S') => x[1..].split(',').filter(|y| !y.is_empty()).map(|y| y.parse().unwrap()).collect(),
        _ => Vec::new(),
    };
    let rt = tokio::runtime::Builder::new_current_thread().enable_time().start_paused(true).build().unwrap();
    let log = Rc::new(RefCell::new(Vec::new()));
    let log2 = log.clone();
    let (out, at) = rt.block_on(async move {
        let base = Instant::now();
        let svc = Svc { ti, res, base, log: log2 };
        let mut svc = TimeoutLayer::new(|| E::Timeout, d).layer(svc);
        let fut = svc.call(()); // timer is armed here
        if p0 > 0 {
            tokio::time::sleep(Duration::from_millis(p0)).await;
        }
        let mut fut = Box::pin(fut);
        let mut early = None;
        if hand {
            // first poll by "another task": a waker nobody listens to
            let w = futures_util::task::noop_waker();
            let mut cx = Context::from_waker(&w);
            if let Poll::Ready(r) = fut.as_mut().poll(&mut cx) {
                early = Some(r);
            }
        }
        // spurious polls: timers owned by the driving task, polled next to the future
        let mut extra: Vec<Pin<Box<Sleep>>> =
            spurious.iter().map(|t| Box::pin(tokio::time::sleep_until(base + Duration::from_millis(*t)))).collect();
        let driven = std::future::poll_fn(move |cx| {
            extra.retain_mut(|s| s.as_mut().poll(cx).is_pending());
            fut.as_mut().poll(cx)
        });
        let r = match early {
            Some(r) => Ok(r),
            None => tokio::time::timeout(Duration::from_millis(50_000_000), driven).await,
        };
        let at = (Instant::now() - base).as_millis();
        (r, at)
    });
    let dropped = log.borrow().first().cloned().unwrap_or_else(|| "-".into());
    match out {
        Err(_) => format!("HANG - {} 0", dropped),
        Ok(Ok(v)) => format!("INNER O{} {} {} 0", v, at, dropped),
        Ok(Err(E::Inner(e))) => format!("INNER E{} {} {} 0", e, at, dropped),
        Ok(Err(E::Timeout)) => format!("TIMEOUT {} {} 0", at, dropped),
    }
}

fn main() {
    std::panic::set_hook(Box::new(|_| {}));
    let mut w = out();
    for line in read_cases() {
        let l = line.clone();
        match catch(move || run_case(&l)) {
            Ok(s) => emit(&mut w, &s),
            Err(m) => emit(&mut w, &format!("PANIC {} - - 0", m.replace(' ', "_"))),
        }
    }
}
