//! C10/C11 glue: drives the REAL `TcpTransport::connect_to_addrs` (hence `TcpConnecting::connect`,
//! src/client/conn/transport/tcp.rs) over 127.0.0.1 with a mix of listening and refusing local
//! ports, and captures the parameters the library hands to `EyeballSet::new` from the library's own
//! trace events (`trace!(?delay, timeout=?.., "happy eyeballs")`, "Starting {} connection attempts")
//! with a hand-written `tracing::Subscriber`.  No hook in /repo is involved.
//!
//! case line:  <timeout ns|-> <concurrency|-> <pattern|->     pattern over {L = listening, C = refusing}
//! output:     <delay ns|none|?>;<timeout ns|none|?>;<attempts|?>;<OK i|ERR-timeout|ERR-exhausted|ERR-other|HANG|PANIC msg>
//!             `?` = the trace event was not emitted (e.g. a panic before it)
//!
//! listening = a std TcpListener kept alive for the case (connects complete in the backlog);
//! refusing  = a socket that is bound but never listens, kept alive for the case: connecting to it
//!             is refused at once, nobody else can take the port meanwhile and the kernel cannot
//!             pick it as a source port (no loopback self-connect).
use std::fmt::Debug;
use std::net::{SocketAddr, TcpListener};
use std::panic::AssertUnwindSafe;
use std::sync::Mutex;
use std::time::Duration;

use hd_harness::*;
use hyperdriver::client::conn::dns::GaiResolver;
use hyperdriver::client::conn::transport::tcp::{TcpTransport, TcpTransportConfig};
use hyperdriver::stream::tcp::TcpStream;
use tracing::field::{Field, Visit};
use tracing::{span, Event, Metadata, Subscriber};

static EVENTS: Mutex<Vec<(String, Vec<(String, String)>)>> = Mutex::new(Vec::new());

struct Rec;

#[derive(Default)]
struct V {
    msg: String,
    fields: Vec<(String, String)>,
}

impl Visit for V {
    fn record_debug(&mut self, f: &Field, v: &dyn Debug) {
        let s = format!("{:?}", v);
        if f.name() == "message" {
            self.msg = s;
        } else {
            self.fields.push((f.name().to_string(), s));
        }
    }
}

impl Subscriber for Rec {
    fn enabled(&self, m: &Metadata<'_>) -> bool {
        m.target().starts_with("hyperdriver")
    }
    fn new_span(&self, _: &span::Attributes<'_>) -> span::Id {
        span::Id::from_u64(1)
    }
    fn record(&self, _: &span::Id, _: &span::Record<'_>) {}
    fn record_follows_from(&self, _: &span::Id, _: &span::Id) {}
    fn event(&self, e: &Event<'_>) {
        let mut v = V::default();
        e.record(&mut v);
        EVENTS.lock().unwrap().push((v.msg, v.fields));
    }
    fn enter(&self, _: &span::Id) {}
    fn exit(&self, _: &span::Id) {}
}

/// exact value in ns of the `Debug` rendering of a `Duration` ("1.5s", "333.333333ms", "7µs", "12ns")
fn parse_duration_ns(s: &str) -> Option<u128> {
    let (num, scale_digits) = if let Some(x) = s.strip_suffix("ms") {
        (x, 6)
    } else if let Some(x) = s.strip_suffix("µs") {
        (x, 3)
    } else if let Some(x) = s.strip_suffix("ns") {
        (x, 0)
    } else if let Some(x) = s.strip_suffix('s') {
        (x, 9)
    } else {
        return None;
    };
    let (ip, fp) = match num.split_once('.') {
        Some((a, b)) => (a, b),
        None => (num, ""),
    };
    if fp.len() > scale_digits || ip.is_empty() || !ip.bytes().all(|b| b.is_ascii_digit()) || !fp.bytes().all(|b| b.is_ascii_digit()) {
        return None;
    }
    let mut frac = fp.to_string();
    while frac.len() < scale_digits {
        frac.push('0');
    }
    let i: u128 = ip.parse().ok()?;
    let f: u128 = if frac.is_empty() { 0 } else { frac.parse().ok()? };
    Some(i * 10u128.pow(scale_digits as u32) + f)
}

/// "None" | "Some(<duration>)" -> "none" | "<ns>"
fn show_opt_duration(s: &str) -> String {
    if s == "None" {
        return "none".into();
    }
    s.strip_prefix("Some(")
        .and_then(|x| x.strip_suffix(')'))
        .and_then(parse_duration_ns)
        .map(|n| n.to_string())
        .unwrap_or_else(|| format!("unparsed:{}", s.replace([';', ' '], "_")))
}

fn main() {
    tracing::subscriber::set_global_default(Rec).expect("subscriber");
    let mut w = out();
    for line in read_cases() {
        let f: Vec<&str> = line.split_whitespace().collect();
        let timeout: Option<u64> = (f[0] != "-").then(|| f[0].parse().unwrap());
        let conc: Option<usize> = (f[1] != "-").then(|| f[1].parse().unwrap());
        let pattern = if f[2] == "-" { "" } else { f[2] };

        let mut keep_l: Vec<TcpListener> = Vec::new();
        let mut keep_c: Vec<tokio::net::TcpSocket> = Vec::new();
        let mut addrs: Vec<SocketAddr> = Vec::new();
        for ch in pattern.chars() {
            match ch {
                'L' => {
                    let l = TcpListener::bind("127.0.0.1:0").expect("bind");
                    addrs.push(l.local_addr().unwrap());
                    keep_l.push(l);
                }
                'C' => {
                    let s = tokio::net::TcpSocket::new_v4().expect("socket");
                    s.bind("127.0.0.1:0".parse().unwrap()).expect("bind");
                    addrs.push(s.local_addr().unwrap());
                    keep_c.push(s);
                }
                _ => panic!("bad pattern"),
            }
        }

        EVENTS.lock().unwrap().clear();
        let addrs2 = addrs.clone();
        let res = std::panic::catch_unwind(AssertUnwindSafe(move || {
            let rt = tokio::runtime::Builder::new_current_thread().enable_all().build().unwrap();
            rt.block_on(async move {
                let mut cfg = TcpTransportConfig::default();
                cfg.happy_eyeballs_timeout = timeout.map(Duration::from_nanos);
                cfg.happy_eyeballs_concurrency = conc;
                let t: TcpTransport<GaiResolver, TcpStream> =
                    TcpTransport::builder().with_config(cfg).with_gai_resolver().build();
                tokio::time::timeout(Duration::from_secs(20), t.connect_to_addrs(addrs2)).await
            })
        }));
        let class = match res {
            Ok(Ok(Ok(stream))) => match stream.peer_addr().ok().and_then(|p| addrs.iter().position(|a| *a == p)) {
                Some(i) => format!("OK {}", i),
                None => "ERR-other unknown-peer".to_string(),
            },
            Ok(Ok(Err(e))) => {
                let m = e.to_string();
                if m.starts_with("Connection attempts timed out after ") && m.ends_with("ms") {
                    "ERR-timeout".to_string()
                } else if m == "Exhausted connection candidates" {
                    "ERR-exhausted".to_string()
                } else {
                    "ERR-other".to_string()
                }
            }
            Ok(Err(_)) => "HANG".to_string(),
            Err(p) => {
                let msg = if let Some(s) = p.downcast_ref::<&str>() {
                    s.to_string()
                } else if let Some(s) = p.downcast_ref::<String>() {
                    s.clone()
                } else {
                    "panic".to_string()
                };
                format!("PANIC {}", msg.replace(['\n', ';'], " "))
            }
        };
        let (mut delay, mut tmo, mut n) = ("?".to_string(), "?".to_string(), "?".to_string());
        for (msg, fields) in EVENTS.lock().unwrap().iter() {
            if msg == "happy eyeballs" {
                for (k, v) in fields {
                    match k.as_str() {
                        "delay" => delay = show_opt_duration(v),
                        "timeout" => tmo = show_opt_duration(v),
                        _ => {}
                    }
                }
            } else if let Some(x) = msg.strip_prefix("Starting ").and_then(|x| x.strip_suffix(" connection attempts")) {
                n = x.to_string();
            }
        }
        drop(keep_l);
        drop(keep_c);
        emit(&mut w, &format!("{};{};{};{}", delay, tmo, n, class));
    }
}
