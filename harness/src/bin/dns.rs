//! C16: drives SocketAddrs::{set_port, sort_preferred, pop} and TcpTransport::connecting
//! through the verif-hooks wrappers.
//!
//! case line:  <mode> <bind4> <bind6> <he> <port> <addr>,<addr>,...    addr = 4:<id>:<port> | 6:<id>:<port>  (IPv6 id = low + 64*scope_id + 4096*flowinfo)
//!   mode s = raw sort_preferred with prefer in bind4 field (4|6|n), he = sort flag
//!   mode t = TcpTransport::verif_attempt_order with config (bind4, bind6, he_timeout set?)
//! output line: same addr syntax, comma separated ("-" for empty)
use std::net::{IpAddr, Ipv4Addr, Ipv6Addr, SocketAddr};
use std::time::Duration;

use hd_harness::*;
use hyperdriver::client::conn::dns::{GaiResolver, IpVersion};
use hyperdriver::client::conn::transport::tcp::{TcpTransport, TcpTransportConfig};
use hyperdriver::stream::tcp::TcpStream;

fn parse_addr(s: &str) -> SocketAddr {
    let mut it = s.split(':');
    let fam = it.next().unwrap();
    let id: u32 = it.next().unwrap().parse().unwrap();
    let port: u16 = it.next().unwrap().parse().unwrap();
    match fam {
        "4" => SocketAddr::new(IpAddr::V4(Ipv4Addr::from(0x0a00_0000u32 + id)), port),
        // id = low + 64 * scope_id + 4096 * flowinfo: zoned / flow-labelled IPv6 addresses are distinct addresses
        // low ids 48..63 are IPv4-mapped IPv6 addresses (::ffff:10.0.1.<low>): still IPv6 socket addresses for the dialer
        "6" => SocketAddr::V6(std::net::SocketAddrV6::new(
            if id % 64 >= 48 { Ipv4Addr::new(10, 0, 1, (id % 64) as u8).to_ipv6_mapped() } else { Ipv6Addr::from((0xfd00u128 << 112) + (id % 64) as u128) },
            port,
            id / 4096,
            (id / 64) % 64,
        )),
        _ => panic!("bad family"),
    }
}

fn show_addr(a: &SocketAddr) -> String {
    match a.ip() {
        IpAddr::V4(ip) => format!("4:{}:{}", u32::from(ip) - 0x0a00_0000u32, a.port()),
        IpAddr::V6(ip) => {
            let (scope, flow) = match a {
                SocketAddr::V6(v6) => (v6.scope_id(), v6.flowinfo()),
                _ => (0, 0),
            };
            let low = match ip.to_ipv4_mapped() {
                Some(v4) => v4.octets()[3] as u32,
                None => (u128::from(ip) - (0xfd00u128 << 112)) as u32,
            };
            format!("6:{}:{}", low + 64 * scope + 4096 * flow, a.port())
        }
    }
}

fn main() {
    let mut w = out();
    for line in read_cases() {
        let f: Vec<&str> = line.split_whitespace().collect();
        let mode = f[0];
        let addrs: Vec<SocketAddr> = if f[5] == "-" {
            vec![]
        } else {
            f[5].split(',').map(parse_addr).collect()
        };
        let port: u16 = f[4].parse().unwrap();
        let he = f[3] == "1";
        let res = catch(move || match mode {
            "s" => {
                let prefer = match f[1] {
                    "4" => Some(IpVersion::V4),
                    "6" => Some(IpVersion::V6),
                    _ => None,
                };
                hyperdriver::verif_hooks::sort_preferred(addrs, prefer, Some(port), he)
            }
            "t" => {
                let mut cfg = TcpTransportConfig::default();
                // "1" = a loopback local address, "2" = the wildcard (0.0.0.0 / ::): a configured local address of a
                // family is a configured local address, whatever its value
                cfg.local_address_ipv4 = match f[1] { "1" => Some(Ipv4Addr::LOCALHOST), "2" => Some(Ipv4Addr::UNSPECIFIED), _ => None };
                cfg.local_address_ipv6 = match f[2] { "1" => Some(Ipv6Addr::LOCALHOST), "2" => Some(Ipv6Addr::UNSPECIFIED), _ => None };
                cfg.happy_eyeballs_timeout = he.then_some(Duration::from_millis(300));
                let t: TcpTransport<GaiResolver, TcpStream> = TcpTransport::builder()
                    .with_config(cfg)
                    .with_gai_resolver()
                    .build();
                t.verif_attempt_order(addrs, port)
            }
            _ => panic!("bad mode"),
        });
        match res {
            Ok(v) if v.is_empty() => emit(&mut w, "-"),
            Ok(v) => emit(
                &mut w,
                &v.iter().map(show_addr).collect::<Vec<_>>().join(","),
            ),
            Err(m) => emit(&mut w, &format!("PANIC {}", m.replace('\n', " "))),
        }
    }
}
