//! M-CKPHASE correspondence harness (C14, two-phase dial): drives the real `ConnectionPoolService`
//! through its public API with a GATED transport and a GATED protocol handshake (own transport,
//! protocol, connection and inner-service types), one origin, HTTP/1 connections, under manual polling
//! inside one current-thread `block_on`; spawned tasks run to quiescence after every operation.
//!
//! case line:  <cont 0|1> ; op op op ...
//!   ops: I        issue a request (ids 0,1,2,... in issue order)
//!        P<r>     poll request r once (ignored once r is served / finished)
//!        T<r>.<o|f>  the transport future of r's dial resolves ok / with an error
//!        H<r>.<o|f>  the protocol handshake of r's dial resolves ok / with an error
//!                    (T: accepted once connect was called, while unresolved and the dial is alive;
//!                     H: accepted once the transport resolved ok, while unresolved and the dial is alive)
//!        R<c>     the request holding connection c completes and c is ready again
//!        X<r>     drop the future of request r (only while it is still in its checkout)
//! output: one line per case; per op `events # idle ids;live;closed;connects`, ops separated by " | ".
//!   events: start:r  new:c:r  hand:r:c  fail:r:<t|h>  pend:r  drop:r
use std::collections::HashMap;
use std::future::Future;
use std::pin::Pin;
use std::sync::atomic::{AtomicBool, Ordering};
use std::sync::{Arc, Mutex};
use std::task::{Context, Poll, Wake, Waker};

use bytes::Bytes;
use hd_harness::*;
use http_body_util::Empty;
use hyperdriver::client::conn::connection::ConnectionError;
use hyperdriver::client::conn::protocol::ProtocolRequest;
use hyperdriver::client::conn::Connection;
use hyperdriver::client::pool::{PoolableConnection, PoolableStream, Pooled};
use hyperdriver::client::{ConnectionPoolService, PoolConfig};
use hyperdriver::info::{ConnectionInfo, HasConnectionInfo};
use hyperdriver::service::ExecuteRequest;

type B = Empty<Bytes>;

#[derive(Debug)]
struct HErr(&'static str);
impl std::fmt::Display for HErr {
    fn fmt(&self, f: &mut std::fmt::Formatter<'_>) -> std::fmt::Result {
        f.write_str(self.0)
    }
}
impl std::error::Error for HErr {}

#[derive(Default)]
struct Dial {
    t: Option<bool>,
    h: Option<bool>,
    waker: Option<Waker>,
    alive: bool,
}

struct Conn {
    ready: bool,
    holders: usize,
    wakers: Vec<Waker>,
}

#[derive(Default)]
struct Req {
    finish: bool,
    holding: Option<usize>,
}

#[derive(Default)]
struct World {
    events: Vec<String>,
    dials: HashMap<usize, Dial>,
    conns: Vec<Conn>,
    reqs: Vec<Req>,
    connects: usize,
    done: bool,
}
impl World {
    fn ev(&mut self, s: String) {
        if !self.done {
            self.events.push(s);
        }
    }
}
type W = Arc<Mutex<World>>;

fn rid_of(uri: &http::Uri) -> usize {
    uri.path().trim_start_matches("/r").parse().unwrap_or(usize::MAX)
}

// ------------------------------------------------------------------ transport (gated)
#[derive(Clone)]
struct HT {
    w: W,
}
struct HStream {
    rid: usize,
}
#[derive(Debug, Clone)]
struct Addr;
impl std::fmt::Display for Addr {
    fn fmt(&self, f: &mut std::fmt::Formatter<'_>) -> std::fmt::Result {
        f.write_str("harness")
    }
}
impl HasConnectionInfo for HStream {
    type Addr = Addr;
    fn info(&self) -> ConnectionInfo<Addr> {
        ConnectionInfo { local_addr: Addr, remote_addr: Addr }
    }
}
impl PoolableStream for HStream {
    fn can_share(&self) -> bool {
        false
    }
}
struct DialFut {
    w: W,
    rid: usize,
    consumed: bool,
}
impl Future for DialFut {
    type Output = Result<HStream, HErr>;
    fn poll(mut self: Pin<&mut Self>, cx: &mut Context<'_>) -> Poll<Self::Output> {
        let rid = self.rid;
        let mut w = self.w.lock().unwrap();
        let d = w.dials.get_mut(&rid).unwrap();
        match d.t {
            None => {
                d.waker = Some(cx.waker().clone());
                Poll::Pending
            }
            Some(true) => {
                d.waker = None;
                drop(w);
                self.consumed = true;
                Poll::Ready(Ok(HStream { rid }))
            }
            Some(false) => {
                d.waker = None;
                d.alive = false;
                drop(w);
                self.consumed = true;
                Poll::Ready(Err(HErr("dialfail")))
            }
        }
    }
}
impl Drop for DialFut {
    fn drop(&mut self) {
        if !self.consumed {
            let mut w = self.w.lock().unwrap();
            let rid = self.rid;
            if let Some(d) = w.dials.get_mut(&rid) {
                d.alive = false;
                d.waker = None;
            }
            w.ev(format!("drop:{}", rid));
        }
    }
}
impl tower::Service<http::request::Parts> for HT {
    type Response = HStream;
    type Error = HErr;
    type Future = DialFut;
    fn poll_ready(&mut self, _: &mut Context<'_>) -> Poll<Result<(), HErr>> {
        Poll::Ready(Ok(()))
    }
    fn call(&mut self, parts: http::request::Parts) -> DialFut {
        let rid = rid_of(&parts.uri);
        let mut w = self.w.lock().unwrap();
        w.connects += 1;
        w.ev(format!("start:{}", rid));
        w.dials.insert(rid, Dial { alive: true, ..Dial::default() });
        DialFut { w: self.w.clone(), rid, consumed: false }
    }
}

// ------------------------------------------------------------------ protocol (gated handshake) + connection
#[derive(Clone)]
struct HP {
    w: W,
}
struct HC {
    w: W,
    id: usize,
}
struct HsFut {
    w: W,
    rid: usize,
    consumed: bool,
}
impl Future for HsFut {
    type Output = Result<HC, ConnectionError>;
    fn poll(mut self: Pin<&mut Self>, cx: &mut Context<'_>) -> Poll<Self::Output> {
        let rid = self.rid;
        let mut w = self.w.lock().unwrap();
        let h = w.dials.get(&rid).unwrap().h;
        match h {
            None => {
                w.dials.get_mut(&rid).unwrap().waker = Some(cx.waker().clone());
                Poll::Pending
            }
            Some(true) => {
                let id = w.conns.len();
                w.conns.push(Conn { ready: true, holders: 0, wakers: vec![] });
                let d = w.dials.get_mut(&rid).unwrap();
                d.alive = false;
                d.waker = None;
                w.ev(format!("new:{}:{}", id, rid));
                drop(w);
                self.consumed = true;
                Poll::Ready(Ok(HC { w: self.w.clone(), id }))
            }
            Some(false) => {
                let d = w.dials.get_mut(&rid).unwrap();
                d.alive = false;
                d.waker = None;
                drop(w);
                self.consumed = true;
                Poll::Ready(Err(ConnectionError::Handshake(Box::new(HErr("hsfail")))))
            }
        }
    }
}
impl Drop for HsFut {
    fn drop(&mut self) {
        if !self.consumed {
            let mut w = self.w.lock().unwrap();
            let rid = self.rid;
            if let Some(d) = w.dials.get_mut(&rid) {
                d.alive = false;
                d.waker = None;
            }
            w.ev(format!("drop:{}", rid));
        }
    }
}
impl tower::Service<ProtocolRequest<HStream, B>> for HP {
    type Response = HC;
    type Error = ConnectionError;
    type Future = HsFut;
    fn poll_ready(&mut self, _: &mut Context<'_>) -> Poll<Result<(), ConnectionError>> {
        Poll::Ready(Ok(()))
    }
    fn call(&mut self, req: ProtocolRequest<HStream, B>) -> Self::Future {
        HsFut { w: self.w.clone(), rid: req.transport.rid, consumed: false }
    }
}
impl Connection<B> for HC {
    type ResBody = B;
    type Error = HErr;
    type Future = std::future::Ready<Result<http::Response<B>, HErr>>;
    fn send_request(&mut self, _request: http::Request<B>) -> Self::Future {
        std::future::ready(Err(HErr("unused")))
    }
    fn poll_ready(&mut self, cx: &mut Context<'_>) -> Poll<Result<(), HErr>> {
        let mut w = self.w.lock().unwrap();
        if w.conns[self.id].ready {
            return Poll::Ready(Ok(()));
        }
        w.conns[self.id].wakers.push(cx.waker().clone());
        Poll::Pending
    }
    fn version(&self) -> http::Version {
        http::Version::HTTP_11
    }
}
impl PoolableConnection<B> for HC {
    fn is_open(&self) -> bool {
        self.w.lock().unwrap().conns[self.id].ready
    }
    fn can_share(&self) -> bool {
        false
    }
    fn reuse(&mut self) -> Option<Self> {
        None
    }
}

// ------------------------------------------------------------------ inner service
#[derive(Clone)]
struct Svc {
    w: W,
}
struct HoldFut {
    w: W,
    rid: usize,
    cid: usize,
    _pooled: Pooled<HC, B>,
}
impl Future for HoldFut {
    type Output = Result<http::Response<B>, hyperdriver::client::Error>;
    fn poll(self: Pin<&mut Self>, _cx: &mut Context<'_>) -> Poll<Self::Output> {
        let w = self.w.lock().unwrap();
        if w.reqs[self.rid].finish {
            Poll::Ready(Ok(http::Response::new(Empty::new())))
        } else {
            Poll::Pending
        }
    }
}
impl Drop for HoldFut {
    fn drop(&mut self) {
        let mut w = self.w.lock().unwrap();
        let (rid, cid) = (self.rid, self.cid);
        w.conns[cid].holders -= 1;
        w.reqs[rid].holding = None;
    }
}
impl tower::Service<ExecuteRequest<Pooled<HC, B>, B>> for Svc {
    type Response = http::Response<B>;
    type Error = hyperdriver::client::Error;
    type Future = HoldFut;
    fn poll_ready(&mut self, _: &mut Context<'_>) -> Poll<Result<(), Self::Error>> {
        Poll::Ready(Ok(()))
    }
    fn call(&mut self, req: ExecuteRequest<Pooled<HC, B>, B>) -> HoldFut {
        let (pooled, request) = req.into_parts();
        let rid = rid_of(request.uri());
        let cid = pooled.id;
        let mut w = self.w.lock().unwrap();
        w.ev(format!("hand:{}:{}", rid, cid));
        w.conns[cid].ready = false;
        w.conns[cid].holders += 1;
        w.reqs[rid].holding = Some(cid);
        HoldFut { w: self.w.clone(), rid, cid, _pooled: pooled }
    }
}

// ------------------------------------------------------------------ driver
struct Flag(AtomicBool);
impl Wake for Flag {
    fn wake(self: Arc<Self>) {
        self.0.store(true, Ordering::SeqCst);
    }
    fn wake_by_ref(self: &Arc<Self>) {
        self.0.store(true, Ordering::SeqCst);
    }
}

type Svc0 = ConnectionPoolService<HT, HP, Svc, B>;
type RFut = Pin<Box<<Svc0 as tower::Service<http::Request<B>>>::Future>>;

async fn settle() {
    for _ in 0..8 {
        tokio::task::yield_now().await;
    }
}

fn poll_once(f: &mut RFut) -> Poll<Result<http::Response<B>, hyperdriver::client::Error>> {
    let waker = Waker::from(Arc::new(Flag(AtomicBool::new(false))));
    let mut cx = Context::from_waker(&waker);
    f.as_mut().poll(&mut cx)
}

async fn run_case(line: String) -> String {
    let (cfg, ops) = line.split_once(';').unwrap_or((line.as_str(), ""));
    let mut config = PoolConfig::default();
    config.idle_timeout = None;
    config.max_idle_per_host = 64;
    config.continue_after_preemption = cfg.trim() == "1";

    let w: W = Arc::new(Mutex::new(World::default()));
    let mut svc: Svc0 = ConnectionPoolService::new(HT { w: w.clone() }, HP { w: w.clone() }, Svc { w: w.clone() }, config);
    let mut futs: Vec<Option<RFut>> = Vec::new();
    let mut out: Vec<String> = Vec::new();

    for op in ops.split_whitespace() {
        let (k, rest) = op.split_at(1);
        match k {
            "I" => {
                let rid = futs.len();
                let mut req = http::Request::new(Empty::<Bytes>::new());
                *req.uri_mut() = format!("http://a.test/r{}", rid).parse().unwrap();
                *req.version_mut() = http::Version::HTTP_11;
                w.lock().unwrap().reqs.push(Req::default());
                let fut = tower::Service::call(&mut svc, req);
                futs.push(Some(Box::pin(fut)));
            }
            "P" => {
                let r: usize = rest.parse().unwrap();
                let holding = w.lock().unwrap().reqs.get(r).map(|q| q.holding.is_some()).unwrap_or(false);
                if !holding {
                    if let Some(Some(f)) = futs.get_mut(r) {
                        match poll_once(f) {
                            Poll::Pending => {
                                let holding = w.lock().unwrap().reqs[r].holding.is_some();
                                if !holding {
                                    w.lock().unwrap().ev(format!("pend:{}", r));
                                }
                            }
                            Poll::Ready(res) => {
                                futs[r] = None;
                                let cls = match &res {
                                    Ok(_) => "ok".to_string(),
                                    Err(e) => {
                                        let s = format!("{e}");
                                        if s.contains("dialfail") {
                                            "t".to_string()
                                        } else if s.contains("hsfail") {
                                            "h".to_string()
                                        } else {
                                            format!("other({})", s.replace(' ', "_"))
                                        }
                                    }
                                };
                                w.lock().unwrap().ev(format!("fail:{}:{}", r, cls));
                            }
                        }
                    }
                }
            }
            "X" => {
                let r: usize = rest.parse().unwrap();
                let holding = w.lock().unwrap().reqs.get(r).map(|q| q.holding.is_some()).unwrap_or(false);
                if !holding {
                    if let Some(slot) = futs.get_mut(r) {
                        *slot = None;
                    }
                }
            }
            "T" | "H" => {
                let (r, o) = rest.split_once('.').unwrap();
                let r: usize = r.parse().unwrap();
                let ok = o == "o";
                let wk = {
                    let mut g = w.lock().unwrap();
                    match g.dials.get_mut(&r) {
                        Some(d) if d.alive && k == "T" && d.t.is_none() => {
                            d.t = Some(ok);
                            d.waker.take()
                        }
                        Some(d) if d.alive && k == "H" && d.t == Some(true) && d.h.is_none() => {
                            d.h = Some(ok);
                            d.waker.take()
                        }
                        _ => None,
                    }
                };
                if let Some(wk) = wk {
                    wk.wake();
                }
            }
            "R" => {
                let cid: usize = rest.parse().unwrap();
                let holder = {
                    let g = w.lock().unwrap();
                    g.reqs.iter().position(|q| q.holding == Some(cid))
                };
                if let Some(r) = holder {
                    w.lock().unwrap().reqs[r].finish = true;
                    if let Some(Some(f)) = futs.get_mut(r) {
                        if poll_once(f).is_ready() {
                            futs[r] = None;
                        }
                    }
                    let wk: Vec<Waker> = {
                        let mut g = w.lock().unwrap();
                        g.conns[cid].ready = true;
                        g.conns[cid].wakers.drain(..).collect()
                    };
                    for x in wk {
                        x.wake();
                    }
                }
            }
            _ => {}
        }
        settle().await;
        let (evs, connects): (Vec<String>, usize) = {
            let mut g = w.lock().unwrap();
            (g.events.drain(..).collect(), g.connects)
        };
        let snap = svc.verif_pool_snapshot(|c| c.id as u64);
        let mut idle: Vec<String> = vec![];
        let (mut live, mut closed) = (0, 0);
        for s in snap.iter() {
            idle.extend(s.idle.iter().map(|x| x.to_string()));
            live += s.waiters_live;
            closed += s.waiters_closed;
        }
        out.push(format!("{} # {};{};{};{}", evs.join(" "), idle.join(","), live, closed, connects));
    }
    w.lock().unwrap().done = true;
    drop(futs);
    drop(svc);
    out.join(" | ")
}

fn main() {
    let mut o = out();
    for line in read_cases() {
        let l2 = line.clone();
        let res = catch(move || {
            let rt = tokio::runtime::Builder::new_current_thread().build().unwrap();
            let r = rt.block_on(tokio::task::unconstrained(run_case(l2)));
            drop(rt);
            r
        });
        match res {
            Ok(s) => emit(&mut o, &s),
            Err(m) => emit(&mut o, &format!("PANIC {}", m.replace('\n', " "))),
        }
    }
}
