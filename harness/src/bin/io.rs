//! C18 / C08: drives the real byte-stream adapters (TokioIo both ways, Rewind, TlsBraid,
//! client/server Stream wrappers) and the protocol sniffer over a scripted inner stream.
//!
//! case line: <adapter> <prefix hex|-> <stream hex|-> <rscript|-> <wscript|-> <ops|->
//!   adapter: th | ht | thht | rw | braidN | braidT | cs | ss | sn (sniff, then ops on the rewound stream)
//!            dx:<cap> | dxt:<cap> | dxc:<cap> | dxs:<cap>: a REAL hyperdriver DuplexStream pair with a pipe of <cap>
//!            bytes (bare / under TlsBraid::NoTls / client Stream / server Stream); the scripts are ignored, the
//!            ops go to one end and "inner written" is what can be read at the other end afterwards
//!   rscript: P | E | D<k>, comma separated        wscript: P | E | A<k>
//!   ops: R<cap>.<prefill> | W<n> | V<n1>+<n2>+... | F | S
//! output: <op results, comma separated|->;<inner written hex|->;<sniff: H1|H2|ERR . pendings . prefix hex | ->
//!   op result: P | E | R<hex> | W<k> | OK | CORRUPT
#![allow(unsafe_code)]
use std::collections::VecDeque;
use std::io;
use std::mem::MaybeUninit;
use std::pin::Pin;
use std::task::{Context, Poll, RawWaker, RawWakerVTable, Waker};

use hd_harness::*;
use hyperdriver::bridge::io::TokioIo;
use hyperdriver::info::{ConnectionInfo, HasConnectionInfo};
use hyperdriver::stream::tls::TlsBraid;
use hyperdriver::verif_hooks::{verif_read_version, Rewind};

#[derive(Clone, Copy)]
enum Rd {
    P,
    E(usize),
    D(usize),
}
#[derive(Clone, Copy)]
enum Wr {
    P,
    E(usize),
    A(usize),
}

/// the kind of a scripted error: every kind must be propagated as an error (none may be swallowed or turned into EOF)
fn err_kind(k: usize) -> io::ErrorKind {
    [
        io::ErrorKind::Other,
        io::ErrorKind::UnexpectedEof,
        io::ErrorKind::ConnectionReset,
        io::ErrorKind::BrokenPipe,
        io::ErrorKind::ConnectionAborted,
        io::ErrorKind::TimedOut,
        io::ErrorKind::InvalidData,
    ][k % 7]
}

struct Scripted {
    stream: VecDeque<u8>,
    rscript: VecDeque<Rd>,
    wscript: VecDeque<Wr>,
    written: std::rc::Rc<std::cell::RefCell<Vec<u8>>>,
}

impl Scripted {
    fn do_read(&mut self, free: usize) -> Poll<io::Result<Vec<u8>>> {
        let n = match self.rscript.pop_front() {
            Some(Rd::P) => return Poll::Pending,
            Some(Rd::E(k)) => return Poll::Ready(Err(io::Error::new(err_kind(k), "scripted"))),
            Some(Rd::D(k)) => k.min(free),
            None => free,
        };
        let n = n.min(self.stream.len());
        Poll::Ready(Ok(self.stream.drain(..n).collect()))
    }
    fn do_write(&mut self, bufs: &[&[u8]]) -> Poll<io::Result<usize>> {
        let total: usize = bufs.iter().map(|b| b.len()).sum();
        let n = match self.wscript.pop_front() {
            Some(Wr::P) => return Poll::Pending,
            Some(Wr::E(k)) => return Poll::Ready(Err(io::Error::new(err_kind(k), "scripted"))),
            Some(Wr::A(k)) => k.min(total),
            None => total,
        };
        let mut left = n;
        let mut w = self.written.borrow_mut();
        for b in bufs {
            let take = left.min(b.len());
            w.extend_from_slice(&b[..take]);
            left -= take;
        }
        Poll::Ready(Ok(n))
    }
    fn do_flush(&mut self) -> Poll<io::Result<()>> {
        match self.wscript.pop_front() {
            Some(Wr::P) => Poll::Pending,
            Some(Wr::E(k)) => Poll::Ready(Err(io::Error::new(err_kind(k), "scripted"))),
            _ => Poll::Ready(Ok(())),
        }
    }
}

impl tokio::io::AsyncRead for Scripted {
    fn poll_read(mut self: Pin<&mut Self>, _cx: &mut Context<'_>, buf: &mut tokio::io::ReadBuf<'_>) -> Poll<io::Result<()>> {
        match self.do_read(buf.remaining()) {
            Poll::Pending => Poll::Pending,
            Poll::Ready(Err(e)) => Poll::Ready(Err(e)),
            Poll::Ready(Ok(bs)) => {
                buf.put_slice(&bs);
                Poll::Ready(Ok(()))
            }
        }
    }
}
impl tokio::io::AsyncWrite for Scripted {
    fn poll_write(mut self: Pin<&mut Self>, _cx: &mut Context<'_>, buf: &[u8]) -> Poll<io::Result<usize>> {
        self.do_write(&[buf])
    }
    fn poll_write_vectored(mut self: Pin<&mut Self>, _cx: &mut Context<'_>, bufs: &[io::IoSlice<'_>]) -> Poll<io::Result<usize>> {
        let v: Vec<&[u8]> = bufs.iter().map(|b| &**b).collect();
        self.do_write(&v)
    }
    fn is_write_vectored(&self) -> bool {
        true
    }
    fn poll_flush(mut self: Pin<&mut Self>, _cx: &mut Context<'_>) -> Poll<io::Result<()>> {
        self.do_flush()
    }
    fn poll_shutdown(mut self: Pin<&mut Self>, _cx: &mut Context<'_>) -> Poll<io::Result<()>> {
        self.do_flush()
    }
}
impl hyper::rt::Read for Scripted {
    fn poll_read(mut self: Pin<&mut Self>, _cx: &mut Context<'_>, mut buf: hyper::rt::ReadBufCursor<'_>) -> Poll<io::Result<()>> {
        let free = unsafe { buf.as_mut().len() };
        match self.do_read(free) {
            Poll::Pending => Poll::Pending,
            Poll::Ready(Err(e)) => Poll::Ready(Err(e)),
            Poll::Ready(Ok(bs)) => {
                buf.put_slice(&bs);
                Poll::Ready(Ok(()))
            }
        }
    }
}
impl hyper::rt::Write for Scripted {
    fn poll_write(mut self: Pin<&mut Self>, _cx: &mut Context<'_>, buf: &[u8]) -> Poll<io::Result<usize>> {
        self.do_write(&[buf])
    }
    fn poll_write_vectored(mut self: Pin<&mut Self>, _cx: &mut Context<'_>, bufs: &[io::IoSlice<'_>]) -> Poll<io::Result<usize>> {
        let v: Vec<&[u8]> = bufs.iter().map(|b| &**b).collect();
        self.do_write(&v)
    }
    fn is_write_vectored(&self) -> bool {
        true
    }
    fn poll_flush(mut self: Pin<&mut Self>, _cx: &mut Context<'_>) -> Poll<io::Result<()>> {
        self.do_flush()
    }
    fn poll_shutdown(mut self: Pin<&mut Self>, _cx: &mut Context<'_>) -> Poll<io::Result<()>> {
        self.do_flush()
    }
}
#[derive(Debug, Clone, Default)]
struct NoAddr;
impl std::fmt::Display for NoAddr {
    fn fmt(&self, f: &mut std::fmt::Formatter<'_>) -> std::fmt::Result {
        write!(f, "scripted")
    }
}
impl HasConnectionInfo for Scripted {
    type Addr = NoAddr;
    fn info(&self) -> ConnectionInfo<NoAddr> {
        ConnectionInfo { local_addr: NoAddr, remote_addr: NoAddr }
    }
}

fn noop_waker() -> Waker {
    fn clone(_: *const ()) -> RawWaker {
        RawWaker::new(std::ptr::null(), &VT)
    }
    fn noop(_: *const ()) {}
    static VT: RawWakerVTable = RawWakerVTable::new(clone, noop, noop, noop);
    unsafe { Waker::from_raw(RawWaker::new(std::ptr::null(), &VT)) }
}

enum Op {
    R(usize, usize),
    W(Vec<usize>),
    F,
    S,
}

/// Anything we can drive: either through the tokio traits or through the hyper traits.
enum Stack {
    Tokio(Pin<Box<dyn TokioRw>>),
    Hyper(Pin<Box<dyn HyperRw>>),
}
trait TokioRw: tokio::io::AsyncRead + tokio::io::AsyncWrite {}
impl<T: tokio::io::AsyncRead + tokio::io::AsyncWrite> TokioRw for T {}
trait HyperRw: hyper::rt::Read + hyper::rt::Write {}
impl<T: hyper::rt::Read + hyper::rt::Write> HyperRw for T {}

const PREFILL: u8 = 0xEE;

fn hex(b: &[u8]) -> String {
    b.iter().map(|x| format!("{:02x}", x)).collect()
}
fn unhex(s: &str) -> Vec<u8> {
    if s == "-" {
        return vec![];
    }
    (0..s.len()).step_by(2).map(|i| u8::from_str_radix(&s[i..i + 2], 16).unwrap()).collect()
}

fn drive(stack: &mut Stack, ops: &[Op]) -> Vec<String> {
    let waker = noop_waker();
    let mut cx = Context::from_waker(&waker);
    let mut wpos: usize = 0;
    let next_bytes = |wpos: &mut usize, n: usize| -> Vec<u8> {
        let v: Vec<u8> = (0..n).map(|j| (((*wpos + j) * 13 + 5) % 253) as u8).collect();
        v
    };
    let mut out = Vec::new();
    for op in ops {
        match op {
            Op::R(cap, prefill) => {
                let mut storage: Vec<MaybeUninit<u8>> = vec![MaybeUninit::new(0x11); *cap];
                let res = match stack {
                    Stack::Tokio(s) => {
                        let mut rb = tokio::io::ReadBuf::uninit(&mut storage);
                        rb.put_slice(&vec![PREFILL; *prefill]);
                        match s.as_mut().poll_read(&mut cx, &mut rb) {
                            Poll::Pending => Err("P"),
                            Poll::Ready(Err(_)) => Err("E"),
                            Poll::Ready(Ok(())) => Ok(rb.filled().to_vec()),
                        }
                    }
                    Stack::Hyper(s) => {
                        let mut rb = hyper::rt::ReadBuf::uninit(&mut storage);
                        rb.unfilled().put_slice(&vec![PREFILL; *prefill]);
                        match s.as_mut().poll_read(&mut cx, rb.unfilled()) {
                            Poll::Pending => Err("P"),
                            Poll::Ready(Err(_)) => Err("E"),
                            Poll::Ready(Ok(())) => Ok(rb.filled().to_vec()),
                        }
                    }
                };
                match res {
                    Err(s) => out.push(s.to_string()),
                    Ok(filled) => {
                        if filled.len() < *prefill || filled[..*prefill].iter().any(|b| *b != PREFILL) {
                            out.push("CORRUPT".to_string());
                        } else {
                            out.push(format!("R{}", hex(&filled[*prefill..])));
                        }
                    }
                }
            }
            Op::W(sizes) => {
                let total: usize = sizes.iter().sum();
                let data = next_bytes(&mut wpos, total);
                let mut slices: Vec<&[u8]> = Vec::new();
                let mut off = 0;
                for n in sizes {
                    slices.push(&data[off..off + n]);
                    off += n;
                }
                let r = if slices.len() == 1 {
                    match stack {
                        Stack::Tokio(s) => s.as_mut().poll_write(&mut cx, slices[0]),
                        Stack::Hyper(s) => s.as_mut().poll_write(&mut cx, slices[0]),
                    }
                } else {
                    let ios: Vec<io::IoSlice<'_>> = slices.iter().map(|b| io::IoSlice::new(b)).collect();
                    match stack {
                        Stack::Tokio(s) => s.as_mut().poll_write_vectored(&mut cx, &ios),
                        Stack::Hyper(s) => s.as_mut().poll_write_vectored(&mut cx, &ios),
                    }
                };
                match r {
                    Poll::Pending => out.push("P".into()),
                    Poll::Ready(Err(_)) => out.push("E".into()),
                    Poll::Ready(Ok(n)) => {
                        wpos += n;
                        out.push(format!("W{}", n));
                    }
                }
            }
            Op::F | Op::S => {
                let r = match (stack as &mut Stack, op) {
                    (Stack::Tokio(s), Op::F) => s.as_mut().poll_flush(&mut cx),
                    (Stack::Tokio(s), _) => s.as_mut().poll_shutdown(&mut cx),
                    (Stack::Hyper(s), Op::F) => s.as_mut().poll_flush(&mut cx),
                    (Stack::Hyper(s), _) => s.as_mut().poll_shutdown(&mut cx),
                };
                out.push(match r {
                    Poll::Pending => "P".into(),
                    Poll::Ready(Err(_)) => "E".into(),
                    Poll::Ready(Ok(())) => "OK".into(),
                });
            }
        }
    }
    out
}

fn run_case(line: &str) -> String {
    let f: Vec<&str> = line.split_whitespace().collect();
    let adapter = f[0];
    let prefix = unhex(f[1]);
    let stream = unhex(f[2]);
    let rscript: VecDeque<Rd> = if f[3] == "-" { VecDeque::new() } else {
        f[3].split(',').map(|x| match &x[..1] { "P" => Rd::P, "E" => Rd::E(x[1..].parse().unwrap_or(0)), _ => Rd::D(x[1..].parse().unwrap()) }).collect()
    };
    let wscript: VecDeque<Wr> = if f[4] == "-" { VecDeque::new() } else {
        f[4].split(',').map(|x| match &x[..1] { "P" => Wr::P, "E" => Wr::E(x[1..].parse().unwrap_or(0)), _ => Wr::A(x[1..].parse().unwrap()) }).collect()
    };
    let ops: Vec<Op> = if f[5] == "-" { vec![] } else {
        f[5].split(',').map(|x| match &x[..1] {
            "R" => { let (c, p) = x[1..].split_once('.').unwrap(); Op::R(c.parse().unwrap(), p.parse().unwrap()) }
            "W" => Op::W(vec![x[1..].parse().unwrap()]),
            "V" => Op::W(x[1..].split('+').map(|n| n.parse().unwrap()).collect()),
            "F" => Op::F,
            _ => Op::S,
        }).collect()
    };
    if adapter.starts_with("dx") {
        let (kind, cap) = adapter.split_once(':').unwrap();
        let cap: usize = cap.parse().unwrap();
        let (a, mut b) = hyperdriver::stream::duplex::DuplexStream::new(cap);
        let mut stack = match kind {
            "dx" => Stack::Tokio(Box::pin(a)),
            "dxt" => Stack::Tokio(Box::pin(TlsBraid::<hyperdriver::stream::duplex::DuplexStream, hyperdriver::stream::duplex::DuplexStream>::NoTls(a))),
            "dxc" => Stack::Tokio(Box::pin(hyperdriver::client::conn::stream::Stream::new(a))),
            "dxs" => Stack::Tokio(Box::pin(hyperdriver::server::conn::Stream::new(a))),
            _ => panic!("unknown adapter"),
        };
        let res = drive(&mut stack, &ops);
        // drain the far end
        let waker = noop_waker();
        let mut cx = Context::from_waker(&waker);
        let mut got: Vec<u8> = Vec::new();
        loop {
            let mut storage = [0u8; 4096];
            let mut rb = tokio::io::ReadBuf::new(&mut storage);
            match tokio::io::AsyncRead::poll_read(Pin::new(&mut b), &mut cx, &mut rb) {
                Poll::Ready(Ok(())) if !rb.filled().is_empty() => got.extend_from_slice(rb.filled()),
                _ => break,
            }
            if got.len() > 1 << 20 {
                break;
            }
        }
        return format!(
            "{};{};-",
            if res.is_empty() { "-".to_string() } else { res.join(",") },
            if got.is_empty() { "-".to_string() } else { hex(&got) }
        );
    }
    let written = std::rc::Rc::new(std::cell::RefCell::new(Vec::new()));
    let inner = Scripted { stream: stream.into(), rscript, wscript, written: written.clone() };
    let mut sniffed = "-".to_string();
    let mut stack = match adapter {
        "th" => Stack::Hyper(Box::pin(TokioIo::new(inner))),
        "ht" => Stack::Tokio(Box::pin(TokioIo::new(inner))),
        "thht" => Stack::Tokio(Box::pin(TokioIo::new(TokioIo::new(inner)))),
        "hth" => Stack::Hyper(Box::pin(TokioIo::new(TokioIo::new(inner)))),
        "rw" => Stack::Hyper(Box::pin(Rewind::new(inner, prefix))),
        "rwt" => Stack::Tokio(Box::pin(TokioIo::new(Rewind::new(TokioIo::new(inner), prefix)))),
        "braidN" => Stack::Tokio(Box::pin(TlsBraid::<Scripted, Scripted>::NoTls(inner))),
        "braidT" => Stack::Tokio(Box::pin(TlsBraid::<Scripted, Scripted>::Tls(inner))),
        "cs" => Stack::Tokio(Box::pin(hyperdriver::client::conn::stream::Stream::new(inner))),
        "ss" => Stack::Tokio(Box::pin(hyperdriver::server::conn::Stream::new(inner))),
        "sn" => {
            // poll the sniffer to completion, counting Pending results
            let waker = noop_waker();
            let mut cx = Context::from_waker(&waker);
            let mut fut = Box::pin(verif_read_version(inner));
            let mut pendings = 0usize;
            let res = loop {
                match std::future::Future::poll(fut.as_mut(), &mut cx) {
                    Poll::Pending => {
                        pendings += 1;
                        if pendings > 10_000 {
                            return "-;-;LIVELOCK".into();
                        }
                    }
                    Poll::Ready(r) => break r,
                }
            };
            match res {
                Err(_) => return format!("-;{};ERR.{}.-", "-", pendings),
                Ok((h2, rewind)) => {
                    sniffed = format!("{}.{}", if h2 { "H2" } else { "H1" }, pendings);
                    Stack::Hyper(Box::pin(rewind))
                }
            }
        }
        _ => panic!("unknown adapter"),
    };
    let res = drive(&mut stack, &ops);
    let w = written.borrow();
    format!(
        "{};{};{}",
        if res.is_empty() { "-".to_string() } else { res.join(",") },
        if w.is_empty() { "-".to_string() } else { hex(&w) },
        sniffed
    )
}

fn main() {
    std::panic::set_hook(Box::new(|_| {}));
    let mut w = out();
    for line in read_cases() {
        let l = line.clone();
        match catch(move || run_case(&l)) {
            Ok(s) => emit(&mut w, &s),
            Err(m) => emit(&mut w, &format!("PANIC {};-;-", m.replace('\n', " ").replace(';', ","))),
        }
    }
}
