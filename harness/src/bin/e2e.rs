//! C01: drives the REAL `hyperdriver::Client` / client service stack (pool on and off; HTTP/1.1,
//! HTTP/2 and auto) against REAL `hyperdriver::server::Server`s (http1 / http2 / auto) over the
//! in-process duplex transport (any buffer size) or TCP on 127.0.0.1, with batches of concurrent
//! requests, cancellations, pooled reuse across waves and HTTP/1.1 upgrades, and prints for every
//! request the triple (sent, server-saw, received).  Timings are never reported.
//!
//! case line:  <k=v> <k=v> ... | <req> | <req> ...
//!   config keys: rt=ct|mt  client=auto|h1|h2  server=auto|h1|h2  tr=duplex|tcp  buf=<n>
//!                pool=none|default|nopre|idle1  api=client|service  norig=<n>  settle=<n>
//!   req = id,wave,origin,method,ver,path,query|-,headers,blen,bseed,chunk,byield,cancel,sdelay,
//!         hdelay,rchunk,ryield,readmode,upgrade       (headers = name:hexvalue;name:hexvalue | -)
//! output line: auth=<a0>,<a1>.. ;; <req> ;; <req> ... ;; stray=<n>
//!   <req> = id|OK/ERR:<hex>/CANCELLED/HANG|<bl>.<bh>|<saw>^<saw>..|<status>~<hdrs>~<echo>
//!   <saw> = srv.conn.complete~<echo>          <echo> = m=..&v=..&p=<hex>&q=<hex|->&h=..&bl=..&bh=..
use std::collections::{HashMap, VecDeque};
use std::future::Future;
use std::pin::Pin;
use std::sync::atomic::{AtomicUsize, Ordering};
use std::sync::{Arc, Mutex};
use std::task::{Context, Poll};
use std::time::Duration;

use bytes::Bytes;
use hd_harness::*;
use http_body_util::BodyExt;
use hyperdriver::bridge::io::TokioIo;
use hyperdriver::bridge::rt::TokioExecutor;
use hyperdriver::client::conn::transport::tcp::TcpTransportConfig;
use hyperdriver::server::conn::{Accept, Acceptor};
use hyperdriver::server::Server;
use hyperdriver::service::make_service_fn;
use hyperdriver::stream::duplex::{DuplexClient, DuplexStream};
use tokio::io::{AsyncReadExt, AsyncWriteExt};
use tower::ServiceExt;

type BoxError = Box<dyn std::error::Error + Send + Sync + 'static>;
/// generous: a request that has not finished after this long is reported as HANG
const HANG_AFTER: Duration = Duration::from_secs(30);
/// once a hang has been confirmed (seen twice) in this process, or seen in an earlier wave of the same case, later
/// waits are cut short: the verdict is already a violation, only the cost of collecting it is bounded
const HANG_AFTER_CONFIRMED: Duration = Duration::from_secs(3);
static HANG_CONFIRMED: std::sync::atomic::AtomicBool = std::sync::atomic::AtomicBool::new(false);
static HANG_MS: std::sync::atomic::AtomicU64 = std::sync::atomic::AtomicU64::new(0);

// ------------------------------------------------------------------------------------ digests
const FNV0: u64 = 0xcbf29ce484222325;
fn fnv(mut h: u64, data: &[u8]) -> u64 {
    for b in data {
        h ^= *b as u64;
        h = h.wrapping_mul(0x100000001b3);
    }
    h
}
fn hex(b: &[u8]) -> String {
    let mut s = String::with_capacity(b.len() * 2);
    for x in b {
        s.push_str(&format!("{x:02x}"));
    }
    s
}
fn unhex(s: &str) -> Vec<u8> {
    (0..s.len() / 2).map(|i| u8::from_str_radix(&s[2 * i..2 * i + 2], 16).unwrap_or(b'?')).collect()
}
fn gen_body(id: u64, len: usize, seed: u64) -> Vec<u8> {
    let mut v = format!("id={id};").into_bytes();
    v.truncate(len);
    let mut x = seed | 1;
    while v.len() < len {
        x ^= x << 13;
        x ^= x >> 7;
        x ^= x << 17;
        v.push((x >> 24) as u8);
    }
    v
}

// ------------------------------------------------------------------------------- chunked body
/// Body made of prepared chunks; optionally returns Pending (self-woken) before every chunk.
#[derive(Debug, Default)]
struct ChunkBody {
    chunks: VecDeque<Bytes>,
    exact: bool,
    yields: bool,
    yielded: bool,
}
impl ChunkBody {
    fn new(data: Vec<u8>, chunk: usize, yields: bool) -> Self {
        let mut chunks = VecDeque::new();
        if chunk == 0 {
            if !data.is_empty() {
                chunks.push_back(Bytes::from(data));
            }
            return ChunkBody { chunks, exact: true, yields, yielded: false };
        }
        let all = Bytes::from(data);
        let mut i = 0;
        while i < all.len() {
            let j = (i + chunk).min(all.len());
            chunks.push_back(all.slice(i..j));
            i = j;
        }
        ChunkBody { chunks, exact: false, yields, yielded: false }
    }
    fn into_vec(self) -> Vec<u8> {
        let mut v = Vec::new();
        for c in self.chunks {
            v.extend_from_slice(&c);
        }
        v
    }
}
impl http_body::Body for ChunkBody {
    type Data = Bytes;
    type Error = std::convert::Infallible;
    fn poll_frame(mut self: Pin<&mut Self>, cx: &mut Context<'_>) -> Poll<Option<Result<http_body::Frame<Bytes>, Self::Error>>> {
        if self.yields && !self.yielded && !self.chunks.is_empty() {
            self.yielded = true;
            cx.waker().wake_by_ref();
            return Poll::Pending;
        }
        self.yielded = false;
        Poll::Ready(self.chunks.pop_front().map(|b| Ok(http_body::Frame::data(b))))
    }
    fn is_end_stream(&self) -> bool {
        self.chunks.is_empty()
    }
    fn size_hint(&self) -> http_body::SizeHint {
        if self.exact {
            http_body::SizeHint::with_exact(self.chunks.iter().map(|c| c.len() as u64).sum())
        } else {
            http_body::SizeHint::default()
        }
    }
}

// ------------------------------------------------------------------------------------- specs
#[derive(Clone, Debug)]
struct Spec {
    id: u64,
    wave: u32,
    origin: usize,
    method: String,
    ver: String,
    path: String,
    query: Option<String>,
    headers: Vec<(String, Vec<u8>)>,
    blen: usize,
    bseed: u64,
    chunk: usize,
    byield: bool,
    cancel: i64,
    sdelay: u32,
    hdelay: u32,
    rchunk: usize,
    ryield: bool,
    readmode: u32,
    upgrade: bool,
}
fn parse_spec(s: &str) -> Option<Spec> {
    let f: Vec<&str> = s.trim().split(',').collect();
    if f.len() != 19 {
        return None;
    }
    let headers = if f[7] == "-" {
        vec![]
    } else {
        f[7].split(';').filter_map(|h| h.split_once(':').map(|(n, v)| (n.to_string(), unhex(v)))).collect()
    };
    Some(Spec {
        id: f[0].parse().ok()?,
        wave: f[1].parse().ok()?,
        origin: f[2].parse().ok()?,
        method: f[3].to_string(),
        ver: f[4].to_string(),
        path: f[5].to_string(),
        query: if f[6] == "-" { None } else { Some(f[6].to_string()) },
        headers,
        blen: f[8].parse().ok()?,
        bseed: f[9].parse().ok()?,
        chunk: f[10].parse().ok()?,
        byield: f[11] == "1",
        cancel: f[12].parse().ok()?,
        sdelay: f[13].parse().ok()?,
        hdelay: f[14].parse().ok()?,
        rchunk: f[15].parse().ok()?,
        ryield: f[16] == "1",
        readmode: f[17].parse().ok()?,
        upgrade: f[18] == "1",
    })
}

#[derive(Clone, Debug)]
struct Cfg {
    rt: String,
    client: String,
    server: String,
    tr: String,
    buf: usize,
    pool: String,
    api: String,
    norig: usize,
    settle: u32,
}
fn parse_cfg(s: &str) -> Cfg {
    let mut c = Cfg {
        rt: "ct".into(),
        client: "auto".into(),
        server: "auto".into(),
        tr: "duplex".into(),
        buf: 1024,
        pool: "default".into(),
        api: "service".into(),
        norig: 1,
        settle: 20,
    };
    for kv in s.split_whitespace() {
        if let Some((k, v)) = kv.split_once('=') {
            match k {
                "rt" => c.rt = v.into(),
                "client" => c.client = v.into(),
                "server" => c.server = v.into(),
                "tr" => c.tr = v.into(),
                "buf" => c.buf = v.parse().unwrap_or(1024),
                "pool" => c.pool = v.into(),
                "api" => c.api = v.into(),
                "norig" => c.norig = v.parse().unwrap_or(1),
                "settle" => c.settle = v.parse().unwrap_or(20),
                _ => {}
            }
        }
    }
    c
}

// ---------------------------------------------------------------------- what a request looks like
#[derive(Clone, Debug)]
struct Head {
    method: String,
    ver: &'static str,
    path: String,
    query: Option<String>,
    headers: Vec<(String, Vec<u8>)>,
}
fn ver_str(v: http::Version) -> &'static str {
    match v {
        http::Version::HTTP_09 => "09",
        http::Version::HTTP_10 => "10",
        http::Version::HTTP_11 => "11",
        http::Version::HTTP_2 => "2",
        _ => "3",
    }
}
/// headers in canonical order (by name, value order kept), without the given names
fn canon_headers(h: &http::HeaderMap, drop: &[&str]) -> Vec<(String, Vec<u8>)> {
    let mut names: Vec<&http::HeaderName> = h.keys().collect();
    names.sort_by(|a, b| a.as_str().cmp(b.as_str()));
    let mut out = vec![];
    for n in names {
        if drop.contains(&n.as_str()) {
            continue;
        }
        for v in h.get_all(n) {
            out.push((n.as_str().to_string(), v.as_bytes().to_vec()));
        }
    }
    out
}
fn fmt_headers(hs: &[(String, Vec<u8>)]) -> String {
    if hs.is_empty() {
        return "-".into();
    }
    hs.iter().map(|(n, v)| format!("{n}:{}", hex(v))).collect::<Vec<_>>().join(",")
}
/// framing headers written by hyper itself (R2), not part of what the caller sent
const REQ_FRAMING: &[&str] = &["content-length", "transfer-encoding"];
const RESP_FRAMING: &[&str] = &["content-length", "transfer-encoding", "date", "connection", "upgrade"];

fn head_of<B>(req: &http::Request<B>) -> Head {
    Head {
        method: req.method().as_str().to_string(),
        ver: ver_str(req.version()),
        path: req.uri().path().to_string(),
        query: req.uri().query().map(|q| q.to_string()),
        headers: canon_headers(req.headers(), REQ_FRAMING),
    }
}
fn echo_line(h: &Head, bl: usize, bh: u64) -> String {
    format!(
        "m={}&v={}&p={}&q={}&h={}&bl={}&bh={}",
        h.method,
        h.ver,
        hex(h.path.as_bytes()),
        h.query.as_ref().map(|q| hex(q.as_bytes())).unwrap_or_else(|| "-".into()),
        fmt_headers(&h.headers),
        bl,
        bh
    )
}
fn parse_id(path: &str) -> Option<u64> {
    let mut it = path.split('/');
    it.next()?;
    if it.next()? != "r" {
        return None;
    }
    it.next()?.parse().ok()
}
fn str_sum(s: &[u8]) -> usize {
    s.iter().map(|b| *b as usize).sum()
}
const STATUSES: [u16; 12] = [200, 201, 202, 203, 207, 226, 400, 404, 409, 418, 500, 503];

// ------------------------------------------------------------------------------------- server
struct SawEntry {
    id: Option<u64>,
    srv: usize,
    conn: usize,
    complete: bool,
    line: String,
}
struct Ctx {
    specs: HashMap<u64, Spec>,
    saw: Mutex<Vec<SawEntry>>,
}
/// logs what the handler was given when it is done with the request (or dropped mid-way)
struct SawGuard {
    ctx: Arc<Ctx>,
    id: Option<u64>,
    srv: usize,
    conn: usize,
    head: Head,
    bl: usize,
    bh: u64,
    complete: bool,
}
impl Drop for SawGuard {
    fn drop(&mut self) {
        let line = echo_line(&self.head, self.bl, self.bh);
        self.ctx.saw.lock().unwrap().push(SawEntry { id: self.id, srv: self.srv, conn: self.conn, complete: self.complete, line });
    }
}

async fn pause(n: u32) {
    if n >= 100 {
        tokio::time::sleep(Duration::from_millis((n - 100) as u64)).await;
    } else {
        for _ in 0..n {
            tokio::task::yield_now().await;
        }
    }
}

async fn handle(ctx: Arc<Ctx>, srv: usize, conn: usize, mut req: http::Request<hyperdriver::Body>) -> Result<http::Response<ChunkBody>, BoxError> {
    let head = head_of(&req);
    let idhdr: Vec<u8> = req.headers().get("x-id").map(|v| v.as_bytes().to_vec()).unwrap_or_default();
    // requests to the root path ("/", "") carry their id in the header (and body) only
    let id = parse_id(req.uri().path()).or_else(|| std::str::from_utf8(&idhdr).ok().and_then(|s| s.parse().ok()));
    let spec = id.and_then(|i| ctx.specs.get(&i).cloned());
    let (hdelay, rchunk, ryield) = spec.as_ref().map(|s| (s.hdelay, s.rchunk, s.ryield)).unwrap_or((0, 0, false));
    let mut g = SawGuard { ctx: ctx.clone(), id, srv, conn, head, bl: 0, bh: FNV0, complete: false };
    let builder = http::Response::builder()
        .header("x-id", http::HeaderValue::from_bytes(&idhdr).unwrap_or(http::HeaderValue::from_static("")))
        .header("x-srv", srv.to_string());

    if req.headers().contains_key(http::header::UPGRADE) && req.version() == http::Version::HTTP_11 {
        let n: usize = req.headers().get("x-up-len").and_then(|v| v.to_str().ok()).and_then(|v| v.parse().ok()).unwrap_or(0);
        let on = hyper::upgrade::on(&mut req);
        tokio::spawn(async move {
            let mut g = g;
            pause(hdelay).await;
            if let Ok(up) = on.await {
                let mut io = TokioIo::new(up);
                let mut buf = vec![0u8; n];
                if io.read_exact(&mut buf).await.is_ok() {
                    g.bl = n;
                    g.bh = fnv(FNV0, &buf);
                    g.complete = true;
                    let line = echo_line(&g.head, g.bl, g.bh);
                    drop(g);
                    let _ = io.write_all(line.as_bytes()).await;
                    let _ = io.write_all(b"\n").await;
                    let _ = io.write_all(&buf).await;
                    let _ = io.flush().await;
                    let _ = io.shutdown().await;
                }
            }
        });
        return Ok(builder
            .status(101)
            .header(http::header::CONNECTION, "upgrade")
            .header(http::header::UPGRADE, "hd-echo")
            .body(ChunkBody::default())?);
    }

    let mut body = req.into_body();
    let mut data: Vec<u8> = Vec::new();
    loop {
        match body.frame().await {
            None => break,
            Some(Ok(f)) => {
                if let Ok(d) = f.into_data() {
                    data.extend_from_slice(&d);
                    g.bl = data.len();
                }
            }
            Some(Err(e)) => {
                g.bh = fnv(FNV0, &data);
                return Err(e);
            }
        }
    }
    g.bl = data.len();
    g.bh = fnv(FNV0, &data);
    g.complete = true;
    pause(hdelay).await;
    let line = echo_line(&g.head, g.bl, g.bh);
    drop(g);
    let mut out = line.into_bytes();
    out.push(b'\n');
    out.extend_from_slice(&data);
    let status = STATUSES[str_sum(&idhdr) % 12];
    Ok(builder.status(status).body(ChunkBody::new(out, rchunk, ryield))?)
}

fn spawn_server(ctx: Arc<Ctx>, srv: usize, proto: &str, acceptor: Acceptor) -> tokio::task::JoinHandle<()> {
    let n = Arc::new(AtomicUsize::new(0));
    let make = make_service_fn(move |_: &<Acceptor as Accept>::Conn| {
        let k = n.fetch_add(1, Ordering::SeqCst);
        let ctx = ctx.clone();
        async move {
            Ok::<_, std::io::Error>(tower::service_fn(move |req: http::Request<hyperdriver::Body>| handle(ctx.clone(), srv, k, req)))
        }
    });
    macro_rules! launch {
        ($p:expr) => {{
            let server = Server::builder::<hyperdriver::Body>().with_acceptor(acceptor).with_protocol($p).with_make_service(make).with_tokio();
            tokio::spawn(async move {
                let _ = std::future::IntoFuture::into_future(server).await;
            })
        }};
    }
    match proto {
        "h1" => launch!(hyperdriver::server::conn::http1::Builder::new()),
        "h2" => launch!(hyperdriver::server::conn::http2::Builder::new(TokioExecutor::new())),
        _ => launch!(hyperdriver::server::conn::auto::Builder::default()),
    }
}

// ------------------------------------------------------------------------------------- client
/// duplex transport that routes by host name `o<k>.test` to server k (several origins)
#[derive(Clone, Debug)]
struct Router {
    buf: usize,
    clients: Vec<DuplexClient>,
}
impl tower::Service<http::request::Parts> for Router {
    type Response = DuplexStream;
    type Error = std::io::Error;
    type Future = Pin<Box<dyn Future<Output = Result<DuplexStream, std::io::Error>> + Send>>;
    fn poll_ready(&mut self, _: &mut Context<'_>) -> Poll<Result<(), Self::Error>> {
        Poll::Ready(Ok(()))
    }
    fn call(&mut self, req: http::request::Parts) -> Self::Future {
        let k = req
            .uri
            .host()
            .and_then(|h| h.strip_prefix('o'))
            .and_then(|h| h.strip_suffix(".test"))
            .and_then(|h| h.parse::<usize>().ok());
        let client = k.and_then(|k| self.clients.get(k).cloned());
        let buf = self.buf;
        Box::pin(async move {
            match client {
                Some(c) => c.connect(buf).await,
                None => Err(std::io::Error::new(std::io::ErrorKind::NotFound, "no such origin")),
            }
        })
    }
}

type SendFut = Pin<Box<dyn Future<Output = Result<http::Response<hyperdriver::Body>, hyperdriver::client::Error>> + Send>>;
type Sender = Arc<dyn Fn(http::Request<ChunkBody>) -> SendFut + Send + Sync>;

fn pool_config(cfg: &Cfg) -> Option<hyperdriver::client::PoolConfig> {
    let mut p = hyperdriver::client::PoolConfig::default();
    match cfg.pool.as_str() {
        "none" => return None,
        "nopre" => p.continue_after_preemption = false,
        "idle1" => p.max_idle_per_host = 1,
        _ => {}
    }
    Some(p)
}

fn build_sender(cfg: &Cfg, router: Option<Router>) -> Sender {
    let pool = pool_config(cfg);
    macro_rules! common {
        ($b:expr) => {{
            let b = $b.with_user_agent("hd-e2e/1".to_string());
            match pool.clone() {
                Some(p) => b.with_pool(p),
                None => b.without_pool(),
            }
        }};
    }
    // the high-level Client (bodies are complete in memory)
    macro_rules! as_client {
        ($b:expr) => {{
            let client: hyperdriver::Client = common!($b).build();
            let f: Sender = Arc::new(move |req: http::Request<ChunkBody>| {
                let mut c = client.clone();
                let req = req.map(|b| {
                    let v = b.into_vec();
                    if v.is_empty() {
                        hyperdriver::Body::empty()
                    } else {
                        hyperdriver::Body::from(v)
                    }
                });
                Box::pin(async move { c.request(req).await })
            });
            f
        }};
    }
    // the same service stack with a streaming request body type
    macro_rules! as_service {
        ($b:expr) => {{
            let svc = common!($b).with_body::<ChunkBody, hyperdriver::Body>().build_service();
            let f: Sender = Arc::new(move |req: http::Request<ChunkBody>| {
                let s = svc.clone();
                Box::pin(s.oneshot(req))
            });
            f
        }};
    }
    macro_rules! protos {
        ($b:expr) => {
            match (cfg.client.as_str(), cfg.api.as_str()) {
                ("h1", "client") => as_client!($b.with_protocol(hyper::client::conn::http1::Builder::new())),
                ("h1", _) => as_service!($b.with_protocol(hyper::client::conn::http1::Builder::new())),
                ("h2", "client") => as_client!($b.with_protocol(hyper::client::conn::http2::Builder::new(TokioExecutor::new()))),
                ("h2", _) => as_service!($b.with_protocol(hyper::client::conn::http2::Builder::new(TokioExecutor::new()))),
                (_, "client") => as_client!($b.with_auto_http()),
                // the auto protocol is generic in the body: fix the body type first
                _ => as_service!($b.with_body::<ChunkBody, hyperdriver::Body>().with_auto_http()),
            }
        };
    }
    match router {
        Some(r) => protos!(hyperdriver::Client::builder().with_transport(r)),
        None => protos!(hyperdriver::Client::builder().with_tcp(TcpTransportConfig::default())),
    }
}

enum Out {
    Ok(u16, String, String),
    Err(String),
    Cancelled,
    Hang,
    Panic,
}

/// Resolves to None once it has been polled `left` times without completing (the inner future is
/// dropped at that point: the caller cancels).
struct CancelAfter<F> {
    fut: Option<Pin<Box<F>>>,
    left: i64,
}
impl<F: Future> Future for CancelAfter<F> {
    type Output = Option<F::Output>;
    fn poll(mut self: Pin<&mut Self>, cx: &mut Context<'_>) -> Poll<Self::Output> {
        if self.left == 0 {
            self.fut = None;
            return Poll::Ready(None);
        }
        if self.left > 0 {
            self.left -= 1;
        }
        match self.fut.as_mut() {
            Some(f) => f.as_mut().poll(cx).map(Some),
            None => Poll::Ready(None),
        }
    }
}

fn version_of(v: &str) -> http::Version {
    match v {
        "10" => http::Version::HTTP_10,
        "2" => http::Version::HTTP_2,
        _ => http::Version::HTTP_11,
    }
}

async fn exchange(send: Sender, spec: Spec, auth: String, payload: Vec<u8>) -> Result<(u16, String, String), String> {
    pause(spec.sdelay).await;
    let pq = match &spec.query {
        Some(q) => format!("{}?{}", spec.path, q),
        None => spec.path.clone(),
    };
    let uri = format!("http://{auth}{pq}");
    let mut b = http::Request::builder().method(spec.method.as_str()).uri(uri).version(version_of(&spec.ver));
    for (n, v) in &spec.headers {
        b = b.header(n.as_str(), http::HeaderValue::from_bytes(v).map_err(|e| format!("header: {e}"))?);
    }
    let body = if spec.upgrade { ChunkBody::default() } else { ChunkBody::new(payload.clone(), spec.chunk, spec.byield) };
    let req = b.body(body).map_err(|e| format!("build: {e}"))?;
    let resp = send(req).await.map_err(|e| format!("send: {e:?}"))?;
    let status = resp.status().as_u16();
    let hdrs = fmt_headers(&canon_headers(resp.headers(), RESP_FRAMING));
    let mut data: Vec<u8> = Vec::new();
    if status == 101 {
        let up = hyper::upgrade::on(resp).await.map_err(|e| format!("upgrade: {e:?}"))?;
        let mut io = TokioIo::new(up);
        io.write_all(&payload).await.map_err(|e| format!("upgrade write: {e:?}"))?;
        io.flush().await.map_err(|e| format!("upgrade flush: {e:?}"))?;
        io.read_to_end(&mut data).await.map_err(|e| format!("upgrade read: {e:?}"))?;
    } else {
        if spec.readmode == 2 {
            pause(30).await;
        }
        let mut body = resp.into_body();
        loop {
            match body.frame().await {
                None => break,
                Some(Ok(f)) => {
                    if let Ok(d) = f.into_data() {
                        data.extend_from_slice(&d);
                    }
                }
                Some(Err(e)) => return Err(format!("body: {e:?}")),
            }
            if spec.readmode >= 1 {
                tokio::task::yield_now().await;
            }
        }
    }
    // the echo: first line = what the handler was given, rest = the request body it read
    let (line, rest) = match data.iter().position(|b| *b == b'\n') {
        Some(i) => (String::from_utf8_lossy(&data[..i]).to_string(), &data[i + 1..]),
        None => (String::from_utf8_lossy(&data).to_string(), &data[data.len()..]),
    };
    // keep the report on one line whatever arrived
    let line: String = line.chars().map(|c| if ('!'..='~').contains(&c) && c != '|' && c != '~' && c != '^' { c } else { '?' }).collect();
    let cut = line.rfind("&bl=").unwrap_or(line.len());
    // the body digest is computed over the bytes actually received, never taken from the line
    let line = format!("{}&bl={}&bh={}", &line[..cut], rest.len(), fnv(FNV0, rest));
    Ok((status, hdrs, line))
}

async fn run_case(line: String) -> String {
    let mut parts = line.split('|');
    let cfg = parse_cfg(parts.next().unwrap_or(""));
    let mut specs: Vec<Spec> = Vec::new();
    for p in parts {
        match parse_spec(p) {
            Some(s) => specs.push(s),
            None => return "BADCASE".into(),
        }
    }
    let ctx = Arc::new(Ctx { specs: specs.iter().map(|s| (s.id, s.clone())).collect(), saw: Mutex::new(Vec::new()) });

    // servers, one per origin
    let mut auths: Vec<String> = Vec::new();
    let mut servers = Vec::new();
    let mut clients = Vec::new();
    for k in 0..cfg.norig {
        if cfg.tr == "tcp" {
            let l = tokio::net::TcpListener::bind("127.0.0.1:0").await.unwrap();
            auths.push(format!("127.0.0.1:{}", l.local_addr().unwrap().port()));
            servers.push(spawn_server(ctx.clone(), k, &cfg.server, Acceptor::from(l)));
        } else {
            let (client, incoming) = hyperdriver::stream::duplex::pair();
            // origin 0: no port, origin 1: the scheme's default port, others: a non-default port
            auths.push(match k {
                0 => "o0.test".to_string(),
                1 => "o1.test:80".to_string(),
                _ => format!("o{k}.test:{}", 8000 + k),
            });
            clients.push(client);
            servers.push(spawn_server(ctx.clone(), k, &cfg.server, Acceptor::from(incoming)));
        }
    }
    let router = if cfg.tr == "tcp" { None } else { Some(Router { buf: cfg.buf, clients }) };
    let send = build_sender(&cfg, router);

    // waves of concurrent requests
    let mut results: HashMap<u64, Out> = HashMap::new();
    let mut sent: HashMap<u64, (usize, u64)> = HashMap::new();
    let nwaves = specs.iter().map(|s| s.wave).max().unwrap_or(0) + 1;
    let mut hang_seen = HANG_CONFIRMED.load(Ordering::SeqCst);
    for w in 0..nwaves {
        let limit = match HANG_MS.load(Ordering::SeqCst) {
            0 => if hang_seen { HANG_AFTER_CONFIRMED } else { HANG_AFTER },
            ms => Duration::from_millis(ms),
        };
        let mut hs = Vec::new();
        for s in specs.iter().filter(|s| s.wave == w) {
            let payload = gen_body(s.id, s.blen, s.bseed);
            sent.insert(s.id, (payload.len(), fnv(FNV0, &payload)));
            let auth = auths.get(s.origin).cloned().unwrap_or_else(|| "o0.test".into());
            let fut = CancelAfter { fut: Some(Box::pin(exchange(send.clone(), s.clone(), auth, payload))), left: s.cancel };
            hs.push((
                s.id,
                tokio::spawn(async move {
                    match tokio::time::timeout(limit, fut).await {
                        Err(_) => Out::Hang,
                        Ok(None) => Out::Cancelled,
                        Ok(Some(Ok((st, h, l)))) => Out::Ok(st, h, l),
                        Ok(Some(Err(e))) => Out::Err(e),
                    }
                }),
            ));
        }
        for (id, h) in hs {
            let o = h.await.unwrap_or(Out::Panic);
            hang_seen = hang_seen || matches!(o, Out::Hang);
            results.insert(id, o);
        }
        pause(cfg.settle).await;
    }
    pause(cfg.settle).await;
    for s in &servers {
        s.abort();
    }
    drop(send);

    // report
    let saw = ctx.saw.lock().unwrap();
    let mut out = vec![format!("auth={}", auths.join(","))];
    for s in &specs {
        let o = match results.get(&s.id) {
            Some(Out::Ok(..)) => "OK".to_string(),
            Some(Out::Err(e)) => format!("ERR:{}", hex(e.as_bytes())),
            Some(Out::Cancelled) => "CANCELLED".to_string(),
            Some(Out::Hang) => "HANG".to_string(),
            Some(Out::Panic) | None => "PANIC".to_string(),
        };
        let (bl, bh) = sent.get(&s.id).cloned().unwrap_or((0, FNV0));
        let saws: Vec<String> =
            saw.iter().filter(|e| e.id == Some(s.id)).map(|e| format!("{}.{}.{}~{}", e.srv, e.conn, e.complete as u8, e.line)).collect();
        let recv = match results.get(&s.id) {
            Some(Out::Ok(st, h, l)) => format!("{st}~{h}~{l}"),
            _ => "-".to_string(),
        };
        out.push(format!("{}|{}|{}.{}|{}|{}", s.id, o, bl, bh, if saws.is_empty() { "-".to_string() } else { saws.join("^") }, recv));
    }
    let stray = saw.iter().filter(|e| e.id.map(|i| !ctx.specs.contains_key(&i)).unwrap_or(true)).count();
    out.push(format!("stray={stray}"));
    out.join(" ;; ")
}

fn run_once(line: &str) -> String {
    let cfg = parse_cfg(line.split('|').next().unwrap_or(""));
    let res = catch(std::panic::AssertUnwindSafe(|| {
        let rt = if cfg.rt == "mt" {
            tokio::runtime::Builder::new_multi_thread().worker_threads(2).enable_all().build().unwrap()
        } else {
            tokio::runtime::Builder::new_current_thread().enable_all().build().unwrap()
        };
        let out = rt.block_on(run_case(line.to_string()));
        rt.shutdown_timeout(Duration::from_millis(200));
        out
    }));
    match res {
        Ok(s) => s,
        Err(m) => format!("PANIC {}", m.replace('\n', " ")),
    }
}

fn main() {
    std::panic::set_hook(Box::new(|_| {}));
    // `--hang-ms <n>`: used by the driver only while SHRINKING a case whose failure was already established with the
    // generous limit
    let args: Vec<String> = std::env::args().collect();
    if let Some(i) = args.iter().position(|a| a == "--hang-ms") {
        if let Some(ms) = args.get(i + 1).and_then(|v| v.parse::<u64>().ok()) {
            HANG_MS.store(ms, Ordering::SeqCst);
        }
    }
    let mut w = out();
    for line in read_cases() {
        let mut s = run_once(&line);
        // a hang is only believed when it shows up twice
        if s.contains("|HANG|") && HANG_MS.load(Ordering::SeqCst) == 0 {
            s = run_once(&line);
            if s.contains("|HANG|") {
                HANG_CONFIRMED.store(true, Ordering::SeqCst);
            }
        }
        emit(&mut w, &s);
        use std::io::Write;
        let _ = w.flush();
    }
}
