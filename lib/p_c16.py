"""C16 — address preference sorting (M-DNS)."""
import itertools
from core import Plugin


def fam_coq(f):
    return "V4" if f == 4 else "V6"


class C16(Plugin):
    prop = "C16"
    harness_bin = "dns"
    coq_targets = ("dns/Corr.vo",)
    header = "From HD Require Import common.Base dns.Model dns.Spec dns.Corr.\nOpen Scope N_scope."
    design_ref = "DESIGN.md section 4 C16, 3.3"
    rule = ("case = (entry point, preference/binding, sort flag, URI port, address list); addresses are "
            "(family, id, port) mapped injectively to real SocketAddrs (IPv6 ids also carry scope_id and flowinfo; ids 48..63 are IPv4-mapped IPv6 addresses); non-trivial = list contains both "
            "families or duplicates; distinct = distinct case tuples")
    trusted = [
        "hook: hyperdriver::verif_hooks::sort_preferred and TcpTransport::verif_attempt_order (feature verif-hooks) call the crate-private SocketAddrs::{set_port,sort_preferred,pop} and TcpTransport::connecting unchanged",
        "modelled (not verified): SocketAddrs::{set_port,sort_preferred,pop}, IpVersion::from_binding, TcpTransport::connecting guard",
    ]
    assumptions = ["VecDeque::remove/push_front/pop_front behave as documented (oracle, exercised by the run)"]

    # case = [mode, a, b, he, port, [[fam,id,port],...]]
    def generate(self, tier, rng):
        cases = []
        maxlen = 7 if tier == "quick" else 10
        # exhaustive: all family patterns up to maxlen, distinct ids, 3 preferences, sorted
        for n in range(0, maxlen + 1):
            for pat in itertools.product((4, 6), repeat=n):
                addrs = [[f, i + 1, 1000 + i] for i, f in enumerate(pat)]
                for pref in ("4", "6", "n"):
                    cases.append(["s", pref, "-", 1, 8080 if n % 2 else 443, addrs])
        exhaustive_n = len(cases)
        # transport entry point: all bindings x he on/off on random lists
        nrand = 600 if tier == "quick" else 20000
        for _ in range(nrand):
            n = rng.choice([0, 1, 2, 3, 5, 8, 13, 21, 34, 64]) if rng.random() < 0.5 else rng.randint(0, 12)
            ids = [rng.randint(1, max(2, n // 2 + 1)) for _ in range(n)]  # duplicates likely
            bias = rng.choice([0.1, 0.5, 0.9])
            addrs = [[4 if rng.random() < bias else 6, ids[i], rng.choice([0, 80, 443, 65535, rng.randint(0, 65535)])]
                     for i in range(n)]
            if rng.random() < 0.3:
                # IPv4-mapped IPv6 addresses (::ffff:a.b.c.d) are IPv6 socket addresses: ids 48..63
                for a in addrs:
                    if a[0] == 6 and rng.random() < 0.5:
                        a[1] = 48 + a[1] % 16
            if rng.random() < 0.4:
                # zoned / flow-labelled IPv6 addresses (scope_id, flowinfo) are distinct addresses: id carries them
                for a in addrs:
                    if a[0] == 6 and rng.random() < 0.6:
                        a[1] = a[1] % 64 + 64 * rng.choice([0, 1, 3]) + 4096 * rng.choice([0, 0, 7])
            port = rng.choice([0, 1, 80, 443, 8080, 65535, rng.randint(0, 65535)])
            if rng.random() < 0.7:
                cases.append(["t", rng.choice([0, 1, 1, 2]), rng.choice([0, 1, 1, 2]), 1 if rng.random() < 0.8 else 0, port, addrs])
            else:
                cases.append(["s", rng.choice(["4", "6", "n"]), "-", 1 if rng.random() < 0.9 else 0, port, addrs])
        return cases, {"rule": f"exhaustive over all family patterns of length <= {maxlen} x 3 preferences "
                               f"({exhaustive_n} cases) + {nrand} random (seeded) lists up to length 64 with duplicates "
                               "through both entry points", "exhaustive": False,
                       "extra": {"exhaustive_part": exhaustive_n}}

    def impl_line(self, c):
        mode, a, b, he, port, addrs = c
        al = ",".join(f"{f}:{i}:{p}" for f, i, p in addrs) or "-"
        return f"{mode} {a} {b} {he} {port} {al}"

    def parse_obs(self, c, line):
        if line.startswith("PANIC"):
            return None
        if line.strip() == "-":
            return []
        return [[int(x) for x in a.split(":")] for a in line.split(",")]

    def coq_addrs(self, addrs):
        return "[" + "; ".join(f"mkAddr {fam_coq(f)} {i} {p}" for f, i, p in addrs) + "]"

    def coq_case(self, c):
        mode, a, b, he, port, addrs = c
        if mode == "s":
            pref = {"4": "(Some V4)", "6": "(Some V6)", "n": "None"}[a]
            return f"CSort {pref} {'true' if he else 'false'} {port} {self.coq_addrs(addrs)}"
        bl = lambda x: "true" if x else "false"
        return f"CTransport {bl(a)} {bl(b)} {bl(he)} {port} {self.coq_addrs(addrs)}"

    def coq_obs(self, o):
        return "None" if o is None else f"(Some {self.coq_addrs(o)})"

    def nontrivial_key(self, c, o):
        fams = {a[0] for a in c[5]}
        ids = [(a[0], a[1]) for a in c[5]]
        if len(fams) == 2 or len(set(ids)) < len(ids):
            return repr(c)
        return None

    def shrinks(self, c):
        mode, a, b, he, port, addrs = c
        for i in range(len(addrs)):
            yield [mode, a, b, he, port, addrs[:i] + addrs[i + 1:]]

    def histogram(self, cases, obss):
        h = {"len": {}, "mode": {}, "both_families": 0, "with_duplicates": 0, "sorted": 0}
        for c in cases:
            n = len(c[5])
            b = "0" if n == 0 else "1-3" if n <= 3 else "4-10" if n <= 10 else ">10"
            h["len"][b] = h["len"].get(b, 0) + 1
            h["mode"][c[0]] = h["mode"].get(c[0], 0) + 1
            h["both_families"] += len({x[0] for x in c[5]}) == 2
            ids = [(x[0], x[1]) for x in c[5]]
            h["with_duplicates"] += len(set(ids)) < len(ids)
            h["sorted"] += bool(c[3])
        return h


PLUGIN = C16()
