from p_he import C10
PLUGIN = C10()
