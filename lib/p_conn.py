"""M-CONN: the real HttpConnection against the PoolableConnection contract the pool model assumes
(coq/conn/*, harness/src/bin/conn.rs).  Not a property of its own: `with_conn(pool_plugin)` mixes the
connection cases into a pool property's check (C02, C05), so that a regression of
HttpConnection::{is_open, can_share, reuse, poll_ready, version, send_request} is seen there."""
import itertools
import json
import os

import core

HEADER = "From HD Require Import common.Base http.Model conn.Model conn.Spec conn.Corr."
OPS = {"S10": "HSend V10", "S11": "HSend V11", "S2": "HSend V2", "K": "HKeep", "C": "HCloseResp", "D": "HPeerDrop",
       "G": "HGoaway", "Q": "HSettle"}
VER = {"09": "V09", "10": "V10", "11": "V11", "2": "V2", "3": "V3"}
RDY = {"ok": "PReadyOk", "pend": "PPending", "err": "PReadyErr"}

# scripted corner cases: every phase x operation of interest, both protocols
SCRIPTED = [
    "h1 S11 K S10 K S2 C Q", "h1 S11 S11 K K", "h1 S11 D Q", "h1 D S11", "h1 G S11", "h1 S11 G K S11", "h1 S11 C S11 K",
    "h1 S11 G D S11", "h1 S11 G S11 C K", "h1 S11 G G K", "h1 S11 K G", "h1 S11 C D G S11 K", "h1 K C Q S11 S11 S11 K",
    "h1 Q", "h1 S2 K S2 K S2 K", "h1 S10 C", "h1 S11 Q Q K Q",
    "h2 S11 S2 K K S10 C Q", "h2 S2 S2 D Q S2", "h2 D", "h2 G Q S2 Q", "h2 S2 S2 G S2 K K Q", "h2 S2 G K S2",
    "h2 S2 S2 G S2 D Q", "h2 S2 S2 G D S2", "h2 S2 S2 G G C K", "h2 S2 G S2 K G D", "h2 S2 S2 S2 K D K", "h2 G D K C",
    "h2 Q", "h2 S10 S11 S2 K K K", "h2 S2 C S2 C", "h2 S2 S2 S2 S2 K K K K",
]


def is_conn(c):
    return isinstance(c, dict) and "conn" in c


def case_of(line):
    f = line.split()
    return {"conn": f[0], "ops": f[1:]}


def gen_cases(tier, rng):
    cases = [case_of(l) for l in SCRIPTED]
    n = 160 if tier == "quick" else 6000
    for _ in range(n):
        proto = rng.choice(["h1", "h2"])
        w = rng.choice([
            ["S11", "S11", "S10", "S2", "K", "K", "K", "C", "D", "G", "Q"],          # default
            ["S11", "S2", "S10", "K", "K", "K", "K", "Q"],                            # long keep-alive life
            ["S2", "S2", "S2", "K", "G", "D", "C"],                                   # many in flight, then the end
        ])
        cases.append({"conn": proto, "ops": [rng.choice(w) for _ in range(rng.randint(0, 12))]})
    if tier != "quick":
        # every sequence of length <= 4 over the operation classes, both protocols
        for proto in ("h1", "h2"):
            for k in range(1, 5):
                for ops in itertools.product(["S11", "K", "C", "D", "G"], repeat=k):
                    cases.append({"conn": proto, "ops": list(ops)})
    return cases


def impl_line(c):
    return " ".join([c["conn"]] + c["ops"])


def parse_obs(line):
    if not line.startswith("o="):
        return None
    out = []
    for seg in line.split(" | "):
        d = dict(kv.split("=", 1) for kv in seg.split())
        out.append(d)
    return out


def coq_case(c):
    return f"mkCase {'PH2' if c['conn'] == 'h2' else 'PH1'} [{'; '.join(OPS[o] for o in c['ops'])}]"


def b(x):
    return "true" if x == "1" else "false"


def coq_obs(o):
    if o is None:
        return "OBad"
    items = []
    for d in o:
        if d["c"] == "-":
            clone = "None"
        else:
            co, cs, cp = d["c"].split(".")
            clone = f"(Some ({b(co)}, {b(cs)}, {RDY[cp]}))"
        seen = "None" if d["sv"] == "-" else f"(Some {VER[d['sv']]})"
        items.append(f"mkO {b(d['o'])} {b(d['s'])} {b(d['r'])} {VER[d['v']]} {RDY[d['p']]} {clone} {d['ok']} {d['err']} {seen}")
    return "OObs [" + "; ".join(items) + "]"


def evaluate(prop, cases):
    lines = [impl_line(c) for c in cases]
    outs = core.run_impl("conn", lines, (), jobs=8)
    if len(outs) != len(cases):
        raise core.CheckError(f"conn: {len(outs)} outputs for {len(cases)} cases")
    obss = [parse_obs(o) for o in outs]
    terms = [f"({coq_case(c)}, {coq_obs(o)})" for c, o in zip(cases, obss)]
    mism, monf = core.coq_check_cases(prop + "conn", HEADER, terms, "check_all", 400)
    return obss, mism, monf


def shrinks(c):
    ops = c["ops"]
    for cut in (len(ops) // 2, len(ops) - 1):
        if 0 < cut < len(ops):
            yield {"conn": c["conn"], "ops": ops[:cut]}
    for i in range(len(ops) - 1, -1, -1):
        yield {"conn": c["conn"], "ops": ops[:i] + ops[i + 1:]}


def histogram(cases, obss):
    h = {"cases": len(cases), "proto": {}, "ops": {}, "len": {}, "final": {}, "observations": 0,
         "is_open=1": 0, "poll_ready": {}, "requests_ok": 0, "requests_err": 0}
    for c, o in zip(cases, obss):
        h["proto"][c["conn"]] = h["proto"].get(c["conn"], 0) + 1
        for x in c["ops"]:
            h["ops"][x] = h["ops"].get(x, 0) + 1
        k = str(len(c["ops"]))
        h["len"][k] = h["len"].get(k, 0) + 1
        if o:
            for d in o:
                h["observations"] += 1
                h["is_open=1"] += d["o"] == "1"
                h["poll_ready"][d["p"]] = h["poll_ready"].get(d["p"], 0) + 1
            last = o[-1]
            h["requests_ok"] += int(last["ok"])
            h["requests_err"] += int(last["err"])
            f = {"ok": "open/idle", "pend": "busy", "err": "closed"}[last["p"]]
            h["final"][f] = h["final"].get(f, 0) + 1
    return h


RULE = (" || M-CONN cases: the REAL HttpConnection (built by the library's HttpConnectionBuilder, HTTP/1.1 and HTTP/2 prior knowledge, over "
        "the duplex stream) against a scripted hyper server end: operation lists over send (version field 1.0/1.1/2) / server answers "
        "keep-alive / answers `Connection: close` / server end dropped / server graceful_shutdown (GOAWAY) / settle; after the handshake and "
        "after every operation is_open, can_share, reuse().is_some(), version, poll_ready (polled once), the same through a reuse()d handle, "
        "completed/failed request counts and the version the server was given are compared with the Coq model (conn/Model.v) and judged by "
        "the contract monitor mon_conn (conn/Spec.v): sharing constant = HTTP/2, open => ready, closed absorbing, busy HTTP/1 never open, "
        "clone sees the same, version rewritten")
TRUSTED = [
    "M-CONN oracle O1 (observed, compared on every run, not proved): hyper 1.x SendRequest::{is_ready, poll_ready, send_request} and hyper's "
    "server connection behave as transcribed in conn/Model.v (O1.1-O1.6: HTTP/1 ready iff no exchange in flight; HTTP/2 ready while the "
    "connection task lives; closed for ever once the peer is gone; `Connection: close`; graceful_shutdown / GOAWAY incl. the window in which an "
    "HTTP/2 sender still reports ready although new requests fail; peer drop fails everything in flight)",
    "modelled (not verified): HttpConnection::{is_open, can_share, reuse, poll_ready, version, send_request} (client/conn/connection.rs); "
    "conn/PoolLink.v maps M-CONN steps to the pool model's ConnReady / ConnClose / hand-out moves on (c_share, c_open, c_ready)",
]


def with_conn(pool):
    """wrap a pool plugin: its own cases (dicts with "cfg") + connection cases (dicts with "conn")"""
    base_generate, base_evaluate = pool.generate, pool.evaluate
    base = {k: getattr(pool, k) for k in ("impl_line", "coq_case", "shrinks", "shrink", "nontrivial_key", "sample_json", "histogram",
                                          "known_match", "header_for")}

    def generate(tier, rng):
        cases, meta = base_generate(tier, rng)
        cc = gen_cases(tier, rng)
        meta = dict(meta)
        meta["rule"] = meta.get("rule", "") + f" + {len(cc)} M-CONN cases ({len(SCRIPTED)} scripted corner cases, seeded random operation lists of " \
                                              f"length 0..12{'' if tier == 'quick' else ', all sequences of length <= 4 over 5 operation classes'}, both protocols)"
        return cases + cc, meta

    def evaluate(cases):
        ia = [i for i, c in enumerate(cases) if not is_conn(c)]
        ib = [i for i, c in enumerate(cases) if is_conn(c)]
        obss = [None] * len(cases)
        mism, monf = [], []
        if ia:
            o, m, f = base_evaluate([cases[i] for i in ia])
            for j, i in enumerate(ia):
                obss[i] = o[j]
            mism += [ia[j] for j in m]
            monf += [ia[j] for j in f]
        if ib:
            o, m, f = evaluate_conn([cases[i] for i in ib])
            for j, i in enumerate(ib):
                obss[i] = o[j]
            mism += [ib[j] for j in m]
            monf += [ib[j] for j in f]
        return obss, sorted(mism), sorted(monf)

    def evaluate_conn(cases):
        return globals()["evaluate"](pool.prop, cases)

    def shrink(case, kind):
        if not is_conn(case):
            return base["shrink"](case, kind)
        cur = case
        for _ in range(40):
            cands = list(shrinks(cur))
            if not cands:
                break
            _, mism, monf = evaluate_conn(cands)
            bad = monf if kind == "monitor" else mism
            if not bad:
                break
            cur = cands[min(bad)]
        return cur

    pool.generate = generate
    pool.evaluate = evaluate
    pool.shrink = shrink
    pool.impl_line = lambda c: impl_line(c) if is_conn(c) else base["impl_line"](c)
    pool.coq_case = lambda c: coq_case(c) if is_conn(c) else base["coq_case"](c)
    pool.shrinks = lambda c: shrinks(c) if is_conn(c) else base["shrinks"](c)
    pool.nontrivial_key = lambda c, o: (impl_line(c) if len(c["ops"]) >= 2 else None) if is_conn(c) else base["nontrivial_key"](c, o)
    pool.sample_json = lambda c, o: {"case": impl_line(c), "impl": None if o is None else len(o)} if is_conn(c) else base["sample_json"](c, o)
    pool.known_match = lambda f, c, o: False if is_conn(c) else base["known_match"](f, c, o)
    pool.header_for = lambda c: HEADER if is_conn(c) else base["header_for"](c)

    def hist(cases, obss):
        a = [(c, o) for c, o in zip(cases, obss) if not is_conn(c)]
        bb = [(c, o) for c, o in zip(cases, obss) if is_conn(c)]
        h = base["histogram"]([x[0] for x in a], [x[1] for x in a])
        h["conn_cases"] = histogram([x[0] for x in bb], [x[1] for x in bb])
        return h
    pool.histogram = hist
    pool.extra_bins = tuple(getattr(pool, "extra_bins", ())) + ("conn",)
    pool.coq_targets = tuple(pool.coq_targets) + ("conn/Corr.vo",)
    pool.rule = pool.rule + RULE
    pool.trusted = list(pool.trusted) + TRUSTED
    return pool
