"""C10 / C11 — happy eyeballs (M-HE)."""
import itertools
from core import Plugin

OUT = {"S": "Succ", "F": "Fail", "N": "Never"}


def optN(x):
    return "None" if x is None else f"(Some {x})"


def optnat(x):
    return "None" if x is None else f"(Some {x}%nat)"


class HE(Plugin):
    harness_bin = "he"
    coq_targets = ("he/Corr.vo",)
    header = "From HD Require Import common.Base he.Model he.Spec he.Corr.\nOpen Scope N_scope."
    shard = 200
    impl_jobs = 8
    design_ref = "DESIGN.md section 4 C10/C11, 3.2, appendix B"
    rule = ("case = (stagger delay, overall timeout, initial concurrency, list of scripted attempts (outcome, latency ms)); "
            "implementation = real EyeballSet under tokio's paused clock with scripted futures recording first-poll / "
            "ready / drop instants; model evaluated with the tie-break the implementation exhibited; non-trivial = at "
            "least 2 attempts with at least two different outcomes or latencies; distinct = distinct case tuples")
    trusted = [
        "hook: re-export of crate-private happy_eyeballs::{EyeballSet, HappyEyeballsError} (feature verif-hooks), no behaviour change",
        "modelled (not verified): EyeballSet::{push, process_all, join_next, join_next_with_timeout, finish}; oracle O4: tokio paused clock, Timeout polls the inner future before its timer; FuturesUnordered FIFO ready queue with unspecified order among simultaneous timer wake-ups (universally quantified tie-break)",
    ]
    assumptions = ["tokio timer wheel at 1 ms granularity under the paused clock (all scripted times are whole ms)",
                   "scripted attempts stand for TCP connects; real socket behaviour is R4"]

    # case = [delay, timeout, conc, [[o, lat], ...]]
    def grid(self, maxn, lats, delays, timeouts, concs_extra=()):
        for n in range(0, maxn + 1):
            for outs in itertools.product("SFN", repeat=n):
                for ls in itertools.product(lats, repeat=n):
                    atts = [[o, 0 if o == "N" else l] for o, l in zip(outs, ls)]
                    if any(o == "N" and l != lats[0] for o, l in zip(outs, ls)):
                        continue  # latency of a never-completing attempt is irrelevant
                    for d in delays:
                        for t in timeouts:
                            for c in sorted({None, 0, 1, 2, n} | set(concs_extra), key=lambda x: (x is None, x)):
                                yield [d, t, c, atts]

    def generate(self, tier, rng):
        if tier == "quick":
            full = list(self.grid(3, (0, 1, 2, 5), (None, 0, 3), (None, 0, 4, 8)))
            rng.shuffle(full)
            cases = full[:9000]
            nrand = 3000
            rule = f"seeded sample of 9000 from the exhaustive grid (N<=3, {len(full)} points)"
            exhaustive = False
        else:
            cases = list(self.grid(4, (0, 1, 2, 5), (None, 0, 3), (None, 0, 4, 8)))
            nrand = 60000
            rule = f"exhaustive grid N<=4 attempts x outcomes x latency{{0,1,2,5}} x delay{{None,0,3}} x timeout{{None,0,4,8}} x conc{{None,0,1,2,N}} ({len(cases)} points)"
            exhaustive = False
        for _ in range(nrand):
            n = rng.randint(0, 8)
            lat_pool = rng.choice([(0, 1, 2, 3), (0, 5, 10, 20, 40), (1, 2, 3, 4, 5, 6, 7, 8, 9), (0, 0, 0, 1, 7)])
            atts = []
            for _i in range(n):
                o = rng.choices("SFN", weights=rng.choice([(1, 4, 1), (1, 1, 1), (0, 5, 1), (2, 1, 0)]))[0]
                atts.append([o, 0 if o == "N" else rng.choice(lat_pool)])
            d = rng.choice([None, 0, 1, 2, 3, 5, 10, 25])
            t = rng.choice([None, None, 0, 1, 4, 8, 15, 30, 60, 100])
            c = rng.choice([None, 0, 1, 2, 3, n, n + 2])
            cases.append([d, t, c, atts])
        return cases, {"rule": rule + f" + {nrand} random cases N<=8 (seeded)", "exhaustive": exhaustive}

    def impl_line(self, c):
        d, t, k, atts = c
        f = lambda x: "-" if x is None else str(x)
        return f"{f(d)} {f(t)} {f(k)} " + (",".join(f"{o}:{l}" for o, l in atts) or "-")

    def parse_obs(self, c, line):
        res, at, evs = line.split(";", 2)
        events = []
        if evs != "-":
            for e in evs.split(","):
                kind, rest = e[0], e[1:]
                i, t = rest.split("@")
                events.append([kind, int(i), int(t)])
        return {"res": res, "at": None if at == "-" else int(at), "events": events}

    def coq_case(self, c):
        d, t, k, atts = c
        al = "[" + "; ".join(f"mkAtt {OUT[o]} {l}" for o, l in atts) + "]"
        return f"mkCase (mkCfg {optN(d)} {optN(t)} {optnat(k)}) {al}"

    def coq_obs(self, o):
        r = o["res"]
        if r.startswith("OK "):
            res = f"ROk {r[3:]}%nat"
        elif r.startswith("ERR "):
            res = f"RErr {r[4:]}%nat"
        else:
            res = {"NOPROGRESS": "RNoProgress", "TIMEOUT": "RTimeout", "HANG": "RHang"}.get(r, "RFuel")
        evs = "[" + "; ".join(f"{'EStart' if k == 'S' else 'EDone'} {i}%nat {t}" for k, i, t in o["events"] if k in "SD") + "]"
        return f"(({res}, {optN(o['at'])}), {evs})"

    def nontrivial_key(self, c, o):
        atts = c[3]
        if len(atts) >= 2 and len({tuple(a) for a in atts}) >= 2:
            return repr(c)
        return None

    def shrinks(self, c):
        d, t, k, atts = c
        for i in range(len(atts)):
            yield [d, t, k, atts[:i] + atts[i + 1:]]
        for i, (o, l) in enumerate(atts):
            if l > 0:
                yield [d, t, k, atts[:i] + [[o, l - 1]] + atts[i + 1:]]
        if k not in (None, 0):
            yield [d, t, k - 1, atts]
        if d:
            yield [d - 1, t, k, atts]
        if t:
            yield [d, t - 1, k, atts]

    def histogram(self, cases, obss):
        h = {"n_attempts": {}, "result": {}, "delay": {}, "timeout": {}, "conc": {}, "ties_at_completion": 0}
        for c, o in zip(cases, obss):
            n = len(c[3])
            h["n_attempts"][str(n)] = h["n_attempts"].get(str(n), 0) + 1
            r = o["res"].split()[0]
            h["result"][r] = h["result"].get(r, 0) + 1
            for key, v in (("delay", c[0]), ("timeout", c[1]), ("conc", c[2])):
                kk = "None" if v is None else "0" if v == 0 else ">0"
                h[key][kk] = h[key].get(kk, 0) + 1
            dts = [t for k, i, t in o["events"] if k == "D"]
            h["ties_at_completion"] += len(dts) != len(set(dts))
        return h

    def drop_rule_violations(self, cases, obss):
        return 0


class C10(HE):
    prop = "C10"
    check_fn = "check_all_C10"


class C11(HE):
    prop = "C11"
    check_fn = "check_all_C11"
