"""C10 / C11 — happy eyeballs (M-HE)."""
import itertools
from core import Plugin

OUT = {"S": "Succ", "F": "Fail", "N": "Never"}


def optN(x):
    return "None" if x is None else f"(Some {x})"


def optnat(x):
    return "None" if x is None else f"(Some {x}%nat)"


class TcpGlue(Plugin):
    """M-TCPGLUE: the real TcpTransport::connect_to_addrs over 127.0.0.1 (harness bin tcpglue) against
    he/Tcp.v.  case = {"kind": "tcp", "timeout": ns|None, "conc": k|None, "pattern": "LCL.."}"""
    harness_bin = "tcpglue"
    header = "From HD Require Import common.Base he.Model he.Spec he.Tcp he.TcpCorr.\nOpen Scope N_scope."
    check_fn = "check_all_tcp"
    shard = 200
    impl_jobs = 1
    MS = 1000000
    TIMEOUTS = (None, 500 * MS, 1000 * MS, 1000 * MS + 7, 2500 * MS + 1, 30000 * MS, 3600000 * MS + 11)

    def patterns(self, n, rng, extra):
        if n <= 3:
            return ["".join(p) for p in itertools.product("CL", repeat=n)]
        ps = {"C" * n, "L" * n, "C" * (n - 1) + "L", "L" + "C" * (n - 1), "C" + "L" * (n - 1)}
        while len(ps) < 5 + extra:
            ps.add("".join(rng.choice("CCL") for _ in range(n)))
        return sorted(ps)

    def grid(self, rng, extra):
        for n in range(0, 7):
            for pat in self.patterns(n, rng, extra):
                for t in self.TIMEOUTS:
                    for c in sorted({None, 0, 1, 2, n}, key=lambda x: (x is None, x)):
                        yield {"kind": "tcp", "timeout": t, "conc": c, "pattern": pat}

    def generate(self, tier, rng):
        full = list(self.grid(rng, 2 if tier == "quick" else 8))
        if tier == "quick":
            rng.shuffle(full)
            keep, seen = [], set()
            for c in full:       # every (n, timeout set?, conc) class at least once, then fill up
                k = (len(c["pattern"]), c["timeout"] is None, c["conc"])
                if k not in seen:
                    seen.add(k)
                    keep.append(c)
            keep += [c for c in full if c not in keep][: max(0, 420 - len(keep))]
            return keep, f"{len(keep)} of the {len(full)} tcp-glue grid points"
        return full, f"all {len(full)} tcp-glue grid points"

    def impl_line(self, c):
        f = lambda x: "-" if x is None else str(x)
        return f"{f(c['timeout'])} {f(c['conc'])} {c['pattern'] or '-'}"

    def parse_obs(self, c, line):
        parts = line.split(";", 3)
        if len(parts) != 4:
            return {"delay": "?", "timeout": "?", "n": "?", "class": "PANIC unparsable: " + line[:80]}
        return {"delay": parts[0], "timeout": parts[1], "n": parts[2], "class": parts[3]}

    def coq_case(self, c):
        l = "[" + "; ".join("true" if ch == "L" else "false" for ch in c["pattern"]) + "]"
        return f"mkTCase {optN(c['timeout'])} {optnat(c['conc'])} {l}"

    @staticmethod
    def oo(x):
        if x == "none":
            return "(Some None)"
        if x.isdigit():
            return f"(Some (Some {x}))"
        return "None"

    def coq_obs(self, o):
        cl = o["class"]
        if cl.startswith("OK "):
            k = f"(COk {int(cl[3:])}%nat)"
        else:
            k = {"ERR-timeout": "CErrTimeout", "ERR-exhausted": "CErrExhausted", "HANG": "CHang"}.get(cl)
            if k is None:
                k = "CErrOther" if cl.startswith("ERR-other") else "CPanic"
        n = f"(Some {int(o['n'])}%nat)" if o["n"].isdigit() else "None"
        return f"(mkTObs {self.oo(o['delay'])} {self.oo(o['timeout'])} {n} {k})"

    def nontrivial_key(self, c, o):
        return repr(sorted(c.items())) if len(c["pattern"]) >= 1 else None

    def shrinks(self, c):
        pat = c["pattern"]
        for i in range(len(pat)):
            yield dict(c, pattern=pat[:i] + pat[i + 1:])
        for i, ch in enumerate(pat):
            if ch == "L":
                yield dict(c, pattern=pat[:i] + "C" + pat[i + 1:])
        if c["conc"] not in (None, 0):
            yield dict(c, conc=c["conc"] - 1)
        if c["conc"] is not None:
            yield dict(c, conc=None)
        if c["timeout"] is not None and c["timeout"] != 1000 * self.MS:
            yield dict(c, timeout=1000 * self.MS)

    def histogram(self, cases, obss):
        h = {"n_addresses": {}, "result": {}, "timeout": {}, "conc": {}, "delay_not_exact_ms": 0}
        for c, o in zip(cases, obss):
            for key, v in (("n_addresses", str(len(c["pattern"]))), ("result", o["class"].split()[0]),
                           ("timeout", "None" if c["timeout"] is None else "set"),
                           ("conc", str(c["conc"]))):
                h[key][v] = h[key].get(v, 0) + 1
            h["delay_not_exact_ms"] += o["delay"].isdigit() and int(o["delay"]) % self.MS != 0
        return h


def is_tcp(c):
    return isinstance(c, dict)


class HE(Plugin):
    harness_bin = "he"
    extra_bins = ("tcpglue",)
    coq_targets = ("he/Corr.vo", "he/TcpCorr.vo")
    header = "From HD Require Import common.Base he.Model he.Spec he.Corr.\nOpen Scope N_scope."
    shard = 200
    impl_jobs = 8
    design_ref = "DESIGN.md section 4 C10/C11, 3.2, appendix B"
    rule = ("case = (stagger delay, overall timeout, initial concurrency, list of scripted attempts (outcome, latency ms)); "
            "implementation = real EyeballSet under tokio's paused clock with scripted futures recording first-poll / "
            "ready / drop instants; model evaluated with the tie-break the implementation exhibited; non-trivial = at "
            "least 2 attempts with at least two different outcomes or latencies; distinct = distinct case tuples; "
            "tcp-glue cases (dicts) = (happy_eyeballs_timeout ns, concurrency, pattern of listening/refusing 127.0.0.1 ports): the real "
            "TcpTransport::connect_to_addrs is run, the delay/timeout it hands to EyeballSet::new and the number of attempts are read off "
            "the library's own trace events and compared with tcp_cfg (he/Tcp.v), the result class (and, in sequential runs, the winning "
            "candidate) with the model run on listening = Succ 0, refusing = Fail 0; real time is never compared")
    trusted = [
        "hook: re-export of crate-private happy_eyeballs::{EyeballSet, HappyEyeballsError} (feature verif-hooks), no behaviour change",
        "tcp-glue: hand-written tracing::Subscriber in the harness reading the library's trace events 'happy eyeballs' (delay, timeout) and 'Starting N connection attempts'; Debug rendering of Duration parsed back to ns; loopback sockets (listening = std TcpListener, refusing = bound non-listening socket)",
        "modelled (not verified): TcpConnecting::connect glue (he/Tcp.v): Duration / u32 = floor(total ns / n) as in core::time::Duration::checked_div",
        "modelled (not verified): EyeballSet::{push, process_all, join_next, join_next_with_timeout, finish}; oracle O4: tokio paused clock, Timeout polls the inner future before its timer; FuturesUnordered FIFO ready queue with unspecified order among simultaneous timer wake-ups (universally quantified tie-break)",
    ]
    assumptions = ["tokio timer wheel at 1 ms granularity under the paused clock (all scripted times are whole ms)",
                   "scripted attempts stand for TCP connects; real socket behaviour is R4"]

    def __init__(self):
        self.tcp = TcpGlue()
        self.tcp.prop = self.prop

    def header_for(self, case):
        return self.tcp.header if is_tcp(case) else self.header

    def evaluate(self, cases):
        ia = [i for i, c in enumerate(cases) if not is_tcp(c)]
        ib = [i for i, c in enumerate(cases) if is_tcp(c)]
        obss = [None] * len(cases)
        mism, monf = [], []
        for idx, ev in ((ia, lambda cs: Plugin.evaluate(self, cs)), (ib, self.tcp.evaluate)):
            if idx:
                o, m, f = ev([cases[i] for i in idx])
                for j, i in enumerate(idx):
                    obss[i] = o[j]
                mism += [idx[j] for j in m]
                monf += [idx[j] for j in f]
        return obss, sorted(mism), sorted(monf)

    def parse_obs(self, c, line):
        return self.tcp.parse_obs(c, line) if is_tcp(c) else self.he_parse_obs(c, line)

    def coq_obs(self, o):
        return self.tcp.coq_obs(o) if "class" in o else self.he_coq_obs(o)

    # case = [delay, timeout, conc, [[o, lat], ...]]
    def grid(self, maxn, lats, delays, timeouts, concs_extra=()):
        for n in range(0, maxn + 1):
            for outs in itertools.product("SFN", repeat=n):
                for ls in itertools.product(lats, repeat=n):
                    atts = [[o, 0 if o == "N" else l] for o, l in zip(outs, ls)]
                    if any(o == "N" and l != lats[0] for o, l in zip(outs, ls)):
                        continue  # latency of a never-completing attempt is irrelevant
                    for d in delays:
                        for t in timeouts:
                            for c in sorted({None, 0, 1, 2, n} | set(concs_extra), key=lambda x: (x is None, x)):
                                yield [d, t, c, atts]

    def generate(self, tier, rng):
        if tier == "quick":
            full = list(self.grid(3, (0, 1, 2, 5), (None, 0, 3), (None, 0, 4, 8)))
            rng.shuffle(full)
            cases = full[:9000]
            nrand = 3000
            rule = f"seeded sample of 9000 from the exhaustive grid (N<=3, {len(full)} points)"
            exhaustive = False
        else:
            cases = list(self.grid(4, (0, 1, 2, 5), (None, 0, 3), (None, 0, 4, 8)))
            nrand = 60000
            rule = f"exhaustive grid N<=4 attempts x outcomes x latency{{0,1,2,5}} x delay{{None,0,3}} x timeout{{None,0,4,8}} x conc{{None,0,1,2,N}} ({len(cases)} points)"
            exhaustive = False
        for _ in range(nrand):
            n = rng.randint(0, 8)
            lat_pool = rng.choice([(0, 1, 2, 3), (0, 5, 10, 20, 40), (1, 2, 3, 4, 5, 6, 7, 8, 9), (0, 0, 0, 1, 7)])
            atts = []
            for _i in range(n):
                o = rng.choices("SFN", weights=rng.choice([(1, 4, 1), (1, 1, 1), (0, 5, 1), (2, 1, 0)]))[0]
                atts.append([o, 0 if o == "N" else rng.choice(lat_pool)])
            d = rng.choice([None, 0, 1, 2, 3, 5, 10, 25])
            t = rng.choice([None, None, 0, 1, 4, 8, 15, 30, 60, 100])
            c = rng.choice([None, 0, 1, 2, 3, n, n + 2])
            cases.append([d, t, c, atts])
        tcases, trule = self.tcp.generate(tier, rng)
        return cases + tcases, {"rule": rule + f" + {nrand} random cases N<=8 (seeded) + {trule}", "exhaustive": exhaustive}

    def impl_line(self, c):
        if is_tcp(c):
            return self.tcp.impl_line(c)
        return self.he_impl_line(c)

    def he_impl_line(self, c):
        d, t, k, atts = c
        f = lambda x: "-" if x is None else str(x)
        return f"{f(d)} {f(t)} {f(k)} " + (",".join(f"{o}:{l}" for o, l in atts) or "-")

    def he_parse_obs(self, c, line):
        res, at, evs = line.split(";", 2)
        events = []
        if evs != "-":
            for e in evs.split(","):
                kind, rest = e[0], e[1:]
                i, t = rest.split("@")
                events.append([kind, int(i), int(t)])
        return {"res": res, "at": None if at == "-" else int(at), "events": events}

    def coq_case(self, c):
        if is_tcp(c):
            return self.tcp.coq_case(c)
        return self.he_coq_case(c)

    def he_coq_case(self, c):
        d, t, k, atts = c
        al = "[" + "; ".join(f"mkAtt {OUT[o]} {l}" for o, l in atts) + "]"
        return f"mkCase (mkCfg {optN(d)} {optN(t)} {optnat(k)}) {al}"

    def he_coq_obs(self, o):
        r = o["res"]
        if r.startswith("OK "):
            res = f"ROk {r[3:]}%nat"
        elif r.startswith("ERR "):
            res = f"RErr {r[4:]}%nat"
        else:
            res = {"NOPROGRESS": "RNoProgress", "TIMEOUT": "RTimeout", "HANG": "RHang"}.get(r, "RFuel")
        evs = "[" + "; ".join(f"{'EStart' if k == 'S' else 'EDone'} {i}%nat {t}" for k, i, t in o["events"] if k in "SD") + "]"
        return f"(({res}, {optN(o['at'])}), {evs})"

    def nontrivial_key(self, c, o):
        if is_tcp(c):
            return self.tcp.nontrivial_key(c, o)
        return self.he_nontrivial_key(c, o)

    def he_nontrivial_key(self, c, o):
        atts = c[3]
        if len(atts) >= 2 and len({tuple(a) for a in atts}) >= 2:
            return repr(c)
        return None

    def shrinks(self, c):
        if is_tcp(c):
            return self.tcp.shrinks(c)
        return self.he_shrinks(c)

    def he_shrinks(self, c):
        d, t, k, atts = c
        for i in range(len(atts)):
            yield [d, t, k, atts[:i] + atts[i + 1:]]
        for i, (o, l) in enumerate(atts):
            if l > 0:
                yield [d, t, k, atts[:i] + [[o, l - 1]] + atts[i + 1:]]
        if k not in (None, 0):
            yield [d, t, k - 1, atts]
        if d:
            yield [d - 1, t, k, atts]
        if t:
            yield [d, t - 1, k, atts]

    def histogram(self, cases, obss):
        a = [(c, o) for c, o in zip(cases, obss) if not is_tcp(c)]
        b = [(c, o) for c, o in zip(cases, obss) if is_tcp(c)]
        h = self.he_histogram([x[0] for x in a], [x[1] for x in a])
        h["tcp_glue"] = self.tcp.histogram([x[0] for x in b], [x[1] for x in b])
        return h

    def he_histogram(self, cases, obss):
        h = {"n_attempts": {}, "result": {}, "delay": {}, "timeout": {}, "conc": {}, "ties_at_completion": 0}
        for c, o in zip(cases, obss):
            n = len(c[3])
            h["n_attempts"][str(n)] = h["n_attempts"].get(str(n), 0) + 1
            r = o["res"].split()[0]
            h["result"][r] = h["result"].get(r, 0) + 1
            for key, v in (("delay", c[0]), ("timeout", c[1]), ("conc", c[2])):
                kk = "None" if v is None else "0" if v == 0 else ">0"
                h[key][kk] = h[key].get(kk, 0) + 1
            dts = [t for k, i, t in o["events"] if k == "D"]
            h["ties_at_completion"] += len(dts) != len(set(dts))
        return h

    def drop_rule_violations(self, cases, obss):
        return 0


class C10(HE):
    prop = "C10"
    check_fn = "check_all_C10"


class C11(HE):
    prop = "C11"
    check_fn = "check_all_C11"
