"""C07 (graceful shutdown) and C09 (per-connection faults) — M-SERVER."""
import re
from core import Plugin, coq_eval_terms

class _Kinds(dict):
    """connect tokens; a token may carry ':<n>', the buffer size the client asks for (the model abstracts from it)"""
    def __contains__(self, t):
        return isinstance(t, str) and dict.__contains__(self, t.split(":")[0])

    def __getitem__(self, t):
        return dict.__getitem__(self, t.split(":")[0])


# Cr / Cf: dead on arrival (tcp / unix: reset resp. closed before the server accepts)
KINDS = _Kinds({"C0": "KRaw", "C1": "KH1", "C2": "KH2", "C3": "KCut", "U": "KH1", "Cr": None, "Cf": None})


def base(tok):
    return tok.split(":")[0]
PROTO = {"h1": "PH1", "h2": "PH2", "auto": "PAuto"}

FULL = ["R", "T", "T", "T"]          # one complete exchange on a connection


def ev_term(tok, transport):
    if tok in ("Cr", "Cf"):
        return "EConnectDead"
    if tok in KINDS:
        return f"EConnect {KINDS[tok]}"
    if tok == "X":
        return "ECancelled"
    if tok == "L":
        return "ELost" if transport in ("duplex", "dtls") else None
    if tok == "M":
        return "EMakeFail"
    if tok == "G":
        return "ESignal"
    if re.fullmatch(r"K\d+", tok):
        return f"EMakeSignal {tok[1:]}"
    if tok == "S":
        return "ESettle"
    m = re.fullmatch(r"(P|R|T|Fd|Fg|Fe)(\d+)", tok)
    if m:
        name = {"P": "EPartial", "R": "EReq", "T": "EStep", "Fd": "EDisconnect", "Fg": "EGarbage", "Fe": "EHandlerErr"}[m.group(1)]
        return f"{name} {m.group(2)}"
    return None


OBS = {"C": "OConnect", "B": "OBegin", "J": "OEnvDone", "F": "OFault", "A": "OAccept", "Sp": "OSpawn", "T": "OTold",
       "D": "ODone", "H": "OHandler", "V": "OResp", "N": "ORefused"}
OBS0 = {"X": "OCancel", "L": "OLost", "M": "OMakeArm", "G": "OSignal", "E": "OAcceptErr", "Z+": "OServer true",
        "Z-": "OServer false", "Z!": "OServer false",     # a panic of the serving future: it ended, and not with Ok
        "Q": "OQuiet"}
BROKEN = ["OServer false", "OTold 0", "OTold 0"]     # rejected by both monitors, equal to no model trace


def obs_terms(tokens):
    out = []
    for t in tokens:
        if t in OBS0:
            out.append(OBS0[t])
            continue
        m = re.fullmatch(r"(Sp|[A-Z])(\d+)", t)
        if not m:
            return list(BROKEN)
        if m.group(1) in ("K", "W"):        # client-side views kept in the log for the reader only
            continue
        if m.group(1) not in OBS:
            return list(BROKEN)
        out.append(f"{OBS[m.group(1)]} {m.group(2)}")
    return out


class ServerPlugin(Plugin):
    harness_bin = "server"
    coq_targets = ("server/Corr.vo",)
    header = "From HD Require Import common.Base server.Model server.Spec server.Corr."
    shard = 200
    impl_jobs = 8
    cs_type = "list (case * obs)"
    mon_fn = None

    # case = {"mode": "g"|"p", "proto": "h1"|"h2"|"auto", "tr": "duplex"|"dtls"|"tcp"|"unix", "evs": [tokens],
    #         "cap": server-side per-connection buffer cap (duplex / dtls; optional)}
    # cap and the ':<n>' suffix of connect tokens (requested buffer size) are variation the model abstracts from
    def impl_line(self, c):
        tr = c["tr"] + (f"@{c['cap']}" if c.get("cap") is not None else "")
        return f"{c['mode']} {c['proto']} {tr} {' '.join(c['evs'])}"

    def parse_obs(self, c, line):
        return line.split()

    def coq_case(self, c):
        evs = [ev_term(t, c["tr"]) for t in c["evs"]]
        evs = [e for e in evs if e is not None]
        g = "true" if c["mode"] in ("g", "k") else "false"
        if c["mode"] == "k":          # graceful, and the caller keeps the completed serving future alive
            evs = ["EKeepFuture"] + evs
        return f"mkCase (mkCfg {g} {PROTO[c['proto']]}) [{'; '.join(evs)}]"

    def coq_obs(self, o):
        if not o or o[0] == "PANIC" or o[0] == "BADCASE":
            return "[" + "; ".join(BROKEN) + "]"
        return "[" + "; ".join(obs_terms(o)) + "]"

    def shrinks(self, c):
        evs = c["evs"]
        seen = set()
        for i in range(len(evs)):
            d = dict(c)
            d["evs"] = evs[:i] + evs[i + 1:]
            k = " ".join(d["evs"])
            if k not in seen:
                seen.add(k)
                yield d
        if c["tr"] != "duplex" and "U" not in evs:
            d = dict(c)
            d["tr"] = "duplex"
            yield d
        if c.get("cap") is not None:
            d = dict(c)
            d["cap"] = None
            yield d
        if any(":" in t for t in evs):
            d = dict(c)
            d["evs"] = [base(t) if t in KINDS else t for t in evs]
            yield d

    def nontrivial_key(self, c, o):
        if any(t[0] in "RPF" for t in c["evs"]) or "X" in c["evs"]:
            return self.impl_line(c)
        return None

    def histogram(self, cases, obss):
        h = {"proto": {}, "transport": {}, "mode": {}, "connections": {}, "server_result": {}, "events": {},
             "server_buf_cap": {}, "client_buf_request": {}}
        for c, o in zip(cases, obss):
            for k, key in (("proto", "proto"), ("transport", "tr"), ("mode", "mode")):
                h[k][c[key]] = h[k].get(c[key], 0) + 1
            n = str(sum(1 for t in c["evs"] if t in KINDS))
            h["connections"][n] = h["connections"].get(n, 0) + 1
            cap = str(c.get("cap"))
            h["server_buf_cap"][cap] = h["server_buf_cap"].get(cap, 0) + 1
            for t in c["evs"]:
                if t in KINDS:
                    b = t.split(":")[1] if ":" in t else "default"
                    h["client_buf_request"][b] = h["client_buf_request"].get(b, 0) + 1
            r = "Ok" if "Z+" in o else "Err" if "Z-" in o else "panic" if "Z!" in o else "serving"
            h["server_result"][r] = h["server_result"].get(r, 0) + 1
            for t in c["evs"]:
                k = re.sub(r"\d+$", "", t) if t not in KINDS else base(t)
                h["events"][k] = h["events"].get(k, 0) + 1
        return h

    # ---- helpers for the generators
    @staticmethod
    def merge(rng, queues):
        """random interleaving of several event queues, each kept in order"""
        queues = [list(q) for q in queues if q]
        out = []
        while queues:
            q = rng.choice(queues)
            out.append(q.pop(0))
            if not q:
                queues.remove(q)
        return out

    def monitor_accepts(self, tokens):
        vals = coq_eval_terms(self.prop, self.header, [f"{self.mon_fn} [{'; '.join(obs_terms(tokens))}]"], tag="known")
        return len(vals) == 1 and vals[0].strip() == "true"
