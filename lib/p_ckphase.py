"""M-CKPHASE: one origin of the REAL pool with a two-phase dial (gated transport + gated protocol handshake)
(coq/ckphase/*, harness/src/bin/ckphase.rs).  Not a property of its own: `with_ckphase(pool_plugin)` mixes these
cases into the C14 check, so that a regression of "the waiter is polled before the connector on EVERY poll"
that only shows when a poll finds the transport connected and the handshake pending is seen there (M-POOL
resolves a dial in one environment step and cannot exhibit that poll)."""
import itertools
import re

import core

HEADER = "From HD Require Import common.Base ckphase.Model ckphase.Spec ckphase.Corr."

# how far the waiting request's own dial got when the release lands
PHASES = {
    "unpolled": [],
    "transport-pending": ["P{r}"],
    "transport-done-unseen": ["P{r}", "T{r}.o"],
    "handshake-pending": ["P{r}", "T{r}.o", "P{r}"],
    "handshake-done-unseen": ["P{r}", "T{r}.o", "H{r}.o"],
    "handshake-pending-late": ["P{r}", "T{r}.o", "P{r}", "P{r}"],
}


def is_ck(c):
    return isinstance(c, dict) and "ck" in c


def systematic():
    out = []
    hold = ["I", "P0", "T0.o", "H0.o", "P0"]                  # request 0 holds connection 0
    for cont in (0, 1):
        # one waiting request: the release lands in phase X; then what the environment does before the next poll
        for ph, pre in PHASES.items():
            for between in ([], ["T1.o"], ["T1.o", "H1.o"], ["H1.o"], ["T1.f"], ["H1.f"]):
                for tail in (["T1.o", "H1.o", "I", "P2"], ["I", "P2", "T1.o", "H1.o", "R0"], ["X1", "T1.o", "H1.o"]):
                    ops = hold + ["I"] + [x.format(r=1) for x in pre] + ["R0"] + between + ["P1"] + tail
                    out.append({"ck": cont, "ops": ops, "tag": "release-in-" + ph})
        # two waiting requests in different phases: queue order, second release, cancel of the first
        for pa, pb in itertools.product(list(PHASES)[:5], repeat=2):
            a = [x.format(r=1) for x in PHASES[pa]]
            b = [x.format(r=2) for x in PHASES[pb]]
            for mid in (["R0", "P2", "P1"], ["R0", "P1", "R0", "P2"], ["X1", "R0", "P2"], ["R0", "X1", "P2"],
                        ["R0", "P2", "P1", "T1.o", "H1.o", "P2", "T2.o", "H2.o"]):
                out.append({"ck": cont, "ops": hold + ["I", "I"] + a + b + mid, "tag": "two-waiters"})
        # the waiting request's own dial wins / fails; idle connection at issue; cancel with a connection in the channel
        out += [
            {"ck": cont, "ops": hold + ["I", "P1", "T1.o", "P1", "H1.o", "P1", "R0", "I", "P2", "R1"], "tag": "own-dial"},
            {"ck": cont, "ops": hold + ["I", "P1", "T1.o", "P1", "H1.f", "R0", "P1", "I", "P2"], "tag": "own-dial"},
            {"ck": cont, "ops": hold + ["R0", "I", "X1", "I", "P2"], "tag": "idle-at-issue"},
            {"ck": cont, "ops": hold + ["I", "P1", "T1.o", "P1", "R0", "X1", "H1.o", "I", "P2", "I", "P3"], "tag": "cancel-with-offer"},
            {"ck": cont, "ops": hold + ["I", "I", "P1", "T1.o", "H1.o", "R0", "X1", "P2"], "tag": "cancel-with-offer"},
        ]
    return out


def random_case(rng):
    n = rng.randint(2, 4)
    ops, issued, made = [], 0, 0
    tdone, hdone, polled = set(), set(), set()
    for _ in range(rng.randint(5, 26)):
        if issued == 0 or (issued < n and rng.random() < 0.22):
            ops.append("I")
            issued += 1
            continue
        r = rng.randrange(issued)
        x = rng.random()
        if x < 0.38:
            ops.append(f"P{r}")
            polled.add(r)
        elif x < 0.53:
            q = rng.choice([q for q in polled if q not in tdone] or [r])
            ops.append(f"T{q}.{'o' if rng.random() < 0.88 else 'f'}")
            tdone.add(q)
        elif x < 0.70:
            cand = [q for q in tdone if q not in hdone] or [r]
            q = rng.choice(cand)
            ops.append(f"H{q}.{'o' if rng.random() < 0.88 else 'f'}")
            hdone.add(q)
            made += 1
        elif x < 0.92:
            ops.append(f"R{rng.randrange(max(1, made))}")
        else:
            ops.append(f"X{r}")
    return {"ck": rng.randint(0, 1), "ops": ops, "tag": "random"}


def gen_cases(tier, rng):
    cases = systematic()
    for _ in range(300 if tier == "quick" else 12000):
        cases.append(random_case(rng))
    return cases


def impl_line(c):
    return f"{c['ck']} ; " + " ".join(c["ops"])


def parse_obs(c, line):
    if line.startswith("PANIC"):
        return None
    segs = line.split(" | ") if line.strip() else []
    out = []
    for seg in segs:
        ev, _, snap = seg.partition("#")
        f = snap.strip().split(";")
        if len(f) != 4:
            return None
        out.append({"evs": ev.split(), "idle": [int(x) for x in f[0].split(",") if x], "live": int(f[1]), "closed": int(f[2]),
                    "connects": int(f[3])})
    if len(out) != len(c["ops"]):
        return None
    return out


def coq_op(o):
    k, rest = o[0], o[1:]
    if k == "I":
        return "Issue"
    if k == "P":
        return f"Poll {int(rest)}"
    if k == "X":
        return f"Cancel {int(rest)}"
    if k == "R":
        return f"Release {int(rest)}"
    r, res = rest.split(".")
    return f"{'TDone' if k == 'T' else 'HDone'} {int(r)} {'true' if res == 'o' else 'false'}"


def coq_case(c):
    return f"mkCase {'true' if c['ck'] else 'false'} [{'; '.join(coq_op(o) for o in c['ops'])}]"


def coq_ev(e):
    f = e.split(":")
    if f[0] == "start":
        return f"EStart {int(f[1])}"
    if f[0] == "new":
        return f"ENew {int(f[1])} {int(f[2])}"
    if f[0] == "hand":
        return f"EHand {int(f[1])} {int(f[2])}"
    if f[0] == "pend":
        return f"EPend {int(f[1])}"
    if f[0] == "drop":
        return f"EDrop {int(f[1])}"
    if f[0] == "fail" and f[2] in ("t", "h"):
        return f"EFail {int(f[1])} {'true' if f[2] == 'h' else 'false'}"
    raise ValueError(e)


def coq_obs(o):
    if o is None:
        return "OBad"
    try:
        items = [f"mkO [{'; '.join(coq_ev(e) for e in d['evs'])}] [{'; '.join(map(str, d['idle']))}] {d['live']} {d['closed']} {d['connects']}"
                 for d in o]
    except ValueError:
        return "OBad"
    return "OObs [" + "; ".join(items) + "]"


def evaluate(prop, cases):
    lines = [impl_line(c) for c in cases]
    outs = core.run_impl("ckphase", lines, (), jobs=8)
    if len(outs) != len(cases):
        raise core.CheckError(f"ckphase: {len(outs)} outputs for {len(cases)} cases")
    obss = [parse_obs(c, o) for c, o in zip(cases, outs)]
    terms = [f"({coq_case(c)}, {coq_obs(o)})" for c, o in zip(cases, obss)]
    mism, monf = core.coq_check_cases(prop + "ckphase", HEADER, terms, "check_all", 300)
    return obss, mism, monf


def shrinks(c):
    ops = c["ops"]
    for cut in (len(ops) // 2, len(ops) - 1):
        if 0 < cut < len(ops):
            yield {"ck": c["ck"], "ops": ops[:cut], "tag": c.get("tag", "")}
    for i in range(len(ops) - 1, -1, -1):
        if len(ops) > 1 and ops[i] != "I":
            yield {"ck": c["ck"], "ops": ops[:i] + ops[i + 1:], "tag": c.get("tag", "")}


def histogram(cases, obss):
    h = {"cases": len(cases), "cont": {}, "tag": {}, "ops": {}, "len": {}, "requests": {}, "served_by": {}, "polls_by_phase": {},
         "connections_made": 0, "background_completions": 0, "dropped_dials": 0, "failed_requests": 0}
    for c, o in zip(cases, obss):
        h["cont"][str(c["ck"])] = h["cont"].get(str(c["ck"]), 0) + 1
        t = c.get("tag", "")
        h["tag"][t] = h["tag"].get(t, 0) + 1
        for x in c["ops"]:
            h["ops"][x[0]] = h["ops"].get(x[0], 0) + 1
        k = str(len(c["ops"]) // 5 * 5)
        h["len"][k] = h["len"].get(k, 0) + 1
        n = str(sum(1 for x in c["ops"] if x == "I"))
        h["requests"][n] = h["requests"].get(n, 0) + 1
        if not o:
            continue
        # classify every hand-over: own dial / idle at issue / offered while the own dial was in phase X
        phase = {}          # request -> phase of its own dial as the harness' events show it
        issued = 0
        for op, d in zip(c["ops"], o):
            if op == "I":
                phase[issued] = "unpolled"
                issued += 1
            if op[0] in "TH":
                r, res = op[1:].split(".")
                r = int(r)
                if res == "o" and phase.get(r) in ("transport-pending", "transport-done-unseen", "handshake-pending") :
                    if op[0] == "T" and phase[r] == "transport-pending":
                        phase[r] = "transport-done-unseen"
                    elif op[0] == "H" and phase[r] in ("transport-done-unseen", "handshake-pending"):
                        phase[r] = "handshake-done-unseen" if phase[r] == "transport-done-unseen" else "handshake-done"
            new_here = set()
            before = phase.get(int(op[1:]), "over") if op[0] == "P" else "over"
            for e in d["evs"]:
                f = e.split(":")
                if f[0] == "start":
                    phase[int(f[1])] = "transport-pending"
                elif f[0] == "pend":
                    r = int(f[1])
                    if phase.get(r) == "transport-done-unseen":
                        phase[r] = "handshake-pending"
                elif f[0] == "new":
                    h["connections_made"] += 1
                    new_here.add(int(f[1]))
                    if not (op[0] == "P" and int(op[1:]) == int(f[2]) and f"hand:{f[2]}:{f[1]}" in d["evs"]):
                        h["background_completions"] += 1
                elif f[0] == "drop":
                    h["dropped_dials"] += 1
                elif f[0] == "fail":
                    h["failed_requests"] += 1
                    phase[int(f[1])] = "over"
                elif f[0] == "hand":
                    r, cc = int(f[1]), int(f[2])
                    how = "own dial" if cc in new_here else "pooled connection while own dial " + phase.get(r, "?")
                    h["served_by"][how] = h["served_by"].get(how, 0) + 1
                    phase[r] = "over"
            if op[0] == "X" and phase.get(int(op[1:])) != "over":
                phase[int(op[1:])] = "over"
            if op[0] == "P" and before != "over":
                key = before
                h["polls_by_phase"][key] = h["polls_by_phase"].get(key, 0) + 1
    return h


RULE = (" || M-CKPHASE cases: the REAL ConnectionPoolService (public API) for one origin with a gated transport AND a gated protocol "
        "handshake (own Transport / Protocol / connection / inner service, current-thread runtime, hand polling, spawned tasks run to "
        "quiescence after every operation, no sleeps): operation lists over issue / poll r / transport of r resolves ok|error / "
        "handshake of r resolves ok|error / release c / cancel r, both continue_after_preemption settings; after every operation the "
        "events (connect called, connection made, inner service called with which connection, failure, pending, started dial dropped) "
        "and the pool snapshot (idle ids, live and closed waiters, connects) are compared with the Coq model (ckphase/Model.v) and judged "
        "by mon_ckphase (ckphase/Spec.v): a connection that comes back is offered to the longest-waiting request whatever phase its own "
        "dial is in and serves it at its next poll; an abandoned dial completes into the pool (cont) / is dropped (no cont); nobody is "
        "served twice, no connection serves two requests")
TRUSTED = [
    "M-CKPHASE: modelled (not verified): Checkout::poll / Waiting::poll / as_delayed / PinnedDrop (client/pool/checkout.rs), "
    "Connector::poll_connector (client/conn/connector.rs), Pool::checkout / PoolInner::push / Pooled::drop / WhenReady (client/pool/mod.rs) "
    "for ONE origin, HTTP/1 connections, max_idle >= connections, no idle timeout; spawned tasks run FIFO to quiescence after each operation "
    "(tokio current-thread runtime, as the harness does); agreement with M-POOL where both apply: ckphase/Corr.v overlap examples (vm_compute)",
]


def with_ckphase(pool):
    """wrap a pool plugin: its own cases + two-phase-dial cases (dicts with "ck")"""
    base_generate, base_evaluate = pool.generate, pool.evaluate
    base = {k: getattr(pool, k) for k in ("impl_line", "coq_case", "shrinks", "shrink", "nontrivial_key", "sample_json", "histogram",
                                          "known_match", "header_for")}

    def generate(tier, rng):
        cases, meta = base_generate(tier, rng)
        cc = gen_cases(tier, rng)
        nsys = len(systematic())
        meta = dict(meta)
        meta["rule"] = meta.get("rule", "") + (f" + {len(cc)} M-CKPHASE cases ({nsys} systematic: release lands while the waiting request's own "
                                              "dial is unpolled / transport pending / transport done but unseen / handshake pending / "
                                              "handshake done but unseen, x what the environment does before the next poll x tail, one and two "
                                              f"waiters, both cont settings; {len(cc) - nsys} seeded random operation lists over 2-4 requests)")
        return cases + cc, meta

    def evaluate_ck(cases):
        return evaluate(pool.prop, cases)

    def evaluate_all(cases):
        ia = [i for i, c in enumerate(cases) if not is_ck(c)]
        ib = [i for i, c in enumerate(cases) if is_ck(c)]
        obss = [None] * len(cases)
        mism, monf = [], []
        for idx, ev in ((ia, base_evaluate), (ib, evaluate_ck)):
            if idx:
                o, m, f = ev([cases[i] for i in idx])
                for j, i in enumerate(idx):
                    obss[i] = o[j]
                mism += [idx[j] for j in m]
                monf += [idx[j] for j in f]
        return obss, sorted(mism), sorted(monf)

    def shrink(case, kind):
        if not is_ck(case):
            return base["shrink"](case, kind)
        cur = case
        for _ in range(40):
            cands = list(shrinks(cur))
            if not cands:
                break
            _, mism, monf = evaluate_ck(cands)
            bad = monf if kind == "monitor" else mism
            if not bad:
                break
            cur = cands[min(bad)]
        return cur

    pool.generate = generate
    pool.evaluate = evaluate_all
    pool.shrink = shrink
    pool.impl_line = lambda c: impl_line(c) if is_ck(c) else base["impl_line"](c)
    pool.coq_case = lambda c: coq_case(c) if is_ck(c) else base["coq_case"](c)
    pool.shrinks = lambda c: shrinks(c) if is_ck(c) else base["shrinks"](c)
    pool.nontrivial_key = lambda c, o: (impl_line(c) if len(c["ops"]) >= 3 else None) if is_ck(c) else base["nontrivial_key"](c, o)
    pool.sample_json = lambda c, o: {"case": impl_line(c), "impl": None if o is None else len(o)} if is_ck(c) else base["sample_json"](c, o)
    pool.known_match = lambda f, c, o: False if is_ck(c) else base["known_match"](f, c, o)
    pool.header_for = lambda c: HEADER if is_ck(c) else base["header_for"](c)

    def hist(cases, obss):
        a = [(c, o) for c, o in zip(cases, obss) if not is_ck(c)]
        bb = [(c, o) for c, o in zip(cases, obss) if is_ck(c)]
        h = base["histogram"]([x[0] for x in a], [x[1] for x in a])
        h["ckphase_cases"] = histogram([x[0] for x in bb], [x[1] for x in bb])
        return h
    pool.histogram = hist
    pool.extra_bins = tuple(getattr(pool, "extra_bins", ())) + ("ckphase",)
    pool.coq_targets = tuple(pool.coq_targets) + ("ckphase/Corr.vo",)
    pool.rule = pool.rule + RULE
    pool.trusted = list(pool.trusted) + TRUSTED
    return pool
