"""C20 — SNI validation (M-SNI)."""
import itertools
from core import Plugin
from p_c13 import cs, ostr


class C20(Plugin):
    prop = "C20"
    harness_bin = "sni"
    coq_targets = ("sni/Corr.vo",)
    header = "From HD Require Import common.Base http.Model sni.Model sni.Spec sni.Corr.\nOpen Scope string_scope."
    check_fn = "check_all"
    shard = 300
    impl_jobs = 4
    design_ref = "DESIGN.md 4/C20, 3.7"
    rule = ("case = (HTTP version, Host header value(s), request URI, TLS info: none / no SNI / SNI string, validated flag already set on arrival or not; single requests and sequences of 2-4 requests of different connections through ONE service value and clones of it) through the public "
            "ValidateSNI layer around a recording inner service; observed: forwarded (with the validated flag the inner "
            "service saw) or the rejection kind; non-trivial = TLS info present and a host named; distinct = distinct tuples")
    trusted = [
        "modelled (not verified): server/conn/tls/sni.rs handle()",
        "oracle O7: http::uri::Authority parsing; the model's auth_host is compared with Authority::host() on every case",
        "that the TlsConnectionInfo extension carries the SNI of the real handshake is server/conn/tls/info.rs + rustls (exercised under C12/C01, R3)",
    ]
    assumptions = ["host values are syntactically valid authorities (values the http crate rejects are treated as 'names no host')"]

    NAMES = ["example.com", "Example.COM", "EXAMPLE.com", "other.test", "example.com.", "sub.example.com", "a", "127.0.0.1",
             "[::1]", "[2001:DB8::1]", "[2001:db8::1]", "xn--bcher-kva.example"]
    PORTS = ["", ":443", ":8443", ":", ":0"]
    USER = ["", "user@", "u:p@"]

    def generate(self, tier, rng):
        cases = []
        hosts = [u + n + p for n in self.NAMES for p in self.PORTS for u in self.USER]
        snis = ["example.com", "EXAMPLE.COM", "other.test", "a", "sub.example.com", "127.0.0.1", "xn--bcher-kva.example", "example.com:443"]
        tls_opts = ["none", "nosni"] + ["sni:" + s for s in snis]
        uris_h2 = ["/", "https://example.com/x", "https://Example.COM:8443/", "https://other.test/", "https://[::1]:443/", "*"]
        full = []
        for v in ("10", "11", "2"):
            for hh in [None] + hosts:
                for tls in tls_opts:
                    for uri in (uris_h2 if v == "2" else ["/", "https://other.test/abs"]):
                        full.append([v, [hh] if hh else [], uri, tls])
        if tier == "quick":
            rng.shuffle(full)
            cases = full[:5000]
        else:
            cases = full
        # the TLS info arrives with its validated flag already set (stacked layers, re-dispatched extensions)
        pm = [c + [1] for c in (full[5000:6200] if tier == "quick" else full[::3]) if c[3] != "none"]
        cases = cases + pm
        # several requests of DIFFERENT connections (different server names, none, no TLS) through one service value and
        # clones of it: the verdict for a request depends on that request alone
        nseq = 150 if tier == "quick" else 3000
        pool_ = [c for c in full if c[3] != "none" or rng.random() < 0.1]
        for _ in range(nseq):
            cases.append(["SEQ", [list(rng.choice(pool_)) + [rng.choice([0, 0, 0, 1])] for _ in range(rng.randint(2, 4))]])
        # two Host headers (first one counts), invalid host values
        for tls in tls_opts:
            cases.append(["11", ["example.com", "other.test"], "/", tls])
            cases.append(["11", ["exa mple"], "/", tls])
            cases.append(["2", ["other.test"], "https://example.com/", tls])
        return cases, {"rule": f"{'seeded sample of 5000 from' if tier == 'quick' else 'all of'} the product version x Host value "
                               f"(names x ports x userinfo) x URI x TLS info ({len(full)} points) + multi-Host and invalid-host cases",
                       "exhaustive": tier != "quick"}

    def impl_line(self, c):
        if c[0] == "SEQ":
            return " || ".join(self.impl_line(x) for x in c[1])
        v, hosts, uri, tls = c[:4]
        hx = lambda s: s.encode().hex()
        h = "-" if not hosts else ("+" if len(hosts) > 1 else "") + ",".join(hx(x) for x in hosts)
        t = tls if not tls.startswith("sni:") else "sni:" + hx(tls[4:])
        return f"{v} {h} {uri} {t} {c[4] if len(c) > 4 else 0}"

    def parse_obs(self, c, line):
        if c[0] == "SEQ":
            return [self.parse_obs(x, l) for x, l in zip(c[1], line.split(" || "))]
        dec, res = line.split(" ;; ")
        hd, ud, sd = dec.split(" ")
        return {"hdr": hd, "uri": ud, "sni": sd, "res": res}

    def terms(self, c, o):
        v, hosts, uri, tls = c[:4]
        pre = "true" if len(c) > 4 and c[4] else "false"
        if o["res"] == "BADREQ":
            return None
        d = lambda x: None if x in ("-", "!") else x
        hdr_raw = hosts[0] if hosts and o["hdr"] != "!" else None
        # URI authority raw string: reconstruct from the URI text (between '://' and the next '/')
        uri_raw = None
        if "://" in uri:
            uri_raw = uri.split("://", 1)[1].split("/", 1)[0]
        if tls == "none":
            t = "None"
        elif tls == "nosni" or o["sni"] == "!":
            t = "(Some None)"
        else:
            t = f"(Some (Some {cs(tls[4:])}))"
        req = f"(mkSreq {'true' if v == '2' else 'false'} {ostr(hdr_raw)} {ostr(uri_raw)} {t} {pre})"
        case = f"mkCase {req} {ostr(d(o['hdr']))} {ostr(d(o['uri']))} {ostr(d(o['sni']) if tls.startswith('sni:') else None)}"
        r = {"FWD 0": "ORes (Forward false)", "FWD 1": "ORes (Forward true)", "REJ Invalid": "ORes RejectInvalid",
             "REJ Missing": "ORes RejectMissing"}.get(o["res"], "OBad")
        return case, r

    def evaluate(self, cases):
        from core import run_impl, coq_check_cases
        lines = [self.impl_line(c) for c in cases]
        outs = run_impl(self.harness_bin, lines, self.harness_args, jobs=self.impl_jobs)
        obss = [self.parse_obs(c, o) for c, o in zip(cases, outs)]
        idx, terms = [], []
        for i, (c, o) in enumerate(zip(cases, obss)):
            pairs = list(zip(c[1], o)) if c[0] == "SEQ" else [(c, o)]
            for cc, oo in pairs:            # every request of a sequence is judged on its own; the case index is shared
                t = self.terms(cc, oo)
                if t is not None:
                    idx.append(i)
                    terms.append(f"({t[0]}, {t[1]})")
        mism, monf = coq_check_cases(self.prop, self.header, terms, self.check_fn, self.shard)
        return obss, sorted({idx[i] for i in mism}), sorted({idx[i] for i in monf})

    def shrinks(self, c):
        if c[0] == "SEQ":
            xs = c[1]
            for i in range(len(xs)):
                if len(xs) > 1:
                    yield ["SEQ", xs[:i] + xs[i + 1:]]
            return
        v, hosts, uri, tls = c[:4]
        x = c[4:]
        if x and x[0]:
            yield [v, hosts, uri, tls, 0]
        if len(hosts) > 1:
            yield [v, hosts[:1], uri, tls] + x
        if uri != "/":
            yield [v, hosts, "/", tls] + x
        for h in hosts[:1]:
            if "@" in h:
                yield [v, [h.split("@")[-1]], uri, tls] + x
            if ":" in h and not h.startswith("["):
                yield [v, [h.split(":")[0]], uri, tls] + x

    def nontrivial_key(self, c, o):
        if c[0] == "SEQ":
            return repr(c)
        if c[3] != "none" and (c[1] or "://" in c[2]):
            return repr(c)
        return None

    def histogram(self, cases, obss):
        h = {"result": {}, "version": {}, "tls": {}, "premarked": sum(1 for c in cases if c[0] != "SEQ" and len(c) > 4 and c[4])}
        h["sequences"] = sum(1 for c in cases if c[0] == "SEQ")
        flat = []
        for c, o in zip(cases, obss):
            flat += list(zip(c[1], o)) if c[0] == "SEQ" else [(c, o)]
        for c, o in flat:
            h["result"][o["res"]] = h["result"].get(o["res"], 0) + 1
            h["version"][c[0]] = h["version"].get(c[0], 0) + 1
            k = c[3].split(":")[0]
            h["tls"][k] = h["tls"].get(k, 0) + 1
        return h


PLUGIN = C20()
