from p_pool import Pool, make
PLUGIN = make("C03")
