from p_he import C11
PLUGIN = C11()
