"""C13 — the request put on the wire matches the connection's protocol (M-HTTP)."""
import itertools
from core import Plugin


def cs(s):
    return '"' + s.replace('"', '""') + '"'


def ostr(s):
    return "None" if s is None else f"(Some {cs(s)})"


def dec(field):
    return None if field == "-" else ("" if field == '""' else field)


def parse_decomp(d):
    f = d.split("|")
    if len(f) != 8:
        return None
    scheme, auth, host, prepr, pnum, pq, path, query = [dec(x) for x in f]
    return {"scheme": scheme, "auth": auth, "host": host,
            "port": None if prepr is None or pnum is None else [prepr, int(pnum)],
            "pq": pq, "path": path or "", "query": query}


def coq_uri(u):
    port = "None" if u["port"] is None else f"(Some ({cs(u['port'][0])}, {u['port'][1]}%N))"
    return (f"(mkUri {ostr(u['scheme'])} {ostr(u['auth'])} {ostr(u['host'])} {port} {ostr(u['pq'])} "
            f"{cs(u['path'])} {ostr(u['query'])})")


VER = {"09": "V09", "10": "V10", "11": "V11", "2": "V2", "3": "V3"}


def coq_headers(hs):
    return "[" + "; ".join(f"({cs(n)}, {cs(v)})" for n, v in hs) + "]"


def canon(hs):
    return sorted([[n.lower(), v] for n, v in hs], key=lambda h: h[0])


class C13(Plugin):
    prop = "C13"
    harness_bin = "http"
    coq_targets = ("http/Corr.vo",)
    header = "From HD Require Import common.Base http.Model http.Spec http.Corr.\nOpen Scope string_scope."
    check_fn = "check_all_C13"
    shard = 200
    impl_jobs = 4
    design_ref = "DESIGN.md 4/C13, 3.5"
    rule = ("case L = (connection protocol, method, request version, URI, pre-set headers) through the public layers "
            "SetHostHeaderLayer -> Http2ChecksLayer -> Http1ChecksLayer -> RequestExecutor with a stub connection recording "
            "the final request; case P = (requested protocol, ALPN result) through the real HttpConnectionBuilder over a "
            "duplex with the peer classifying the first bytes; case V = http::Version -> HttpProtocol; non-trivial L = "
            "absolute URI or CONNECT or pre-set hop-by-hop/Host headers; distinct = distinct case tuples")
    trusted = [
        "modelled (not verified): set_host_header, get_non_default_port, is_schema_secure, check_http1_request, authority_form, origin_form, check_http2_request, HttpProtocol::for_version, HttpConnectionBuilder::handshake choice",
        "oracle O7: http::Uri accessors (the harness decomposes URIs with the real crate and hands the components to the model); http::HeaderMap insertion/removal (compared up to order of distinct names)",
        "what hyper writes on the wire for a given http::Request is R2 (exercised end-to-end under C01)",
    ]
    assumptions = ["request line / header bytes on the wire are hyper's rendering of the http::Request that leaves the layer stack"]

    SCHEMES = ["http", "https", "ws", "wss", "ftp", "HTTPS", "WSS", "Http"]
    HOSTS = ["example.com", "Example.COM", "127.0.0.1", "[::1]", "a", "[2001:db8::1]", "u:p@h.test", "xn--bcher-kva.example"]
    PORTS = ["", ":80", ":443", ":8080", ":0080", ":", ":65535", ":0"]
    PATHS = ["", "/", "/a/b", "/a%20b/", "/*", "//x"]
    QUERIES = ["", "?x=1", "?", "?a=b&c=d%2F"]
    METHODS = ["GET", "POST", "CONNECT", "OPTIONS", "PATCH", "M-SEARCH", "HEAD", "connect"]
    HDRSETS = [
        [], [["host", "override.test"]], [["Host", "a"], ["host", "b"]],
        [["connection", "keep-alive"], ["keep-alive", "timeout=5"]],
        [["upgrade", "websocket"], ["connection", "upgrade"], ["te", "trailers"]],
        [["transfer-encoding", "chunked"], ["proxy-connection", "keep-alive"], ["x-a", "1"], ["x-a", "2"], ["accept", "*/*"]],
        [["x-b", "v"], ["host", "h:1"], ["upgrade", "h2c"]],
    ]

    def generate(self, tier, rng):
        cases = []
        uris = []
        for s, h, p, pa, q in itertools.product(self.SCHEMES, self.HOSTS, self.PORTS, self.PATHS, self.QUERIES):
            uris.append(f"{s}://{h}{p}{pa}{q}")
        extra = ["/rel", "/rel?x=1", "*", "example.com:443", "[::1]:8443", "h.test:80", "/", "//auth.test/p", "http://h"]
        if tier == "quick":
            rng.shuffle(uris)
            uris = uris[:1400]
        for u in uris + extra * 6:
            conn = rng.choice(["h1", "h1", "h2"])
            m = rng.choice(self.METHODS)
            v = rng.choice(["09", "10", "11", "11", "2", "3"])
            hs = rng.choice(self.HDRSETS)
            cases.append(["L", conn, m, v, u, hs])
        # every method x conn x header set on a few URIs (small exhaustive block)
        for u in ["https://example.com:443/p?q=1", "http://[::1]:80", "wss://h.test:8443/chat", "example.com:443", "/rel"]:
            for conn, m, hs in itertools.product(["h1", "h2"], self.METHODS, self.HDRSETS):
                cases.append(["L", conn, m, "11", u, hs])
        for rq, a in itertools.product(["h1", "h2"], ["notls", "none", "h2", "h11", "other"]):
            cases.append(["P", rq, a])
        for v in VER:
            cases.append(["V", v])
        return cases, {"rule": f"{len(uris)} URIs from the grammar schemes x hosts x ports x paths x queries "
                               f"({'seeded sample' if tier == 'quick' else 'exhaustive product'}) with random conn/method/version/headers "
                               "+ exhaustive method x conn x header-set block on 5 URIs + all (requested, ALPN) pairs + all versions",
                       "exhaustive": False}

    def impl_line(self, c):
        if c[0] == "L":
            _, conn, m, v, u, hs = c
            h = ",".join(f"{n}:{v_.encode().hex()}" for n, v_ in hs) or "-"
            return f"L {conn} {m} {v} {u} {h}"
        return " ".join(c)

    def parse_obs(self, c, line):
        if c[0] == "L":
            ind, res = line.split(" ;; ", 1)
            o = {"in": parse_decomp(ind) if ind != "-" else None}
            if res.startswith("OK "):
                _, m, v, d, hs = res.split(" ", 4)
                headers = [] if hs == "-" else [[x.split(":")[0], bytes.fromhex(x.split(":")[1]).decode("latin1")] for x in hs.split(",")]
                o.update(kind="OK", method=m, version=v, uri=parse_decomp(d), headers=headers)
            elif res.startswith("ERR "):
                o.update(kind="ERR", err=res[4:])
            elif res.startswith("PANIC"):
                o.update(kind="PANIC", msg=res[6:])
            else:
                o.update(kind="BADREQ")
            return o
        return {"raw": line}

    def coq_case(self, c):
        raise NotImplementedError

    def terms(self, c, o):
        if c[0] == "L":
            if o["kind"] == "BADREQ" or o["in"] is None:
                return None
            _, conn, m, v, u, hs = c
            req = f"(mkReq {cs(m)} {VER[v]} {coq_uri(o['in'])} {coq_headers(canon(hs))})"
            k = f"KLayers {'PH2' if conn == 'h2' else 'PH1'} {req}"
            if o["kind"] == "OK":
                out = f"OOut (Sent (mkReq {cs(o['method'])} {VER[o['version']]} {coq_uri(o['uri'])} {coq_headers(o['headers'])}))"
            elif o["kind"] == "ERR":
                out = {"InvalidMethod": "OOut ErrInvalidMethod", "Other": "OOut ErrProtocol"}.get(o["err"], "OBad")
            else:
                out = f"OOut (Panic {cs(o.get('msg', '')[:60])})"
            return k, out
        if c[0] == "P":
            rq = "PH2" if c[1] == "h2" else "PH1"
            a = {"notls": "NoTls", "none": "AlpnNone", "h2": "AlpnH2", "h11": "AlpnH11", "other": "AlpnOther"}[c[2]]
            parts = o["raw"].split()
            conn = {"11": "(Some PH1)", "2": "(Some PH2)"}.get(parts[0], "None")
            peer = "true" if len(parts) > 1 and parts[1] == "h2preface" else "false"
            return f"KProto {rq} {a}", f"OConn {conn} {peer}"
        v = VER[c[1]]
        r = {"H1": "(Some PH1)", "H2": "(Some PH2)"}.get(o["raw"], "None")
        return f"KVersion {v}", f"OVer {r}"

    def evaluate(self, cases):
        from core import run_impl, coq_check_cases, CheckError
        lines = [self.impl_line(c) for c in cases]
        outs = run_impl(self.harness_bin, lines, self.harness_args, jobs=self.impl_jobs)
        obss = [self.parse_obs(c, o) for c, o in zip(cases, outs)]
        idx, terms = [], []
        for i, (c, o) in enumerate(zip(cases, obss)):
            t = self.terms(c, o)
            if t is not None:
                idx.append(i)
                terms.append(f"({t[0]}, {t[1]})")
        mism, monf = coq_check_cases(self.prop, self.header, terms, self.check_fn, self.shard)
        return obss, [idx[i] for i in mism], [idx[i] for i in monf]

    def coq_case_for_replay(self, c, o):
        t = self.terms(c, o)
        return t[0] if t else "KVersion V11"

    def shrinks(self, c):
        if c[0] != "L":
            return
        _, conn, m, v, u, hs = c
        for i in range(len(hs)):
            yield ["L", conn, m, v, u, hs[:i] + hs[i + 1:]]
        if v != "11":
            yield ["L", conn, m, "11", u, hs]
        if "?" in u:
            yield ["L", conn, m, v, u.split("?")[0], hs]

    def nontrivial_key(self, c, o):
        if c[0] != "L":
            return repr(c)
        if "://" in c[4] or c[2] == "CONNECT" or c[5]:
            return repr(c)
        return None

    def histogram(self, cases, obss):
        h = {"mode": {}, "kind": {}, "conn": {}, "method": {}}
        for c, o in zip(cases, obss):
            h["mode"][c[0]] = h["mode"].get(c[0], 0) + 1
            if c[0] == "L":
                h["kind"][o["kind"] + (":" + o["err"] if o["kind"] == "ERR" else "")] = h["kind"].get(o["kind"] + (":" + o["err"] if o["kind"] == "ERR" else ""), 0) + 1
                h["conn"][c[1]] = h["conn"].get(c[1], 0) + 1
                h["method"][c[2]] = h["method"].get(c[2], 0) + 1
        return h


PLUGIN = C13()
