from p_io import C18
PLUGIN = C18()
