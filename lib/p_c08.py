from p_io import C08
PLUGIN = C08()
