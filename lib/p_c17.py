"""C17 — no request value makes the client panic (M-PANIC = M-HTTP + M-TLS + keys/versions/host-port)."""
import itertools
import json
import re

import core
from core import Plugin
from p_c13 import cs, ostr, parse_decomp, coq_uri, coq_headers, canon, VER

ENTRY = {"client": "(EClient true)", "clientnp": "(EClient false)", "pool": "(EPool true)", "poolnp": "(EPool false)",
         "conn": "(EConnector true)", "connbare": "(EConnector false)"}
ERR = {"InvalidUri": "EInvalidUri", "UnsupportedProtocol": "EUnsupportedProtocol", "NoDomain": "ENoDomain",
       "TlsHandshake": "ETlsHandshake", "Transport": "ETransport", "TcpUri": "ETcpUri",
       "InvalidMethod": "EInvalidMethod", "Protocol": "EProtocol"}
CERT = {"good": "CGood", "wrongname": "CWrongName", "untrusted": "CUntrusted"}
ALPN = {"none": "ANone", "h2": "AH2", "h11": "AH11"}
HK = {"dns": "HDns", "ip": "HIp", "invalid": "HInvalid", "-": "HInvalid"}
FAKE_PORT = "65001"      # stands for the in-process listener's port ({P}) in everything handed to Coq

# names covered by the fixture certificates (fixtures/tls/gen.sh)
COVER = {"good": (["example.test", "localhost", "127.0.0.1", "::1"], ["wild.test"]),
         "wrongname": (["other.test"], []),
         "untrusted": (["example.test", "localhost", "127.0.0.1", "::1"], [])}


def covered(cert, host):
    if host is None:
        return False
    h = host.strip("[]").lower()
    if h.endswith(".") and not h.endswith(".."):
        h = h[:-1]                      # webpki compares DNS names without the trailing dot
    exact, wild = COVER[cert]
    if h in exact:
        return True
    for w in wild:
        if h.endswith("." + w) and "." not in h[: -len(w) - 1] and len(h) > len(w) + 1:
            return True
    return False


class C17(Plugin):
    prop = "C17"
    harness_bin = "panic"
    coq_targets = ("panic/Corr.vo",)
    header = ("From HD Require Import common.Base http.Model http.Spec tls.Model panic.Model panic.Spec panic.Corr.\n"
              "Open Scope string_scope.")
    check_fn = "check_all"
    shard = 150
    impl_jobs = 12
    design_ref = "DESIGN.md 4/C17, 3.5, 3.6"
    rule = ("case = (entry point: Client with/without pool | ConnectionPoolService with/without pool | ConnectorService over the "
            "standard lower stack or the bare executor; transport: TlsTransport<Duplex> or TlsTransport<Tcp + scripted resolver>, "
            "TLS configured or not, server certificate, ALPN lists; request: method, http::Version, URI, pre-set headers, body) "
            "through the real crate against an in-process peer (rustls + hyper h2 server / canned h1 responder), in a debug AND a "
            "release build; observed per build: request reached Connection::send_request (protocol, method, version, URI, Host) | "
            "error class | PANIC file:line (panic hook, any task or thread, + catch_unwind of the caller) | HANG; all tasks "
            "spawned for the request are driven to completion before the verdict (alive=0). non-trivial = reaches the "
            "connector (not rejected by key/version); distinct = distinct case tuples")
    trusted = [
        "modelled (not verified): ConnectionPoolService::connect_to, UriKey::try_from, HttpProtocol::for_version/From, "
        "ConnectorService::call, Connector::poll_connector, TlsTransport::call, TlsTransportWrapper::call, TlsStream::new, "
        "TcpTransport::call/get_host_and_port, HttpConnectionBuilder::handshake choice, set_host_header, check_http1/2_request "
        "(panic-explicit versions proved to refine M-HTTP / M-TLS), Client layer stack (only User-Agent modelled)",
        "oracle O7: http::Uri accessors and the fact that a Uri host only holds bytes HeaderValue::from_str accepts "
        "(req_wf_b; checked on every decomposition); oracle O6: rustls server-name classification and handshake result",
        "R6: panics inside http/hyper/h2/tokio/rustls/tower-http are outside the theorem; they are only found by the sweep "
        "(none found). State-machine sites (futures polled after completion, pool bookkeeping) are argued in "
        "coq/panic/Model.v list B and exercised by the sweep, not proved",
        "a recording wrapper around HttpConnectionBuilder/HttpConnection (harness) marks the send_request boundary",
    ]
    assumptions = ["fresh client/pool per request (no connection reuse across cases); the peer always answers"]

    SCHEMES = ["http", "https", "ws", "wss", "HTTP", "HTTPS", "WSS", "Https", "ftp", "foo+bar"]
    HOSTS = ["example.test", "EXAMPLE.test", "Example.Test", "localhost", "127.0.0.1", "[::1]", "[2001:db8::1]", "a.wild.test",
             "other.test", "a..b", "-a.test", "x_y", "a_b.test", "xn--bcher-kva.example", "1.2.3", "a", "u:p@example.test",
             "example.test.", "[v1.fe80]", "[1.2.3.4]", "[::ffff:1.2.3]", "[:]"]   # bracketed, URI-legal, not IPv6 addresses
    PORTS = ["", ":80", ":443", ":8080", ":", ":0", ":65535", ":00080"]
    PATHS = ["", "/", "/a/b?x=1", "/*", "?q", "/a%20b/"]
    RELATIVE = ["/rel", "/rel?x=1", "/", "*", "//auth.test/p", "/a%20b", "example.test:443", "[::1]:8443", "example.test",
                "a..b:1", "x_y:80", "localhost:", "http:///p", "http://:80/", "http://@/", "https://", "?q"]
    METHODS = ["GET", "POST", "PUT", "DELETE", "HEAD", "OPTIONS", "CONNECT", "PATCH", "TRACE", "M-SEARCH", "connect", "PROPFIND",
               "X" * 40]
    VERSIONS = ["09", "10", "11", "2", "3"]
    HDRSETS = [
        [], [["host", "override.test"]], [["Host", "a"], ["host", "b"]],
        [["connection", "keep-alive"], ["keep-alive", "timeout=5"]],
        [["upgrade", "websocket"], ["connection", "upgrade"]],
        [["transfer-encoding", "chunked"], ["proxy-connection", "keep-alive"], ["x-a", "1"], ["x-a", "2"]],
        [["user-agent", "mine/1"], ["host", "h:1"], ["upgrade", "h2c"]],
        [["content-length", "5"]], [["expect", "100-continue"]], [["te", "trailers"], ["x-long", "v" * 300]],
        # header values that are legal HeaderValues but not visible ASCII (obs-text): to_str() fails on them
        [["connection", "k\u00e9ep"]], [["connection", "close"], ["connection", "\u00ff"]],
        [["connection", "keep-alive"], ["keep-alive", "\u00e9"]], [["upgrade", "\u00e9"], ["connection", "upgrade"]],
        [["te", "\u00e9"]], [["x-a", "\u00e9\u00ff"]], [["proxy-connection", "\u00e9"]], [["transfer-encoding", "\u00e9"]],
        [["user-agent", "\u00e9"]],
    ]
    ENTRIES = ["client", "clientnp", "pool", "poolnp", "conn", "connbare"]
    TLS = [("no", "good", "none", "none"), ("yes", "good", "none", "none"), ("yes", "good", "h2", "h2"),
           ("yes", "good", "h11", "h2"), ("yes", "good", "h2", "none"), ("yes", "wrongname", "h2", "h2"),
           ("yes", "untrusted", "none", "none")]

    # -------------------------------------------------------------------------------- generation
    def headline(self):
        """Every entry x transport on the requests that reach each panic site (calibration mutants D8 D9 D10 + key)."""
        cases = []
        reqs = [
            ("GET", "11", "http://example.test/"), ("GET", "2", "https://example.test/"),
            ("GET", "3", "http://example.test/"), ("GET", "09", "http://example.test/"), ("GET", "10", "https://localhost/"),
            ("GET", "11", "https://[::1]/"), ("GET", "11", "https://a..b/"), ("GET", "11", "wss://x_y/"),
            ("GET", "11", "WSS://-a.test:8443/"), ("GET", "11", "https://[2001:db8::1]:8443/p"),
            ("GET", "11", "/rel"), ("OPTIONS", "11", "*"), ("CONNECT", "11", "/rel"), ("CONNECT", "11", "*"),
            ("CONNECT", "11", "example.test:443"), ("CONNECT", "2", "example.test:443"), ("CONNECT", "11", "https://example.test/"),
            ("GET", "11", "example.test:443"), ("GET", "2", "/rel"), ("GET", "3", "/rel"), ("POST", "10", "//auth.test/p"),
            ("GET", "11", "ftp://example.test/"), ("GET", "11", "ws://example.test"), ("GET", "11", "http://example.test:{P}/"),
            ("GET", "2", "https://localhost:{P}/x?y"), ("CONNECT", "11", "localhost:{P}"),
            ("GET", "11", "example.test"), ("CONNECT", "10", "localhost"), ("GET", "11", "[::1]"), ("GET", "11", "HTTP://example.test"),
        ]
        for e in self.ENTRIES:
            for base in ("duplex", "tcp"):
                for tls in (("no", "good", "none", "none"), ("yes", "good", "h2", "h2"), ("yes", "good", "none", "none")):
                    for m, v, u in reqs:
                        if "{P}" in u and base != "tcp":
                            u = u.replace(":{P}", ":8443")
                        cases.append([e, base, *tls, m, v, u, [], 0, 2 if e in ("client", "pool") and base == "duplex" else 1])
        return cases

    def grammar_uri(self, rng, base):
        k = rng.random()
        if k < 0.22:
            return rng.choice(self.RELATIVE)
        port = rng.choice(self.PORTS)
        if base == "tcp" and rng.random() < 0.5:
            port = ":{P}"
        return f"{rng.choice(self.SCHEMES)}://{rng.choice(self.HOSTS)}{port}{rng.choice(self.PATHS)}"

    def generate(self, tier, rng):
        cases = self.headline()
        n = 8000 if tier == "quick" else 250000
        for _ in range(n):
            base = rng.choice(["duplex", "duplex", "tcp"])
            tls = self.TLS[0] if rng.random() < 0.3 else rng.choice(self.TLS)
            cases.append([rng.choice(self.ENTRIES), base, *tls, rng.choice(self.METHODS), rng.choice(self.VERSIONS),
                          self.grammar_uri(rng, base), rng.choice(self.HDRSETS), rng.choice([0, 0, 1]),
                          rng.choice([1, 1, 2])])
        # every version x method x entry on three URIs (small exhaustive block)
        for e, v, m in itertools.product(self.ENTRIES, self.VERSIONS, self.METHODS):
            for u in ("https://example.test/p?q=1", "/rel", "example.test:443"):
                cases.append([e, "duplex", "yes", "good", "h11", "h2", m, v, u, [], 0])
        # caller-set Host headers on relative / asterisk / absolute URIs, every version x entry, plain and TLS+h2
        for e, v in itertools.product(self.ENTRIES, self.VERSIONS):
            for u in ("/rel", "*", "/rel?x=1", "https://example.test/p"):
                for hs in ([["host", "override.test"]], [["Host", "a"], ["host", "b"]], [["host", "h:1"]]):
                    cases.append([e, "duplex", "no", "good", "none", "none", "GET", v, u, hs, 0])
                    cases.append([e, "duplex", "yes", "good", "h2", "h2", "POST", v, u, hs, 1])
        # every URI of the grammar's host x scheme table once, through a random entry (thorough: through all)
        for s, h in itertools.product(self.SCHEMES, self.HOSTS):
            for e in (self.ENTRIES if tier != "quick" else [rng.choice(self.ENTRIES)]):
                cases.append([e, rng.choice(["duplex", "tcp"]), "yes", "good", "h2", "h2", "GET", rng.choice(["11", "2"]),
                              f"{s}://{h}/", [], 0])
        seen, out = set(), []
        for c in cases:
            k = json.dumps(c)
            if k not in seen:
                seen.add(k)
                out.append(c)
        return out, {"rule": f"headline block (every entry x transport x TLS on the {30} requests that reach each panic site) + "
                             f"{n} seeded draws from entries x transports x TLS/ALPN/certificate x methods x versions x URI grammar "
                             "(schemes x hosts x ports x paths | relative/authority/asterisk/odd forms) x header sets x body + "
                             "exhaustive entry x version x method block on 3 URIs + scheme x host table; each case run in a debug "
                             "and a release build",
                     "exhaustive": False}

    # -------------------------------------------------------------------------------- harness I/O
    def impl_line(self, c):
        e, base, tls, cert, salpn, calpn, m, v, u, hs, body = c[:11]
        h = ",".join(f"{n}:{val.encode().hex()}" for n, val in hs) or "-"
        rep = c[11] if len(c) > 11 else 1
        return f"{e} {base} {tls} {cert} {salpn} {calpn} {m} {v} {u or '-'} {h} {body} {rep}"

    def parse_one(self, c, line):
        parts = line.split(" ;; ")
        if len(parts) != 3:
            return {"kind": "BADLINE", "raw": line}
        left, cls, info = parts
        port = None
        m = re.search(r" port=(\d+)", info)
        if m and "{P}" in c[8]:
            port = m.group(1)

        def fix(s):
            return s.replace(port, FAKE_PORT) if port else s
        o = {"info": re.sub(r" port=\d+", "", info), "alive": int(re.search(r"alive=(\d+)", info).group(1)),
             "caller": re.search(r"caller=(\S+)", info).group(1)}
        if cls == "BADREQ" or left.startswith("- -"):
            o["kind"] = cls.split(" ")[0] if cls.startswith("PANIC") else "BADREQ"
            o["msg"] = cls
            return o
        dec, hk = left.rsplit(" ", 1)
        o["in"] = parse_decomp(fix(dec))
        o["hk"] = hk
        if cls.startswith("SENT "):
            _, conn, meth, ver, d, hosts = cls.split(" ", 5)
            hv = [] if hosts == "-" else [fix(bytes.fromhex(x).decode("latin1")) for x in hosts.split(",")]
            o.update(kind="SENT", conn=conn, method=meth, version=ver, uri=parse_decomp(fix(d)), hosts=hv)
        elif cls.startswith("ERR "):
            o.update(kind="ERR", err=cls[4:])
        elif cls.startswith("PANIC"):
            o.update(kind="PANIC", msg=fix(cls[6:]))
        elif cls == "HANG":
            o.update(kind="HANG")
        elif cls.startswith("DIFF "):
            o.update(kind="DIFF", msg=cls[5:])      # a repeated send was treated differently: no model class
        else:
            o.update(kind="BADLINE", raw=line)
        return o

    def parse_obs(self, c, lines):
        return {"debug": self.parse_one(c, lines[0]), "release": self.parse_one(c, lines[1])}

    # -------------------------------------------------------------------------------- Coq terms
    def coq_class(self, o):
        k = o["kind"]
        if k == "SENT":
            hosts = "[" + "; ".join(cs(h) for h in o["hosts"]) + "]"
            return (f"(OSent {'PH2' if o['conn'] == 'h2' else 'PH1'} {cs(o['method'])} {VER[o['version']]} "
                    f"{coq_uri(o['uri'])} {hosts})")
        if k == "ERR":
            return f"(OErr {ERR[o['err']]})" if o["err"] in ERR else "OErrOther"
        if k == "PANIC":
            return f"(OPanic {cs(o.get('msg', '')[:120])})"
        if k == "HANG":
            return "OHang"
        return "OErrOther"

    def coq_case_from(self, c, o):
        e, base, tls, cert, salpn, calpn, m, v, u, hs, body = c[:11]
        d = o["in"]
        b = "BDuplex" if base == "duplex" else f"(BTcp {'true' if '{P}' in u else 'false'})"
        if tls == "yes":
            env = (f"(Some (mkTlsEnv {'true' if covered(cert, d['host']) else 'false'} {CERT[cert]} {ALPN[salpn]} "
                   f"{ALPN[calpn]} FNone))")
        else:
            env = "None"
        req = f"(mkReq {cs(m)} {VER[v]} {coq_uri(d)} {coq_headers(canon(hs))})"
        return f"(mkCase {ENTRY[e]} (mkTk {b} {env}) (mkRequest {req} {HK[o['hk']]} {cs('hello' if body else '')}))"

    def terms(self, c, o):
        d, r = o["debug"], o["release"]
        if d["kind"] in ("BADREQ", "BADLINE") and r["kind"] in ("BADREQ", "BADLINE"):
            return None
        src = d if "in" in d else r
        if "in" not in src or src["in"] is None:
            # a panic before the request could be decomposed: keep it visible to the monitor
            src = {"in": {"scheme": None, "auth": None, "host": None, "port": None, "pq": None, "path": "", "query": None}, "hk": "-"}
        return self.coq_case_from(c, src), f"(mkObs {self.coq_class(d)} {self.coq_class(r)})"

    _last = {}

    def run_both(self, cases):
        core.harness_build(self.harness_bin, release=False)
        core.harness_build(self.harness_bin, release=True)
        lines = [self.impl_line(c) for c in cases]
        dbg = core.run_impl(self.harness_bin, lines, self.harness_args, release=False, jobs=self.impl_jobs)
        rel = core.run_impl(self.harness_bin, lines, self.harness_args, release=True, jobs=self.impl_jobs)
        if len(dbg) != len(cases) or len(rel) != len(cases):
            raise core.CheckError(f"panic: {len(dbg)}/{len(rel)} outputs for {len(cases)} cases")
        return [self.parse_obs(c, (a, b)) for c, a, b in zip(cases, dbg, rel)]

    def evaluate(self, cases):
        obss = self.run_both(cases)
        idx, terms = [], []
        for i, (c, o) in enumerate(zip(cases, obss)):
            self._last[json.dumps(c)] = o
            t = self.terms(c, o)
            if t is not None:
                idx.append(i)
                terms.append(f"({t[0]}, {t[1]})")
        mism, monf = core.coq_check_cases(self.prop, self.header, terms, self.check_fn, self.shard)
        return obss, [idx[i] for i in mism], [idx[i] for i in monf]

    def coq_case(self, c):
        o = self._last.get(json.dumps(c)) or self.run_both([c])[0]
        t = self.terms(c, o)
        if t is None:
            raise NotImplementedError("the http crate rejects this request value")
        return t[0]

    # -------------------------------------------------------------------------------- shrinking
    def shrinks(self, c):
        e, base, tls, cert, salpn, calpn, m, v, u, hs, body = c[:11]
        rep = c[11] if len(c) > 11 else 1
        if rep > 1:
            yield [e, base, tls, cert, salpn, calpn, m, v, u, hs, body, 1]
        if hs:
            yield [e, base, tls, cert, salpn, calpn, m, v, u, [], body, rep]
            for i in range(len(hs)):
                yield [e, base, tls, cert, salpn, calpn, m, v, u, hs[:i] + hs[i + 1:], body, rep]
        if body:
            yield [e, base, tls, cert, salpn, calpn, m, v, u, hs, 0, rep]
        if (salpn, calpn) != ("none", "none"):
            yield [e, base, tls, cert, "none", "none", m, v, u, hs, body, rep]
        if cert != "good":
            yield [e, base, tls, "good", salpn, calpn, m, v, u, hs, body, rep]
        if tls == "yes":
            yield [e, base, "no", "good", "none", "none", m, v, u, hs, body, rep]
        if base == "tcp" and "{P}" not in u:
            yield [e, "duplex", tls, cert, salpn, calpn, m, v, u, hs, body, rep]
        if m not in ("GET", "CONNECT"):
            yield [e, base, tls, cert, salpn, calpn, "GET", v, u, hs, body, rep]
        if v != "11":
            yield [e, base, tls, cert, salpn, calpn, m, "11", u, hs, body, rep]
        if "?" in u:
            yield [e, base, tls, cert, salpn, calpn, m, v, u.split("?")[0], hs, body, rep]
        mm = re.match(r"^([A-Za-z+]+://[^/]*)(/.+)$", u)
        if mm:
            yield [e, base, tls, cert, salpn, calpn, m, v, mm.group(1) + "/", hs, body, rep]
        # neighbours through the other entry points (failing-input search)
        for e2 in self.ENTRIES:
            if e2 != e:
                yield [e2, base, tls, cert, salpn, calpn, m, v, u, hs, body, rep]

    def nontrivial_key(self, c, o):
        d = o["debug"]
        if d["kind"] == "SENT" or (d["kind"] == "ERR" and d.get("err") not in ("InvalidUri", "UnsupportedProtocol")):
            return json.dumps(c)
        if d["kind"] in ("PANIC", "HANG"):
            return json.dumps(c)
        return None

    def sample_json(self, c, o):
        return {"case": c, "line": self.impl_line(c),
                "debug": {k: v for k, v in o["debug"].items() if k in ("kind", "err", "conn", "msg", "caller", "alive")},
                "release": {k: v for k, v in o["release"].items() if k in ("kind", "err", "conn", "msg", "caller", "alive")}}

    def histogram(self, cases, obss):
        h = {"entry": {}, "transport": {}, "version": {}, "class_debug": {}, "class_release": {}, "caller_after_send": {},
             "tasks_alive_after_join": {"0": 0, ">0": 0}, "profiles_disagree": 0, "rejected_by_http_crate": 0}
        for c, o in zip(cases, obss):
            d, r = o["debug"], o["release"]
            for k, v in (("entry", c[0]), ("transport", c[1] + ("+tls" if c[2] == "yes" else "")), ("version", c[7])):
                h[k][v] = h[k].get(v, 0) + 1
            for key, x in (("class_debug", d), ("class_release", r)):
                k = x["kind"] + (":" + x["err"] if x["kind"] == "ERR" else (":" + x["conn"] if x["kind"] == "SENT" else ""))
                h[key][k] = h[key].get(k, 0) + 1
            if d["kind"] == "SENT":
                k = d["caller"].split(":")[0] if d["caller"].startswith("err") else d["caller"]
                h["caller_after_send"][k] = h["caller_after_send"].get(k, 0) + 1
            if d["kind"] == "BADREQ":
                h["rejected_by_http_crate"] += 1
            for x in (d, r):
                if "alive" in x:
                    h["tasks_alive_after_join"]["0" if x["alive"] == 0 else ">0"] += 1
            if self.coq_class(d) != self.coq_class(r):
                h["profiles_disagree"] += 1
        return h

    def known_match(self, finding, c, o):
        pat = finding.get("match")
        if not pat:
            return False
        for x in (o["debug"], o["release"]):
            if x["kind"] == "PANIC" and re.search(pat, x.get("msg", "")):
                return True
        return False


PLUGIN = C17()
