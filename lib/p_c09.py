"""C09 — one misbehaving connection never takes the server down (M-SERVER)."""
from p_server import ServerPlugin, KINDS

FULL = ["R", "T", "T", "T"]


def fault_scripts(proto, tr):
    """(connect token or None, events on that connection); every script is one per-connection fault"""
    hk = "C2" if proto == "h2" else "C1"
    out = [
        ("C0", ["Fd"]),                       # immediate disconnect
        ("C0", ["Fg"]),                       # garbage bytes / failed TLS handshake
        ("C0", []),                           # silent: stalled sniffing / stalled TLS handshake
        (hk, ["Fd"]),                         # disconnect before any request
        (hk, ["R", "Fd"]),                    # truncated body
        (hk, ["R", "T", "Fd"]),               # disconnect while the handler runs
        (hk, ["R", "T", "T", "Fd"]),          # disconnect mid response
        (hk, ["R", "T", "Fe"]),               # handler error
        (hk, FULL + ["R", "T", "Fe"]),        # handler error on a kept-alive connection
        (hk, FULL + ["Fd"]),                  # disconnect of an idle keep-alive connection
    ]
    if proto != "h2":
        out += [("C1", ["P", "Fd"]), ("C1", FULL + ["P", "Fd"])]      # truncated head
    if proto == "auto":
        out += [("C3", ["Fd"]), ("C3", []), ("C2", ["R", "R", "T", "Fe"]), ("C2", ["R", "Fd"])]
    if proto == "h2":
        out += [("C2", ["R", "R", "T", "Fe"]), ("C2", ["R", "R", "T", "T", "T", "Fd"])]
    if tr in ("duplex", "dtls"):
        out += [("X", []), ("X", []), ("X", [])]                      # connect queued, then cancelled
    if tr in ("tcp", "unix"):
        # connected at transport level, then reset (Cr) / closed (Cf) while still in the listen backlog
        out += [("Cr", []), ("Cr", []), ("Cf", []), ("Cr", [])]
    if tr == "unix" and proto != "h2":     # the odd-path client of the harness speaks HTTP/1
        out += [("U", FULL), ("U", ["Fd"])]                           # peer bound to a non-UTF-8 path
    return out


class C09(ServerPlugin):
    prop = "C09"
    check_fn = "check_all_C09"
    mon_fn = "mon_C09"
    design_ref = "DESIGN.md 4/C09, 3.9, appendix D"
    rule = ("case = (server plain or with_graceful_shutdown, protocol h1/h2/auto, acceptor duplex / duplex+TLS / TCP / Unix, "
            "event list interleaving per-connection faults (cancelled connect, immediate disconnect, garbage bytes = failed "
            "TLS handshake under TLS, silent client = stalled handshake, truncated head / body, disconnect in handler / mid "
            "response, handler error, unix peer with a non-UTF-8 path, clients asking for a zero-capacity stream) with "
            "tcp / unix clients reset or closed while still in the listen backlog, well-behaved connections, then a fresh probe client; server buffer cap and client buffer sizes vary as hidden "
            "variation; a panic of the serving future is logged as its end); per stretch between quiescent points the multiset of observable events is compared with the model and "
            "mon_C09 judges the implementation's log; non-trivial = at least one request, fault or cancelled connect; "
            "distinct = distinct case lines")
    trusted = [
        "modelled (not verified): Serving::poll_once/poll, GracefulShutdown::poll, ConnectionDriver (errors swallowed), "
        "DuplexIncoming::poll_accept/ack (repaired), unix accept (repaired), TlsAcceptor::poll_accept (handshake deferred)",
        "oracle O5: what hyper 1.6 does on garbage / EOF / handler error (h1: the connection ends; h2: the stream is reset, "
        "the connection stays); written into the model as observed and compared on every case",
        "R4 (not claimed): which accept(2) errors of a real TCP/Unix listener are per-connection (ECONNABORTED, EMFILE, ...); "
        "the code treats every listener error as fatal and the harness cannot provoke them",
        "harness wrappers (LogAccept, LogProto/LogConn, LogExec, scripted handler, write throttle) are trusted to log faithfully",
    ]
    assumptions = ["a cancelled connect is scripted on the duplex transport only (on TCP/Unix the kernel completes the connect, "
                   "which is the immediate-disconnect fault)",
                   "the make-service future is ready at once"]

    def one(self, rng, mode, proto, tr, nfault, ngood, cause=None):
        hk = "C2" if proto == "h2" else None
        queues = []
        scripts = fault_scripts(proto, tr)
        who = 0
        sized = tr in ("duplex", "dtls")
        for _ in range(nfault):
            ck, evs = rng.choice(scripts)
            if sized and ck == "C0" and "Fg" not in evs and rng.random() < 0.5:
                ck = "C0" + rng.choice([":0", ":0", ":1"])       # a client asking for a (nearly) useless stream
            queues.append([(ck, who)] + [(t, who) for t in evs])
            who += 1
        for _ in range(ngood):
            ck = hk or rng.choice(["C1", "C1", "C2"] if proto == "auto" else ["C1"])
            n = rng.choice([1, 1, 2])
            evs = FULL * n
            if ck == "C2" and rng.random() < 0.3:
                evs = ["R", "R"] + ["T"] * 6
            if rng.random() < 0.25:
                evs = evs + rng.choice([["R"], ["R", "T"], ["R", "T", "T"]])     # left unfinished: must not matter
            if sized and rng.random() < 0.4:
                ck = ck + rng.choice([":65536", ":4096"] + ([":1024"] if tr == "duplex" else []))
            queues.append([(ck, who)] + [(t, who) for t in evs])
            who += 1
        seq = self.merge(rng, queues)
        burst = []
        if rng.random() < 0.06:
            # a burst of 16..24 connects ready in ONE wake-up of the accept loop, mixed kinds
            pool = [hk or "C1", "C0"] + (["X"] if tr in ("duplex", "dtls") else ["Cr", "Cf"])
            for i in range(rng.randint(16, 24)):
                burst.append((rng.choice(pool), f"burst{i}"))
        if tr in ("tcp", "unix"):
            s2 = []
            for t in seq:
                s2.append(t)
                if t[0] in KINDS and t[0] not in ("Cr", "Cf"):
                    s2.append(("S", None))
            seq = s2
        else:
            for _ in range(rng.choice([0, 1, 2])):
                seq.insert(rng.randrange(len(seq) + 1), ("S", None))
        seq = burst + seq
        seq.append(("S", None))
        # the probe: a fresh well-behaved client must be served
        pk = hk or rng.choice(["C1", "C2"] if proto == "auto" else ["C1"])
        seq += [(pk, "probe"), ("S", None)] + [(t, "probe") for t in FULL] + [("S", None)]
        if cause:
            seq += [(cause, None), ("S", None), (pk, "late"), ("S", None)]
        ids, n, evs = {}, 0, []
        for t, w in seq:
            if t in KINDS:
                ids[w] = n
                n += 1
                evs.append(t)
            elif t == "X" or w is None:
                evs.append(t)
            else:
                evs.append(f"{t}{ids[w]}")
        case = {"mode": mode, "proto": proto, "tr": tr, "evs": evs}
        if sized and rng.random() < 0.5:
            case["cap"] = rng.choice([65536, 4096] + ([1024] if tr == "duplex" else []))
        return case

    def generate(self, tier, rng):
        cases = []
        # systematic: every fault script alone, before a probe, on every protocol / acceptor / server flavour
        for mode in ("p", "g"):
            for proto in ("h1", "h2", "auto"):
                for tr in ("duplex", "dtls", "unix", "tcp"):
                    scripts = fault_scripts(proto, tr)
                    if tr == "tcp":
                        scripts = scripts[:: 4] if mode == "p" else scripts[1:: 7]
                    if tr == "unix" and mode == "g":
                        scripts = (scripts[-2:] if proto != "h2" else []) + scripts[:: 4]
                    pk = "C2" if proto == "h2" else "C1"
                    seen = set()
                    for ck, evs in scripts:
                        if (ck, tuple(evs)) in seen:
                            continue
                        seen.add((ck, tuple(evs)))
                        if ck == "X":
                            for pre in ([], ["S"], [pk], [pk, "S", "R0", "T0"]):
                                e = pre + ["X", "S", pk, "S"] + [f"{t}{1 if pk in pre else 0}" for t in FULL] + ["S"]
                                cases.append({"mode": mode, "proto": proto, "tr": tr, "evs": e})
                            cases.append({"mode": mode, "proto": proto, "tr": tr, "evs": ["X", "X", pk, "X", "S"] + [f"{t}0" for t in FULL] + ["S"]})
                            continue
                        e = [ck, "S"] + [f"{t}0" for t in evs] + [pk, "S"] + [f"{t}1" for t in FULL] + ["S"]
                        cases.append({"mode": mode, "proto": proto, "tr": tr, "evs": e})
        # bursts: 16..24 connects are ready in one wake-up of the accept loop (queued before the server runs /
        # waiting in the listen backlog), mixed kinds; all must be accepted, the last good one and a probe served
        for mode, tr in (("p", "duplex"), ("g", "duplex"), ("p", "dtls"), ("p", "unix"), ("g", "unix"), ("p", "tcp")):
            for proto, pk in (("h1", "C1"), ("h2", "C2"), ("auto", "C1")):
                if tr == "tcp" and proto != "h1":
                    continue
                for n in ((16, 17, 20, 24) if tr == "duplex" else (16, 21)):
                    for mix in (0, 1):
                        odd = ["C0", "X"] if tr in ("duplex", "dtls") else ["C0", "Cr", "Cf"]
                        toks = [pk if (mix == 0 or i % 3 == 0) else odd[i % len(odd)] for i in range(n)]
                        toks[-1] = pk
                        ids = sum(1 for t in toks if t != "X")
                        last, probe = ids - 1, ids
                        pre = ["S"] if mix else []
                        e = pre + toks + ["S"] + [f"{t}{last}" for t in FULL] + [pk, "S"] + [f"{t}{probe}" for t in FULL] + ["S"]
                        cases.append({"mode": mode, "proto": proto, "tr": tr, "evs": e})
        # tcp / unix: clients that are gone (reset / closed) before the server accepts them: alone, in a burst,
        # while an exchange is in flight, mixed with good clients waiting in the same backlog
        for mode in ("p", "g"):
            for proto, pk in (("h1", "C1"), ("h2", "C2"), ("auto", "C1")):
                for tr in ("tcp", "unix"):
                    for dead in ("Cr", "Cf"):
                        shapes = [[dead, "S", pk, "S"] + [f"{t}1" for t in FULL] + ["S"]]
                        if tr == "unix" or (mode == "p" and dead == "Cr"):
                            shapes += [[dead, dead, "Cr", pk, "S"] + [f"{t}3" for t in FULL] + ["S"],
                                       [pk, "S", "R0", "T0", dead, "Cr", "S", "T0", "T0", pk, "S"] + [f"{t}3" for t in FULL] + ["S"]]
                        if tr == "unix":
                            shapes += [["S", dead, pk, dead, "S"] + [f"{t}1" for t in FULL] + [pk, "S"] + [f"{t}3" for t in FULL] + ["S"]]
                        for e in shapes:
                            cases.append({"mode": mode, "proto": proto, "tr": tr, "evs": e})
        # what the model abstracts from: the server-side buffer cap and the buffer size a client asks for
        # (a zero-capacity stream is that client's own problem); fault and probe under every combination
        for mode in ("p", "g"):
            for proto, pk in (("h1", "C1"), ("h2", "C2"), ("auto", "C1")):
                for cap in (None, 65536, 4096):
                    for tr in ("duplex", "dtls"):
                        for odd in ("C0:0", "C0:1"):
                            for want in ("", ":4096"):
                                cases.append({"mode": mode, "proto": proto, "tr": tr, "cap": cap,
                                              "evs": [odd, "S", pk + want, "S"] + [f"{t}1" for t in FULL] + ["S"]})
                            cases.append({"mode": mode, "proto": proto, "tr": tr, "cap": cap,
                                          "evs": [pk, "S", "R0", "T0", odd, "S", "Fd1", "T0", "T0", pk, "S"] + [f"{t}2" for t in FULL] + ["S"]})
        # causes: the future may (only) end on signal / listener loss / make-service failure
        for mode in ("p", "g"):
            for proto, pk in (("h1", "C1"), ("h2", "C2"), ("auto", "C1")):
                cases.append({"mode": mode, "proto": proto, "tr": "duplex", "evs": [pk, "S", "K0", pk, pk, "S", "R0", "S"]})
                for cause in ("L", "M", "G"):
                    cases.append({"mode": mode, "proto": proto, "tr": "duplex",
                                  "evs": [pk, "S", "R0", "T0", cause, pk, "S", "T0", "T0", pk, "S", "R2", "S"]})
        n = 900 if tier == "quick" else 20000
        for _ in range(n):
            proto = rng.choice(["h1", "h2", "auto"])
            x = rng.random()
            tr = "duplex" if x < 0.68 else "dtls" if x < 0.92 else "unix" if x < 0.988 else "tcp"
            mode = rng.choice(["p", "p", "g"])
            nf, ng = rng.choice([1, 1, 2, 2, 3, 4, 6]), rng.choice([0, 1, 1, 2, 3])
            if tr == "tcp":
                nf, ng = min(nf, 2), min(ng, 1)
            if tr == "unix":
                nf, ng = min(nf, 3), min(ng, 2)
            cause = None
            if tr in ("duplex", "dtls") and rng.random() < 0.12:
                cause = rng.choice(["L", "M", "G"])
            cases.append(self.one(rng, mode, proto, tr, nf, ng, cause))
        return cases, {"rule": f"{len(cases) - n} systematic cases (every fault script alone before a probe, on h1/h2/auto x duplex/"
                               f"TLS/unix/tcp x plain/graceful; the three legitimate causes) + {n} random (seeded) interleavings of "
                               f"1..6 faulty and 0..3 well-behaved connections followed by a probe",
                       "exhaustive": False}


PLUGIN = C09()
