"""Core of the hyperdriver verification driver.

One check run = (1) build + audit the Coq proofs of the property, (2) build the Rust
correspondence harness against /repo's current working tree, (3) generate cases, run the
implementation, (4) evaluate the Coq model and the Coq spec monitor on the same cases inside
the Coq kernel (vm_compute) and compare, (5) report, write evidence.
"""
import concurrent.futures as cf
import hashlib
import json
import os
import random
import re
import shutil
import subprocess
import sys
import time

VERIF = os.path.dirname(os.path.dirname(os.path.abspath(__file__)))
COQ = os.path.join(VERIF, "coq")
# VERIF_HARNESS / VERIF_TARGET: development only (mutation runs against a scratch worktree of /repo
# with a scratch copy of the harness); the registered checks never set them.
HARNESS = os.environ.get("VERIF_HARNESS") or os.path.join(VERIF, "harness")
CACHE = os.path.join(VERIF, ".cache")
TARGET = os.environ.get("VERIF_TARGET") or os.path.join(CACHE, "target")
CASES = os.path.join(CACHE, "cases")
EVIDENCE = os.environ.get("VERIF_EVIDENCE") or os.path.join(VERIF, "evidence")   # override: mutation runs only
REPLAYS = os.environ.get("VERIF_REPLAYS") or os.path.join(VERIF, "replays")
CORPUS = os.path.join(VERIF, "corpus")
REPO = "/repo"

ENV = dict(os.environ)
ENV.update({"CARGO_NET_OFFLINE": "true", "CARGO_TARGET_DIR": TARGET})

FORBIDDEN = re.compile(
    r"\b(Admitted|admit|Axiom|Axioms|Parameter|Parameters|Conjecture|Conjectures|Abort All|"
    r"Unset Guard Checking|Unset Positivity Checking|Unset Universe Checking|bypass_check|"
    r"Admit Obligations|native_compute)\b|type-in-type|impredicative-set"
)
# Hypothesis/Variable are allowed only inside a Section.
SECTION_ONLY = re.compile(r"^\s*(Hypothesis|Hypotheses|Variable|Variables|Context)\b")

ALLOWED_AXIOMS = {
    # none needed so far; std-lib axioms would be listed here by name and reported in evidence
}


class CheckError(Exception):
    """Infrastructure failure (not a property verdict)."""


def log(msg):
    print(f"[vcheck] {msg}", file=sys.stderr, flush=True)


def sh(cmd, cwd=None, timeout=None, input=None, env=None, check=False):
    p = subprocess.run(
        cmd, cwd=cwd, timeout=timeout, input=input, env=env or ENV,
        stdout=subprocess.PIPE, stderr=subprocess.STDOUT, text=True, shell=isinstance(cmd, str),
    )
    if check and p.returncode != 0:
        raise CheckError(f"command failed ({p.returncode}): {cmd}\n{p.stdout[-4000:]}")
    return p.returncode, p.stdout


# --------------------------------------------------------------------------- Coq side

def strip_comments(src):
    out, depth, i = [], 0, 0
    while i < len(src):
        if src.startswith("(*", i):
            depth += 1
            i += 2
        elif src.startswith("*)", i) and depth:
            depth -= 1
            i += 2
        else:
            if not depth:
                out.append(src[i])
            i += 1
    return "".join(out)


def coq_files():
    proj = open(os.path.join(COQ, "_CoqProject")).read().split()
    return [f for f in proj if f.endswith(".v")]


def dep_closure(prop):
    """the .v files props/<prop>.v depends on (transitively), read off the `From HD Require` lines"""
    seen, todo = set(), [os.path.join(COQ, "props", f"{prop}.v")]
    while todo:
        path = todo.pop()
        if path in seen or not os.path.exists(path):
            continue
        seen.add(path)
        src = strip_comments(open(path).read())
        for m in re.finditer(r"From\s+HD\s+Require\s+(?:Import|Export)?\s*([^.]*(?:\.[A-Za-z0-9_]+[^.]*)*?)\.\s", src):
            for mod in m.group(1).split():
                if re.match(r"^[A-Za-z0-9_]+\.[A-Za-z0-9_.]+$", mod):
                    todo.append(os.path.join(COQ, *mod.split(".")) + ".v")
    return seen


def audit_sources(prop=None):
    """Grep audit of the property's dependency closure (all of coq/ when prop is None): no
    Admitted/Axiom/...; Hypothesis/Variable only inside sections."""
    problems = []
    closure = dep_closure(prop) if prop else None
    for root, _, files in os.walk(COQ):
        for f in files:
            if not f.endswith(".v"):
                continue
            path = os.path.join(root, f)
            if closure is not None and path not in closure:
                continue
            src = strip_comments(open(path).read())
            for m in FORBIDDEN.finditer(src):
                problems.append(f"{path}: forbidden token {m.group(0)!r}")
            depth = 0
            for line in src.splitlines():
                if re.match(r"^\s*Section\b", line):
                    depth += 1
                elif re.match(r"^\s*End\b", line) and depth:
                    depth -= 1
                elif SECTION_ONLY.match(line) and depth == 0:
                    problems.append(f"{path}: {line.strip()!r} outside a Section")
    return problems


def ensure_makefile():
    mk = os.path.join(COQ, "Makefile")
    proj = os.path.join(COQ, "_CoqProject")
    if not os.path.exists(mk) or os.path.getmtime(mk) < os.path.getmtime(proj):
        sh(["coq_makefile", "-f", "_CoqProject", "-o", "Makefile"], cwd=COQ, check=True)


def coq_make(targets, timeout=1500):
    """Full .vo build of the given targets (never -vos). Returns (ok, output)."""
    ensure_makefile()
    rc, out = sh(["timeout", str(timeout), "make", "-j16"] + targets, cwd=COQ)
    return rc == 0, out


def theorem_names(prop_file):
    src = strip_comments(open(prop_file).read())
    return re.findall(r"^\s*Theorem\s+([A-Za-z0-9_']+)", src, flags=re.M)


def print_assumptions(prop, names):
    """Run Print Assumptions for every theorem of props/<prop>.v in a fresh coqc process."""
    os.makedirs(CASES, exist_ok=True)
    path = os.path.join(CASES, f"assume_{prop}_p{os.getpid()}.v")
    with open(path, "w") as f:
        f.write(f"From HD Require Import props.{prop}.\n")
        for n in names:
            f.write(f'Goal True. idtac "@@ {n}". exact I. Qed.\nPrint Assumptions {n}.\n')
    rc, out = sh(["timeout", "600", "coqc", "-noglob", "-Q", COQ, "HD", path], cwd=CASES)
    for ext in (".v", ".vo", ".vok", ".vos", ".glob"):
        try:
            os.remove(path[:-2] + ext)
        except OSError:
            pass
    if rc != 0:
        return None, out
    res = {}
    cur = None
    for line in out.splitlines():
        m = re.match(r"^@@ (\S+)", line)
        if m:
            cur = m.group(1)
            res[cur] = []
        elif cur is not None:
            res[cur].append(line)
    return {k: "\n".join(v).strip() for k, v in res.items()}, out


def coqchk(prop):
    """independent re-check of the compiled closure of props/<prop>.vo (thorough tier): returns
    (ok, summary text).  Axioms must be <none>."""
    rc, out = sh(["timeout", "1500", "coqchk", "-silent", "-o", "-Q", COQ, "HD", f"HD.props.{prop}"], cwd=COQ)
    i = out.find("CONTEXT SUMMARY")
    summary = out[i:].strip() if i >= 0 else out[-1500:]
    ok = rc == 0 and "* Axioms: <none>" in summary and "type-in-type: <none>" in summary \
        and "unsafe (co)fixpoints: <none>" in summary and "positivity is assumed: <none>" in summary
    return ok, re.sub(r"\s+", " ", summary)


def proofs(prop):
    """Build + audit the proof leg. Returns dict with obligations/discharged/details."""
    t0 = time.time()
    prop_file = os.path.join(COQ, "props", f"{prop}.v")
    names = theorem_names(prop_file)
    info = {"obligations": len(names), "discharged": 0, "theorems": names, "failed": [],
            "assumptions": {}, "audit": [], "build_ok": False}
    info["audit"] = audit_sources(prop)
    info["audited_files"] = len(dep_closure(prop))
    ok, out = coq_make([f"props/{prop}.vo"])
    info["build_ok"] = ok
    if not ok:
        info["build_output"] = out[-3000:]
        info["failed"] = names
        # Which model/spec files still build?  (needed for the search leg)
        return info
    assumptions, raw = print_assumptions(prop, names)
    if assumptions is None:
        info["build_output"] = raw[-3000:]
        info["failed"] = names
        return info
    info["assumptions"] = assumptions
    for n in names:
        text = assumptions.get(n, "<missing>")
        if text == "Closed under the global context":
            info["discharged"] += 1
            continue
        axioms = re.findall(r"^([A-Za-z0-9_.']+)\s*:", text, flags=re.M)
        if axioms and all(a in ALLOWED_AXIOMS for a in axioms):
            info["discharged"] += 1
        else:
            info["failed"].append(n)
    if info["audit"]:
        info["failed"] = sorted(set(info["failed"]) | {"<source audit>"})
        info["discharged"] = 0
    info["wall_s"] = round(time.time() - t0, 2)
    return info


def coq_eval_shard(args):
    prop, idx, header, body, evals = args
    path = os.path.join(CASES, f"{prop}_p{os.getpid()}_{idx}.v")      # unique per process: concurrent runs never collide
    with open(path, "w") as f:
        f.write(header + "\n" + body + "\n")
        for e in evals:
            f.write(f"Eval vm_compute in ({e}).\n")
    rc, out = sh(["timeout", "900", "coqc", "-noglob", "-Q", COQ, "HD", path], cwd=CASES)
    for ext in (".vo", ".vok", ".vos", ".glob") + ((".v",) if rc == 0 else ()):
        try:
            os.remove(path[:-2] + ext)
        except OSError:
            pass
    aux = os.path.join(CASES, f".{prop}_p{os.getpid()}_{idx}.aux")
    if os.path.exists(aux):
        os.remove(aux)
    if rc != 0:
        raise CheckError(f"coqc failed on {path}:\n{out[-3000:]}")
    return out


def parse_eval_outputs(out):
    """Split coqc output into the printed values of successive Eval commands (whitespace
    normalised, without the trailing ': type')."""
    vals = []
    cur = None
    for line in out.splitlines():
        if line.startswith("     = "):
            if cur is not None:
                vals.append(cur)
            cur = line[7:]
        elif cur is not None:
            cur += " " + line.strip()
    if cur is not None:
        vals.append(cur)
    res = []
    for v in vals:
        v = re.sub(r"\s+", " ", v)
        # drop trailing type annotation ' : ty'
        k = v.rfind(" : ")
        res.append(v[:k] if k >= 0 else v)
    return res


def parse_nlist(s):
    return [int(x) for x in re.findall(r"(\d+)%N|\b(\d+)\b", s) for x in x if x != ""]


def coq_check_cases(prop, header, coq_terms, check_fn, shard=250, extra_defs="", cs_type="list (case * obs)"):
    """Evaluate `check_fn cs` in the kernel VM for cs = the given (case, observation) terms.
    check_fn : list _ -> list N * list N  (indices where model<>impl, indices where the spec
    monitor rejects the implementation's observation).  Returns (mismatch_idx, monitor_idx)."""
    os.makedirs(CASES, exist_ok=True)
    jobs = []
    for i in range(0, len(coq_terms), shard):
        chunk = coq_terms[i:i + shard]
        body = extra_defs + f"\nDefinition cs : {cs_type} := [\n  " + ";\n  ".join(chunk) + "\n]."
        jobs.append((prop, i // shard, header, body, [f"{check_fn} cs"]))
    mism, monf = [], []
    with cf.ThreadPoolExecutor(max_workers=16) as ex:
        for j, out in zip(jobs, ex.map(coq_eval_shard, jobs)):
            vals = parse_eval_outputs(out)
            if len(vals) != 1:
                raise CheckError(f"unexpected coqc output: {out[-2000:]}")
            m = re.match(r"^\(\[(.*?)\], \[(.*?)\]\)$", vals[0].strip())
            if not m:
                raise CheckError(f"cannot parse check result: {vals[0][:500]}")
            base = j[1] * shard
            mism += [base + k for k in parse_nlist(m.group(1))]
            monf += [base + k for k in parse_nlist(m.group(2))]
    return mism, monf


def coq_eval_terms(prop, header, terms, tag="show"):
    """Evaluate arbitrary terms (for replay files); returns printed values."""
    os.makedirs(CASES, exist_ok=True)
    out = coq_eval_shard((prop + "_" + tag, 0, header, "", terms))
    return parse_eval_outputs(out)


# --------------------------------------------------------------------------- Rust side

_built = set()


def harness_build(binname, release=False):
    key = (binname, release)
    if key in _built:
        return
    lock = os.path.join(HARNESS, "Cargo.lock")
    if not os.path.exists(lock):
        shutil.copy(os.path.join(REPO, "Cargo.lock"), lock)
    cmd = ["cargo", "build", "--offline", "--bin", binname]
    if release:
        cmd.append("--release")
    rc, out = sh(cmd, cwd=HARNESS, timeout=3000)
    if rc != 0:
        raise CheckError(f"harness build failed:\n{out[-6000:]}")
    _built.add(key)


def harness_path(binname, release=False):
    return os.path.join(TARGET, "release" if release else "debug", binname)


def run_impl(binname, lines, args=(), release=False, timeout=1200, jobs=1):
    """Feed case lines to the harness binary; returns its output lines (one per case unless the
    binary documents otherwise)."""
    exe = harness_path(binname, release)
    if jobs <= 1 or len(lines) < 64:
        p = subprocess.run([exe, *args], input="\n".join(lines) + "\n", stdout=subprocess.PIPE,
                           stderr=subprocess.PIPE, text=True, timeout=timeout, env=ENV)
        if p.returncode != 0:
            raise CheckError(f"{binname} exited {p.returncode}: {p.stderr[-3000:]}")
        return p.stdout.splitlines()
    chunks = [lines[i::jobs] for i in range(jobs)]

    def one(chunk):
        p = subprocess.run([exe, *args], input="\n".join(chunk) + "\n", stdout=subprocess.PIPE,
                           stderr=subprocess.PIPE, text=True, timeout=timeout, env=ENV)
        if p.returncode != 0:
            raise CheckError(f"{binname} exited {p.returncode}: {p.stderr[-3000:]}")
        return p.stdout.splitlines()
    with cf.ThreadPoolExecutor(max_workers=jobs) as ex:
        outs = list(ex.map(one, chunks))
    res = [None] * len(lines)
    for j, o in enumerate(outs):
        if len(o) != len(chunks[j]):
            raise CheckError(f"{binname}: {len(o)} outputs for {len(chunks[j])} cases")
        for k, line in enumerate(o):
            res[j + k * jobs] = line
    return res


# --------------------------------------------------------------------------- reporting

def known_findings(prop):
    path = os.path.join(VERIF, "known_findings.json")
    if not os.path.exists(path):
        return []
    data = json.load(open(path))
    return [f for f in data.get("findings", []) if f.get("property") == prop and f.get("status") == "known"]


def write_replay(prop, payload):
    os.makedirs(REPLAYS, exist_ok=True)
    blob = json.dumps(payload, sort_keys=True, indent=1)
    h = hashlib.sha1(blob.encode()).hexdigest()[:10]
    path = os.path.join(REPLAYS, f"{prop}-{h}.json")
    with open(path, "w") as f:
        f.write(blob + "\n")
    return path


def write_evidence(prop, tier, seed, coverage, assumptions, wall, violations):
    os.makedirs(EVIDENCE, exist_ok=True)
    ev = {
        "property_id": prop, "tier": tier, "seed": seed, "level": "proof",
        "coverage": coverage, "assumptions": assumptions, "wall_s": round(wall, 2),
        "violations": violations,
    }
    path = os.path.join(EVIDENCE, f"{prop}.json")
    tmp = path + ".tmp"
    with open(tmp, "w") as f:
        json.dump(ev, f, indent=1, sort_keys=True)
        f.write("\n")
    os.replace(tmp, path)
    return path


def tier_and_seed(argv_tier=None):
    tier = argv_tier or os.environ.get("VERIF_TIER") or "quick"
    if tier not in ("quick", "thorough"):
        tier = "quick"
    seed_env = os.environ.get("VERIF_SEED")
    try:
        seed = int(seed_env) if seed_env not in (None, "") else (20260926 if tier == "quick" else 20260927)
    except ValueError:
        seed = 20260926
    return tier, seed


COMMON_TRUSTED = [
    "Coq 8.16.1 kernel incl. its vm_compute VM (no native_compute); coqchk re-check in the thorough tier",
    "hand-written Gallina model of the anchored Rust code; tied to /repo only by the differential correspondence run (sampling)",
    "Rust correspondence harness /verif/harness and Python driver /verif/lib (generators, canonicalisation, parsing of coqc output)",
]


# --------------------------------------------------------------------------- generic runner

class Plugin:
    """Per-property glue. Subclasses fill in the attributes/methods below."""
    prop = None
    harness_bin = None
    harness_args = ()
    header = ""
    check_fn = "check_all"
    model_fn = "model_obs"
    coq_targets = ()
    cs_type = "list (case * obs)"
    shard = 250
    impl_jobs = 1
    design_ref = ""
    trusted = []
    assumptions = []
    rule = ""

    def corpus(self):
        """minimised past disagreements / witnesses: /verif/corpus/<prop>/*.json, each {"case": ...}"""
        d = os.path.join(CORPUS, self.prop)
        out = []
        if os.path.isdir(d):
            for f in sorted(os.listdir(d)):
                if f.endswith(".json"):
                    out.append(json.load(open(os.path.join(d, f)))["case"])
        return out

    def generate(self, tier, rng):
        raise NotImplementedError

    def impl_line(self, case):
        raise NotImplementedError

    def parse_obs(self, case, line):
        return line

    def coq_case(self, case):
        raise NotImplementedError

    def coq_obs(self, obs):
        raise NotImplementedError

    def nontrivial_key(self, case, obs):
        return json.dumps(case, sort_keys=True, default=str)

    def shrinks(self, case):
        return []

    def sample_json(self, case, obs):
        return {"case": case, "impl": obs}

    def histogram(self, cases, obss):
        return {}

    def known_match(self, finding, case, obs):
        return False

    # -- helpers
    def evaluate(self, cases):
        """Run implementation and Coq on cases. Returns (obs list, mismatch idx, monitor idx)."""
        lines = [self.impl_line(c) for c in cases]
        outs = run_impl(self.harness_bin, lines, self.harness_args, jobs=self.impl_jobs)
        if len(outs) != len(cases):
            raise CheckError(f"{self.harness_bin}: {len(outs)} outputs for {len(cases)} cases")
        obss = [self.parse_obs(c, o) for c, o in zip(cases, outs)]
        terms = [f"({self.coq_case(c)}, {self.coq_obs(o)})" for c, o in zip(cases, obss)]
        mism, monf = coq_check_cases(self.prop, self.header, terms, self.check_fn, self.shard, cs_type=self.cs_type)
        return obss, mism, monf

    def shrink(self, case, kind):
        """Greedy shrinking keeping the failure kind ('monitor' or 'mismatch')."""
        cur = case
        for _ in range(60):
            cands = list(self.shrinks(cur))[:400]
            if not cands:
                break
            obss, mism, monf = self.evaluate(cands)
            bad = monf if kind == "monitor" else mism
            if not bad:
                break
            cur = cands[min(bad)]
        return cur


def header_for(plugin, case):
    return plugin.header_for(case) if hasattr(plugin, "header_for") else plugin.header


def run_check(plugin, tier=None, replay=None):
    t0 = time.time()
    tier, seed = tier_and_seed(tier)
    prop = plugin.prop
    rng = random.Random(seed)
    violations = []   # (line, replay path)
    known_lines = []

    pinfo = proofs(prop)
    log(f"{prop}: proofs {pinfo['discharged']}/{pinfo['obligations']} discharged, build_ok={pinfo['build_ok']}")
    if tier == "thorough" and pinfo["build_ok"] and not replay:
        ok, summary = coqchk(prop)
        pinfo["coqchk"] = summary
        log(f"{prop}: coqchk {'ok' if ok else 'FAILED'}")
        if not ok:
            pinfo["failed"] = sorted(set(pinfo["failed"]) | {"<coqchk>"})
            pinfo["discharged"] = 0

    harness_build(plugin.harness_bin)
    for b in getattr(plugin, "extra_bins", ()):
        harness_build(b)
    if plugin.coq_targets:
        ok, out = coq_make(list(plugin.coq_targets))
        if not ok:
            log("model/correspondence files do not build:\n" + out[-2000:])

    if replay:
        payload = json.load(open(replay))
        cases = [payload["case"]]
        gen_meta = {"rule": "replay of " + replay, "exhaustive": False}
    else:
        corpus = plugin.corpus()
        gen, gen_meta = plugin.generate(tier, rng)
        cases = corpus + gen
    model_ok = True
    try:
        obss, mism, monf = plugin.evaluate(cases)
    except CheckError as e:
        if pinfo["build_ok"]:
            raise
        model_ok = False
        obss, mism, monf = [], [], []
        log(f"model evaluation failed: {e}")

    findings = known_findings(prop)
    reported = set()
    known_idx = set()

    def report_monitor(i):
        c, o = cases[i], obss[i]
        for f in findings:
            if plugin.known_match(f, c, o):
                line = f"KNOWN-FINDING: property={prop} {f['what']}"
                if line not in known_lines:
                    known_lines.append(line)
                known_idx.add(i)
                return
        small = plugin.shrink(c, "monitor") if not replay else c
        key = json.dumps(small, sort_keys=True, default=str)
        if key in reported:
            return
        reported.add(key)
        so, _, smon = plugin.evaluate([small])
        try:
            model_val = coq_eval_terms(prop, header_for(plugin, small), [f"{plugin.model_fn} ({plugin.coq_case(small)})"])
        except (CheckError, NotImplementedError) as e:
            model_val = [str(e)[-500:]]
        path = write_replay(prop, {
            "property": prop, "kind": "spec monitor rejects the implementation's behaviour",
            "case": small, "impl_observation": so[0], "model_observation": model_val,
            "original_case": c, "impl_line": plugin.impl_line(small),
            "rerun": f"/verif/bin/vcheck {prop} --replay <this file>",
        })
        violations.append((f"VIOLATION property={prop} replay={path}", path))

    for i in monf[:40]:
        report_monitor(i)
        if len(violations) >= 2:
            break

    # a disagreement between model and implementation is reported even when the same case was matched
    # as a known finding (the known finding explains the monitor's verdict, not the disagreement)
    only_mism = [i for i in mism if i not in set(monf) or i in known_idx]
    if only_mism and not violations:
        # correspondence broken but the monitor accepts: search the neighbourhood for a failing input
        i = only_mism[0]
        small = plugin.shrink(cases[i], "mismatch") if not replay else cases[i]
        neigh = list(plugin.shrinks(small))[:400]
        found = False
        if neigh:
            nobs, nmism, nmon = plugin.evaluate(neigh)
            if nmon:
                cases_backup = (cases, obss)
                cases, obss = neigh, nobs
                report_monitor(nmon[0])
                cases, obss = cases_backup
                found = bool(violations)
        if not found:
            so, _, _ = plugin.evaluate([small])
            try:
                model_val = coq_eval_terms(prop, header_for(plugin, small), [f"{plugin.model_fn} ({plugin.coq_case(small)})"])
            except (CheckError, NotImplementedError) as e:
                model_val = [str(e)[-500:]]
            path = write_replay(prop, {
                "property": prop,
                "kind": "correspondence broken: implementation and Coq model disagree; the theorems of "
                        f"props/{prop}.v no longer speak about this code. No property-violating input found "
                        f"among {len(cases)} cases and {len(neigh)} neighbours.",
                "broken": f"correspondence {plugin.harness_bin} vs {plugin.model_fn}",
                "case": small, "impl_observation": so[0], "model_observation": model_val,
                "mismatching_cases": len(only_mism), "impl_line": plugin.impl_line(small),
            })
            violations.append((f"VIOLATION property={prop} replay={path} no-failing-input-found", path))

    # ---- property-specific extra runs (e.g. the multi-thread stress run of the pool): testing that
    # supports the tie between model and code in a dimension the model cannot exhibit
    extra_info = None
    if hasattr(plugin, "extra") and not replay:
        extra_info, extra_viol = plugin.extra(tier, seed)
        for payload in extra_viol[:2]:
            path = write_replay(prop, payload)
            violations.append((f"VIOLATION property={prop} replay={path}", path))

    if (pinfo["failed"] or not model_ok) and not violations:
        path = write_replay(prop, {
            "property": prop,
            "kind": "proof obligation no longer checks",
            "broken": pinfo["failed"] or ["<model does not build>"],
            "audit": pinfo["audit"], "build_output": pinfo.get("build_output", ""),
            "assumptions": pinfo["assumptions"],
            "search": f"spec monitor run on {len(cases)} implementation traces: no failing input",
        })
        violations.append((f"VIOLATION property={prop} replay={path} no-failing-input-found", path))

    # ---- evidence
    keys = set()
    for c, o in zip(cases, obss):
        k = plugin.nontrivial_key(c, o)
        if k is not None:
            keys.add(k)
    samples = [plugin.sample_json(c, o) for c, o in list(zip(cases, obss))[:: max(1, len(cases) // 5)][:6]]
    coverage = {
        "obligations": pinfo["obligations"], "discharged": pinfo["discharged"],
        "theorems": pinfo["theorems"],
        "checker_cmd": f"make -C /verif/coq -j16 props/{prop}.vo && coqc Print Assumptions (lib/core.py:proofs)",
        "trusted_base": COMMON_TRUSTED + plugin.trusted + [
            f"Print Assumptions {n}: {pinfo['assumptions'].get(n, '<not built>')}" for n in pinfo["theorems"]],
        "evaluations": len(cases), "distinct_nontrivial": len(keys),
        "rule": plugin.rule + " | " + gen_meta.get("rule", ""),
        "exhaustive": bool(gen_meta.get("exhaustive", False)),
        "samples": samples,
        "traces_validated_against_impl": len(cases) if model_ok else 0,
        "model_impl_mismatches": len(mism), "monitor_rejections": len(monf),
        "input_distribution": plugin.histogram(cases, obss),
        "source_audit": pinfo["audit"], "proof_wall_s": pinfo.get("wall_s"),
        "audited_files": pinfo.get("audited_files"), "coqchk": pinfo.get("coqchk"),
    }
    coverage.update(gen_meta.get("extra", {}))
    if extra_info is not None:
        coverage["extra_runs"] = extra_info
    wall = time.time() - t0
    write_evidence(prop, tier, seed, coverage, plugin.assumptions, wall, len(violations))
    for line in known_lines:
        print(line)
    for line, _ in violations:
        print(line)
    print(f"{prop} {tier}: proofs {pinfo['discharged']}/{pinfo['obligations']}, cases {len(cases)}, "
          f"mismatches {len(mism)}, monitor rejections {len(monf)}, violations {len(violations)}, {wall:.1f}s")
    return 1 if violations else 0
