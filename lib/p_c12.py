"""C12 — TLS-or-plain decision (M-TLS)."""
import itertools
from core import Plugin
from p_c13 import cs, ostr

# names covered by each fixture certificate (fixtures/tls/gen.sh); "wrongname" is issued for other.test only
COVERED = {"good": {"example.test", "localhost", "127.0.0.1", "::1", "a.wild.test"},
           "wrongname": {"other.test"},
           "untrusted": {"example.test", "localhost", "127.0.0.1", "::1"}}


class C12(Plugin):
    prop = "C12"
    harness_bin = "tls"
    coq_targets = ("tls/Corr.vo",)
    header = "From HD Require Import common.Base http.Model tls.Model tls.Spec tls.Corr.\nOpen Scope string_scope."
    check_fn = "check_all"
    shard = 300
    impl_jobs = 12
    design_ref = "DESIGN.md 4/C12, 3.6"
    rule = ("case = (TLS configured?, URI scheme/host/port, server certificate: good / wrong name / untrusted, ALPN lists on both "
            "sides, injected fault: none / peer closes / peer speaks plaintext / truncated handshake / transport error) through "
            "the real TlsTransport<DuplexTransport> against a recording peer that runs a real rustls server; observed: result "
            "class, first bytes at the peer, whether an application marker written after connect is visible in the clear, SNI "
            "seen by the server, ALPN seen by the client; non-trivial = TLS configured and https/wss; distinct = distinct tuples")
    trusted = [
        "modelled (not verified): TlsTransport::call, TlsTransportWrapper::call, TlsConnectionFuture::poll, TlsStream::new/handshake",
        "oracle O6 / R3: rustls (server-name syntax classification reported by the harness from the real crate; a completed handshake means encryption and a verified name)",
        "certificates under /verif/fixtures/tls (own CA, 100-year validity)",
    ]
    assumptions = ["the duplex transport ignores host/port, so every URI reaches the scripted peer"]

    SCHEMES = ["https", "wss", "http", "ws", "HTTPS", "WSS", "Wss", "ftp", "httpss"]
    HOSTS = ["example.test", "EXAMPLE.test", "other.test", "localhost", "127.0.0.1", "[::1]", "a.wild.test", "a..b",
             "-a.test", "10.0.0.1", "[2001:db8::1]", "x_y.test",
             # userinfo in the authority: the server name is the host after the '@'
             "other.test:pw@example.test", "alice@example.test", "u:p@127.0.0.1", "other.test@[::1]"]
    PORTS = ["", ":443", ":8443"]

    def generate(self, tier, rng):
        full = []
        for s, h, p in itertools.product(self.SCHEMES, self.HOSTS, self.PORTS):
            for cert in ("good", "wrongname", "untrusted"):
                for fault in ("none", "close", "plaintext", "truncate", "transport"):
                    for salpn, calpn in (("none", "none"), ("h2", "h2"), ("h11", "h2"), ("h2", "none")):
                        full.append(["yes", f"{s}://{h}{p}/", cert, salpn, calpn, fault, "-"])
        rng.shuffle(full)
        n = 500 if tier == "quick" else 8000
        cases = full[:n]
        # the caller already set a Host header (another name, the same name, an IP, junk): the name offered and
        # checked must still be the URI host, so a certificate for the header's name must not be accepted
        HDRS = ["other.test", "example.test", "other.test:8443", "localhost", "127.0.0.1", "a..b", "EXAMPLE.test"]
        nh = 60 if tier == "quick" else 1500
        for _ in range(nh):
            s = rng.choice(["https", "wss", "HTTPS", "http"])
            h = rng.choice(self.HOSTS)
            cases.append(["yes", f"{s}://{h}{rng.choice(self.PORTS)}/", rng.choice(["good", "wrongname", "untrusted"]),
                          rng.choice(["none", "h2"]), rng.choice(["none", "h2"]), rng.choice(["none", "none", "close"]),
                          rng.choice(HDRS)])
        for h in ("127.0.0.1", "[::1]", "example.test", "10.0.0.1"):
            for cert in ("good", "wrongname"):
                cases.append(["yes", f"https://{h}/", cert, "none", "none", "none", "other.test"])
        # the request method must not matter (CONNECT in particular: there is no proxy hop here)
        nm = 60 if tier == "quick" else 1500
        for _ in range(nm):
            s = rng.choice(["https", "wss", "HTTPS", "http", "ws"])
            h = rng.choice(self.HOSTS)
            cases.append(["yes", f"{s}://{h}{rng.choice(self.PORTS)}/", rng.choice(["good", "wrongname", "untrusted"]),
                          rng.choice(["none", "h2"]), rng.choice(["none", "h2"]), rng.choice(["none", "none", "close", "plaintext"]),
                          "-", rng.choice(["CONNECT", "CONNECT", "POST", "OPTIONS"])])
        for h in ("example.test", "[::1]"):
            for s in ("https", "wss", "http"):
                cases.append(["yes", f"{s}://{h}/", "good", "none", "none", "none", "-", "CONNECT"])
        # always: the headline cases
        for s in self.SCHEMES:
            for h in self.HOSTS:
                cases.append(["yes", f"{s}://{h}/", "good", "none", "none", "none", "-"])
        for h in ("example.test", "[::1]"):
            for cert in ("wrongname", "untrusted"):
                cases.append(["yes", f"https://{h}/", cert, "h2", "h2", "none", "-"])
            for fault in ("close", "plaintext", "truncate", "transport"):
                cases.append(["yes", f"wss://{h}/", "good", "none", "none", fault, "-"])
            cases.append(["no", f"https://{h}/", "good", "none", "none", "none", "-"])
        return cases, {"rule": f"seeded sample of {n} from scheme x host x port x cert x fault x ALPN ({len(full)} points) + "
                               "every scheme x host with a good certificate + certificate/fault matrix on two hosts",
                       "exhaustive": False}

    def impl_line(self, c):
        return " ".join(c)

    def parse_obs(self, c, line):
        left, dec = line.split(" ;; ")
        cls, first, marker, sni, alpn = left.split(" ")[:5]
        d = dec.split(" ")
        return {"cls": cls, "first": first, "marker": int(marker), "sni": None if sni == "-" else sni,
                "alpn": alpn, "scheme": None if d[0] == "-" else d[0], "host": None if d[1] == "-" else d[1],
                "kind": d[2] if len(d) > 2 else "-"}

    def terms(self, c, o):
        if o["cls"] == "BADURI":
            return None
        tls, uri, cert, salpn, calpn, fault = c[:6]
        hdr = c[6] if len(c) > 6 else "-"
        hdrv = None if hdr == "-" else hdr
        conn = "true" if len(c) > 7 and c[7] == "CONNECT" else "false"
        hk = {"dns": "HDns", "ip": "HIp", "invalid": "HInvalid", "-": "HInvalid"}[o["kind"]]
        host = o["host"]
        stripped = (host or "").strip("[]").lower()
        covered = "true" if stripped in COVERED[cert] else "false"
        A = {"none": "ANone", "h2": "AH2", "h11": "AH11"}
        F = {"none": "FNone", "close": "FClose", "plaintext": "FPlaintext", "truncate": "FTruncate", "transport": "FTransport"}
        C = {"good": "CGood", "wrongname": "CWrongName", "untrusted": "CUntrusted"}
        case = (f"mkTls {'true' if tls == 'yes' else 'false'} {ostr(o['scheme'])} {ostr(host)} {ostr(hdrv)} {conn} {hk} {covered} "
                f"{C[cert]} {A[salpn]} {A[calpn]} {F[fault]}")
        cls = o["cls"]
        if cls == "OKTLS":
            res = f"(Some (OkTls {ostr(o['sni'])} {A.get(o['alpn'], 'ANone')}))"
        else:
            res = {"OKPLAIN": "(Some OkPlain)", "ERRCONN": "(Some ErrConn)", "ERRHS": "(Some ErrHs)",
                   "ERRNODOMAIN": "(Some ErrNoDomain)"}.get(cls, "None")
        first = {"tls": "WTls", "ascii": "WAscii", "nothing": "WNothing"}[o["first"]]
        obs = f"mkObs {'true' if cls == 'PANIC' else 'false'} {res} {first} {'true' if o['marker'] else 'false'}"
        return case, obs

    def evaluate(self, cases):
        from core import run_impl, coq_check_cases
        lines = [self.impl_line(c) for c in cases]
        outs = run_impl(self.harness_bin, lines, self.harness_args, jobs=self.impl_jobs)
        obss = [self.parse_obs(c, o) for c, o in zip(cases, outs)]
        idx, terms = [], []
        for i, (c, o) in enumerate(zip(cases, obss)):
            t = self.terms(c, o)
            if t is not None:
                idx.append(i)
                terms.append(f"({t[0]}, {t[1]})")
        mism, monf = coq_check_cases(self.prop, self.header, terms, self.check_fn, self.shard)
        return obss, [idx[i] for i in mism], [idx[i] for i in monf]

    def shrinks(self, c):
        tls, uri, cert, salpn, calpn, fault = c[:6]
        hdr = c[6] if len(c) > 6 else "-"
        if len(c) > 7:
            yield c[:7]
            return
        if hdr != "-":
            yield [tls, uri, cert, salpn, calpn, fault, "-"]
        if (salpn, calpn) != ("none", "none"):
            yield [tls, uri, cert, "none", "none", fault, hdr]
        if fault != "none":
            yield [tls, uri, cert, salpn, calpn, "none", hdr]
        if cert != "good":
            yield [tls, uri, "good", salpn, calpn, fault, hdr]
        if ":" in uri.split("://")[1].rstrip("/").split("]")[-1]:
            s, rest = uri.split("://")
            hostport = rest.rstrip("/")
            host = hostport.rsplit(":", 1)[0]
            yield [tls, f"{s}://{host}/", cert, salpn, calpn, fault, hdr]

    def nontrivial_key(self, c, o):
        if c[0] == "yes" and (o["scheme"] or "").lower() in ("https", "wss"):
            return repr(c)
        return None

    def histogram(self, cases, obss):
        h = {"class": {}, "first": {}, "fault": {}, "cert": {}, "hostkind": {}, "hosthdr": {}, "method": {}}
        for c, o in zip(cases, obss):
            for k, v in (("class", o["cls"]), ("first", o["first"]), ("fault", c[5]), ("cert", c[2]), ("hostkind", o["kind"]),
                         ("hosthdr", "none" if len(c) < 7 or c[6] == "-" else "set"),
                         ("method", c[7] if len(c) > 7 else "GET")):
                h[k][v] = h[k].get(v, 0) + 1
        return h


PLUGIN = C12()
