"""C07 — graceful shutdown finishes in-flight requests and stops accepting (M-SERVER)."""
from p_server import ServerPlugin, KINDS


def progress_options(kind):
    """ways a single connection can stand when the signal fires: (events before, events needed to wind down)"""
    if kind == "C0":
        return [([], [])]
    if kind == "C3":
        base = [([], ["R", "T", "T", "T"])]          # partial preface: still sniffing
    else:
        base = [([], [])]                            # accepted, nothing sent
    full = ["R", "T", "T", "T"]
    for done in (0, 1, 2):
        pre = full * done
        if done:
            base.append((pre, []))                   # idle keep-alive
        if kind == "C1":
            base.append((pre + ["P"], ["R", "T", "T", "T"]))       # mid request head
        for k in range(3):
            base.append((pre + ["R"] + ["T"] * k, ["T"] * (3 - k)))   # mid body / in handler / mid response
        if kind in ("C2", "C3"):
            for k in range(6):
                base.append((pre + ["R", "R"] + ["T"] * k, ["T"] * (6 - k)))   # two concurrent streams
    return base


class C07(ServerPlugin):
    prop = "C07"
    check_fn = "check_all_C07"
    mon_fn = "mon_C07"
    design_ref = "DESIGN.md 4/C07, 3.9, appendix D"
    rule = ("case = (protocol h1/h2/auto, transport, event list: connects of 0..8 clients (hyper h1 / hyper h2 / h2 with a cut "
            "preface / silent raw), requests advanced stage by stage (cut head, head, body rest, handler release, response "
            "end), the shutdown signal at a scripted position, wind-down of every unfinished request, late connects and "
            "late requests; the completed serving future dropped at once or kept alive by the caller; the signal resolved from inside the accept loop by the make-service while a burst of connects is "
            "queued; server buffer cap / client buffer sizes as hidden variation) against the real Server::with_graceful_shutdown with logging acceptor / protocol / executor "
            "wrappers; per stretch between quiescent points the multiset of observable events is compared with the model, "
            "and mon_C07 judges the implementation's log; non-trivial = at least one request, fault or cancelled connect; "
            "distinct = distinct case lines")
    trusted = [
        "modelled (not verified): Serving::poll_once/poll, GracefulShutdown::poll, close(), ConnectionDriver, "
        "GracefulConnectionDriver, UpgradableConnection::graceful_shutdown, DuplexIncoming::poll_accept/ack",
        "oracle O5: what hyper 1.6 does with a connection after graceful_shutdown (h1 closes idle/fresh connections and "
        "finishes the running exchange; h2 sends GOAWAY and finishes open streams); written into the model as observed and "
        "compared on every case",
        "executor assumption: spawned drivers keep being polled after the serving future has completed (tokio::spawn)",
        "harness wrappers (LogAccept, LogProto/LogConn, LogExec, scripted handler, write throttle) are trusted to log faithfully",
    ]
    assumptions = ["the make-service future is ready at once, so State::Making never survives a poll",
                   "signal and client actions happen between polls of the single-threaded runtime",
                   "HTTP/2-only server with a client that has not completed the preface: known finding D18 (excluded from the theorem by hypothesis)"]

    def kinds_for(self, proto, rng):
        if proto == "h1":
            return rng.choice(["C1"] * 8 + ["C0"] * 2)
        if proto == "h2":
            return "C2"
        return rng.choice(["C1"] * 4 + ["C2"] * 4 + ["C3"] * 2 + ["C0"])

    def one(self, rng, proto, tr, nconn, signal=True, late=True):
        pre_q, post_q = [], []
        for i in range(nconn):
            kind = self.kinds_for(proto, rng)
            pre, post = rng.choice(progress_options(kind))
            pre_q.append([(kind, i)] + [(t, i) for t in pre])
            post_q.append([(t, i) for t in post] + ([("R", i)] if rng.random() < 0.3 else []))
        pre = self.merge(rng, pre_q)
        if rng.random() < 0.15 and tr in ("duplex", "dtls"):
            pre.insert(rng.randrange(len(pre) + 1), ("X", None))
        # tcp/unix: the kernel completes connects by itself, so every connect is settled at once
        if tr in ("tcp", "unix"):
            pre2 = []
            for t in pre:
                pre2.append(t)
                if t[0] in KINDS:
                    pre2.append(("S", None))
            pre = pre2
        elif rng.random() < 0.6:
            pre.append(("S", None))
        mid = []
        burst_kind = "C2" if proto == "h2" else "C1"
        if signal and tr in ("duplex", "dtls") and rng.random() < 0.25:
            # the signal resolves INSIDE the accept loop: the make-service resolves it while it admits the
            # (n+1)-th of a burst of queued connects; the rest of the burst must not be accepted
            m = rng.choice([2, 2, 3, 4, 6])
            n = rng.randrange(m)
            burst = [(rng.choice([burst_kind, burst_kind, "X"]), "late") for _ in range(m)]
            arm = (f"K{n}", None)
            mid = ([arm] + burst) if rng.random() < 0.7 else (burst[:1] + [arm] + burst[1:])
            mid.append(("S", None))
            if rng.random() < 0.3:
                mid.append(("G", None))
        elif signal:
            mid.append(("G", None))
            if rng.random() < 0.5:
                mid.append(("S", None))
        post = self.merge(rng, post_q)
        if late and tr in ("duplex", "dtls"):
            for _ in range(rng.choice([0, 0, 1, 2])):
                post.insert(rng.randrange(len(post) + 1), (rng.choice(["C1", "C2", "X"]) if proto == "auto" else
                                                           rng.choice(["C2", "X"]) if proto == "h2" else rng.choice(["C1", "X"]), "late"))
        if rng.random() < 0.1:
            post.insert(rng.randrange(len(post) + 1), ("G", None))
        seq = pre + mid + post + [("S", None)]
        # number the clients in the order of their connect events
        ids, n, evs = {}, 0, []
        for t, who in seq:
            if t in KINDS:
                if who != "late":
                    ids[who] = n
                n += 1
                evs.append(t)
            elif who is None or who == "late":
                evs.append(t)
            else:
                evs.append(f"{t}{ids[who]}")
        case = {"mode": "g", "proto": proto, "tr": tr, "evs": evs}
        if tr in ("duplex", "dtls") and rng.random() < 0.2:
            case["mode"] = "k"      # the caller keeps the completed serving future alive
        if tr in ("duplex", "dtls") and rng.random() < 0.3:
            # variation the model abstracts from: server-side buffer cap, buffer size the clients ask for
            case["cap"] = rng.choice([65536, 4096])
            case["evs"] = [t + rng.choice(["", ":4096", ":65536"]) if t in ("C1", "C2")
                           else (t + rng.choice(["", ":0", ":1"]) if t == "C0" else t) for t in evs]
        return case

    def generate(self, tier, rng):
        cases = []
        # systematic: every standing of one connection at the signal, alone and next to an idle neighbour
        for proto in ("h1", "h2", "auto"):
            kinds = {"h1": ["C1", "C0"], "h2": ["C2"], "auto": ["C1", "C2", "C3", "C0"]}[proto]
            for kind in kinds:
                for pre, post in progress_options(kind):
                    for settled in (True, False):
                        for neighbour in (False, True):
                            evs = [kind] + [f"{t}0" for t in pre]
                            if neighbour:
                                nk = "C2" if proto == "h2" else "C1"
                                evs = [kind, nk] + [f"{t}0" for t in pre] + ["R1", "T1", "T1", "T1"]
                            evs += (["S"] if settled else []) + ["G", "S"] + [f"{t}0" for t in post] + ["R0", "S"]
                            cases.append({"mode": "g", "proto": proto, "tr": "duplex", "evs": evs})
                            if settled:
                                # the same with the completed serving future kept alive by the caller: every
                                # connection must be told and finish exactly as before
                                cases.append({"mode": "k", "proto": proto, "tr": "duplex", "evs": evs})
        # signal before / after accept, queue of several, cancelled connects in the queue
        for proto, k in (("h1", "C1"), ("h2", "C2"), ("auto", "C1"), ("auto", "C2"), ("auto", "C3")):
            for evs in ([k, "G", "S"], ["S", k, "G", "S"], [k, "S", "G", "S"], [k, k, "X", k, "G", "S"], ["G", k, "S"],
                        ["S", "G", "S", k, "S"], [k, "X", "S", k, "G", k, "S"], ["X", "G", "S"], ["G", "S"], ["S"],
                        [k, "S", "L", "S", "G", "S"], [k, "S", "M", k, "S", "G", "S"]):
                cases.append({"mode": "g", "proto": proto, "tr": "duplex", "evs": evs})
                # (a kept future that completed with an error is never polled again and cannot see a later signal:
                #  keep mode is scripted for completion by the signal only)
                if "L" not in evs and "M" not in evs:
                    cases.append({"mode": "k", "proto": proto, "tr": "duplex", "evs": evs})
        # the signal resolves inside the accept loop (the make-service resolves it while admitting the
        # (n+1)-th queued connect): k queued connects, every n; with and without an exchange in flight,
        # a cancelled connect in the burst, the arm placed before / inside the burst, a late outside signal
        for proto, k in (("h1", "C1"), ("h2", "C2"), ("auto", "C1"), ("auto", "C2"), ("auto", "C3")):
            for m in (2, 3, 4):
                for n in range(m):
                    burst = [k] * m
                    cases.append({"mode": "g", "proto": proto, "tr": "duplex", "evs": [f"K{n}"] + burst + ["S"]})
                    cases.append({"mode": "g", "proto": proto, "tr": "duplex",
                                  "evs": [k, "R0", "T0", f"K{n}"] + burst + ["S", "T0", "T0", "S"]})
                    cases.append({"mode": "g", "proto": proto, "tr": "duplex",
                                  "evs": ["S"] + burst[:1] + [f"K{n}"] + ["X"] + burst[1:] + ["S", "G", "S"]})
            cases.append({"mode": "g", "proto": proto, "tr": "duplex", "evs": ["K0", "M", k, k, "S", k, "S"]})
            cases.append({"mode": "g", "proto": proto, "tr": "duplex", "evs": ["K1", k, "S", k, k, k, "S", "R0", "S"]})
            cases.append({"mode": "g", "proto": proto, "tr": "dtls", "evs": ["K0", k, k, k, "S"]})
            cases.append({"mode": "g", "proto": proto, "tr": "duplex", "evs": ["K5", k, k, "S", "G", "S"]})
        # the known finding D18, kept small on purpose (see known_match)
        cases.append({"mode": "g", "proto": "h2", "tr": "duplex", "evs": ["C0", "S", "G", "S"]})
        cases.append({"mode": "g", "proto": "h2", "tr": "duplex", "evs": ["C2", "C3", "R0", "S", "G", "S", "T0", "T0", "T0", "S"]})
        n = 1200 if tier == "quick" else 40000
        for _ in range(n):
            proto = rng.choice(["h1", "h2", "auto"])
            x = rng.random()
            tr = "duplex" if x < 0.84 else "dtls" if x < 0.96 else "tcp" if x < 0.975 else "unix"
            nconn = rng.choice([0, 1, 1, 2, 2, 3, 3, 4, 5, 6, 8])
            if tr in ("tcp", "unix"):
                nconn = min(nconn, 2)
            cases.append(self.one(rng, proto, tr, nconn, signal=rng.random() < 0.93))
        return cases, {"rule": f"{len(cases) - n} systematic cases (every standing of a connection at the signal x settled or not x "
                               f"idle neighbour; accept-queue shapes) + {n} random (seeded) schedules over 0..8 connections",
                       "exhaustive": False}

    def known_match(self, finding, case, obs):
        if finding.get("id") != "D18" or case["proto"] != "h2":
            return False
        # clients of the HTTP/2-only server that had not completed the preface when told
        silent = []
        n = 0
        for t in case["evs"]:
            if t in KINDS:
                if t.split(":")[0] in ("C0", "C3"):
                    silent.append(n)
                n += 1
        patched, hit = [], False
        for i, t in enumerate(obs):
            patched.append(t)
            if t.startswith("T") and t[1:].isdigit() and int(t[1:]) in silent:
                c = t[1:]
                nxt = obs[i + 1:]
                q = nxt.index("Q") if "Q" in nxt else len(nxt)
                if f"D{c}" not in nxt[:q]:
                    patched.append(f"D{c}")     # what a closing connection would have logged
                    hit = True
        if not hit:
            return False
        # only this shape: with the missing close filled in (and any later one removed) the monitor is satisfied
        seen, out = set(), []
        for t in patched:
            if t.startswith("D") and t[1:].isdigit():
                if t in seen:
                    continue
                seen.add(t)
            out.append(t)
        return self.monitor_accepts(out)


PLUGIN = C07()
