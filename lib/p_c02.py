from p_pool import Pool, make
import subprocess
import core

from p_conn import with_conn

# pool histories (M-POOL) + the real HttpConnection against the PoolableConnection contract (M-CONN)
PLUGIN = with_conn(make("C02"))


def extra(tier, seed):
    """R1 support run (testing, not proof): the real pool on a MULTI-THREAD runtime with many concurrent
    request tasks (harness/src/bin/poolstress.rs), checking the safety halves of C02 (no second holder, no
    hand-out while busy), C05 (nothing closed before the Issue), C06 (own origin) and C15 (idle bound) under
    real interleavings inside Checkout::poll, which the atomic-step model cannot exhibit."""
    core.harness_build("poolstress", release=True)
    exe = core.harness_path("poolstress", release=True)
    runs = []
    viol = []
    configs = [(2, 1), (0, 0), (1, 0)] if tier == "quick" else [(2, 1), (0, 0), (1, 0), (1, 1), (8, 1), (2, 0)] * 4
    for i, (max_idle, cont) in enumerate(configs):
        args = [exe, str(seed * 100 + i), "8", "32", "150" if tier == "quick" else "400", str(max_idle), str(cont)]
        try:
            p = subprocess.run(args, stdout=subprocess.PIPE, stderr=subprocess.PIPE, text=True, timeout=600, env=core.ENV)
            line = (p.stdout.strip().splitlines() or [f"exit {p.returncode}: {p.stderr[-300:]}"])[-1]
        except subprocess.TimeoutExpired:
            line = "HANG (no result within 600 s)"
        runs.append({"args": " ".join(args[1:]), "result": line[:300]})
        if not line.startswith("OK"):
            viol.append({"property": "C02", "kind": "multi-thread stress run of the real pool violates a safety clause (C02/C05/C06/C15)",
                         "case": " ".join(args), "impl_observation": line,
                         "rerun": " ".join(args) + "   (non-deterministic schedule: re-run a few times)"})
    return {"what": extra.__doc__, "runs": runs}, viol


PLUGIN.extra = extra
