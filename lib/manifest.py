#!/usr/bin/env python3
"""Regenerates /verif/MANIFEST.json from the table below."""
import json, os
VERIF = os.path.dirname(os.path.dirname(os.path.abspath(__file__)))
HOOK_COMMITS = ["2a964bf", "fa83b6a", "22f8253"]
FIX_COMMITS = ["856f863", "44eea87", "8d8cd8f", "c6ea88a", "2faf33b", "0d420de", "4332f80", "9bebd46", "9e0bb9e", "1bf31d6", "ab48742", "d06c1bd", "4f39ea6", "f10f40c", "fecaf88", "bca9b9b", "985ed6d"]

POOLNOTE = 'Trusted: Coq kernel+VM; hand model of pool/{mod,checkout,idle,key,service}.rs + connector staging with one atomic step per operation (exact for a current-thread runtime; interleavings inside one Checkout::poll on a multi-thread runtime are R1); oracles O1 (hyper SendRequest readiness, scripted by the harness connection), O2 tokio oneshot, O3 tokio current-thread FIFO run queue, O7 http::Uri; hook verif_pool_snapshot (read-only). Every pool property compares the FULL observation (events, snapshot, woken futures) of model and implementation after every operation. No axioms.'

CLAIMS = {
 "C16": dict(
  text="Coq theorems (unbounded lists, all preferences, all ports) that the model of sort_preferred/set_port/connecting is a permutation, puts first-of-preferred then first-of-other first, keeps the rest in resolver order, rewrites every port; the model is tied to the code by a differential run through the verif-hooks wrappers (exhaustive over all family patterns up to length 7/10 plus random lists with duplicates and zoned / flow-labelled IPv6 addresses, which are distinct addresses), compared inside the Coq kernel.",
  note="Trusted: Coq kernel+VM, hand model of dns.rs/tcp.rs connecting (tied by sampling), harness+driver, hook wrappers. All theorems closed under the global context (no axioms).",
  technique="Coq proof (refinement of index code to list spec) + differential correspondence", ref="DESIGN.md 4/C16, 3.3"),
 "C10": dict(
  text="Coq theorems for ALL attempt lists, configurations and tie-breaks that the discrete-event model of EyeballSet satisfies the executable C10 monitor (Ok soundness incl. first-success-wins and deadline, completeness, first-error/all-tried, NoProgress iff empty, Timeout exactly at the deadline, no hang with a stagger delay configured while a never-started candidate would accept, never out of fuel), by an inductive invariant over the simulation; for the configuration TcpConnecting::connect builds (he/Tcp.v) the full-strength statement: if candidate i accepts with i * (T/n) + latency_i <= T the result is Ok (c10_tcp_succeeds, sharp), without a timeout it is Ok unless an attempt never completes (c10_tcp_succeeds_no_timeout), and the error mapping (c10_tcp_exhausted_iff, c10_tcp_timeout_only_configured). Model tied to the real EyeballSet (paused tokio clock, scripted attempts) by exact comparison of result, completion time and every first-poll/ready instant on a grid sample + random cases; the same monitor judges every implementation trace. The TCP glue is tied to the real TcpTransport::connect_to_addrs over 127.0.0.1 (parameters read from the library's own trace events, outcome class compared with the model).",
  note="Trusted: Coq kernel+VM; hand model of happy_eyeballs.rs and of TcpConnecting::connect (tied by sampling); tokio paused-clock semantics (oracle O4); tie-break among simultaneous timer wake-ups taken from the implementation's own completion order; harness+driver; hook re-export. No axioms.",
  technique="Coq proof (inductive invariant of a discrete-event simulation, monitor = spec) + differential correspondence in virtual time", ref="DESIGN.md 4/C10, 3.2, appendix B"),
 "C11": dict(
  text="Coq theorems (all inputs, configs, tie-breaks): attempts start in order, each at most once, monotone in time; initial batch bounded by the configured concurrency and started at 0; completion no later than the deadline. PARTIAL: the two pacing clauses of the monitor (each later start triggered by, and as soon as, stagger timer / failure / empty set) are not yet proved for the model; they are evaluated on every implementation trace and the model is compared event-for-event with the implementation.",
  note="As C10. The pacing clauses s_pace/s_unstarted are tested (monitor on implementation traces + exact model/impl equality), not proved.",
  technique="Coq proof (inductive invariant) for order/initial/deadline; pacing by monitor + differential correspondence", ref="DESIGN.md 4/C11, 3.2"),
 "C08": dict(
  text="Coq theorems for EVERY byte stream and EVERY read script (any fragmentation, Pending anywhere, errors; no length bound): the model of ReadVersion::poll answers HTTP/2 exactly when the stream starts with the 24-byte preface, never loses/duplicates/reorders a byte (prefix ++ unread = stream), always terminates, and reading through the rewound stream with any buffer sizes replays exactly the client's bytes. Tied to the real sniffer (hook) and Rewind by differential runs over a stream grammar x compositions of the first 24 bytes x Pending insertions, verdict + every read compared in the kernel.",
  note="Trusted: Coq kernel+VM; hand model of auto.rs ReadVersion and rewind.rs (tied by sampling); harness scripted stream; hook verif_read_version. The clause 'answered identically to a single-protocol server' rests on hyper itself (R2) and is exercised end-to-end under C01 only. Genuine defect D1 (fragmented preface => HTTP/1) was found by this model and fixed in /repo (856f863). No axioms.",
  technique="Coq proof (loop invariant over arbitrary read scripts) + differential correspondence", ref="DESIGN.md 4/C08, 3.4, appendix C"),
 "C18": dict(
  text="Coq theorems for every adapter stack of the model, every inner stream/script and every outer op sequence: delivered bytes ++ still-unread bytes is invariant (no loss, duplication, reordering, invention), the inner writer holds exactly the accepted bytes in order (also for vectored writes), per-op bounds, TokioIo filled/initialised bookkeeping, EOF/Pending/error propagation, end of stream never invented (c18_eof_only_at_end: a read with room delivers nothing only once every byte has been delivered; scripted errors of 7 io::ErrorKinds); the same law for the sniffing rewind buffer as the auto server builds it (ReadVersion over any fragmentation, then any reads through the Rewind it returns: c18_sniffed_rewind). Tied to the real TokioIo (both directions, nested), Rewind, TlsBraid, client and server Stream wrappers by per-operation differential runs against a scripted inner stream, and to the real in-process DuplexStream pipe (bare and under the wrappers) with writes / vectored writes against back-pressure, the far end drained and compared, and to the real ReadVersion + Rewind pipeline over fragmented first bytes.",
  note="Trusted: Coq kernel+VM; hand model (forwarding adapters are identity in the model, so for them the theorem is only as strong as the correspondence run); absence of UB in the unsafe blocks is not expressible (R1); real TCP/Unix sockets under Braid are exercised by C01 only. No axioms.",
  technique="Coq proof (FIFO refinement invariant over op sequences) + per-op differential correspondence", ref="DESIGN.md 4/C18, 3.4"),
 "C13": dict(
  text="Coq theorem for every request record and both connection protocols: the model of the layer stack SetHostHeader -> Http2Checks -> Http1Checks satisfies the executable C13 monitor (origin-form target with path/query preserved and '/' for an empty path, authority-form for CONNECT, Host = URI host + port unless the scheme's default and never overriding the caller's, HTTP/2: version 2, hop-by-hop headers and Host removed, CONNECT rejected, everything else untouched); protocol choice = H2 iff requested or ALPN h2. Tied to the real public layers (stub connection) over a URI/method/version/header grammar and to the real HttpConnectionBuilder over a duplex with scripted ALPN, compared in the kernel.",
  note="Trusted: Coq kernel+VM; hand model of host.rs/http.rs/protocol choice; oracle O7 (http::Uri accessors: the harness decomposes URIs with the real crate; well-formedness of the decomposition is a stated hypothesis checked on every case); hyper's rendering of the final http::Request on the wire is R2 (C01). Genuine defect D13 fixed (2faf33b). No axioms.",
  technique="Coq proof (case analysis + header-list lemmas, monitor = spec) + differential correspondence", ref="DESIGN.md 4/C13, 3.5"),
 "C20": dict(
  text="Coq theorems for every request record: the model of ValidateSNI's handle() satisfies the C20 monitor (forwarded only if the named host equals the SNI case-insensitively with port/userinfo ignored, then marked validated; rejected on mismatch or missing SNI; equal host never rejected; HTTP/2 falls back to Host; a validated flag already set on the incoming TLS info decides nothing for a request naming a host: c20_premarked_irrelevant), plus port-insensitivity of the host extraction and that the comparison is an equivalence. Tied to the real public ValidateSNI layer around a recording service over version x Host x URI x TLS-info (incl. a pre-set validated flag) products; the model's host extraction is compared with http::uri::Authority::host on every case.",
  note="Trusted: Coq kernel+VM; hand model of sni.rs handle(); oracle O7 (which strings parse as an Authority); that TlsConnectionInfo carries the handshake's real SNI is info/tls + rustls (R3). Genuine defect D11 fixed (0d420de). No axioms.",
  technique="Coq proof (case analysis, string lemmas) + differential correspondence", ref="DESIGN.md 4/C20, 3.7"),
 "C12": dict(
  text="Coq theorems for every scheme string, host form, certificate situation, ALPN offer and injected fault: the model of TlsTransport/TlsTransportWrapper/TlsConnectionFuture satisfies the C12 monitor (https/wss with TLS configured: never a plain stream, a stream only after a successful handshake with SNI = URI host (none for IP literals), failures are errors never a fallback, nothing the application writes is visible in the clear; other schemes unwrapped; total; a Host header already present in the request parts changes nothing: c12_host_header_irrelevant). Tied to the real TlsTransport<DuplexTransport> against a recording peer running a real rustls server with matching / wrong-name / untrusted certificates, caller-set Host headers and peer faults.",
  note="Trusted: Coq kernel+VM; hand model; oracle O6/R3: rustls (name classification taken from the real crate by the harness; that a completed handshake implies encryption + verified certificate is rustls's own guarantee); fixtures minted with openssl. Genuine defects D9, D12 fixed (4332f80, c6ea88a). No axioms.",
  technique="Coq proof (case analysis over the connect state machine, monitor = spec) + differential correspondence with a real TLS peer", ref="DESIGN.md 4/C12, 3.6"),

 "C15": dict(
  text="Coq theorem for EVERY pool configuration and EVERY finite operation history (issue/poll/cancel/finish/upgrade/dial outcomes/ready/close/background/tick, any length, any interleaving of any number of requests and origins): in every reachable state of the model every origin's idle list has at most max_idle_per_host entries (c15_bound), hence the executable monitor accepts every model trace (c15_monitor); and, at the property's own observation point, after the closing procedure the number of connections of an origin that were created, never dropped and are not held by a request is at most max_idle_per_host, 0 with the pool disabled (c15_retained_after_drain, c15_monitor_drained: handle-accounting invariant + flush of every hand-back task). Tied to the real ConnectionPoolService (public API, own transport/protocol/connection types, manual polling) by comparing events + pool snapshot + woken futures after every operation on seeded random histories with bursts, releases in any order, peers closing idle connections, max_idle in {0,1,2,3,8}; the monitor judges the implementation's own snapshots.",
  note=POOLNOTE + " Genuine defect D7 (max_idle_per_host never enforced) found by this model and fixed (9bebd46).",
  technique="Coq proof (inductive invariant over all operation sequences) + differential correspondence with state snapshots", ref="DESIGN.md 4/C15, 3.1, appendix A, 9"),
}


# further claims: one JSON file per property under lib/claims (keys: text, note, technique, ref)
import glob
for _f in sorted(glob.glob(os.path.join(VERIF, "lib", "claims", "*.json"))):
    _c = json.load(open(_f))
    if _c.get("note", "").startswith("POOLNOTE"):
        _c["note"] = POOLNOTE + _c["note"][len("POOLNOTE"):]
    CLAIMS[os.path.basename(_f)[:-5]] = _c


def main():
    props = [json.loads(l) for l in open(os.path.join(VERIF, "properties.jsonl"))]
    na_reasons = {}
    try:
        old = json.load(open(os.path.join(VERIF, "MANIFEST.json")))
    except Exception:
        old = {}
    checks = []
    for pid in sorted(CLAIMS):
        c = CLAIMS[pid]
        checks.append({
            "property_id": pid,
            "quick_cmd": f"/verif/bin/vcheck {pid} --tier quick",
            "thorough_cmd": f"/verif/bin/vcheck {pid} --tier thorough",
            "evidence_file": f"/verif/evidence/{pid}.json",
            "replay_cmd_template": f"/verif/bin/vcheck {pid} --replay {{path}}",
            "engine": "coq-proof+correspondence",
            "level_claimed": {"category": "proof", "text": c["text"], "design_ref": c["ref"]},
            "level_note": c["note"],
            "technique": c["technique"],
        })
    m = {
        "version": 1,
        "setup_cmd": "/verif/bin/setup",
        "hooks": {"guard": "cargo feature verif-hooks",
                  "enable": "path dependency of /verif/harness on /repo with features = [\"verif-hooks\", ...]",
                  "baseline_off_cmd": "cd /repo && cargo test --workspace --no-fail-fast --offline",
                  "source_commits": HOOK_COMMITS, "add_only": True},
        "engines": [{"name": "coq-proof+correspondence", "path": "/verif/bin/vcheck",
                     "serves_properties": sorted(CLAIMS),
                     "kind_free_text": "Coq 8.16.1 proofs about hand-written Gallina models + differential correspondence harness (Rust) compared inside the Coq kernel by vm_compute"}],
        "checks": checks,
        "notes": "Properties move from not_applicable to checks as their models, proofs and harnesses land (DESIGN.md section 8).",
        "not_applicable": [{"property_id": p["id"],
                            "reason": "not yet claimed: model/proof/harness under construction (DESIGN.md section 8 build order)"}
                           for p in props if p["id"] not in CLAIMS],
    }
    json.dump(m, open(os.path.join(VERIF, "MANIFEST.json"), "w"), indent=1)

if __name__ == "__main__":
    main()
