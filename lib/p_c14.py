from p_pool import Pool, make
from p_ckphase import with_ckphase

# pool histories (M-POOL, one environment step per dial) + the two-phase dial of one origin (M-CKPHASE: a poll can find
# "transport connected, handshake pending")
PLUGIN = with_ckphase(make("C14"))
