"""C19 — timeout layer (M-TIMEOUT); the cleanup half is checked with the pool model."""
import itertools
from core import Plugin


def optN(x):
    return "None" if x is None else f"(Some {x})"


def is_b(c):
    return len(c) > 5 and c[5] in ("B", "BR")


def spur(c):
    """instants of additional (spurious) polls by the driving task"""
    return list(c[5][1:]) if len(c) > 5 and isinstance(c[5], list) else []


class C19(Plugin):
    prop = "C19"
    harness_bin = "timeout"
    coq_targets = ("timeout/Corr.vo",)
    header = "From HD Require Import common.Base timeout.Model timeout.Spec timeout.Sched timeout.Corr.\nOpen Scope N_scope."
    check_fn = "check_all"
    shard = 400
    impl_jobs = 4
    design_ref = "DESIGN.md 4/C19, 3.8"
    rule = ("case = (duration d, delay before the first poll p0, inner completion time ti or never, inner result, handover: first poll by a throw-away waker and then driven by another task, spurious polls: further instants, in any order and number, at which the driving task polls the future although neither the inner future nor the deadline woke it) through the "
            "public TimeoutLayer around a scripted inner service under tokio's paused clock (and, for a grid of durations incl. zero, through Client::builder().with_timeout over a pooled duplex transport, without and with a followed redirect whose hops together take ti: result and instant only); observed: result, resolution time, "
            "instant at which the inner future was dropped; non-trivial = ti within 2 ms of d or p0 > 0; distinct = distinct tuples")
    trusted = ["modelled (not verified): Timeout::call, TimeoutFuture::poll", "oracle O4: tokio paused clock at 1 ms granularity"]
    assumptions = ["the executor polls the future when its waker fires (tokio current-thread runtime)",
                   "the cleanup half (a timed-out pooled request leaves the pool usable) is the Cancel operation of the pool model: see C03/C04 evidence"]

    def generate(self, tier, rng):
        cases = []
        grid_d = [0, 1, 2, 5, 10]
        grid_ti = [None, 0, 1, 2, 4, 5, 6, 9, 10, 11, 20]
        grid_p0 = [0, 0, 1, 5, 12]
        for d, ti, p0 in itertools.product(grid_d, grid_ti, grid_p0):
            for r in (["O", 7], ["E", 3]):
                cases.append([d, p0, ti, r])
                if r[0] == "O":
                    cases.append([d, p0, ti, r, 1])       # first poll by one task, then handed to another
        # durations people use for "no timeout": Duration::MAX, u64::MAX seconds, 2^63 seconds, a thousand years
        for d in (18446744073709551615 * 1000 + 999, 18446744073709551615 * 1000, (1 << 63) * 1000, (1 << 63) * 1000 - 1,
                  31_557_600_000_000):
            for ti, p0 in ((0, 0), (3, 0), (7, 2), (0, 5)):
                for r in (["O", 7], ["E", 3]):
                    cases.append([d, p0, ti, r, 0])
                cases.append([d, p0, ti, ["O", 1], 1])
        # the same deadline through the public client Builder (Client::builder().with_timeout(d), pooled duplex transport,
        # in-process server answering after ti): ties excluded (the real request needs several polls at one instant)
        for d in (0, 1, 5, 20):
            for ti in (None, 0, 3, 7, 30):
                if ti is None or ti != d and not (d == 0 and ti == 0):
                    cases.append([d, 0, ti, ["O", 7], 0, "B"])
        # ... and with the standard redirect policy on, against a handler that redirects `/` (after ti/2) to `/next` (rest of ti):
        # the deadline covers the whole request as the caller issued it, all hops together (ti = total time; ties with d excluded)
        for d in (1, 5, 20):
            for ti in (None, 0, 4, 8, 9, 16, 30, 38):
                if ti is None or (ti != d and ti // 2 != d):
                    cases.append([d, 0, ti, ["O", 7], 0, "BR"])
        n = 500 if tier == "quick" else 20000
        for _ in range(n):
            d = rng.randint(0, 50)
            ti = rng.choice([None, d, d + 1, max(0, d - 1), rng.randint(0, 80)])
            cases.append([d, rng.choice([0, 0, 0, rng.randint(0, 60)]), ti, [rng.choice("OE"), rng.randint(0, 9)], rng.choice([0, 0, 1])])
        # spurious polls: the model side is the poll-by-poll run_sched (Sched.v), equal to the closed form for every list
        for d, ti, p0 in itertools.product([0, 1, 5, 10], [None, 0, 4, 5, 6, 10, 11], [0, 3]):
            for sp in ([1], [d], [d + 1, 2], [3, 3, 7, 2], [ti or 0, d, 9, 1]):
                cases.append([d, p0, ti, ["O", 7], 0, ["S"] + sp])
        for _ in range(n // 2):
            d = rng.randint(0, 50)
            ti = rng.choice([None, d, d + 1, max(0, d - 1), rng.randint(0, 80)])
            sp = [rng.choice([d, d + 1, max(0, d - 1), rng.randint(0, 70), (ti or 0)]) for _ in range(rng.randint(1, 6))]
            cases.append([d, rng.choice([0, 0, rng.randint(0, 60)]), ti, [rng.choice("OE"), rng.randint(0, 9)], rng.choice([0, 0, 1]), ["S"] + sp])
        return cases, {"rule": f"exhaustive grid d x ti x p0 x result ({len(grid_d) * len(grid_ti) * len(grid_p0) * 2} points) + {n} random + 280 grid and {n // 2} random cases with spurious polls", "exhaustive": False}

    def impl_line(self, c):
        d, p0, ti, r = c[:4]
        tail = (" " + c[5]) if is_b(c) else (" S" + ",".join(str(x) for x in spur(c)) if spur(c) else "")
        return f"{d} {p0} {'-' if ti is None else ti} {r[0]}{r[1]} {c[4] if len(c) > 4 else 0}" + tail

    def parse_obs(self, c, line):
        f = line.split()
        if f[0] == "PANIC":
            return {"res": "PANIC", "at": None, "dropped": None}
        b = is_b(c)      # Builder cases: the drop instant of the inner work is not observable; only result and instant are compared
        if f[0] == "INNER":
            return {"res": f[1], "at": int(f[2]), "dropped": int(f[2]) if b else (None if f[3] == "-" else int(f[3]))}
        at = None if f[1] == "-" else int(f[1])
        return {"res": f[0], "at": at, "dropped": at if b else (None if f[2] == "-" else int(f[2]))}

    def coq_case(self, c):
        d, p0, ti, r = c[:4]
        return (f"(mkT {d} {p0} {optN(ti)} ({'IOk' if r[0] == 'O' else 'IErr'} {r[1]}) {'true' if len(c) > 4 and c[4] else 'false'}, "
                f"[{'; '.join(str(x) for x in spur(c))}])")

    def coq_obs(self, o):
        r = o["res"]
        if r.startswith("O"):
            res = f"TInner (IOk {r[1:]})"
        elif r.startswith("E"):
            res = f"TInner (IErr {r[1:]})"
        elif r == "TIMEOUT":
            res = "TTimeout"
        else:
            res = "TNever"
        return f"(({res}, {optN(o['at'])}), {optN(o['dropped'])})"

    def nontrivial_key(self, c, o):
        d, p0, ti, r = c[:4]
        if p0 > 0 or (ti is not None and abs(ti - d) <= 2):
            return repr(c)
        return None

    def shrinks(self, c):
        d, p0, ti, r = c[:4]
        h = c[4] if len(c) > 4 else 0
        if is_b(c):
            return
        sp = spur(c)
        if sp:
            yield [d, p0, ti, r, h]
            for i in range(len(sp)):
                if len(sp) > 1:
                    yield [d, p0, ti, r, h, ["S"] + sp[:i] + sp[i + 1:]]
            return
        if h:
            yield [d, p0, ti, r, 0]
        if p0:
            yield [d, 0, ti, r, h]
        if d:
            yield [d - 1, p0, ti, r, h]
        if ti:
            yield [d, p0, ti - 1, r, h]

    def histogram(self, cases, obss):
        h = {"result": {}, "handover": sum(1 for c in cases if isinstance(c, list) and len(c) > 4 and c[4]),
             "with_spurious_polls": sum(1 for c in cases if isinstance(c, list) and spur(c)),
             "spurious_polls_total": sum(len(spur(c)) for c in cases if isinstance(c, list))}
        for o in obss:
            k = o["res"][0] if o["res"][0] in "OE" else o["res"]
            h["result"][k] = h["result"].get(k, 0) + 1
        return h


class C19Both(C19):
    """first half: TimeoutLayer in virtual time (list cases); cleanup half: a timed-out pooled request is the
    Cancel operation of the pool model at any stage, judged by the C03 monitor (nothing after the cancel,
    every other request and a fresh probe resolve after the closing procedure) (dict cases)"""
    rule = C19.rule + (" || cleanup half: pool histories (harness/src/bin/pool.rs) in which requests are cancelled (= the timeout "
                       "future dropping its inner future) while waiting for their own dial, waiting on another request's dial, "
                       "connected-not-yet-polled, and holding a connection, followed by the closing procedure and a probe; model "
                       "and implementation compared after every operation, judged by mon_C03")
    coq_targets = ("timeout/Corr.vo", "pool/Corr.vo")
    extra_bins = ("pool",)

    def header_for(self, case):
        return self.pool.header_for(case) if isinstance(case, dict) else self.header

    def __init__(self):
        import p_pool
        self.pool = p_pool.make("C03")
        self.pool.prop = "C19"
        self.trusted = C19.trusted + self.pool.trusted

    def corpus(self):
        return self.pool.corpus()

    def generate(self, tier, rng):
        a, meta = C19.generate(self, tier, rng)
        n = 250 if tier == "quick" else 8000
        b = []
        import p_pool
        for _ in range(n):
            c = self.pool.gen_case(rng, tier)
            if not c.get("drained"):
                nreq = sum(1 for x in c["ops"] if x[0] == "I")
                c["drained"] = [next(o[1] for o in c["ops"] if o[0] == "I"), rng.choice([1, 2])]
                c["ops"] = c["ops"] + p_pool.drain_ops(nreq, c["drained"][0], c["drained"][1])
            # make sure there is a cancel at a random position of the body
            body_len = len(c["ops"]) - len(p_pool.drain_ops(sum(1 for x in c["ops"] if x[0] == "I") - 1, 0, 1))
            nreq_body = sum(1 for x in c["ops"][:body_len] if x[0] == "I")
            if nreq_body and not any(x[0] == "X" for x in c["ops"][:body_len]):
                pos = rng.randrange(1, body_len + 1)
                nb = sum(1 for x in c["ops"][:pos] if x[0] == "I")
                if nb:
                    c["ops"].insert(pos, ["X", rng.randrange(nb)])
            b.append(c)
        meta["rule"] += f" + {n} pool histories with cancels, closing procedure and probe"
        return a + b, meta

    def evaluate(self, cases):
        ia = [i for i, c in enumerate(cases) if not isinstance(c, dict)]
        ib = [i for i, c in enumerate(cases) if isinstance(c, dict)]
        obss = [None] * len(cases)
        mism, monf = [], []
        if ia:
            o, m, f = C19.evaluate(self, [cases[i] for i in ia])
            for j, i in enumerate(ia):
                obss[i] = o[j]
            mism += [ia[j] for j in m]
            monf += [ia[j] for j in f]
        if ib:
            o, m, f = self.pool.evaluate([cases[i] for i in ib])
            for j, i in enumerate(ib):
                obss[i] = o[j]
            mism += [ib[j] for j in m]
            monf += [ib[j] for j in f]
        return obss, sorted(mism), sorted(monf)

    def impl_line(self, c):
        return self.pool.impl_line(c) if isinstance(c, dict) else C19.impl_line(self, c)

    def coq_case(self, c):
        return self.pool.coq_case(c) if isinstance(c, dict) else C19.coq_case(self, c)

    def shrinks(self, c):
        return self.pool.shrinks(c) if isinstance(c, dict) else C19.shrinks(self, c)

    def nontrivial_key(self, c, o):
        return self.pool.nontrivial_key(c, o) if isinstance(c, dict) else C19.nontrivial_key(self, c, o)

    def sample_json(self, c, o):
        return self.pool.sample_json(c, o) if isinstance(c, dict) else {"case": c, "impl": o}

    def histogram(self, cases, obss):
        a = [(c, o) for c, o in zip(cases, obss) if not isinstance(c, dict)]
        b = [(c, o) for c, o in zip(cases, obss) if isinstance(c, dict)]
        return {"timeout_layer": C19.histogram(self, [x[0] for x in a], [x[1] for x in a]),
                "pool_cleanup": self.pool.histogram([x[0] for x in b], [x[1] for x in b])}


PLUGIN = C19Both()
