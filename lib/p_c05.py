from p_pool import Pool, make
from p_conn import with_conn

# pool histories (M-POOL) + the real HttpConnection against the PoolableConnection contract (M-CONN)
PLUGIN = with_conn(make("C05"))
