"""M-POOL plugins (C02 C03 C04 C05 C06 C14 C15 and the cleanup half of C19): shared generator,
harness glue and Coq term printers.  Each property subclasses Pool with its own check function
(own observation projection + own monitor)."""
import json
import os
import re
import random
import subprocess

import core
from core import Plugin, CheckError

URIS = ["http://a.test", "https://a.test", "http://a.test:8080", "http://b.test", "http://A.TEST",
        "HTTP://a.test", "http://a.test:80", "",
        "http://a.test|b.test", "http://b.test|a.test", "http://a.test|a.test",   # "<uri>|<Host header>"
        "http://u:p@a.test:8080", "http://x@a.test", "ws://a.test", "wss://a.test"]
URIS = URIS + [""] * (100 - len(URIS)) + [f"http://o{u}.test" for u in range(100, 400)]   # synthetic origins
TIMEOUT_MS = 400
TICK_MS = 1000

_uri_table = None


def uri_table():
    """oracle O7: the http crate's own decomposition of the URI table (harness --uris)."""
    global _uri_table
    if _uri_table is None:
        p = subprocess.run([core.harness_path("pool"), "--uris"], stdout=subprocess.PIPE, text=True, env=core.ENV)
        rows = [l.split() for l in p.stdout.splitlines()]
        if len(rows) != len(URIS):
            raise CheckError("pool --uris: unexpected output")
        _uri_table = [None if r[0] == "-" else (r[0], r[1]) for r in rows]
    return _uri_table


def coq_bool(b):
    return "true" if b else "false"


def op_str(o):
    k = o[0]
    if k == "I":
        return f"I{o[1]}.{o[2]}"
    if k == "D":
        # a failing handshake after the transport had negotiated h2 ("H") is the same environment step for the model as
        # one after a plain transport ("h"): hidden variation, odd request ids get it
        return f"D{o[1]}.{'H' if o[2] == 'h' and o[1] % 2 == 1 else o[2]}"
    if k == "B":
        return "B"
    if k == "X" and o[1] % 3 == 1:
        # hidden variation: a cancelled request that holds a connection is ended by a panic inside its future (the handle
        # is dropped during unwinding) instead of a plain drop; the same environment step for the model
        return f"Z{o[1]}"
    return f"{k}{o[1]}"


def op_coq(o):
    k = o[0]
    if k == "I":
        return f"Issue {o[1]} H{o[2]}"
    if k == "D":
        return f"DialDone {o[1]} " + {"o": "(DOk false)", "a": "(DOk true)", "c": "DErrConnect", "h": "DErrHandshake"}[o[2]]
    if k == "B":
        return "Bg"
    if k == "T":
        return f"Tick {o[1]}%N"
    return {"P": "Poll", "X": "Cancel", "F": "Finish", "U": "Upgrade", "R": "ConnReady", "C": "ConnClose"}[k] + f" {o[1]}"


RES = {"ok": "ROk", "econn": "(RErr EConn)", "ehs": "(RErr EHs)", "eunavail": "(RErr EUnavail)", "euri": "(RErr EUri)"}


def ev_coq(e):
    f = e.split(":")
    k = f[0]
    if k == "dial":
        scheme, auth = e.split(":", 2)[2].split("://", 1)
        return f'EDial {f[1]} ("{scheme}", "{auth}")'
    if k == "new":
        return f"ENew {f[1]} {coq_bool(f[2] == '1')} {f[3]}"
    if k == "hand":
        return f"EHand {f[1]} {f[2]} {coq_bool(f[3] == '1')} {coq_bool(f[4] == '1')} {coq_bool(f[5] == '1')} {f[6]}"
    if k == "pend":
        return f"EPend {f[1]}"
    if k == "res":
        if f[2] not in RES:
            raise CheckError(f"unclassified result {e}")
        return f"ERes {f[1]} {RES[f[2]]}"
    if k == "rel":
        return f"ERel {f[1]} {f[2]}"
    if k == "drop":
        return f"EDrop {f[1]}"
    if k == "rdy":
        return f"ERdy {f[1]} {coq_bool(f[2] == 'ok')}"
    raise CheckError(f"unknown event {e}")


def parse_trace(line):
    """-> list of {"ev": [...], "snap": [...], "woken": [...]} or None for a panic"""
    if line.startswith("PANIC"):
        return None
    out = []
    if not line.strip():
        return out
    for seg in line.split(" | "):
        m = re.match(r"^(.*?) ?# ?(.*?) ?~ ?(.*)$", seg)
        if not m:
            raise CheckError(f"cannot parse harness segment {seg!r}")
        evs = m.group(1).split()
        snaps = []
        for sn in m.group(2).split():
            t, idle, live, closed, mk = sn.split(":")
            snaps.append([int(t[1:]), [int(x) for x in idle.split(",") if x], int(live), int(closed), mk == "1"])
        woken = [int(x) for x in m.group(3).strip().split(",") if x.strip()]
        out.append({"ev": evs, "snap": snaps, "woken": woken})
    return out


def obs_coq(tr):
    segs = []
    for s in tr:
        evs = "; ".join(ev_coq(e) for e in s["ev"])
        snaps = "; ".join(f"mkSnap {t} [{'; '.join(map(str, idle))}] {live} {closed} {coq_bool(mk)}"
                          for t, idle, live, closed, mk in s["snap"])
        segs.append(f"mkObs [{evs}] [{snaps}] [{'; '.join(map(str, s['woken']))}]")
    return "[" + ";\n    ".join(segs) + "]"


def cfg_coq(cfg):
    pool, to, mi, cont = cfg
    return f"(mkCfg {coq_bool(pool)} {'None' if to is None else f'(Some {to}%N)'} {mi} {coq_bool(cont)} uris)"


def header_defs():
    rows = []
    for r in uri_table():
        rows.append("None" if r is None else f'Some ("{r[0]}", "{r[1]}")')
    return "Definition uris : list (option key) := [" + "; ".join(rows) + "]."


# ---------------------------------------------------------------------------- generator

def drain_ops(nreq, u, p):
    """the closing procedure, identical to pool/Spec.v drain_ops: resolve every dial, run tasks, poll
    everybody twice, finish everybody, poll, make every connection ready, run tasks, poll; then a probe"""
    rs = range(nreq)
    ops = [["P", r] for r in rs] + [["B"]] + [["D", r, "o"] for r in rs] + [["B"]]
    ops += [["P", r] for r in rs] + [["B"]] + [["P", r] for r in rs] + [["B"]]
    ops += [["F", r] for r in rs] + [["P", r] for r in rs]
    ops += [["R", c] for c in range(nreq + 1)] + [["B"]] + [["P", r] for r in rs]
    ops += [["I", u, p], ["P", nreq], ["D", nreq, "o"], ["P", nreq]]
    return ops


def gen_history(rng, nops, nkeys, timed, weights=None):
    keys = rng.sample(range(7), nkeys) if nkeys <= 7 else list(range(7))
    if rng.random() < 0.08:
        keys = keys + [7]
    if rng.random() < 0.15:
        # requests that carry an explicit Host header naming another (or the same) origin of the table
        keys = keys + rng.sample([8, 9, 10, 0, 3], 2)
    if rng.random() < 0.12:
        # userinfo in the authority next to the same host with other ports
        keys = keys + rng.sample([11, 12, 0, 2, 6], 3)
    if rng.random() < 0.12:
        # websocket schemes next to http / https with the same authority
        keys = keys + rng.sample([13, 14, 0, 1], 3)
    ops = []
    nreq = 0
    nconn = 0
    profiles = [
        {"I": 22, "P": 30, "D": 14, "F": 9, "X": 5, "R": 8, "C": 3, "B": 10, "U": 1},     # default
        {"I": 22, "P": 26, "D": 14, "F": 8, "X": 3, "R": 8, "C": 12, "B": 10, "U": 3},    # peers close a lot
        {"I": 24, "P": 24, "D": 12, "F": 6, "X": 16, "R": 6, "C": 3, "B": 12, "U": 1},    # many cancels
        {"I": 34, "P": 22, "D": 16, "F": 8, "X": 4, "R": 8, "C": 4, "B": 8, "U": 1},      # bursts of issues
        {"I": 16, "P": 24, "D": 12, "F": 14, "X": 4, "R": 14, "C": 4, "B": 14, "U": 1},   # lots of release / hand-back
    ]
    w = dict(weights or rng.choice(profiles))
    w["T"] = 3 if timed else 0
    kinds = list(w)
    h2bias = rng.choice([0.0, 0.15, 0.5, 0.85, 1.0])
    failbias = rng.choice([0.0, 0.1, 0.3, 0.6])
    for _ in range(nops):
        k = rng.choices(kinds, [w[x] for x in kinds])[0]
        if nreq == 0:
            k = "I"
        if k == "I":
            ops.append(["I", rng.choice(keys), 2 if rng.random() < h2bias else 1])
            nreq += 1
            x = rng.random()
            if x < 0.10 and nconn:          # the window between an Issue and its first poll
                ops.append(["C", rng.randrange(nconn + 1)])
            elif x < 0.16:
                ops.append(["X", nreq - 1])
            elif x < 0.26:
                ops.append(["I", ops[-1][1], 2 if rng.random() < h2bias else 1])
                nreq += 1
        elif k == "D":
            r = rng.randrange(nreq)
            if rng.random() < failbias:
                o = rng.choice("ch")
            else:
                o = "a" if rng.random() < 0.12 else "o"
                nconn += 1
            ops.append(["D", r, o])
        elif k in ("P", "F", "X", "U"):
            # prefer recent requests
            r = nreq - 1 - min(int(rng.expovariate(0.6)), nreq - 1)
            ops.append([k, r])
        elif k in ("R", "C"):
            ops.append([k, rng.randrange(nconn + 1)])
        elif k == "B":
            ops.append(["B"])
        elif k == "T":
            ops.append(["T", TICK_MS])
    return ops, nreq, nconn


def gen_aging(rng):
    """timed template: a burst of HTTP/1 requests is served, the holders release one after the other with
    clock ticks in between (idle entries of different ages), the peer closes some idle connections, the
    clock may tick again, then newcomers arrive"""
    key = rng.randrange(7)
    k = rng.choice([2, 2, 3])
    ops = [["I", key, 1] for _ in range(k)] + [["P", r] for r in range(k)]
    ops += [["D", r, "o"] for r in range(k)] + [["P", r] for r in range(k)]
    order = list(range(k))
    rng.shuffle(order)
    for r in order:
        ops += [["F", r], ["P", r], ["R", r], ["B"]]
        if rng.random() < 0.5:
            ops.append(["T", TICK_MS])
    for c in range(k):
        if rng.random() < 0.4:
            ops.append(["C", c])
    if rng.random() < 0.3:
        ops.append(["T", TICK_MS])
    nreq = k
    for _ in range(rng.choice([1, 2])):
        ops += [["I", key, 1], ["P", nreq]]
        nreq += 1
    return ops, nreq, k


def gen_template(rng):
    """interleavings that the properties single out (calibrated on seeded regressions), randomly perturbed:
    pre-emption of the owner of an in-flight HTTP/2 attempt while another request waits on it; the window
    between an Issue that pops a connection and that request's first poll; cancel of a checkout that
    holds a popped connection while another request waits"""
    k = rng.randrange(7)
    pb = rng.choice([1, 2])
    t = rng.choice(["preempt_owner", "preempt_owner", "pop_window", "pushback", "owner_fails", "refill", "refill",
                    "owner_dropped", "owner_dropped", "bg_attempt_dies", "bg_attempt_dies", "queued_waiters", "queued_waiters", "window_bg_dies", "holder_cancelled"])
    if t == "preempt_owner":
        ops = [["I", k, 1], ["P", 0], ["D", 0, "o"], ["P", 0],
               ["I", k, 2], ["P", 1], ["I", k, pb], ["P", 2],
               ["F", 0], ["P", 0], ["R", 0], ["B"], ["P", 1]]
        ops += rng.choice([[], [["D", 1, "o"], ["B"]], [["D", 1, "c"], ["B"]], [["D", 1, "h"], ["B"]]])
        ops += [["P", 2], ["I", k, 2], ["P", 3]]
        nreq, nconn = 4, 2
    elif t == "pop_window":
        ops = [["I", k, 2], ["P", 0], ["D", 0, rng.choice("oa")], ["P", 0], ["I", k, pb]]
        ops += rng.choice([[["C", 0]], [["X", 1]], [["I", k, 2], ["P", 2]], [["I", k, 1], ["X", 1], ["P", 2]], [["T", 0]]])
        ops += [["I", k, 2], ["P", 1], ["P", 2], ["P", 3]]
        nreq, nconn = 4, 2
    elif t == "pushback":
        ops = [["I", k, 1], ["P", 0], ["D", 0, "o"], ["P", 0], ["F", 0], ["P", 0], ["R", 0], ["B"],
               ["I", k, pb], ["I", k, pb]]
        ops += rng.choice([[["X", 1], ["P", 2]], [["P", 2], ["X", 1], ["P", 2]], [["C", 0], ["X", 1], ["P", 2]]])
        nreq, nconn = 3, 2
    elif t == "refill":
        # the idle list is at its limit, a request pops an entry and is not polled, a release refills the
        # slot, then the unpolled request is dropped (or polled)
        n = rng.choice([2, 2, 3])
        rs = list(range(n))
        ops = [["I", k, 1] for _ in rs] + [["P", r] for r in rs] + [["D", r, "o"] for r in rs] + [["P", r] for r in rs]
        keep = rng.randrange(n)                       # this one keeps holding
        for r in rs:
            if r != keep:
                ops += [["F", r], ["P", r], ["R", r]]
        ops += [["B"], ["I", k, 1]]                   # pops an idle entry, unpolled
        ops += [["F", keep], ["P", keep], ["R", keep], ["B"]]
        ops += rng.choice([[["X", n]], [["P", n]], [["X", n], ["I", k, 1], ["P", n + 1]]])
        nreq, nconn = n + 2, n
    elif t == "owner_dropped":
        # the owner of an in-flight HTTP/2 attempt is dropped after its dial started (the attempt continues in the
        # background or is dropped, depending on the configuration); newcomers arrive before the dial resolves
        ops = [["I", k, 2], ["P", 0], ["X", 0]]
        ops += rng.choice([[], [["B"]]])
        ops += [["I", k, 2], ["P", 1]]
        ops += rng.choice([[], [["I", k, pb], ["P", 2]]])
        ops += rng.choice([[["D", 0, "o"], ["B"]], [["D", 0, "c"], ["B"]], [["B"], ["D", 0, "o"], ["B"]]])
        ops += [["P", 1], ["I", k, 2], ["P", 3 if len([o for o in ops if o[0] == "I"]) == 3 else 2]]
        nreq, nconn = 4, 2
    elif t == "holder_cancelled":
        # requests that HOLD a connection are cancelled (for ids 1, 4, ... the harness ends them by a panic inside the
        # request future) while newcomers wait or arrive; the released connections become ready later (or never)
        n = rng.choice([2, 3])
        rs = list(range(n))
        ops = [["I", k, 1] for _ in rs] + [["P", r] for r in rs] + [["D", r, "o"] for r in rs] + [["P", r] for r in rs]
        ops += rng.choice([[], [["I", k, 1], ["P", n]]])
        victims = [r for r in rs if r % 3 == 1] + rng.sample(rs, 1)
        for r in victims:
            ops += [["X", r]]
            ops += rng.choice([[], [["I", k, 1]], [["B"]]])
        nreq = sum(1 for o in ops if o[0] == "I")
        ops += [["I", k, 1], ["P", nreq]]
        for c in rng.sample(rs, rng.randint(0, n)):
            ops += [["R", c], ["B"]]
        ops += [["P", nreq]]
        nreq, nconn = nreq + 1, n
    elif t == "window_bg_dies":
        # a shared handle popped by an unpolled request; in that window another HTTP/2 request dials; the first is
        # polled (the handle is pushed back and pre-empts the dialer); the dialer's abandoned attempt then dies
        # (handshake / connect) or succeeds in the background; the shared connection closes; newcomers
        ops = [["I", k, 2], ["P", 0], ["D", 0, rng.choice("oa")], ["P", 0],
               ["I", k, 2], ["I", k, 2], ["P", 2], ["P", 1], ["P", 2]]
        ops += rng.choice([[["D", 2, "h"]], [["D", 2, "h"]], [["D", 2, "c"]], [["D", 2, "o"]], []]) + [["B"]]
        ops += rng.choice([[["C", 0]], [["C", 0]], []])
        ops += [["I", k, 2], ["P", 3], ["B"], ["P", 3]]
        ops += rng.choice([[], [["I", k, pb], ["P", 4]]])
        nreq, nconn = 5, 2
    elif t == "queued_waiters":
        # several holders, several queued requests (unpolled, or polled once so that their own dial is pending);
        # the holders release one after the other, each hand-back runs before the next; then the queue is polled
        nh = rng.choice([2, 2, 3])
        nw = rng.choice([2, 2, 3])
        hs = list(range(nh))
        ws = list(range(nh, nh + nw))
        ops = [["I", k, 1] for _ in hs] + [["P", r] for r in hs] + [["D", r, "o"] for r in hs] + [["P", r] for r in hs]
        ops += [["I", k, pb if rng.random() < 0.2 else 1] for _ in ws]
        polled = [w for w in ws if rng.random() < 0.35]
        ops += [["P", w] for w in polled]
        for r in hs:
            ops += [["F", r], ["P", r], ["R", r], ["B"]]
            if rng.random() < 0.2:
                ops.append(["P", rng.choice(ws)])
        order = ws[:]
        rng.shuffle(order)
        ops += [["P", w] for w in order]
        ops += [["B"]] + [["P", w] for w in ws]
        nreq, nconn = nh + nw, nh
    elif t == "bg_attempt_dies":
        # an HTTP/1 holder, then an HTTP/2 owner whose attempt has started is dropped (the attempt goes on in the
        # background or is dropped); the HTTP/1 connection comes back while nobody is queued; the abandoned attempt
        # then ends (fails / succeeds); newcomers: one finds the idle connection, the next one finds nothing
        ops = [["I", k, 1], ["P", 0], ["D", 0, "o"], ["P", 0], ["I", k, 2], ["P", 1], ["X", 1]]
        ops += rng.choice([[], [["B"]]])
        ops += [["F", 0], ["P", 0], ["R", 0], ["B"]]
        ops += rng.choice([[["D", 1, "c"]], [["D", 1, "h"]], [["D", 1, "c"]], [["D", 1, "a"]], []]) + [["B"]]
        ops += [["I", k, rng.choice([1, 2])], ["P", 2], ["I", k, 2], ["P", 3]]
        ops += rng.choice([[], [["I", k, 1], ["P", 4]]])
        nreq, nconn = 5, 2
    else:  # owner_fails
        ops = [["I", k, 2], ["I", k, pb], ["I", k, 2], ["P", 0], ["P", 1], ["P", 2]]
        ops += rng.choice([[["D", 0, "c"], ["P", 0]], [["D", 0, "h"], ["P", 0]], [["X", 0], ["B"]], [["X", 0], ["D", 0, "c"], ["B"]]])
        ops += [["B"], ["P", 1], ["P", 2], ["I", k, 2], ["P", 3]]
        nreq, nconn = 4, 1
    # perturb: drop / duplicate / insert a few ops
    ops = [o for o in ops if o[0] == "I" or rng.random() > 0.06]
    for _ in range(rng.choice([0, 0, 1, 2])):
        pos = rng.randrange(len(ops) + 1)
        ops.insert(pos, rng.choice([["B"], ["P", rng.randrange(nreq)], ["R", rng.randrange(nconn)], ["C", rng.randrange(nconn)],
                                    ["X", rng.randrange(nreq)], ["F", rng.randrange(nreq)]]))
    ops = [o for o in ops if not (o[0] == "T" and o[1] == 0)]
    return ops, nreq, nconn


def gen_idle_state(rng):
    """idle list driven to its limit, then entries die in place: a burst of max_idle+k HTTP/1 requests is served,
    max_idle of them are released (idle list full), the peer closes some connections (idle and held ones),
    the remaining ones are released, newcomers check out (pop walks over dead entries)"""
    key = rng.randrange(7)
    m = rng.choice([1, 1, 2, 3])
    n = m + rng.choice([1, 1, 2])
    rs = list(range(n))
    ops = [["I", key, 1] for _ in rs] + [["P", r] for r in rs] + [["D", r, "o"] for r in rs] + [["P", r] for r in rs]
    order = rs[:]
    rng.shuffle(order)
    first, rest = order[:m], order[m:]
    for r in first:
        ops += [["F", r], ["P", r], ["R", r]]
    ops.append(["B"])
    dead = rng.sample(first, rng.randint(1, len(first)))
    if rng.random() < 0.25:
        dead.append(rng.choice(rest))
    for c in dead:
        ops.append(["C", c])
    if rng.random() < 0.3:
        ops.append(["B"])
    for r in rest:
        ops += [["F", r], ["P", r]]
        if rng.random() < 0.9:
            ops.append(["R", r])
    ops.append(["B"])
    k = rng.choice([1, 2, n])
    ops += [["I", key, 1] for _ in range(k)] + [["P", n + j] for j in range(k)]
    nreq, nconn = n + k, n
    ops = [o for o in ops if o[0] == "I" or rng.random() > 0.04]
    for _ in range(rng.choice([0, 0, 1])):
        pos = rng.randrange(len(ops) + 1)
        ops.insert(pos, rng.choice([["B"], ["P", rng.randrange(nreq)], ["R", rng.randrange(nconn)], ["C", rng.randrange(nconn)],
                                    ["X", rng.randrange(nreq)]]))
    return ops, nreq, nconn, m


def gen_many_origins(rng):
    """hundreds of distinct origins alive in one pool (per-origin bookkeeping under pressure) around one origin
    whose connections are checked out, released and re-requested"""
    a = rng.randrange(7)
    m = rng.choice([1, 1, 2])
    ops = [["I", a, 1], ["P", 0], ["D", 0, "o"], ["P", 0]]
    n = rng.choice([257, 258, 270])
    ops += [["I", 100 + j, 1] for j in range(n)]
    nreq = 1 + n
    k = m + 1
    rs = list(range(nreq, nreq + k))
    ops += [["I", a, 1] for _ in rs] + [["P", r] for r in rs] + [["D", r, "o"] for r in rs] + [["P", r] for r in rs]
    nreq += k
    for c, r in enumerate([0] + rs):          # request 0 holds connection 0, rs[i] holds connection i + 1
        ops += [["F", r], ["P", r], ["R", c], ["B"]]
    ops += [["I", a, 1], ["P", nreq]]
    nreq += 1
    return ops, nreq, 1 + k, m


def gen_phased(rng, timed):
    """histories built from phases (burst of requests served, partial release + hand-back, clock tick, peer
    closes, newcomers) so that idle lists hold several entries of different ages and states"""
    key = rng.randrange(7)
    ops, nreq, nconn = [], 0, 0
    live = []          # (rid, conn) currently holding
    proto = lambda: 2 if rng.random() < 0.2 else 1
    for _ in range(rng.choice([3, 4, 5, 6])):
        ph = rng.choice(["burst", "burst", "release", "release", "tick", "close", "new", "cancelnew"])
        if ph == "burst":
            k = rng.choice([1, 2, 2, 3])
            rs = list(range(nreq, nreq + k))
            ops += [["I", key, proto()] for _ in rs]
            nreq += k
            ops += [["P", r] for r in rs]
            ops += [["D", r, rng.choice("ooooac")] for r in rs]
            ops += [["P", r] for r in rs]
            for r in rs:
                live.append((r, nconn))
                nconn += 1
        elif ph == "release" and live:
            rng.shuffle(live)
            k = rng.randrange(1, len(live) + 1)
            out, live = live[:k], live[k:]
            for r, c in out:
                ops += [["F", r], ["P", r]]
                if rng.random() < 0.85:
                    ops.append(["R", rng.randrange(nconn + 1) if rng.random() < 0.1 else c])
                if rng.random() < 0.3:
                    ops.append(["B"])
                    if timed and rng.random() < 0.5:
                        ops.append(["T", TICK_MS])
            ops.append(["B"])
        elif ph == "tick" and timed:
            ops.append(["T", TICK_MS])
        elif ph == "close" and nconn:
            for _ in range(rng.choice([1, 1, 2])):
                ops.append(["C", rng.randrange(nconn)])
        elif ph == "new":
            ops += [["I", key, proto()], ["P", nreq]]
            if rng.random() < 0.5:
                ops += [["D", nreq, "o"], ["P", nreq]]
                live.append((nreq, nconn))
                nconn += 1
            nreq += 1
        elif ph == "cancelnew":
            ops += [["I", key, proto()], ["I", key, proto()]]
            ops += rng.choice([[["X", nreq], ["P", nreq + 1]], [["P", nreq + 1], ["X", nreq]], [["X", nreq + 1], ["P", nreq]]])
            nreq += 2
    if nreq == 0:
        ops = [["I", key, 1], ["P", 0]]
        nreq = 1
    return ops, nreq, nconn


class Pool(Plugin):
    harness_bin = "pool"
    coq_targets = ("pool/Corr.vo",)
    header = "From HD Require Import common.Base http.Model pool.Model pool.Corr.\nOpen Scope string_scope."
    check_fn = "check_prop 0"
    model_fn = "model_obs"
    cs_type = "list (case * obs)"
    shard = 60
    impl_jobs = 16
    design_ref = "DESIGN.md 3.1, appendix A"
    trusted = [
        "modelled (not verified): pool/{mod,checkout,idle,key,service}.rs and the staging of Connector::poll_connector, as one atomic step per operation (current-thread schedule); real multi-thread interleavings inside one Checkout::poll are R1",
        "oracles: O1 hyper SendRequest readiness (scripted connection of the harness), O2 tokio oneshot, O3 tokio current-thread FIFO run queue, O7 http::Uri decomposition (harness --uris)",
        "hook: ConnectionPoolService::verif_pool_snapshot (feature verif-hooks, read-only)",
    ]
    assumptions = ["ops are atomic (single-threaded schedule); wall clock only advances through Tick (real sleeps of 1000 ms against an idle timeout of 400 ms)"]
    n_quick = 1200
    n_thorough = 20000
    timed_fraction = 0.18

    def corpus(self):
        """every pool property runs the witnesses of all pool findings first"""
        out = []
        for prop in ("C02", "C03", "C04", "C05", "C06", "C14", "C15", "C19"):
            d = os.path.join(core.CORPUS, prop)
            if os.path.isdir(d):
                for f in sorted(os.listdir(d)):
                    if f.endswith(".json"):
                        c = json.load(open(os.path.join(d, f)))["case"]
                        if isinstance(c, dict) and "ops" in c:
                            out.append(c)
        return out

    def extra_header(self):
        return header_defs()

    def header_for(self, case):
        return self.header + "\n" + self.extra_header()

    def gen_case(self, rng, tier):
        timed = rng.random() < self.timed_fraction
        pool = rng.random() > 0.04
        to = rng.choice([TIMEOUT_MS, TIMEOUT_MS, 0]) if timed else rng.choice([None, None, 0, 3600000])
        mi = rng.choice([0, 1, 1, 2, 2, 3, 8, 8])
        cont = rng.random() < 0.5
        nops = rng.choice([6, 10, 14, 20, 30, 45]) if not timed else rng.choice([8, 14, 20])
        x = rng.random()
        if not timed and x > 0.85:
            ops, nreq, nconn = gen_template(rng)
            mi = rng.choice([1, 1, 2, mi])
        elif not timed and x > 0.79:
            ops, nreq, nconn, m = gen_idle_state(rng)
            mi = rng.choice([m, m, m, mi])
        elif timed and x < 0.5:
            ops, nreq, nconn = gen_aging(rng)
        elif x < (0.7 if timed else 0.3):
            ops, nreq, nconn = gen_phased(rng, timed)
        else:
            ops, nreq, nconn = gen_history(rng, nops, rng.choice([1, 1, 1, 2, 3]), timed)
        nreq = sum(1 for o in ops if o[0] == "I")     # the closing procedure is defined by the number of Issues
        drained = None
        if rng.random() < 0.7:
            drained = [next(o[1] for o in ops if o[0] == "I"), rng.choice([1, 2])]
            ops += drain_ops(nreq, drained[0], drained[1])
        return {"cfg": [pool, to, mi, cont], "ops": ops, "drained": drained}

    def generate(self, tier, rng):
        n = self.n_quick if tier == "quick" else self.n_thorough
        cases = [self.gen_case(rng, tier) for _ in range(n)]
        if self.prop in ("C15", "C06", "C04") and tier != "quick":
            # per-origin bookkeeping under pressure: histories over 257-270 distinct origins (expensive to evaluate:
            # every snapshot lists every origin, about 90 s each; thorough tier only, four of them, no closing procedure)
            r2 = random.Random(rng.random())
            for _ in range(4):
                ops, nreq, nconn, m = gen_many_origins(r2)
                cases.insert(r2.randrange(0, max(1, len(cases))), {"cfg": [True, None, m, r2.random() < 0.5], "ops": ops, "drained": None})
        kinds = {"timed": sum(1 for c in cases if any(o[0] == "T" for o in c["ops"])),
                 "drained": sum(1 for c in cases if c.get("drained"))}
        return cases, {"rule": f"{n} seeded histories from four generators: uniform random histories (6-45 ops, 5 weight profiles: "
                               "default / peers close a lot / many cancels / issue bursts / release-heavy, with close / cancel / "
                               "re-issue injected into the window between an Issue and its first poll), phase-structured histories "
                               "(bursts served, partial releases + hand-back, ticks, peer closes, newcomers), timed 'aging' histories "
                               f"(real sleeps: {TICK_MS} ms ticks vs a {TIMEOUT_MS} ms idle timeout; {kinds['timed']} timed cases) and perturbed interleaving "
                               "templates (pre-empted owner, pop window, push-back, failing owner, refill at the idle limit, owner dropped, abandoned background attempt dying after the queue emptied, several queued requests served by successive hand-backs, a dial started inside the shared-handle window whose abandoned attempt dies, holders cancelled / panicking while newcomers wait) and idle-limit "
                               "histories (idle list driven to max_idle, entries closed in place, further releases, newcomers); 1-3 origins "
                               "from a table of 7 URIs differing in scheme/port/host/case + one without scheme + 3 whose request carries an explicit Host header naming another or the same origin + 2 with userinfo in the authority + ws / wss next to http / https, h1/h2/ALPN mixed, dial "
                               f"outcomes ok/alpn/connect-error/handshake-error; {kinds['drained']} cases end with the closing procedure + probe",
                       "exhaustive": False}

    def impl_line(self, c):
        pool, to, mi, cont = c["cfg"]
        return f"{int(pool)} {'-' if to is None else to} {mi} {int(cont)} ; " + " ".join(op_str(o) for o in c["ops"])

    def parse_obs(self, c, line):
        return parse_trace(line)

    def coq_case(self, c):
        d = c.get("drained")
        return (f"mkCase {cfg_coq(c['cfg'])} [{'; '.join(op_coq(o) for o in c['ops'])}] "
                + ("None" if not d else f"(Some ({d[0]}, H{d[1]}))"))

    def coq_obs(self, o):
        return obs_coq(o)

    def evaluate(self, cases):
        lines = [self.impl_line(c) for c in cases]
        outs = core.run_impl(self.harness_bin, lines, self.harness_args, jobs=self.impl_jobs)
        obss = [self.parse_obs(c, o) for c, o in zip(cases, outs)]
        idx, terms = [], []
        panics = []
        for i, (c, o) in enumerate(zip(cases, obss)):
            if o is None:
                panics.append(i)
                continue
            idx.append(i)
            terms.append(f"({self.coq_case(c)}, {self.coq_obs(o)})")
        mism, monf = core.coq_check_cases(self.prop, self.header + "\n" + self.extra_header(), terms, self.check_fn,
                                          self.shard, cs_type=self.cs_type)
        mism = [idx[i] for i in mism]
        monf = [idx[i] for i in monf]
        # a timed case can disagree because the process was descheduled across the idle timeout:
        # re-run disagreeing timed cases once and keep only reproducible disagreements (R5)
        redo = [i for i in set(mism) | set(monf) if any(o[0] == "T" for o in cases[i]["ops"])]
        if redo and not getattr(self, "_in_redo", False):
            self._in_redo = True
            try:
                _, m2, f2 = self.evaluate([cases[i] for i in redo])
            finally:
                self._in_redo = False
            keep_m = {redo[j] for j in m2}
            keep_f = {redo[j] for j in f2}
            mism = [i for i in mism if i not in redo or i in keep_m]
            monf = [i for i in monf if i not in redo or i in keep_f]
        # a panic of the implementation is a disagreement and a monitor failure of every pool property
        return obss, sorted(set(mism) | set(panics)), sorted(set(monf) | set(panics))

    def shrink(self, case, kind):
        if any(o[0] == "T" for o in case["ops"]):
            # every candidate of a timed case costs real sleeps: shrink coarsely
            cur = case
            for _ in range(8):
                cands = list(self.shrinks(cur))[:48]
                if not cands:
                    break
                obss, mism, monf = self.evaluate(cands)
                bad = monf if kind == "monitor" else mism
                if not bad:
                    break
                cur = cands[min(bad)]
            return cur
        return Plugin.shrink(self, case, kind)

    def shrinks(self, c):
        ops = c["ops"]
        n = len(ops)
        # drop suffixes, single ops, pairs; ids must stay consistent: removing an Issue renumbers
        def without(i):
            o = ops[i]
            rest = ops[:i] + ops[i + 1:]
            if o[0] != "I":
                return rest
            rid = sum(1 for x in ops[:i] if x[0] == "I")
            out = []
            for x in rest:
                if x[0] in ("P", "X", "F", "U", "D"):
                    if x[1] == rid:
                        continue
                    if x[1] > rid:
                        x = [x[0], x[1] - 1] + x[2:]
                out.append(x)
            return out
        d = c.get("drained")
        if d:
            # shrink the body, keep the closing procedure consistent with the new request count
            nd = len(drain_ops(sum(1 for x in ops if x[0] == "I") - 1, d[0], d[1]))
            body = ops[:n - nd]
            for b in self.shrinks({"cfg": c["cfg"], "ops": body, "drained": None}):
                nb = sum(1 for x in b["ops"] if x[0] == "I")
                yield {"cfg": b["cfg"], "ops": b["ops"] + drain_ops(nb, d[0], d[1]), "drained": d}
            yield {"cfg": c["cfg"], "ops": body, "drained": None}
            return
        for cut in (n // 2, n - 1):
            if 0 < cut < n:
                yield {"cfg": c["cfg"], "ops": ops[:cut], "drained": None}
        for i in range(n - 1, -1, -1):
            yield {"cfg": c["cfg"], "ops": without(i), "drained": None}
        pool, to, mi, cont = c["cfg"]
        if to is not None and not any(x[0] == "T" for x in ops):
            yield {"cfg": [pool, None, mi, cont], "ops": ops, "drained": None}

    def known_match(self, finding, c, o):
        """D6 (C04): the trace violates only the clause about the checked-out shared handle"""
        if finding.get("id") != "D6" or o is None:
            return False
        hdr = self.header + "\n" + self.extra_header()
        vals = core.coq_eval_terms(self.prop, hdr, [f"verdicts ({self.coq_case(c)}) ({self.coq_obs(o)})"], tag="known")
        v = dict((int(a), b == "true") for a, b in re.findall(r"\((\d+), (true|false)\)", vals[0].replace(" ", "").replace(",", ", ")))
        return v.get(4) is False and v.get(40) is True

    def nontrivial_key(self, c, o):
        kinds = {x[0] for x in c["ops"]}
        if {"I", "P", "D"} <= kinds and sum(1 for x in c["ops"] if x[0] == "I") >= 2:
            return self.impl_line(c)
        return None

    def sample_json(self, c, o):
        return {"case": self.impl_line(c), "impl_ops": None if o is None else len(o)}

    def histogram(self, cases, obss):
        h = {"ops": {}, "events": {}, "len": {}, "cfg": {}, "issue_uri": {}}
        for c, o in zip(cases, obss):
            for x in c["ops"]:
                h["ops"][x[0]] = h["ops"].get(x[0], 0) + 1
                if x[0] == "I":
                    u = URIS[x[1]] if x[1] < len(URIS) else str(x[1])
                    h["issue_uri"][u or "(no scheme)"] = h["issue_uri"].get(u or "(no scheme)", 0) + 1
            b = str(10 * (len(c["ops"]) // 10))
            h["len"][b] = h["len"].get(b, 0) + 1
            pool, to, mi, cont = c["cfg"]
            for k in (f"pool={int(pool)}", f"timeout={to}", f"max_idle={mi}", f"cont={int(cont)}"):
                h["cfg"][k] = h["cfg"].get(k, 0) + 1
            for s in (o or []):
                for e in s["ev"]:
                    k = e.split(":")[0]
                    if k == "res":
                        k = "res:" + e.split(":")[2]
                    h["events"][k] = h["events"].get(k, 0) + 1
        return h


class PoolDev(Pool):
    prop = "POOLDEV"


RULES = {
    "C02": ("at every hand-off of a non-multiplexed connection: no other holder, released and reported ready since its last use, "
            "never after an upgrade", "histories with >= 2 requests that contain issue, poll and dial-resolution operations"),
    "C03": ("no lost wake-up (a future that progresses after a Pending poll had been woken), nothing after cancel/completion, and "
            "after the closing procedure (drain_ops) every request incl. the probe has a connection or an error",
            "histories with >= 2 requests that contain issue, poll and dial-resolution operations"),
    "C04": ("no transport connect when a usable idle connection existed at Issue, none for an HTTP/2 request while another HTTP/2 "
            "attempt for the origin is in flight, none while the shared handle is checked out (D6), open connections only "
            "discarded as surplus/expired", "histories with >= 2 requests that contain issue, poll and dial-resolution operations"),
    "C05": ("a handed-out connection was not closed before it was acquired and (non-zero timeout) had not idled longer than it",
            "histories with >= 2 requests that contain issue, poll and dial-resolution operations"),
    "C06": ("hand-off only of connections dialled for the same scheme+authority (ASCII case-insensitive); transport connect goes to "
            "the request's own origin", "histories with >= 2 requests that contain issue, poll and dial-resolution operations"),
    "C14": ("a handed-back open connection is never parked while a request waits for its origin; an offered connection is taken at "
            "the next poll; abandoned dials continue / are dropped according to continue_after_preemption",
            "histories with >= 2 requests that contain issue, poll and dial-resolution operations"),
    "C15": ("idle list length <= max_idle_per_host in every snapshot (after every operation)", "histories with >= 2 requests that contain issue, poll and dial-resolution operations"),
}
WHICH = {"C02": 2, "C03": 3, "C04": 4, "C05": 5, "C06": 6, "C14": 14, "C15": 15}


def make(prop):
    rule, nontriv = RULES[prop]

    class P(Pool):
        pass
    P.prop = prop
    P.check_fn = f"check_prop {WHICH[prop]}"
    P.design_ref = f"DESIGN.md 4/{prop}, 3.1, appendix A, section 9"
    P.rule = ("case = pool config (pool on/off, idle timeout, max idle, continue_after_preemption) + operation history over "
              "requests/dials/connections (see harness/src/bin/pool.rs); the real ConnectionPoolService is driven through its public "
              "API with the harness' own transport/protocol/connection/inner service under manual polling; after every operation "
              "events + pool snapshot + woken futures are compared with the Coq model inside the kernel, and the monitor judges the "
              f"implementation's trace: {rule}; non-trivial = {nontriv}; distinct = distinct case lines")
    return P()


PLUGIN = PoolDev()
