"""C18 (stream adapters) and C08 (protocol sniffing) — M-IO / M-SNIFF."""
import itertools
from core import Plugin

PREFACE = b"PRI * HTTP/2.0\r\n\r\nSM\r\n\r\n"


def nl(bs):
    return "[" + "; ".join(str(b) for b in bs) + "]"


def wbytes(pos, n):
    return [((pos + j) * 13 + 5) % 253 for j in range(n)]


class IO(Plugin):
    harness_bin = "io"
    coq_targets = ("io/Corr.vo",)
    header = "From HD Require Import common.Base io.Model io.Spec io.Corr.\nOpen Scope N_scope."
    shard = 150
    impl_jobs = 4

    # case = {"ad": str, "prefix": [..]|None, "stream": [..], "rs": [..], "ws": [..], "ops": [..]}
    #   rs items: "P" | "E" | ["D", k]; ws items: "P" | "E" | ["A", k]
    #   ops items: ["R", cap, prefill] | ["W", [n1, ...]] | "F" | "S"
    def impl_line(self, c):
        hx = lambda bs: "".join(f"{b:02x}" for b in bs) or "-"
        # every scripted error gets an io::ErrorKind (Other, UnexpectedEof, ConnectionReset, BrokenPipe, ...) derived from the
        # case itself: the model propagates every kind alike, the implementation must too
        salt = len(c["stream"]) + 3 * len(c["ops"]) + 5 * len(c["rs"])
        ek = lambda j, x: f"E{(salt + j) % 7}" if x == "E" else x
        rs = ",".join(ek(j, x) if isinstance(x, str) else f"D{x[1]}" for j, x in enumerate(c["rs"])) or "-"
        ws = ",".join(ek(j + 2, x) if isinstance(x, str) else f"A{x[1]}" for j, x in enumerate(c["ws"])) or "-"
        ops = []
        for o in c["ops"]:
            if o == "F" or o == "S":
                ops.append(o)
            elif o[0] == "R":
                ops.append(f"R{o[1]}.{o[2]}")
            elif len(o[1]) == 1:
                ops.append(f"W{o[1][0]}")
            else:
                ops.append("V" + "+".join(str(n) for n in o[1]))
        ad = c["ad"] if "cap" not in c else f"{c['ad']}:{c['cap']}"
        return f"{ad} {hx(c['prefix'] or [])} {hx(c['stream'])} {rs} {ws} {','.join(ops) or '-'}"

    def parse_obs(self, c, line):
        res, written, sn = line.split(";")
        out = []
        if res != "-":
            for r in res.split(","):
                if r in ("P", "E", "OK", "CORRUPT") or r.startswith("PANIC"):
                    out.append(r)
                elif r[0] == "R":
                    out.append(["R", [int(r[i:i + 2], 16) for i in range(1, len(r), 2)]])
                elif r[0] == "W":
                    out.append(["W", int(r[1:])])
                else:
                    out.append("CORRUPT")
        w = [] if written == "-" else [int(written[i:i + 2], 16) for i in range(0, len(written), 2)]
        sniff = None
        if sn != "-":
            parts = sn.split(".")
            sniff = [parts[0], int(parts[1])] if len(parts) >= 2 else ["LIVELOCK", 0]
        if line.startswith("PANIC"):
            out = ["CORRUPT"]
        return {"res": out, "written": w, "sniff": sniff}

    def coq_ops(self, c, o):
        """ops with explicit write payloads; the payload position follows the implementation's
        accepted counts (the harness feeds a position-derived byte sequence)."""
        terms = []
        pos = 0
        res = o["res"]
        for idx, op in enumerate(c["ops"]):
            if op == "F":
                terms.append("OFlush")
            elif op == "S":
                terms.append("OShutdown")
            elif op[0] == "R":
                terms.append(f"ORead {op[1]}%nat {op[2]}%nat")
            else:
                total = sum(op[1])
                data = wbytes(pos, total)
                bufs, off = [], 0
                for n in op[1]:
                    bufs.append(data[off:off + n])
                    off += n
                terms.append("OWrite [" + "; ".join(nl(b) for b in bufs) + "]")
                if idx < len(res) and isinstance(res[idx], list) and res[idx][0] == "W":
                    pos += res[idx][1]
        return "[" + "; ".join(terms) + "]"

    def coq_case_obs(self, c, o):
        rs = "[" + "; ".join("RPending" if x == "P" else "RErr" if x == "E" else f"RChunk {x[1]}%nat" for x in c["rs"]) + "]"
        ws = "[" + "; ".join("WPending" if x == "P" else "WErr" if x == "E" else f"WAccept {x[1]}%nat" for x in c["ws"]) + "]"
        inner = f"(mkInner {nl(c['stream'])} {rs} {ws} [])"
        sniff = "true" if c["ad"] == "sn" else "false"
        prefix = f"(Some {nl(c['prefix'])})" if c["prefix"] is not None else "None"
        fwd = "false" if c["ad"] in ("braidN", "braidT", "cs", "ss", "dx", "dxt", "dxc", "dxs") else "true"
        case = f"mkCase {sniff} {fwd} {prefix} {inner} {self.coq_ops(c, o)}"
        items = []
        for r in o["res"]:
            if r == "P":
                items.append("XPending")
            elif r == "E":
                items.append("XErr")
            elif r == "OK":
                items.append("XOk")
            elif isinstance(r, list) and r[0] == "R":
                items.append(f"XData {nl(r[1])}")
            elif isinstance(r, list) and r[0] == "W":
                items.append(f"XWrote {r[1]}%nat")
            else:
                items.append("XWrote 99999%nat")   # CORRUPT / panic: matches nothing
        sn = "None"
        if o["sniff"] is not None:
            v = {"H1": "(Some H1)", "H2": "(Some H2)", "ERR": "None"}.get(o["sniff"][0])
            sn = "None" if v is None else f"(Some ({v}, {o['sniff'][1]}%nat))"
        obs = f"mkObs [{'; '.join(items)}] {nl(o['written'])} {sn}"
        return case, obs

    def evaluate(self, cases):
        # override: Coq terms need the observation to reconstruct write payloads
        from core import run_impl, coq_check_cases, CheckError
        lines = [self.impl_line(c) for c in cases]
        outs = run_impl(self.harness_bin, lines, self.harness_args, jobs=self.impl_jobs)
        if len(outs) != len(cases):
            raise CheckError(f"io: {len(outs)} outputs for {len(cases)} cases")
        obss = [self.parse_obs(c, o) for c, o in zip(cases, outs)]
        terms = []
        for c, o in zip(cases, obss):
            k, ob = self.coq_case_obs(c, o)
            terms.append(f"({k}, {ob})")
        mism, monf = coq_check_cases(self.prop, self.header, terms, self.check_fn, self.shard)
        return obss, mism, monf

    def coq_case(self, c):
        k, _ = self.coq_case_obs(c, {"res": [], "written": [], "sniff": None})
        return k

    def shrinks(self, c):
        if "cap" in c:
            # the accept script is derived from the ops: only drop trailing ops (with their script entries)
            nw = len(c["ops"]) - 1
            if len(c["ops"]) > 1:
                d = dict(c); d["ops"] = c["ops"][:-1]; d["ws"] = c["ws"][:nw]
                yield d
            return
        for key in ("ops", "rs", "ws"):
            for i in range(len(c[key])):
                d = dict(c)
                d[key] = c[key][:i] + c[key][i + 1:]
                yield d
        if len(c["stream"]) > 0:
            d = dict(c)
            d["stream"] = c["stream"][:-1]
            yield d
        if c["prefix"]:
            d = dict(c)
            d["prefix"] = c["prefix"][:-1]
            yield d

    def nontrivial_key(self, c, o):
        if len(c["ops"]) >= 2 and (c["rs"] or c["ws"] or c["prefix"]):
            return repr(c)
        return None

    # ---- generators
    def rand_script_r(self, rng, n):
        out = []
        for _ in range(n):
            x = rng.random()
            if x < 0.25:
                out.append("P")
            elif x < 0.30:
                out.append("E")
            else:
                out.append(["D", rng.choice([1, 1, 2, 3, 5, 8, 24, 100])])
        return out

    def rand_script_w(self, rng, n):
        out = []
        for _ in range(n):
            x = rng.random()
            if x < 0.25:
                out.append("P")
            elif x < 0.30:
                out.append("E")
            else:
                out.append(["A", rng.choice([1, 1, 2, 3, 5, 8, 100])])
        return out

    def rand_ops(self, rng, n, writes=True):
        ops = []
        for _ in range(n):
            x = rng.random()
            if x < (0.6 if writes else 1.0):
                cap = rng.choice([0, 1, 1, 2, 3, 4, 7, 16, 24, 25, 64])
                pre = rng.choice([0, 0, 0, 1, 2, cap]) if cap else 0
                ops.append(["R", cap, min(pre, cap)])
            elif x < 0.85:
                if rng.random() < 0.4:
                    ops.append(["W", [rng.choice([0, 1, 2, 5]) for _ in range(rng.randint(2, 4))]])
                else:
                    ops.append(["W", [rng.choice([0, 1, 2, 3, 9, 30])]])
            elif x < 0.93:
                ops.append("F")
            else:
                ops.append("S")
        return ops


class C18(IO):
    prop = "C18"
    check_fn = "check_all_C18"
    design_ref = "DESIGN.md 4/C18, 3.4"
    rule = ("case = (adapter stack, rewind prefix, inner byte stream, inner read script (Pending/Err/short reads), inner "
            "write script, outer op sequence of reads with capacity+prefill / writes / vectored writes / flush / shutdown); "
            "every op result and the inner writer's bytes are compared with the model; non-trivial = at least 2 ops and a "
            "non-empty script or prefix; distinct = distinct case tuples")
    trusted = [
        "hook: re-export of crate-private rewind::Rewind (feature verif-hooks)",
        "modelled (not verified): Rewind::poll_read, TokioIo read bookkeeping (both directions), write/flush/shutdown forwarding of TokioIo, Rewind, TlsBraid, client Stream, server Stream",
        "NOT expressible: absence of undefined behaviour in the two unsafe blocks (R1); only the arithmetic they rely on is proved",
    ]
    assumptions = ["scripted inner stream obeys the AsyncRead/Read contract (never delivers more than the room offered)",
                   "real TCP/Unix sockets under Braid are exercised by C01's end-to-end run, not here; the duplex pipe is only written to (nobody reads while the writes are going on)"]

    ADAPTERS = ["th", "ht", "thht", "hth", "rw", "rwt", "braidN", "braidT", "cs", "ss"]

    def generate(self, tier, rng):
        n = 1500 if tier == "quick" else 40000
        cases = []
        for _ in range(n):
            ad = rng.choice(self.ADAPTERS)
            slen = rng.choice([0, 1, 3, 10, 40, 100])
            stream = [(j * 7 + 3) % 251 for j in range(slen)]
            prefix = None
            if ad in ("rw", "rwt"):
                plen = rng.choice([0, 1, 2, 5, 24])
                prefix = [255 - (j % 50) for j in range(plen)]
            nops = rng.randint(1, 14 if tier == "quick" else 40)
            cases.append({"ad": ad, "prefix": prefix, "stream": stream,
                          "rs": self.rand_script_r(rng, rng.randint(0, nops)),
                          "ws": self.rand_script_w(rng, rng.randint(0, nops // 2 + 1)),
                          "ops": self.rand_ops(rng, nops)})
        # targeted: prefix fully consumed by a read with room to spare, inner pending/erroring right after
        for ad in ("rw", "rwt"):
            for plen in (1, 3, 24):
                for cap in (plen, plen + 1, 64):
                    for first in ("P", "E", ["D", 1]):
                        cases.append({"ad": ad, "prefix": [255 - j for j in range(plen)], "stream": [1, 2, 3, 4, 5],
                                      "rs": [first], "ws": [], "ops": [["R", cap, 0], ["R", 8, 0], ["R", 8, 0], ["R", 8, 0]]})
        # the real in-process duplex pipe (bare and under the dispatch wrappers): writes and vectored writes against
        # back-pressure; the model is the same adapter model over an inner stream whose accept script is the
        # capacity arithmetic of a pipe nobody reads from (accept min(n, free), Pending when full)
        nd = 250 if tier == "quick" else 6000
        for _ in range(nd):
            ad = rng.choice(["dx", "dxt", "dxc", "dxs"])
            cap = rng.choice([1, 2, 3, 5, 8, 13])
            ops, ws, free = [], [], cap
            for _ in range(rng.randint(2, 8)):
                x = rng.random()
                if x < 0.1:
                    ops.append("F")
                    ws.append(["A", 0])                     # a flush consumes one script entry in the model: Ok
                    continue
                if x < 0.55:
                    sizes = [rng.choice([1, 2, 3, cap, cap + 1, max(1, free), max(1, free - 1)])]
                else:
                    sizes = [rng.choice([0, 1, 2, 3, max(1, free), cap]) for _ in range(rng.randint(2, 3))]
                    if not any(sizes):
                        sizes[0] = 1
                n = next(z for z in sizes if z)            # tokio's default vectored write: the first non-empty slice
                if free == 0:
                    ws.append("P")
                else:
                    k = min(n, free)
                    ws.append(["A", k])
                    free -= k
                ops.append(["W", sizes])
            cases.append({"ad": ad, "cap": cap, "prefix": None, "stream": [], "rs": [], "ws": ws, "ops": ops})
        # the sniffing rewind buffer as the auto server builds it: ReadVersion over a fragmented inner stream
        # (chunks and Pending results at any point of the first 24 bytes), then reads through the Rewind it returns
        ns = 250 if tier == "quick" else 6000
        P = list(PREFACE)
        sn_streams = [P + [0, 0, 18, 4, 0, 0, 0, 0, 0] + [7] * 18, P + [1, 2, 3], P[:12] + list(b" HTTP/1.1\r\nHost: a\r\n\r\n"),
                      list(b"GET /some/path HTTP/1.1\r\nHost: a\r\n\r\nbody"), P[:23] + [0, 9, 9], P[:5]]
        for _ in range(ns):
            st = rng.choice(sn_streams)
            script, left = [], 24
            while left > 0 and len(script) < 12:
                if rng.random() < 0.4:
                    script.append("P")
                k = rng.choice([1, 2, 3, 5, 8, 16, 23, 24])
                script.append(["D", k])
                left -= k
            if rng.random() < 0.5:
                script.append("P")
            cases.append({"ad": "sn", "prefix": None, "stream": st, "rs": script, "ws": [],
                          "ops": self.rand_ops(rng, rng.randint(2, 8), writes=False)})
        return cases, {"rule": f"{n} random (seeded) op sequences over {len(self.ADAPTERS)} adapter stacks + 54 targeted rewind cases + "
                               f"{ns} sniff-then-read cases (ReadVersion over fragmented first bytes with Pending results, then the Rewind it built) + "
                               f"{nd} write / vectored-write sequences against back-pressure on the REAL duplex pipe (capacity 1..13), bare and "
                               "under TlsBraid / client Stream / server Stream, far end drained and compared",
                       "exhaustive": False}

    def histogram(self, cases, obss):
        h = {"adapter": {}, "op_results": {}, "ops_total": 0}
        for c, o in zip(cases, obss):
            h["adapter"][c["ad"]] = h["adapter"].get(c["ad"], 0) + 1
            for r in o["res"]:
                k = r if isinstance(r, str) else ("R0" if r[0] == "R" and not r[1] else r[0])
                h["op_results"][k] = h["op_results"].get(k, 0) + 1
                h["ops_total"] += 1
        return h


def compositions(n, maxparts):
    """all ways to write n as an ordered sum of 1..maxparts positive parts"""
    for parts in range(1, maxparts + 1):
        for cuts in itertools.combinations(range(1, n), parts - 1):
            cs = (0,) + cuts + (n,)
            yield [cs[i + 1] - cs[i] for i in range(parts)]


class C08(IO):
    prop = "C08"
    check_fn = "check_all_C08"
    design_ref = "DESIGN.md 4/C08, 3.4, appendix C"
    rule = ("case = (client byte stream from a grammar, inner read script cutting the first bytes into chunks with Pending "
            "results in between, reads through the rewound stream); verdict, number of Pending polls, every read result "
            "compared with the model; non-trivial = stream shares at least 1 byte with the preface and the script has at "
            "least 2 entries; distinct = distinct (stream, script)")
    trusted = [
        "hook: verif_read_version (feature verif-hooks) awaits the crate-private ReadVersion future unchanged; Rewind re-export",
        "modelled (not verified): ReadVersion::poll, Rewind::poll_read",
        "the 'answered identically to a single-protocol server' clause relies on hyper (R2) and is exercised by C01's end-to-end run",
    ]
    assumptions = ["inner reads of 0 bytes mean end of stream (AsyncRead contract)"]

    def streams(self, rng):
        P = list(PREFACE)
        yield P + [0, 0, 18, 4, 0, 0, 0, 0, 0] + [0] * 18      # preface + SETTINGS frame
        yield P
        yield list(b"GET / HTTP/1.1\r\nHost: a\r\n\r\n")
        yield list(b"POST /upload HTTP/1.1\r\nHost: example.com\r\nContent-Length: 3\r\n\r\nabc")
        yield list(b"PRI * HTTP/1.1\r\nHost: a\r\n\r\n")        # shares a 12-byte prefix with the preface
        yield list(b"PRI * HTTP/2.0\r\n\r\nSX\r\n\r\n")       # diverges at byte 19
        yield list(b"PUT /x HTTP/1.1\r\n\r\n")                  # shares 1 byte
        yield []
        for k in (1, 5, 12, 23):
            yield P[:k]                                        # strict prefix then EOF
            yield P[:k] + [ord("X")] + list(b" rest of the data that is long enough to pass 24 bytes")
        yield P[:23] + [0]
        yield [0] + P

    def generate(self, tier, rng):
        cases = []
        streams = list(self.streams(rng))
        ops_drain = [["R", 64, 0], ["R", 5, 1], ["R", 64, 0], ["R", 64, 0], ["R", 64, 0]]
        if tier == "quick":
            comps = [c for c in compositions(24, 3)] + [[1] * 24]
            comps = comps[:: 2]
        else:
            comps = [c for c in compositions(24, 4)] + [[1] * 24]
        for si, s in enumerate(streams):
            sub = comps if si < 2 else comps[:: 7 if tier == "quick" else 2]
            for comp in sub:
                script = [["D", k] for k in comp]
                cases.append({"ad": "sn", "prefix": None, "stream": s, "rs": script, "ws": [], "ops": ops_drain})
            # pending at every boundary, for the one-byte-at-a-time and a 3-cut script
            for comp in ([1] * 24, [10, 14], [5, 5, 14], [23, 1], [1, 23], [24], [30]):
                script = []
                for k in comp:
                    script += ["P", ["D", k]]
                cases.append({"ad": "sn", "prefix": None, "stream": s, "rs": script + ["P"], "ws": [], "ops": ops_drain})
        nrand = 600 if tier == "quick" else 20000
        for _ in range(nrand):
            s = rng.choice(streams)
            if rng.random() < 0.3 and s:
                s = list(s)
                s[rng.randrange(len(s))] ^= 1 << rng.randrange(8)     # single bit flip
            n = rng.randint(0, 30)
            script = []
            for _i in range(n):
                x = rng.random()
                script.append("P" if x < 0.3 else "E" if x < 0.33 else ["D", rng.choice([1, 1, 2, 3, 7, 11, 24, 40])])
            cases.append({"ad": "sn", "prefix": None, "stream": s, "rs": script, "ws": [],
                          "ops": self.rand_ops(rng, rng.randint(1, 8), writes=False)})
        return cases, {"rule": f"{len(streams)} grammar streams x compositions of the first 24 bytes into <= "
                               f"{3 if tier == 'quick' else 4} chunks ({'every 2nd' if tier == 'quick' else 'all'} for the two preface streams, sampled for the rest) "
                               f"+ one-byte-at-a-time + Pending at every boundary + {nrand} random scripts with bit-flipped streams and errors",
                       "exhaustive": False}

    def nontrivial_key(self, c, o):
        if c["stream"][:1] == [80] and len(c["rs"]) >= 2:
            return repr((c["stream"], c["rs"]))
        return None

    def histogram(self, cases, obss):
        h = {"verdict": {}, "script_len": {}, "pendings>0": 0}
        for c, o in zip(cases, obss):
            v = o["sniff"][0] if o["sniff"] else "none"
            h["verdict"][v] = h["verdict"].get(v, 0) + 1
            b = str(min(len(c["rs"]), 25))
            h["script_len"][b] = h["script_len"].get(b, 0) + 1
            h["pendings>0"] += bool(o["sniff"] and o["sniff"][1] > 0)
        return h
