"""C01 — requests and responses arrive intact and correctly matched end to end (M-E2E)."""
import copy
import json
from core import Plugin, run_impl, coq_check_cases


def cs(s):
    return '"' + s.replace('"', '""') + '"'


def ostr(s):
    return "None" if s is None else f"(Some {cs(s)})"


def unhex(h):
    return bytes.fromhex(h).decode("latin-1")


def safe(s):
    """Coq string literals here are ASCII; anything else is made visible instead of breaking coqc"""
    return "".join(ch if 32 <= ord(ch) < 127 else "?" for ch in s)


VER = {"09": "V09", "10": "V10", "11": "V11", "2": "V2", "3": "V3"}
REQ_FIELDS = ["id", "wave", "origin", "method", "ver", "path", "query", "headers", "blen", "bseed", "chunk", "byield",
              "cancel", "sdelay", "hdelay", "rchunk", "ryield", "readmode", "upgrade"]
UA = "hd-e2e/1"


def canon(hs):
    """canonical header order of the model: by name, stable"""
    return sorted([[n.lower(), v] for n, v in hs], key=lambda h: h[0])


def coq_headers(hs):
    return "[" + "; ".join(f"({cs(safe(n))}, {cs(safe(v))})" for n, v in hs) + "]"


def parse_hdrs(s):
    if s in ("-", ""):
        return []
    out = []
    for item in s.split(","):
        n, v = item.split(":", 1)
        out.append([n, unhex(v)])
    return out


def parse_echo(s):
    """m=..&v=..&p=<hex>&q=<hex|->&h=..&bl=..&bh=..  ->  dict, or None"""
    try:
        d = dict(kv.split("=", 1) for kv in s.split("&"))
        return {"method": d["m"], "ver": d["v"], "path": unhex(d["p"]), "query": None if d["q"] == "-" else unhex(d["q"]),
                "headers": parse_hdrs(d["h"]), "bl": int(d["bl"]), "bh": int(d["bh"])}
    except Exception:
        return None


def coq_wreq(e):
    if e is None:
        return '(mkWreq "?" V09 "" None [] [])'
    return (f"(mkWreq {cs(safe(e['method']))} {VER.get(e['ver'], 'V09')} {cs(safe(e['path']))} {ostr(None if e['query'] is None else safe(e['query']))} "
            f"{coq_headers(e['headers'])} [{e['bl']}%N; {e['bh']}%N])")


class C01(Plugin):
    prop = "C01"
    harness_bin = "e2e"
    coq_targets = ("e2e/Corr.vo",)
    header = "From HD Require Import common.Base http.Model http.Spec e2e.Model e2e.Spec e2e.Corr.\nOpen Scope string_scope."
    check_fn = "check_all"
    shard = 6
    impl_jobs = 4
    design_ref = "DESIGN.md 4/C01, 3.10"
    rule = ("case = client configuration (high-level Client or the same service stack with a streaming body; protocol auto/h1/h2; pool "
            "default/none/no-continue/one-idle) x server configuration (auto/h1/h2, 1..3 servers = origins) x transport (in-process "
            "duplex with buffer 1..8192, TCP 127.0.0.1) x runtime (current-thread / 2 workers) x a batch of concurrent requests in "
            "waves (unique id in path, header and body; random method, path, query, extra/duplicate/hop-by-hop/Host/User-Agent headers, "
            "body 0..64 KiB (256 KiB thorough) whole or streamed in chunks with yields, requested version 1.0/1.1/2, handler delay, "
            "response chunking, slow/late response reading, cancellation after k polls, HTTP/1.1 upgrade exchanges); later waves reuse "
            "the pooled connections.  Observed per request: outcome, digest sent, request the server handler was given (+ which "
            "server/connection), status+headers+echo received.  The model runs a schedule built from the observed request->connection "
            "assignment; compared: every handled request and every response; judged: mon_C01 on the recorded triples.  non-trivial = "
            "more than one request on some connection or a cancellation or an upgrade; distinct = distinct cases")
    trusted = [
        "modelled (not verified): the composition in client/builder.rs build_service (User-Agent, pool, SetHostHeader, Http2Checks, "
        "Http1Checks, RequestExecutor), HttpConnection::send_request version rewrite, Pooled::drop/WhenReady as event ERelease",
        "R2: hyper/h2 framing (message boundaries, in-order HTTP/1 responses, stream-id matching, reset on drop) is what the abstract "
        "connection stands for; it is exercised by every case, not proved",
        "R1: real scheduling; the completion clause is proved as 'two further steps of its own connection complete the request' and "
        "exercised with a 30 s hang detector",
        "the pool invariants C02 (exclusivity, ready-before-reuse) and C06 (same origin) are hypotheses of c01_matched (proved/checked "
        "under their own ids); same-origin is re-checked on every e2e case by sched_ok",
        "byte transparency of bridge/io.rs and rewind.rs is C18/C08; here it is exercised with buffer sizes 1..8192",
        "harness-side digests: FNV-1a-64 over the body bytes; the echo line is parsed by the harness and the driver",
    ]
    assumptions = ["requests are non-CONNECT with absolute http:// URIs (e2e_req_ok)", "the servers of the harness never break a connection"]

    _last = {}

    # ------------------------------------------------------------------ generation
    METHODS = ["GET", "POST", "PUT", "DELETE"]
    SEG = ["a", "b2", "data", "x.y", "long-segment_name", "%41", "~u", "v1", "items"]
    QUERIES = [None, None, "x=1", "a=b&c=d", "q=%20z", "k", "id=7&id=8"]
    EXTRA = [[], [], [["x-a", "hi there"]], [["x-dup", "v1"], ["x-dup", "v2"]], [["accept", "*/*"], ["x-b", "p;q=1, r"]],
             [["connection", "keep-alive"], ["keep-alive", "timeout=5"]], [["proxy-connection", "keep-alive"], ["x-c", "1"]],
             [["x-long", "z" * 300]]]

    def gen_req(self, rng, rid, wave, cfg, tier, allow_h2, allow_upgrade, cancel_p):
        big = 262144 if tier == "thorough" else 65536
        if cfg["buf"] < 64:
            big = 4096
        u = rng.random()
        blen = rng.randint(0, 200) if u < 0.5 else (rng.randint(200, min(8192, big)) if u < 0.8 else rng.randint(min(8192, big), big))
        if rng.random() < 0.15:
            blen = 0
        method = rng.choice(self.METHODS)
        origin = rng.randrange(cfg["norig"])
        vers = ["11", "11", "10"] + (["2", "2"] if allow_h2 else [])
        if cfg["server"] == "h2" and cfg["client"] == "auto":
            vers = ["2"]
        ver = rng.choice(vers)
        path = f"/r/{rid}" + "".join("/" + rng.choice(self.SEG) for _ in range(rng.randint(0, 3)))
        if rng.random() < 0.1:
            path += "/"
        root_q = None
        if rng.random() < 0.06:
            # root path: the id travels in the header, the body and the query only
            path = "/"
            root_q = rng.choice([f"id={rid}", f"id={rid}&tag=q", None])
        hs = [["x-id", str(rid)]] + copy.deepcopy(rng.choice(self.EXTRA))
        if rng.random() < 0.15:
            hs.append(["host", f"custom-{rid}.example"])
        if rng.random() < 0.15:
            hs.append(["user-agent", f"agent/{rid}"])
        chunk = 0
        byield = 0
        if cfg["api"] == "service" and method != "GET" and blen > 0 and rng.random() < 0.6:
            chunk = rng.choice([1, 7, 100, 1000, 4096, 16384])
            if blen // chunk > 3000:
                chunk = 4096
            byield = rng.choice([0, 1])
        upgrade = 0
        if allow_upgrade and rng.random() < 0.2:
            upgrade = 1
            method, ver, blen, chunk, byield = "GET", "11", rng.randint(0, 2000), 0, 0
            hs = [h for h in hs if h[0] not in ("connection", "keep-alive", "proxy-connection")]
            hs += [["upgrade", "hd-echo"], ["connection", "upgrade"], ["x-up-len", str(blen)]]
        cancel = -1
        if rng.random() < cancel_p:
            cancel = rng.choice([0, 1, 2, 3, 4, 5, 6, 8, 10, 13, 17, 25, 40, 80])
        return {"id": rid, "wave": wave, "origin": origin, "method": method, "ver": ver, "path": path,
                "query": root_q if path == "/" else rng.choice(self.QUERIES), "headers": canon(hs), "blen": blen, "bseed": rng.randrange(1, 1 << 32),
                "chunk": chunk, "byield": byield, "cancel": cancel, "sdelay": rng.choice([0, 0, 0, 1, 3, 7]),
                "hdelay": rng.choice([0, 0, 1, 2, 5, 20, 101, 103]), "rchunk": rng.choice([0, 0, 1, 50, 1000, 8192]),
                "ryield": rng.choice([0, 1]), "readmode": rng.choice([0, 0, 1, 2]), "upgrade": upgrade}

    def gen_case(self, rng, tier):
        combos = [("auto", "auto"), ("auto", "auto"), ("auto", "h1"), ("h1", "h1"), ("h1", "auto"), ("h2", "h2"), ("h2", "auto"),
                  ("auto", "h2")]
        client, server = rng.choice(combos)
        tr = "tcp" if rng.random() < 0.15 else "duplex"
        cfg = {"rt": rng.choice(["ct", "ct", "mt"]), "client": client, "server": server, "tr": tr,
               "buf": rng.choice([1, 7, 64, 64, 1024, 1024, 8192]), "pool": rng.choice(["default", "default", "default", "none", "idle1", "nopre"]),
               "api": rng.choice(["client", "service", "service"]), "norig": rng.choice([1, 1, 2, 3]), "settle": rng.choice([0, 5, 30])}
        if server == "h2" and cfg["buf"] < 64:
            # the h2 crate's server flushes SETTINGS before reading and its client writes the 24-byte preface before reading:
            # a transport buffering fewer than 24 bytes deadlocks plain hyper too (environment, not hyperdriver); the sniffing
            # `auto` server reads first and is exercised with buffers 1 and 7
            cfg["buf"] = 64
        allow_h2 = server != "h1" and client != "h1"
        only_h1 = server == "h1" or client == "h1" or rng.random() < 0.3
        if only_h1:
            allow_h2 = False
        if client == "h2":
            allow_h2 = True
        allow_upgrade = (not allow_h2) and client != "h2" and server != "h2" and rng.random() < 0.5
        nmax = 64 if tier == "thorough" else 32
        n0 = rng.randint(2, nmax) if rng.random() < 0.5 else rng.randint(2, 8)
        if cfg["buf"] < 64:
            n0 = min(n0, 10)
        cancel_p = rng.choice([0.0, 0.0, 0.15, 0.3])
        # continue_after_preemption=false + cancellations next to multiplexed dials is the known pool residue (D4); keep the two apart
        # except in the dedicated cases
        reqs = []
        rid = 1
        for _ in range(n0):
            reqs.append(self.gen_req(rng, rid, 0, cfg, tier, allow_h2, allow_upgrade, cancel_p))
            rid += 1
        nw = rng.choice([0, 1, 1, 2])
        for w in range(1, nw + 1):
            for _ in range(rng.randint(1, max(2, n0 // 2))):
                reqs.append(self.gen_req(rng, rid, w, cfg, tier, allow_h2, allow_upgrade, cancel_p / 2))
                rid += 1
        return {"cfg": cfg, "reqs": reqs}

    def generate(self, tier, rng):
        n = 200 if tier == "quick" else 5000
        cases = [self.gen_case(rng, tier) for _ in range(n)]
        # directed: sequential reuse of one HTTP/1 connection with Host/User-Agent overrides and HTTP/1.0 requests
        for buf in (1, 64, 8192):
            cfg = {"rt": "ct", "client": "auto", "server": "auto", "tr": "duplex", "buf": buf, "pool": "default", "api": "service",
                   "norig": 1, "settle": 30}
            reqs = []
            for i in range(6):
                r = self.gen_req(rng, i + 1, i, cfg, "quick", False, False, 0.0)
                r["ver"] = ["10", "11"][i % 2]
                if i % 3 == 0 and not any(h[0] == "host" for h in r["headers"]):
                    r["headers"] = canon(r["headers"] + [["host", f"custom-{i + 1}.example"]])
                reqs.append(r)
            cases.append({"cfg": cfg, "reqs": reqs})
        nreq = sum(len(c["reqs"]) for c in cases)
        return cases, {"rule": f"{n} seeded random configurations x batches + 3 directed sequential-reuse cases; {nreq} requests in all",
                       "exhaustive": False, "extra": {"requests": nreq}}

    # ------------------------------------------------------------------ implementation side
    def impl_line(self, c):
        cfg = " ".join(f"{k}={v}" for k, v in c["cfg"].items())
        rs = []
        for r in c["reqs"]:
            f = []
            for k in REQ_FIELDS:
                v = r[k]
                if k == "query":
                    v = "-" if v is None else v
                elif k == "headers":
                    v = ";".join(f"{n}:{val.encode('latin-1').hex()}" for n, val in v) or "-"
                f.append(str(v))
            rs.append(",".join(f))
        return cfg + " | " + " | ".join(rs)

    def parse_obs(self, c, line):
        if not line.startswith("auth="):
            return {"bad": line[:300]}
        parts = line.split(" ;; ")
        o = {"auth": parts[0][5:].split(","), "reqs": [], "stray": int(parts[-1].split("=")[1])}
        for p in parts[1:-1]:
            rid, out, sent, saws, recv = p.split("|")
            bl, bh = sent.split(".")
            r = {"id": int(rid), "out": out.split(":")[0], "sent": [int(bl), int(bh)], "saw": [], "recv": None}
            if out.startswith("ERR:"):
                r["err"] = unhex(out[4:])[:300]
            if saws != "-":
                for s in saws.split("^"):
                    loc, echo = s.split("~", 1)
                    srv, conn, complete = loc.split(".")
                    r["saw"].append({"srv": int(srv), "conn": int(conn), "complete": complete == "1", "echo": parse_echo(echo)})
            if recv != "-":
                st, hd, echo = recv.split("~", 2)
                r["recv"] = {"status": int(st), "headers": parse_hdrs(hd), "echo": parse_echo(echo)}
            o["reqs"].append(r)
        return o

    # ------------------------------------------------------------------ Coq terms
    def coq_ereq(self, r, auth, sent):
        host, _, port = auth.partition(":")
        pq = r["path"] + ("" if r["query"] is None else "?" + r["query"])
        port_t = "None" if not port else f"(Some ({cs(port)}, {int(port)}%N))"
        uri = (f"(mkUri (Some \"http\") (Some {cs(auth)}) (Some {cs(host)}) {port_t} (Some {cs(pq)}) {cs(r['path'])} {ostr(r['query'])})")
        req = f"(mkReq {cs(r['method'])} {VER[r['ver']]} {uri} {coq_headers(r['headers'])})"
        return f"(mkEreq {r['id']}%N {r['origin']}%N {req} [{sent[0]}%N; {sent[1]}%N])"

    def terms(self, c, o):
        if "bad" in o:
            return (f"mkCase (mkCfg {cs(UA)} [] []) []", "OBad")
        byid = {r["id"]: r for r in o["reqs"]}
        ereqs, robs = [], []
        conns = {}       # (srv, conn) -> [cid, proto, next sid]
        plan_first, plan_last = [], []     # (request id, connection key or None, cancelled)
        dups = 0
        for r in c["reqs"]:
            ob = byid[r["id"]]
            auth = o["auth"][r["origin"]] if r["origin"] < len(o["auth"]) else "o0.test"
            ereqs.append(self.coq_ereq(r, auth, ob["sent"]))
            cancelled = ob["out"] == "CANCELLED"
            saw = ob["saw"][0] if ob["saw"] else None
            dups += max(0, len(ob["saw"]) - 1)
            if saw is not None:
                key = (saw["srv"], saw["conn"])
                ver = saw["echo"]["ver"] if saw["echo"] else "11"
                if key not in conns:
                    conns[key] = [saw["srv"] * 100000 + saw["conn"], "PH2" if ver == "2" else "PH1", 0]
                (plan_last if cancelled else plan_first).append((r["id"], key, cancelled))
            elif cancelled:
                plan_last.append((r["id"], None, True))
            out = {"OK": None, "CANCELLED": "ICancelled", "HANG": "IHang"}.get(ob["out"], "IErr")
            if ob["out"] == "OK":
                rv = ob["recv"]
                out = f"(IOk (mkResp {rv['status']}%N {coq_headers(rv['headers'])} {coq_wreq(rv['echo'])}))"
            saw_t = "None" if saw is None else f"(Some ({coq_wreq(saw['echo'])}, {'true' if saw['complete'] else 'false'}))"
            robs.append(f"(mkRobs {saw_t} {out} {'true' if cancelled else 'false'})")
        # canonical sequential schedule over the observed request -> connection assignment; requests the caller cancelled come
        # last (in the model an abandoned HTTP/1 exchange closes its connection); stream ids are allocated in execution order
        first, last = [], []
        virt = 0
        for rid, key, cancelled in plan_first + plan_last:
            if key is None:
                last.append([f"ECancel {rid}%N"])
                continue
            k = conns[key]
            if cancelled and k[1] == "PH1":
                # hyper may salvage an HTTP/1 connection whose response body was dropped early; the model always closes it:
                # the abandoned exchange gets a connection entry of its own (same protocol, same server)
                virt += 1
                k = conns[(key[0], 50000 + virt)] = [key[0] * 100000 + 50000 + virt, "PH1", 0]
            s = k[2]
            k[2] += 1
            ev = [f"EStart {rid}%N {k[0]}%N", f"EHandle {k[0]}%N {s}%N"]
            if cancelled:
                last.append(ev + [f"ECancel {rid}%N"])
            else:
                first.append(ev + [f"EDeliver {k[0]}%N {s}%N", f"ERelease {k[0]}%N"])
        conn_t = "[" + "; ".join(f"({v[0]}%N, ({v[1]}, {k[0]}%N))" for k, v in conns.items()) + "]"
        sched = "[" + "; ".join(e for ev in first + last for e in ev) + "]"
        case = f"mkCase (mkCfg {cs(UA)} [{'; '.join(ereqs)}] {conn_t}) {sched}"
        obs = f"ORun [{'; '.join(robs)}] {o['stray']}%N {dups}%N"
        return case, obs

    def evaluate(self, cases):
        lines = [self.impl_line(c) for c in cases]
        if 1 < len(lines) < 64:
            # few cases (shrinking, neighbourhood search): one harness process per case, in parallel
            import concurrent.futures as cf
            with cf.ThreadPoolExecutor(max_workers=8) as ex:
                outs = [o[0] for o in ex.map(lambda l: run_impl(self.harness_bin, [l], self.harness_args, timeout=3000), lines)]
        else:
            outs = run_impl(self.harness_bin, lines, self.harness_args, jobs=self.impl_jobs, timeout=3000)
        obss = [self.parse_obs(c, o) for c, o in zip(cases, outs)]
        terms = []
        for c, o in zip(cases, obss):
            self._last[json.dumps(c, sort_keys=True)] = o
            t = self.terms(c, o)
            terms.append(f"({t[0]}, {t[1]})")
        mism, monf = coq_check_cases(self.prop, self.header, terms, self.check_fn, self.shard)
        return obss, mism, monf

    def coq_case(self, c):
        o = self._last.get(json.dumps(c, sort_keys=True))
        if o is None:
            o = self.evaluate([c])[0][0]
        return self.terms(c, o)[0]

    def coq_obs(self, o):
        raise NotImplementedError

    # ------------------------------------------------------------------ shrinking / reporting
    def shrink(self, case, kind):
        """greedy, bounded: a failing end-to-end case may hang, so every candidate is expensive; while shrinking (the failure is
        already established with the generous limit) the harness waits 4 s instead of 30 s"""
        cur = case
        saved = self.harness_args
        self.harness_args = ("--hang-ms", "4000")
        try:
            for _ in range(10):
                cands = list(self.shrinks(cur))[:16]
                if not cands:
                    break
                obss, mism, monf = self.evaluate(cands)
                bad = monf if kind == "monitor" else mism
                if not bad:
                    break
                cur = cands[min(bad)]
        finally:
            self.harness_args = saved
        return cur

    def shrinks(self, c):
        reqs = c["reqs"]
        if len(reqs) > 1:
            if len(reqs) > 3:
                yield {"cfg": c["cfg"], "reqs": reqs[:len(reqs) // 2]}
                yield {"cfg": c["cfg"], "reqs": reqs[len(reqs) // 2:]}
            for i in range(len(reqs)):
                yield {"cfg": c["cfg"], "reqs": reqs[:i] + reqs[i + 1:]}
        for i, r in enumerate(reqs):
            for k, v in (("cancel", -1), ("blen", 0), ("chunk", 0), ("hdelay", 0), ("sdelay", 0), ("readmode", 0), ("rchunk", 0),
                         ("byield", 0), ("ryield", 0), ("query", None)):
                if r[k] != v and not (k == "blen" and r["upgrade"]):
                    r2 = dict(r)
                    r2[k] = v
                    yield {"cfg": c["cfg"], "reqs": reqs[:i] + [r2] + reqs[i + 1:]}
            if r["blen"] > 64 and not r["upgrade"]:
                r2 = dict(r)
                r2["blen"] = r["blen"] // 2
                yield {"cfg": c["cfg"], "reqs": reqs[:i] + [r2] + reqs[i + 1:]}
            if len(r["headers"]) > 1 and not r["upgrade"]:
                r2 = dict(r)
                r2["headers"] = [h for h in r["headers"] if h[0] == "x-id"]
                yield {"cfg": c["cfg"], "reqs": reqs[:i] + [r2] + reqs[i + 1:]}
        for k, v in (("rt", "ct"), ("tr", "duplex"), ("buf", 1024), ("norig", max(r["origin"] for r in reqs) + 1)):
            if c["cfg"][k] != v:
                cfg = dict(c["cfg"])
                cfg[k] = v
                yield {"cfg": cfg, "reqs": reqs}

    def nontrivial_key(self, c, o):
        if "bad" in o:
            return None
        seen = {}
        multi = False
        for r in o["reqs"]:
            for s in r["saw"][:1]:
                k = (s["srv"], s["conn"])
                multi = multi or k in seen
                seen[k] = 1
        if multi or any(r["out"] == "CANCELLED" for r in o["reqs"]) or any(r["upgrade"] for r in c["reqs"]):
            return json.dumps(c, sort_keys=True)
        return None

    def sample_json(self, c, o):
        return {"case": {"cfg": c["cfg"], "requests": len(c["reqs"])},
                "impl": "bad" if "bad" in o else {"outcomes": [r["out"] for r in o["reqs"]][:40]}}

    def histogram(self, cases, obss):
        h = {"outcome": {}, "client/server": {}, "transport": {}, "pool": {}, "runtime": {}, "conn_version_seen": {},
             "requests_per_connection": {}, "requests": 0, "reused_connections": 0, "upgrades_101": 0, "body_bytes_sent": 0}
        for c, o in zip(cases, obss):
            cfg = c["cfg"]
            for key, val in (("client/server", f"{cfg['client']}/{cfg['server']}"), ("transport", f"{cfg['tr']}:{cfg['buf']}" if cfg["tr"] == "duplex" else "tcp"),
                             ("pool", cfg["pool"]), ("runtime", cfg["rt"])):
                h[key][val] = h[key].get(val, 0) + 1
            if "bad" in o:
                h["outcome"]["BAD"] = h["outcome"].get("BAD", 0) + 1
                continue
            per = {}
            for r in o["reqs"]:
                h["requests"] += 1
                h["outcome"][r["out"]] = h["outcome"].get(r["out"], 0) + 1
                h["body_bytes_sent"] += r["sent"][0]
                if r["recv"] and r["recv"]["status"] == 101:
                    h["upgrades_101"] += 1
                for s in r["saw"][:1]:
                    per[(s["srv"], s["conn"])] = per.get((s["srv"], s["conn"]), 0) + 1
                    v = s["echo"]["ver"] if s["echo"] else "?"
                    h["conn_version_seen"][v] = h["conn_version_seen"].get(v, 0) + 1
            for n in per.values():
                b = "1" if n == 1 else ("2-4" if n <= 4 else "5+")
                h["requests_per_connection"][b] = h["requests_per_connection"].get(b, 0) + 1
                if n > 1:
                    h["reused_connections"] += 1
        return h

    def known_match(self, finding, c, o):
        """D4 residue: with continue_after_preemption = false a request waiting on another request's in-flight HTTP/2 connection
        attempt fails as unavailable when that other request is cancelled or pre-empted.  Exactly that shape, nothing else."""
        if finding.get("id") != "D4-e2e" or "bad" in o:
            return False
        if c["cfg"]["pool"] != "nopre":
            return False
        bad = [r for r in o["reqs"] if r["out"] not in ("OK", "CANCELLED")]
        if not bad:
            return False
        spec = {r["id"]: r for r in c["reqs"]}
        # the owner of the multiplexed attempt asked for HTTP/2 and was either cancelled or pre-empted by a returned
        # HTTP/1.1 connection (then it was served over HTTP/1.1 although it asked for HTTP/2)
        owners = {spec[r["id"]]["origin"] for r in o["reqs"] if spec[r["id"]]["ver"] == "2" and
                  (r["out"] == "CANCELLED" or (r["saw"] and r["saw"][0]["echo"] and r["saw"][0]["echo"]["ver"] == "11"))}
        for r in bad:
            if (r["out"] != "ERR" or "pool closed, no connection can be made" not in r.get("err", "") or r["saw"]
                    or spec[r["id"]]["origin"] not in owners):
                return False
        # everything else in the case must be in order: rerun the monitor without the affected requests
        keep = [q for q in c["reqs"] if q["id"] not in {r["id"] for r in bad}]
        o2 = dict(o)
        o2["reqs"] = [r for r in o["reqs"] if r["id"] not in {b["id"] for b in bad}]
        t = self.terms({"cfg": c["cfg"], "reqs": keep}, o2)
        _, monf = coq_check_cases(self.prop, self.header, [f"({t[0]}, {t[1]})"], self.check_fn, self.shard)
        return not monf


PLUGIN = C01()
