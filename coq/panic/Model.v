(* M-PANIC (C17): the whole request path of the client as one total function

       client_path : entry -> transport_kind -> request -> outcome      (Panic site | Err e | Sent wire)

   composed of M-HTTP (http/Model.v: request rewriting layers, protocol choice), M-TLS (tls/Model.v:
   TLS-or-plain decision, handshake) and the remaining hyperdriver-side conversions on the path:

     src/client/mod.rs + builder.rs   Client::request -> SharedService -> Timeout -> FollowRedirect ->
                                      SetRequestHeader(user-agent, if absent) -> IncomingResponse ->
                                      ConnectionPoolService -> SetHostHeader -> Http2Checks -> Http1Checks -> RequestExecutor
     src/client/pool/service.rs       ConnectionPoolService::call / connect_to  (key, version, checkout)
     src/client/pool/key.rs           UriKey::try_from(&Parts)                  (missing scheme; authority optional)
     src/client/conn/connector.rs     ConnectorService::call, Connector::poll_connector (transport, then handshake)
     src/client/conn/protocol/mod.rs  HttpProtocol::for_version / From<http::Version>
     src/client/conn/protocol/auto.rs HttpConnectionBuilder::handshake          (request protocol x ALPN)
     src/client/conn/transport/mod.rs TlsTransport::call                        (scheme test, braid variant)
     src/client/conn/transport/tls.rs TlsTransportWrapper::call, TlsConnectionFuture::poll
     src/client/conn/stream/tls.rs    TlsStream::new                            (server-name conversion, expect)
     src/client/conn/transport/tcp.rs TcpTransport::call, get_host_and_port
     src/client/conn/transport/duplex.rs DuplexTransport::call                  (ignores the request)
     src/service/host.rs, http.rs     set_host_header, check_http2_request, check_http1_request
                                      (authority_form, absolute_form, origin_form), with their expect sites explicit
     src/service/client.rs            RequestExecutor / execute_request -> Connection::send_request  (= Sent)

   `Sent w` means: the rewritten request [w_req w] was handed to Connection::send_request of a
   connection speaking [w_proto w].  What hyper does with it afterwards is R2/R6 (swept, not modelled).

   PANIC-SITE INVENTORY  (grep for unwrap/expect/panic!/unreachable!/assert!/debug_assert!/indexing over
   src/client, src/service and what they call — src/stream, src/bridge, src/info, src/body, src/lib.rs,
   src/happy_eyeballs.rs — outside #[cfg(test)]; line numbers as of /repo 4f39ea6, 2026-10-01)

   A. sites whose condition depends on the request value: explicit [Panic site] branches below
     protocol/mod.rs:168   From<Version>::from  .expect("Unsupported HTTP protocol")   SFromVersion
                           condition: for_version v = None (HTTP/3).  Not called on the path: connect_to
                           (pool/service.rs:239) and ConnectorService::call (connector.rs:451) use for_version
                           and turn None into Error::UnsupportedProtocol                  [proto_from_version]
     stream/tls.rs:108     TlsStream::new  ServerName::try_from(domain).expect(..)          STlsServerName
                           condition: host (brackets stripped) is not a rustls server name.  Guard:
                           TlsTransportWrapper::call (transport/tls.rs:76) tests the same string first   [tls_stream_new]
     host.rs:43            uri.host().expect("authority implies host")                      SHostImpliesHost
                           guard: set_host_header returns early when uri.host() is None (host.rs:31)
     host.rs:50            HeaderValue::from_str(host[:port]).expect(..)                    SHostHeaderValue
                           condition: a byte < 32 (except tab) or = 127 in the host.  Guard: http::Uri only
                           holds URI characters (oracle O7, hypothesis [req_wf_b]; checked by the harness on
                           every decomposition)                                             [set_host_header_p]
     http.rs:207           authority_form  Uri::from_parts(authority only).expect(..)       SAuthorityFormParts
                           condition: from_parts rejects the parts; it accepts authority-only parts  [authority_form_p]
     http.rs:233           origin_form  Uri::from_parts(path only).expect(..)               SOriginFormParts
                           condition: from_parts rejects the parts; it accepts path-only parts       [origin_form_p]
     http.rs:236           origin_form  debug_assert!(Uri::default() == "/")   (debug builds) SOriginDefaultSlash
                           constant condition; modelled as live in both profiles
     (repaired sites that no longer exist: http.rs authority_form unreachable!() and absolute_form debug_assert!s,
      D10 44eea87; the three repairs D8 8d8cd8f, D9 4332f80, D10 are what the explicit guards above model)

   B. sites that do not depend on the request value — argued unreachable, guard named; exercised by the sweep
     connector.rs:217,225,229,260,270,276,279  Option::take/unwrap in Connector::poll_connector: each state of
                           ConnectorState fills the options it takes exactly once before moving to the next state
     connector.rs:580,603; pool/service.rs:440,462; service/error.rs:158   "polled again": the response futures
                           return Ready right after taking; tower::Oneshot / the caller never polls after Ready
     connector.rs:122      Debug impl only
     transport/tls.rs:208,227 unreachable!() after project_replace of the state just matched; :232 panic!("polled
                           after ready"): State::Invalid is only entered when returning Ready
     transport/mod.rs:550  Oneshot::poll request.take().unwrap(): state Pending is left in the same poll
     transport/mod.rs:194  debug_assert in the non-tls cfg (feature tls is on)
     stream/mod.rs:140     panic!("Stream::tls called twice"): TlsConnectionFuture calls it on a fresh Stream::new;
                           stream/mod.rs:113 Stream::map is not called on the path
     stream/tls.rs:163     Connect::get_ref().expect(..): a fresh tokio_rustls::Connect is Handshaking or Error, both
                           hold the stream (tokio-rustls 0.26 lib.rs:388)
     pool/checkout.rs:241,395,462; pool/mod.rs:460,613..728; pool/key.rs:52,69   pool state machine (Option fields
                           taken only on completion/Drop, NonZeroUsize::new(1)): M-POOL; independent of the request
     pool/key.rs:106       TryFrom<http::Uri> (FromStr only), not on the request path         [SKeyFromParts: unused]
     builder.rs:449        user-agent configured by the application, not by the request
     client/mod.rs:42,43   default_tls_config (platform certificates), configuration time
     client/mod.rs:165     Client::get: http::Request::get(uri).body(..).unwrap() cannot fail for a valid Uri
     lib.rs:185,191        IntoRequestParts for &str / Uri: not used with Parts (identity impl, lib.rs:194)
     stream/tcp.rs:170,177 peer_addr/local_addr of a connected socket (kernel, R4); stream/unix.rs not on the path
     body/mod.rs:106,108   map_err(|_| unreachable!()) on Infallible errors (type-level)
     lib.rs:161            polled_span: #[allow(unused)], not called on the path
     happy_eyeballs.rs:192 M-HE (C10/C11), independent of the request value
     info/tls.rs:185       server side

   Oracles: O7 http::Uri accessors (the harness hands over the decomposition made by the real crate),
   O6 rustls (server-name classification [q_hk], handshake result via [te_covered] etc.).  *)
From HD Require Import common.Base http.Model tls.Model.
From Coq Require Import String Ascii.
Local Open Scope string_scope.

(* ---- entry points, transports, requests ---- *)
Inductive entry :=
| EClient (pool : bool)          (* hyperdriver::Client from client::Builder, with / without pool *)
| EPool (pool : bool)            (* ConnectionPoolService over the standard lower stack *)
| EConnector (stack : bool).     (* ConnectorService over the standard lower stack | directly over RequestExecutor *)

Inductive base := BDuplex | BTcp (dial_ok : bool).   (* dial_ok: resolver + connect succeed (environment) *)

Record tlsenv := mkTlsEnv {
  te_covered : bool;             (* the presented certificate covers the URI host (O6) *)
  te_cert : cert;
  te_salpn : alpnopt;
  te_calpn : alpnopt;
  te_fault : fault
}.

Record transport_kind := mkTk { tk_base : base; tk_tls : option tlsenv }.   (* TlsTransport<base>, TLS configured? *)

Record request := mkRequest {
  q_req : req;                   (* method, version, decomposed URI, headers (http/Model.v) *)
  q_hk : hostkind;               (* O6: rustls' classification of the bracket-stripped host *)
  q_body : string                (* no hyperdriver code on the path inspects the body *)
}.

Inductive psite :=
| SFromVersion | STlsServerName | SHostImpliesHost | SHostHeaderValue
| SAuthorityFormParts | SOriginFormParts | SOriginDefaultSlash | SKeyFromParts.

Inductive perr :=
| EInvalidUri | EUnsupportedProtocol | ENoDomain | ETlsHandshake | ETransport | ETcpUri
| EInvalidMethod | EProtocol
| EIllTyped.                     (* the record is not the decomposition of any http::Request (O7) *)

Record wire := mkWire { w_proto : proto; w_req : req }.

Inductive outcome :=
| Panic (site : psite)
| Err (e : perr)
| Sent (w : wire).

(* intermediate results *)
Inductive res (A : Type) :=
| ROk (a : A)
| RErr (e : perr)
| RPanic (s : psite).
Arguments ROk {A} a.
Arguments RErr {A} e.
Arguments RPanic {A} s.

Definition rbind {A B} (x : res A) (f : A -> res B) : res B :=
  match x with ROk a => f a | RErr e => RErr e | RPanic s => RPanic s end.

(* ---- protocol/mod.rs ---- *)
(* impl From<http::Version> for HttpProtocol: for_version(v).expect(..) *)
Definition proto_from_version (v : hver) : res proto :=
  match for_version v with Some p => ROk p | None => RPanic SFromVersion end.

(* what connect_to and ConnectorService::call do instead *)
Definition proto_for_request (v : hver) : res proto :=
  match for_version v with Some p => ROk p | None => RErr EUnsupportedProtocol end.

(* ---- pool/key.rs: UriKey::try_from(&Parts) ---- *)
Definition key_of (u : uri) : res (string * option string) :=
  match u_scheme u with
  | Some s => ROk (s, u_auth u)               (* authority().cloned(): optional *)
  | None => RErr EInvalidUri                   (* UriError::MissingScheme *)
  end.

(* ---- transport/tcp.rs: get_host_and_port ---- *)
Definition get_host_and_port (u : uri) : option (string * N) :=
  match u_host u with
  | None => None                               (* "missing host" *)
  | Some h =>
      let h' := strip_brackets h in
      match u_port u with
      | Some (_, n) => Some (h', n)
      | None =>
          match u_scheme u with
          | Some s => if String.eqb s "http" then Some (h', 80%N)
                      else if String.eqb s "https" then Some (h', 443%N)
                      else None                (* "missing port" *)
          | None => None
          end
      end
  end.

Definition base_connect (b : base) (u : uri) : res unit :=
  match b with
  | BDuplex => ROk tt                          (* DuplexTransport::call ignores the request *)
  | BTcp dial =>
      match get_host_and_port u with
      | None => RErr ETcpUri
      | Some _ => if dial then ROk tt else RErr ETransport
      end
  end.

(* ---- transport/mod.rs, transport/tls.rs, stream/tls.rs ---- *)
Definition secure (s : option string) : bool :=
  match s with Some s => eq_ci s "https" || eq_ci s "wss" | None => false end.

Definition server_name_ok (k : hostkind) : bool := match k with HInvalid => false | _ => true end.

(* TlsStream::new: ServerName::try_from(domain).expect("should be valid dns name") *)
Definition tls_stream_new (k : hostkind) : res unit :=
  if server_name_ok k then ROk tt else RPanic STlsServerName.

(* the inner transport's connect, including an injected transport fault (tls/Model.v FTransport) *)
Definition dial (tk : transport_kind) (u : uri) : res unit :=
  rbind (base_connect (tk_base tk) u) (fun _ =>
  match tk_tls tk with
  | Some e => match te_fault e with FTransport => RErr ETransport | _ => ROk tt end
  | None => ROk tt
  end).

Definition tcase_of (tk : transport_kind) (q : request) : tcase :=
  let u := r_uri (q_req q) in
  match tk_tls tk with
  | Some e =>
      mkTls true (u_scheme u) (u_host u) None false (q_hk q) (te_covered e) (te_cert e) (te_salpn e) (te_calpn e)
            (match base_connect (tk_base tk) u with ROk _ => te_fault e | _ => FTransport end)
  | None =>
      mkTls false (u_scheme u) (u_host u) None false (q_hk q) false CGood ANone ANone
            (match base_connect (tk_base tk) u with ROk _ => FNone | _ => FTransport end)
  end.

Definition alpn_of (a : alpnopt) : alpn :=
  match a with ANone => AlpnNone | AH2 => AlpnH2 | AH11 => AlpnH11 end.

(* the stream handed to the protocol: which ALPN result does it report? *)
Definition transport_connect (tk : transport_kind) (q : request) : res alpn :=
  let u := r_uri (q_req q) in
  match tk_tls tk with
  | Some e =>
      if secure (u_scheme u) then                       (* TlsTransport::call: use_tls *)
        match u_host u with                             (* TlsTransportWrapper::call *)
        | None => RErr ENoDomain
        | Some _ =>
            if negb (server_name_ok (q_hk q)) then RErr ETlsHandshake     (* invalid TLS server name *)
            else
              rbind (dial tk u) (fun _ =>                                  (* TlsConnectionFuture: Connecting *)
              rbind (tls_stream_new (q_hk q)) (fun _ =>                   (* Stream::new(stream).tls(domain, config) *)
              let c := tcase_of tk q in                                   (* Handshake *)
              if handshake_ok c then ROk (alpn_of (negotiated c)) else RErr ETlsHandshake))
        end
      else rbind (dial tk u) (fun _ => ROk NoTls)
  | None => rbind (dial tk u) (fun _ => ROk NoTls)
  end.

(* Connector::poll_connector: transport, then HttpConnectionBuilder::handshake *)
Definition connector (tk : transport_kind) (q : request) (requested : proto) : res proto :=
  rbind (transport_connect tk q) (fun a => ROk (handshake requested a)).

(* pool.checkout / Checkout::detached: a fresh pool has no idle connection and nobody connecting,
   so the checkout runs its own connector; without a pool it is detached and does the same *)
Definition checkout (pool : bool) (c : res proto) : res proto := c.

(* ---- the lower stack with its expect sites explicit ---- *)
(* HeaderValue::from_str: every byte >= 32 and <> 127, or tab *)
Definition hv_byte_ok (c : ascii) : bool :=
  let n := nat_of_ascii c in (Nat.leb 32 n && negb (Nat.eqb n 127)) || Nat.eqb n 9.
Fixpoint header_value_ok (s : string) : bool :=
  match s with
  | EmptyString => true
  | String c t => hv_byte_ok c && header_value_ok t
  end.

Definition set_host_header_p (r : req) : res req :=
  match u_host (r_uri r) with
  | None => ROk r                                            (* early return, host.rs:31 *)
  | Some _ =>
      if has_header "host" (r_headers r) then ROk r          (* entry(HOST): occupied, closure not run *)
      else
        match u_host (r_uri r) with                          (* uri.host().expect("authority implies host") *)
        | None => RPanic SHostImpliesHost
        | Some host =>
            let v := host_value (r_uri r) host in
            if header_value_ok v                             (* HeaderValue::from_str(..).expect(..) *)
            then ROk (mkReq (r_method r) (r_version r) (r_uri r) (insert_header ("host", v) (r_headers r)))
            else RPanic SHostHeaderValue
        end
  end.

Definition check_http2_p (conn : proto) (r : req) : res req :=
  match conn with
  | PH2 =>
      if String.eqb (r_method r) "CONNECT" then RErr EInvalidMethod
      else ROk (mkReq (r_method r) V2 (r_uri r)
                      (remove_headers ["host"] (remove_headers connection_headers (r_headers r))))
  | PH1 => ROk r
  end.

(* http::Uri::from_parts: which part combinations are accepted *)
Definition from_parts_ok (scheme auth pq : bool) : bool :=
  if scheme then auth && pq                    (* AuthorityMissing / PathAndQueryMissing *)
  else negb (auth && pq).                      (* SchemeMissing *)

Definition authority_form_p (u : uri) : res uri :=
  match u_auth u with
  | Some a =>
      if from_parts_ok false true false        (* Uri::from_parts(parts).expect("authority is valid") *)
      then ROk (mkUri None (Some a) (u_host u) (u_port u) None "" None)
      else RPanic SAuthorityFormParts
  | None => RErr EProtocol                     (* "CONNECT request target has no authority" *)
  end.

Definition slash_uri : uri := mkUri None None None None (Some "/") "/" None.   (* Uri::default() *)

Definition origin_default : res uri :=
  if String.eqb (u_path slash_uri) "/"         (* debug_assert!(Uri::default() == "/") *)
  then ROk slash_uri else RPanic SOriginDefaultSlash.

Definition origin_form_p (u : uri) : res uri :=
  match u_pq u with
  | Some p =>
      if String.eqb p "/" then origin_default
      else if from_parts_ok false false true   (* Uri::from_parts(parts).expect("path is valid uri") *)
           then ROk (mkUri None None None None (Some p) (u_path u) (u_query u))
           else RPanic SOriginFormParts
  | None => origin_default
  end.

Definition check_http1_p (conn : proto) (r : req) : res req :=
  match conn with
  | PH2 => ROk r
  | PH1 =>
      if String.eqb (r_method r) "CONNECT" then
        rbind (authority_form_p (r_uri r)) (fun u => ROk (mkReq (r_method r) (r_version r) u (r_headers r)))
      else
        match u_scheme (r_uri r), u_auth (r_uri r) with
        | Some _, Some _ =>
            rbind (origin_form_p (r_uri r)) (fun u => ROk (mkReq (r_method r) (r_version r) u (r_headers r)))
        | _, _ => ROk r                        (* absolute_form: unchanged *)
        end
  end.

Definition layers_p (conn : proto) (r : req) : res req :=
  rbind (match conn with PH1 => set_host_header_p r | PH2 => ROk r end) (fun r1 =>
  rbind (check_http2_p conn r1) (fun r2 =>
  check_http1_p conn r2)).

(* RequestExecutor: hands the request to the connection *)
Definition lower (stack : bool) (conn : proto) (r : req) : outcome :=
  match (if stack then layers_p conn r else ROk r) with
  | ROk r' => Sent (mkWire conn r')
  | RErr e => Err e
  | RPanic s => Panic s
  end.

Definition with_conn (c : res proto) (k : proto -> outcome) : outcome :=
  match c with ROk p => k p | RErr e => Err e | RPanic s => Panic s end.

(* ---- the three services ---- *)
(* ConnectionPoolService::call = connect_to (key, then version, then checkout) + inner stack *)
Definition pool_service (pool : bool) (tk : transport_kind) (q : request) : outcome :=
  let r := q_req q in
  match key_of (r_uri r) with
  | RErr e => Err e
  | RPanic s => Panic s
  | ROk _ =>
      match proto_for_request (r_version r) with
      | RErr e => Err e
      | RPanic s => Panic s
      | ROk p => with_conn (checkout pool (connector tk q p)) (fun conn => lower true conn r)
      end
  end.

(* ConnectorService::call: version, then connector, then the inner service *)
Definition connector_service (stack : bool) (tk : transport_kind) (q : request) : outcome :=
  let r := q_req q in
  match proto_for_request (r_version r) with
  | RErr e => Err e
  | RPanic s => Panic s
  | ROk p => with_conn (connector tk q p) (fun conn => lower stack conn r)
  end.

(* Client: the layers above the pool only add User-Agent when absent (tower-http; timeout,
   redirect and body adaption do not look at the request value on the way in) *)
Definition user_agent : string := "hyperdriver".
Definition client_layers (q : request) : request :=
  let r := q_req q in
  if has_header "user-agent" (r_headers r) then q
  else mkRequest (mkReq (r_method r) (r_version r) (r_uri r) (insert_header ("user-agent", user_agent) (r_headers r)))
                 (q_hk q) (q_body q).

Definition client_path_raw (e : entry) (tk : transport_kind) (q : request) : outcome :=
  match e with
  | EClient pool => pool_service pool tk (client_layers q)
  | EPool pool => pool_service pool tk q
  | EConnector stack => connector_service stack tk q
  end.

(* what the http crate guarantees about a Uri (O7): the C13 facts, and the host consists of URI
   characters only — in particular of bytes HeaderValue::from_str accepts *)
Definition req_wf_b (q : request) : bool :=
  uri_wf_b (r_uri (q_req q))
  && match u_host (r_uri (q_req q)) with Some h => header_value_ok h | None => true end.

(* the request path on the record type: records that are not the image of an http::Request are
   reported as such *)
Definition client_path (e : entry) (tk : transport_kind) (q : request) : outcome :=
  if req_wf_b q then client_path_raw e tk q else Err EIllTyped.
