(* Correspondence for C17: the model's outcome class against what the real crate did. *)
From HD Require Import common.Base http.Model http.Spec tls.Model panic.Model panic.Spec.
Local Open Scope string_scope.

Definition class_of (o : outcome) : oclass :=
  match o with
  | Sent w => OSent (w_proto w) (r_method (w_req w)) (r_version (w_req w)) (r_uri (w_req w))
                    (values_of "host" (r_headers (w_req w)))
  | Err e => OErr e
  | Panic s => OPanic "model"
  end.

Definition model_class (c : case) : oclass :=
  class_of (client_path (c_entry c) (c_transport c) (c_request c)).

(* the model does not distinguish build profiles: debug_assert! sites are treated as live *)
Definition model_obs (c : case) : obs := mkObs (model_class c) (model_class c).

Definition proto_eqb (a b : proto) : bool := match a, b with PH1, PH1 | PH2, PH2 => true | _, _ => false end.

Definition perr_eqb (a b : perr) : bool :=
  match a, b with
  | EInvalidUri, EInvalidUri | EUnsupportedProtocol, EUnsupportedProtocol | ENoDomain, ENoDomain
  | ETlsHandshake, ETlsHandshake | ETransport, ETransport | ETcpUri, ETcpUri
  | EInvalidMethod, EInvalidMethod | EProtocol, EProtocol | EIllTyped, EIllTyped => true
  | _, _ => false
  end.

Definition oclass_eqb (a b : oclass) : bool :=
  match a, b with
  | OSent p1 m1 v1 u1 h1, OSent p2 m2 v2 u2 h2 =>
      proto_eqb p1 p2 && String.eqb m1 m2 && hver_eqb v1 v2 && uri_eqb u1 u2 && list_eqb String.eqb h1 h2
  | OErr e1, OErr e2 => perr_eqb e1 e2
  | OErrOther, OErrOther => true
  | OPanic _, OPanic _ => true
  | OHang, OHang => true
  | _, _ => false
  end.

Definition obs_eqb (a b : obs) : bool :=
  oclass_eqb (o_debug a) (o_debug b) && oclass_eqb (o_release a) (o_release b).

Definition mon (c : case) (o : obs) : bool := mon_C17 c o.

Definition check_all (cs : list (case * obs)) : list N * list N :=
  (falses (map (fun co => obs_eqb (model_obs (fst co)) (snd co)) cs),
   falses (map (fun co => mon (fst co) (snd co)) cs)).
