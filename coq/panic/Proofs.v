(* Proofs for C17: no Panic outcome on the whole request type; the panic-explicit layer stack and
   transport decision refine M-HTTP and M-TLS (so the C13 / C12 theorems speak about the same path). *)
From HD Require Import common.Base http.Model http.Spec http.Proofs tls.Model tls.Spec tls.Proofs.
From HD Require Import panic.Model panic.Spec panic.Corr.
From Coq Require Import DecimalString.
Local Open Scope string_scope.

(* ---- header values built from a URI host ---- *)
Lemma header_value_ok_app a b : header_value_ok (a ++ b) = header_value_ok a && header_value_ok b.
Proof.
  induction a as [|c t IH]; cbn [append header_value_ok]; [reflexivity|].
  rewrite IH, andb_assoc. reflexivity.
Qed.

Lemma digits_ok d : header_value_ok (NilEmpty.string_of_uint d) = true.
Proof. induction d as [|d IH|d IH|d IH|d IH|d IH|d IH|d IH|d IH|d IH|d IH]; cbn [NilEmpty.string_of_uint header_value_ok];
  [reflexivity|..]; rewrite IH; reflexivity. Qed.

Lemma port_string_ok n : header_value_ok (port_string n) = true.
Proof.
  unfold port_string, NilZero.string_of_uint.
  destruct (N.to_uint n) as [|d|d|d|d|d|d|d|d|d|d]; [reflexivity|..]; cbv beta iota; apply digits_ok.
Qed.

Lemma host_value_ok u h : header_value_ok h = true -> header_value_ok (host_value u h) = true.
Proof.
  intros Hh. unfold host_value. destruct (get_non_default_port u) as [p|] eqn:Hp; [|exact Hh].
  rewrite !header_value_ok_app, Hh. cbn [header_value_ok andb].
  unfold get_non_default_port in Hp. destruct (u_port u) as [[repr n]|]; [|discriminate].
  destruct ((N.eqb n 443 && is_schema_secure u) || (N.eqb n 80 && negb (is_schema_secure u))); [discriminate|].
  injection Hp as <-. rewrite port_string_ok. reflexivity.
Qed.

(* the O7 fact the path relies on, per request *)
Definition host_wf (r : req) : Prop :=
  match u_host (r_uri r) with Some h => header_value_ok h = true | None => True end.

Lemma req_wf_host q : req_wf_b q = true -> host_wf (q_req q).
Proof.
  unfold req_wf_b, host_wf. intros H. apply andb_true_iff in H. destruct H as [_ H].
  destruct (u_host (r_uri (q_req q))); [exact H|exact I].
Qed.

(* ---- per-site lemmas ---- *)
(* protocol/mod.rs:168 — the site is live in From<Version> (exactly for HTTP/3) ... *)
Lemma site_from_version_live v : proto_from_version v = RPanic SFromVersion <-> v = V3.
Proof. destruct v; cbn; split; intros H; try discriminate; reflexivity. Qed.
(* ... and the path does not go through it *)
Lemma site_from_version_off_path v s : proto_for_request v <> RPanic s.
Proof. unfold proto_for_request. destruct (for_version v); discriminate. Qed.

Lemma key_of_no_panic u s : key_of u <> RPanic s.
Proof. unfold key_of. destruct (u_scheme u); discriminate. Qed.

Lemma base_connect_no_panic b u s : base_connect b u <> RPanic s.
Proof. unfold base_connect. destruct b as [|d]; [discriminate|]. destruct (get_host_and_port u); [destruct d|]; discriminate. Qed.

Lemma dial_no_panic tk u s : dial tk u <> RPanic s.
Proof.
  unfold dial. destruct (base_connect (tk_base tk) u) as [[]|e|s'] eqn:E; cbn [rbind].
  - destruct (tk_tls tk) as [e|]; [destruct (te_fault e)|]; discriminate.
  - discriminate.
  - exfalso. exact (base_connect_no_panic _ _ _ E).
Qed.

(* stream/tls.rs:108 — TlsStream::new's expect is behind the server-name test of TlsTransportWrapper::call *)
Lemma site_tls_server_name tk q s : transport_connect tk q <> RPanic s.
Proof.
  unfold transport_connect.
  destruct (tk_tls tk) as [e|] eqn:Et.
  - destruct (secure (u_scheme (r_uri (q_req q)))).
    + destruct (u_host (r_uri (q_req q))); [|discriminate].
      destruct (server_name_ok (q_hk q)) eqn:Hk; cbn [negb]; [|discriminate].
      destruct (dial tk (r_uri (q_req q))) as [[]|e'|s'] eqn:Ed; cbn [rbind]; [|discriminate|exfalso; exact (dial_no_panic _ _ _ Ed)].
      unfold tls_stream_new. rewrite Hk. cbn [rbind].
      destruct (handshake_ok (tcase_of tk q)); discriminate.
    + destruct (dial tk (r_uri (q_req q))) as [[]|e'|s'] eqn:Ed; cbn [rbind]; [discriminate|discriminate|exfalso; exact (dial_no_panic _ _ _ Ed)].
  - destruct (dial tk (r_uri (q_req q))) as [[]|e'|s'] eqn:Ed; cbn [rbind]; [discriminate|discriminate|exfalso; exact (dial_no_panic _ _ _ Ed)].
Qed.

(* the expect in TlsStream::new is live: without the guard an invalid name panics *)
Lemma site_tls_server_name_live k : tls_stream_new k = RPanic STlsServerName <-> k = HInvalid.
Proof. destruct k; cbn; split; intros H; try discriminate; reflexivity. Qed.

Lemma connector_no_panic tk q p s : connector tk q p <> RPanic s.
Proof.
  unfold connector. destruct (transport_connect tk q) as [a|e|s'] eqn:E; cbn [rbind]; [discriminate|discriminate|].
  exfalso. exact (site_tls_server_name _ _ _ E).
Qed.

(* host.rs:43 and host.rs:50 *)
Lemma site_host_header r s : host_wf r -> set_host_header_p r <> RPanic s.
Proof.
  unfold host_wf, set_host_header_p. destruct (u_host (r_uri r)) as [h|]; [|discriminate].
  intros Hh. destruct (has_header "host" (r_headers r)); [discriminate|].
  rewrite (host_value_ok _ _ Hh). discriminate.
Qed.

(* http.rs:207 *)
Lemma site_authority_form u s : authority_form_p u <> RPanic s.
Proof. unfold authority_form_p. destruct (u_auth u); cbn; discriminate. Qed.

(* http.rs:233, http.rs:236 *)
Lemma site_origin_form u s : origin_form_p u <> RPanic s.
Proof.
  unfold origin_form_p, origin_default. destruct (u_pq u) as [p|]; [destruct (String.eqb p "/")|]; cbn; discriminate.
Qed.

Lemma check_http2_p_no_panic conn r s : check_http2_p conn r <> RPanic s.
Proof. unfold check_http2_p. destruct conn; [discriminate|]. destruct (String.eqb (r_method r) "CONNECT"); discriminate. Qed.

Lemma check_http1_p_no_panic conn r s : check_http1_p conn r <> RPanic s.
Proof.
  unfold check_http1_p. destruct conn; [|discriminate].
  destruct (String.eqb (r_method r) "CONNECT").
  - destruct (authority_form_p (r_uri r)) as [u|e|s'] eqn:E; cbn [rbind]; [discriminate|discriminate|].
    exfalso. exact (site_authority_form _ _ E).
  - destruct (u_scheme (r_uri r)); [|discriminate]. destruct (u_auth (r_uri r)); [|discriminate].
    destruct (origin_form_p (r_uri r)) as [u|e|s'] eqn:E; cbn [rbind]; [discriminate|discriminate|].
    exfalso. exact (site_origin_form _ _ E).
Qed.

Lemma layers_p_no_panic conn r s : host_wf r -> layers_p conn r <> RPanic s.
Proof.
  intros Hwf. unfold layers_p.
  assert (H0 : forall s', (match conn with PH1 => set_host_header_p r | PH2 => ROk r end) <> RPanic s').
  { intros s'. destruct conn; [apply site_host_header; exact Hwf|discriminate]. }
  destruct (match conn with PH1 => set_host_header_p r | PH2 => ROk r end) as [r1|e|s'] eqn:E1; cbn [rbind];
    [|discriminate|exfalso; exact (H0 _ eq_refl)].
  destruct (check_http2_p conn r1) as [r2|e|s'] eqn:E2; cbn [rbind];
    [|discriminate|exfalso; exact (check_http2_p_no_panic _ _ _ E2)].
  apply check_http1_p_no_panic.
Qed.

Lemma lower_no_panic stack conn r s : host_wf r -> lower stack conn r <> Panic s.
Proof.
  intros Hwf. unfold lower. destruct stack.
  - destruct (layers_p conn r) as [r'|e|s'] eqn:E; [discriminate|discriminate|].
    exfalso. exact (layers_p_no_panic _ _ _ Hwf E).
  - discriminate.
Qed.

(* ---- the three services ---- *)
Lemma pool_service_no_panic pool tk q s : host_wf (q_req q) -> pool_service pool tk q <> Panic s.
Proof.
  intros Hwf. unfold pool_service.
  destruct (key_of (r_uri (q_req q))) as [k|e|s'] eqn:Ek; [|discriminate|exfalso; exact (key_of_no_panic _ _ Ek)].
  destruct (proto_for_request (r_version (q_req q))) as [p|e|s'] eqn:Ep;
    [|discriminate|exfalso; exact (site_from_version_off_path _ _ Ep)].
  unfold checkout, with_conn.
  destruct (connector tk q p) as [c|e|s'] eqn:Ec; [|discriminate|exfalso; exact (connector_no_panic _ _ _ _ Ec)].
  apply lower_no_panic. exact Hwf.
Qed.

Lemma connector_service_no_panic stack tk q s : host_wf (q_req q) -> connector_service stack tk q <> Panic s.
Proof.
  intros Hwf. unfold connector_service.
  destruct (proto_for_request (r_version (q_req q))) as [p|e|s'] eqn:Ep;
    [|discriminate|exfalso; exact (site_from_version_off_path _ _ Ep)].
  unfold with_conn.
  destruct (connector tk q p) as [c|e|s'] eqn:Ec; [|discriminate|exfalso; exact (connector_no_panic _ _ _ _ Ec)].
  apply lower_no_panic. exact Hwf.
Qed.

Lemma client_layers_uri q : r_uri (q_req (client_layers q)) = r_uri (q_req q).
Proof. unfold client_layers. destruct (has_header "user-agent" (r_headers (q_req q))); reflexivity. Qed.

(* under the O7 facts no panic site is reached, from any entry point over any transport *)
Theorem client_path_raw_no_panic e tk q s : req_wf_b q = true -> client_path_raw e tk q <> Panic s.
Proof.
  intros Hwf. apply req_wf_host in Hwf. unfold client_path_raw. destruct e as [pool|pool|stack].
  - apply pool_service_no_panic. unfold host_wf. rewrite client_layers_uri. exact Hwf.
  - apply pool_service_no_panic. exact Hwf.
  - apply connector_service_no_panic. exact Hwf.
Qed.

(* ... and on the whole record type *)
Theorem client_path_no_panic e tk q s : client_path e tk q <> Panic s.
Proof.
  unfold client_path. destruct (req_wf_b q) eqn:Hwf; [|discriminate].
  apply client_path_raw_no_panic. exact Hwf.
Qed.

(* every request gets an answer: an error or a request on the wire *)
Theorem client_path_total e tk q : (exists err, client_path e tk q = Err err) \/ (exists w, client_path e tk q = Sent w).
Proof.
  destruct (client_path e tk q) as [s|err|w] eqn:E.
  - exfalso. exact (client_path_no_panic _ _ _ _ E).
  - left. eauto.
  - right. eauto.
Qed.

(* the model satisfies the C17 monitor in both build profiles *)
Theorem model_mon c : mon_C17 c (model_obs c) = true.
Proof.
  unfold mon_C17, model_obs, model_class. cbn [o_debug o_release].
  destruct (client_path (c_entry c) (c_transport c) (c_request c)) as [s|err|w] eqn:E; cbn; [|reflexivity|reflexivity].
  exfalso. exact (client_path_no_panic _ _ _ _ E).
Qed.

(* ---- refinement: the panic-explicit functions are M-HTTP's and M-TLS's ---- *)
Definition to_http (x : res req) : HD.http.Model.outcome :=
  match x with
  | ROk r => HD.http.Model.Sent r
  | RErr EInvalidMethod => HD.http.Model.ErrInvalidMethod
  | RErr EProtocol => HD.http.Model.ErrProtocol
  | RErr _ => HD.http.Model.Panic "foreign error"
  | RPanic _ => HD.http.Model.Panic "panic"
  end.

Lemma set_host_header_p_refines r : host_wf r -> set_host_header_p r = ROk (set_host_header r).
Proof.
  unfold host_wf, set_host_header_p, set_host_header. destruct (u_host (r_uri r)) as [h|]; [|reflexivity].
  intros Hh. destruct (has_header "host" (r_headers r)); [reflexivity|].
  rewrite (host_value_ok _ _ Hh). reflexivity.
Qed.

Theorem layers_p_refines conn r : host_wf r -> to_http (layers_p conn r) = layers conn r.
Proof.
  intros Hwf. unfold layers_p, layers. destruct conn.
  - rewrite (set_host_header_p_refines _ Hwf). cbn [rbind check_http2_p check_http2].
    set (r1 := set_host_header r). unfold check_http1_p, check_http1.
    destruct (String.eqb (r_method r1) "CONNECT").
    + unfold authority_form_p, authority_form. destruct (u_auth (r_uri r1)); reflexivity.
    + destruct (u_scheme (r_uri r1)); [|reflexivity]. destruct (u_auth (r_uri r1)); [|reflexivity].
      unfold origin_form_p, origin_default, origin_form, slash_uri.
      destruct (u_pq (r_uri r1)) as [p|]; [destruct (String.eqb p "/")|]; reflexivity.
  - cbn [rbind check_http2_p check_http2]. destruct (String.eqb (r_method r) "CONNECT"); reflexivity.
Qed.

Lemma base_connect_err b u e : base_connect b u = RErr e -> e = ETcpUri \/ e = ETransport.
Proof.
  unfold base_connect. destruct b as [|d]; [discriminate|].
  destruct (get_host_and_port u); [destruct d|]; intros H; inversion H; auto.
Qed.

Theorem transport_connect_refines tk q :
  match transport_connect tk q, tls_connect (tcase_of tk q) with
  | ROk NoTls, OkPlain => True
  | ROk a, OkTls _ a' => a = alpn_of a'
  | RErr ENoDomain, ErrNoDomain => True
  | RErr ETlsHandshake, ErrHs => True
  | RErr ETcpUri, ErrConn | RErr ETransport, ErrConn => True
  | _, _ => False
  end.
Proof.
  unfold transport_connect, tls_connect, use_tls, dial.
  destruct (tk_tls tk) as [e|] eqn:Et.
  - assert (Hs : t_scheme (tcase_of tk q) = u_scheme (r_uri (q_req q))) by (unfold tcase_of; rewrite Et; reflexivity).
    assert (Hc : t_configured (tcase_of tk q) = true) by (unfold tcase_of; rewrite Et; reflexivity).
    assert (Hh : t_host (tcase_of tk q) = u_host (r_uri (q_req q))) by (unfold tcase_of; rewrite Et; reflexivity).
    assert (Hk : t_hk (tcase_of tk q) = q_hk q) by (unfold tcase_of; rewrite Et; reflexivity).
    assert (Hf : t_fault (tcase_of tk q) =
                 match base_connect (tk_base tk) (r_uri (q_req q)) with ROk _ => te_fault e | _ => FTransport end)
      by (unfold tcase_of; rewrite Et; reflexivity).
    rewrite Hc, Hs, Hh, Hk. cbn [andb]. fold (secure (u_scheme (r_uri (q_req q)))).
    destruct (secure (u_scheme (r_uri (q_req q)))).
    + destruct (u_host (r_uri (q_req q))) as [h|]; [|exact I].
      destruct (q_hk q) eqn:Hq; cbn [server_name_ok negb]; try exact I;
        (destruct (base_connect (tk_base tk) (r_uri (q_req q))) as [[]|e'|s'] eqn:Eb; cbn [rbind];
         [ rewrite Hf; destruct (te_fault e) eqn:Ef; cbn [rbind tls_stream_new server_name_ok];
           try exact I; destruct (handshake_ok (tcase_of tk q)); try exact I;
           destruct (negotiated (tcase_of tk q)); reflexivity
         | rewrite Hf; destruct (base_connect_err _ _ _ Eb) as [-> | ->]; exact I
         | exfalso; exact (base_connect_no_panic _ _ _ Eb) ]).
    + rewrite Hf.
      destruct (base_connect (tk_base tk) (r_uri (q_req q))) as [[]|e'|s'] eqn:Eb; cbn [rbind].
      * destruct (te_fault e); exact I.
      * destruct (base_connect_err _ _ _ Eb) as [-> | ->]; exact I.
      * exfalso. exact (base_connect_no_panic _ _ _ Eb).
  - assert (Hc : t_configured (tcase_of tk q) = false) by (unfold tcase_of; rewrite Et; reflexivity).
    assert (Hf : t_fault (tcase_of tk q) =
                 match base_connect (tk_base tk) (r_uri (q_req q)) with ROk _ => FNone | _ => FTransport end)
      by (unfold tcase_of; rewrite Et; reflexivity).
    rewrite Hc, Hf. cbn [andb].
    destruct (base_connect (tk_base tk) (r_uri (q_req q))) as [[]|e'|s'] eqn:Eb; cbn [rbind].
    + exact I.
    + destruct (base_connect_err _ _ _ Eb) as [-> | ->]; exact I.
    + exfalso. exact (base_connect_no_panic _ _ _ Eb).
Qed.
