(* Executable specification (monitor) for C17, over observables only.

   A case is a request value sent through one entry point over one transport; the observation is
   what the real crate did with it in a debug build (debug_assert! live) and in a release build:
   the request reached Connection::send_request, the caller got an error before that, a panic was
   seen (by the panic hook in any task or thread spawned for the request, or unwinding out of the
   caller's future), or the caller's future did not resolve.

   C17: "sending it through the client, the pooled service or the plain connector service returns
   a response or an error to the caller.  It never panics, whether in the caller's task or in a
   task the library spawned for that request."  Errors are fine; nothing else is demanded. *)
From HD Require Import common.Base http.Model tls.Model panic.Model.
Local Open Scope string_scope.

Record case := mkCase { c_entry : entry; c_transport : transport_kind; c_request : request }.

Inductive oclass :=
| OSent (p : proto) (method : string) (v : hver) (u : uri) (hosts : list string)
        (* handed to Connection::send_request on a connection speaking p; the caller then got a
           response or an error from hyper (either is fine) *)
| OErr (e : perr)                (* the caller got this error class before anything was sent *)
| OErrOther                      (* an error outside the model's classes *)
| OPanic (where_ : string)       (* file:line message *)
| OHang.                         (* neither response nor error within the harness deadline *)

Record obs := mkObs { o_debug : oclass; o_release : oclass }.

Definition returns_without_panic (o : oclass) : bool :=
  match o with
  | OPanic _ => false            (* it panicked *)
  | OHang => false               (* neither a response nor an error came back *)
  | OSent _ _ _ _ _ | OErr _ | OErrOther => true
  end.

Definition mon_C17 (c : case) (o : obs) : bool :=
  returns_without_panic (o_debug o) && returns_without_panic (o_release o).
