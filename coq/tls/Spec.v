(* C12 monitor: with TLS configured, https/wss traffic is never sent in the clear. *)
From HD Require Import common.Base http.Model tls.Model.
Local Open Scope string_scope.

Definition secure_scheme (c : tcase) : bool :=
  match t_scheme c with Some s => eq_ci s "https" || eq_ci s "wss" | None => false end.

Definition alpn_eqb (a b : alpnopt) : bool :=
  match a, b with ANone, ANone | AH2, AH2 | AH11, AH11 => true | _, _ => false end.

(* [panic]: the connect future panicked *)
Definition mon_C12 (c : tcase) (panic : bool) (r : option tres) (first : wire) (marker : bool) : bool :=
  negb panic &&
  if negb (t_configured c) then true else           (* property is about a configured transport *)
  if secure_scheme c then
    (* never plaintext, never an unverified or faulty handshake accepted, fail closed *)
    negb marker
    && match first with WAscii => false | _ => true end
    && match r with
       | Some (OkTls sni _) =>
           handshake_ok c
           && match t_host c, t_hk c with
              | Some h, HDns => option_eqb eq_ci sni (Some (strip_brackets h))   (* server name offered = URI host *)
              | Some _, HIp => match sni with None => true | Some _ => false end  (* no SNI for IP literals (RFC 6066) *)
              | _, _ => false
              end
       | Some OkPlain => false
       | Some _ => true
       | None => false
       end
    && (handshake_ok c || match r with Some (OkTls _ _) => false | _ => true end)
  else
    (* other schemes are not wrapped *)
    match r with Some (OkTls _ _) => false | Some _ => true | None => false end
    && match first with WTls => false | _ => true end.
