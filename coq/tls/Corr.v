From HD Require Import common.Base http.Model tls.Model tls.Spec.
Local Open Scope string_scope.

Definition case := tcase.
Record obs := mkObs { o_panic : bool; o_res : option tres; o_first : wire; o_marker : bool }.

Definition model_obs (c : case) : obs :=
  mkObs false (Some (tls_connect c)) (wire_first c) (marker_in_clear c).

Definition tres_eqb (a b : tres) : bool :=
  match a, b with
  | OkTls s1 a1, OkTls s2 a2 => option_eqb eq_ci s1 s2 && alpn_eqb a1 a2
  | OkPlain, OkPlain | ErrConn, ErrConn | ErrHs, ErrHs | ErrNoDomain, ErrNoDomain => true
  | _, _ => false
  end.
Definition wire_eqb (a b : wire) : bool :=
  match a, b with WTls, WTls | WAscii, WAscii | WNothing, WNothing => true | _, _ => false end.

Definition obs_eqb (a b : obs) : bool :=
  Bool.eqb (o_panic a) (o_panic b) && option_eqb tres_eqb (o_res a) (o_res b)
  && wire_eqb (o_first a) (o_first b) && Bool.eqb (o_marker a) (o_marker b).

Definition mon (c : case) (o : obs) : bool := mon_C12 c (o_panic o) (o_res o) (o_first o) (o_marker o).

Definition check_all (cs : list (case * obs)) : list N * list N :=
  (falses (map (fun co => obs_eqb (model_obs (fst co)) (snd co)) cs),
   falses (map (fun co => mon (fst co) (snd co)) cs)).
