From HD Require Import common.Base http.Model tls.Model tls.Spec.
Local Open Scope string_scope.

Lemma eq_ci_refl' s : eq_ci s s = true.
Proof. unfold eq_ci. apply String.eqb_refl. Qed.

Lemma lower_ascii_idem c : lower_ascii (lower_ascii c) = lower_ascii c.
Proof. destruct c as [[] [] [] [] [] [] [] []]; vm_compute; reflexivity. Qed.

Lemma lower_idem s : lower (lower s) = lower s.
Proof. induction s as [|c t IH]; cbn [lower]; [reflexivity|]. rewrite lower_ascii_idem, IH. reflexivity. Qed.

Lemma eq_ci_lower s : eq_ci (lower s) s = true.
Proof. unfold eq_ci. rewrite lower_idem. apply String.eqb_refl. Qed.

(* the model satisfies the monitor: for every configuration, scheme, host form, certificate,
   ALPN offer and fault *)
Theorem tls_mon c :
  mon_C12 c false (Some (tls_connect c)) (wire_first c) (marker_in_clear c) = true.
Proof.
  unfold mon_C12, tls_connect, wire_first, marker_in_clear, use_tls. fold (secure_scheme c).
  destruct (t_configured c); cbn [negb andb]; [|reflexivity].
  destruct (secure_scheme c); cbn [negb andb].
  - destruct (t_host c) as [h|]; [|rewrite ?orb_true_r; reflexivity].
    destruct (t_hk c), (t_fault c); cbn [andb orb];
      destruct (handshake_ok c) eqn:Hh; cbn [andb orb option_eqb]; rewrite ?eq_ci_lower; reflexivity.
  - destruct (t_fault c); reflexivity.
Qed.

(* Prop-level readings *)
Theorem tls_no_plain c r :
  t_configured c = true -> secure_scheme c = true -> tls_connect c = r ->
  match r with
  | OkPlain => False
  | OkTls _ _ => handshake_ok c = true /\ marker_in_clear c = false
  | _ => True
  end.
Proof.
  intros Hc Hs <-. unfold tls_connect, marker_in_clear, use_tls. fold (secure_scheme c). rewrite Hc, Hs. cbn [andb negb].
  destruct (t_host c); [|exact I]. destruct (t_hk c), (t_fault c); try exact I;
    destruct (handshake_ok c); auto.
Qed.

Theorem tls_fail_closed c :
  t_configured c = true -> secure_scheme c = true -> handshake_ok c = false ->
  match tls_connect c with OkTls _ _ | OkPlain => False | _ => True end.
Proof.
  intros Hc Hs Hh. unfold tls_connect, use_tls. fold (secure_scheme c). rewrite Hc, Hs. cbn [andb].
  destruct (t_host c); [|exact I]. destruct (t_hk c), (t_fault c); try exact I; rewrite Hh; exact I.
Qed.

Theorem tls_other_schemes_plain c :
  secure_scheme c = false -> match tls_connect c with OkTls _ _ => False | _ => True end.
Proof.
  intros Hs. unfold tls_connect, use_tls. fold (secure_scheme c). rewrite Hs, andb_false_r.
  destruct (t_fault c); exact I.
Qed.

Theorem tls_hosthdr_irrelevant cfgd s h hh1 hh2 m1 m2 k cov ce sa ca f :
  let c1 := mkTls cfgd s h hh1 m1 k cov ce sa ca f in
  let c2 := mkTls cfgd s h hh2 m2 k cov ce sa ca f in
  tls_connect c1 = tls_connect c2 /\ wire_first c1 = wire_first c2 /\ marker_in_clear c1 = marker_in_clear c2.
Proof. cbv zeta. repeat split; reflexivity. Qed.
