(* M-TLS: model of the TLS-or-plain decision and the connect future
     src/client/conn/transport/mod.rs  TlsTransport::call (scheme test, braid variant)
     src/client/conn/transport/tls.rs  TlsTransportWrapper::call (host -> server name, NoDomain,
                                       invalid name), TlsConnectionFuture::poll
                                       (Connecting -> Handshake -> Ok | Err)
     src/client/conn/stream/tls.rs     TlsStream::new / handshake (tls_info only after the handshake)
   rustls is oracle O6: [hk] is its classification of the bracket-stripped host as a server name,
   and a handshake succeeds exactly when nothing is injected, the certificate chains to a trusted
   root and covers the name. *)
From HD Require Import common.Base http.Model.
Local Open Scope string_scope.

Inductive cert := CGood | CWrongName | CUntrusted.
Inductive fault := FNone | FClose | FPlaintext | FTruncate | FTransport.
Inductive hostkind := HDns | HIp | HInvalid.
Inductive alpnopt := ANone | AH2 | AH11.

Record tcase := mkTls {
  t_configured : bool;             (* transport has a TLS configuration *)
  t_scheme : option string;
  t_host : option string;          (* uri.host(): IPv6 literals bracketed *)
  t_hosthdr : option string;       (* Host header already present in the request parts handed to the
                                      transport (set by the caller); no function below reads it: the
                                      server name offered and checked is the URI host whatever it says *)
  t_connect : bool;                (* the request method is CONNECT: no function below reads it; the hop to the URI host
                                      is secured by the URI scheme whatever the method *)
  t_hk : hostkind;                 (* O6 *)
  t_covered : bool;                (* the certificate the server presents covers the URI host [t_host] (O6) *)
  t_cert : cert;
  t_salpn : alpnopt;               (* server ALPN list: none | h2,http/1.1 | http/1.1 *)
  t_calpn : alpnopt;               (* client ALPN list: none | h2,http/1.1 *)
  t_fault : fault
}.

Inductive tres :=
| OkTls (sni : option string) (alpn : alpnopt)
| OkPlain
| ErrConn | ErrHs | ErrNoDomain.

(* what the peer sees *)
Inductive wire := WTls | WAscii | WNothing.

Definition use_tls (c : tcase) : bool :=
  t_configured c && match t_scheme c with Some s => eq_ci s "https" || eq_ci s "wss" | None => false end.

Fixpoint strip_trailing (b : ascii) (s : string) : string :=
  match s with
  | EmptyString => EmptyString
  | String c EmptyString => if Ascii.eqb c b then EmptyString else s
  | String c t => String c (strip_trailing b t)
  end.
Definition strip_brackets (s : string) : string :=
  let s1 := match s with String c t => if Ascii.eqb c "["%char then t else s | _ => s end in
  strip_trailing "]"%char s1.

Definition handshake_ok (c : tcase) : bool :=
  match t_fault c, t_cert c with
  | FNone, CGood | FNone, CWrongName => t_covered c    (* both chain to the trusted root; they differ in their names *)
  | _, _ => false
  end.

Definition negotiated (c : tcase) : alpnopt :=
  match t_calpn c, t_salpn c with
  | AH2, AH2 => AH2
  | AH2, AH11 => AH11
  | _, _ => ANone
  end.

Definition tls_connect (c : tcase) : tres :=
  if use_tls c then
    match t_host c with
    | None => ErrNoDomain
    | Some h =>
        match t_hk c with
        | HInvalid => ErrHs                                   (* rejected before dialing *)
        | k =>
            match t_fault c with
            | FTransport => ErrConn
            | _ => if handshake_ok c
                   then OkTls (match k with HDns => Some (lower (strip_brackets h)) | _ => None end) (negotiated c)
                   else ErrHs
            end
        end
    end
  else
    match t_fault c with FTransport => ErrConn | _ => OkPlain end.

(* first bytes the peer receives, and whether application bytes written after a successful
   connect are visible to it in the clear *)
Definition wire_first (c : tcase) : wire :=
  if use_tls c then
    match t_host c, t_hk c, t_fault c with
    | None, _, _ | _, HInvalid, _ | _, _, FTransport => WNothing
    | _, _, _ => WTls
    end
  else match t_fault c with FTransport => WNothing | _ => WAscii end.

Definition marker_in_clear (c : tcase) : bool :=
  negb (use_tls c) && match t_fault c with FTransport => false | _ => true end.
