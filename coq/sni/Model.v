(* M-SNI: model of src/server/conn/tls/sni.rs  handle()  (the ValidateSNI middleware).
   Host values are raw strings; the host part is extracted as http::uri::Authority::host does
   (drop userinfo up to the last '@'; a bracketed literal up to and including ']'; otherwise up
   to the first ':').  Whether a raw value parses as an Authority at all is oracle O7: the
   harness passes None for values the http crate rejects. *)
From HD Require Import common.Base http.Model.
Local Open Scope string_scope.

Definition at_sign : ascii := "@"%char.
Definition colon : ascii := ":"%char.
Definition lbracket : ascii := "["%char.
Definition rbracket : ascii := "]"%char.

(* part after the last '@' *)
Fixpoint after_last_at (s acc : string) : string :=
  match s with
  | EmptyString => acc
  | String c t => if Ascii.eqb c at_sign then after_last_at t t else after_last_at t acc
  end.

Fixpoint until_char (stop : ascii) (s : string) : string :=
  match s with
  | EmptyString => EmptyString
  | String c t => if Ascii.eqb c stop then EmptyString else String c (until_char stop t)
  end.

Fixpoint through_char (stop : ascii) (s : string) : string :=
  match s with
  | EmptyString => EmptyString
  | String c t => if Ascii.eqb c stop then String c EmptyString else String c (through_char stop t)
  end.

(* Authority::host *)
Definition auth_host (raw : string) : string :=
  let hp := after_last_at raw raw in
  match hp with
  | String c _ => if Ascii.eqb c lbracket then through_char rbracket hp else until_char colon hp
  | EmptyString => EmptyString
  end.

Record sreq := mkSreq {
  s_h2 : bool;                         (* request version is HTTP/2 *)
  s_hdr_host : option string;          (* first Host header value that parses as an authority *)
  s_uri_auth : option string;          (* URI authority *)
  s_tls : option (option string);      (* TLS info present? with the SNI that parses as an authority *)
  s_premarked : bool                   (* the TLS info arrives with its validated flag already set (stacked
                                          layers, re-dispatched extensions): it must not decide anything *)
}.

Inductive sres := Forward (validated : bool) | RejectInvalid | RejectMissing.

Definition orelse {A} (a b : option A) : option A := match a with Some _ => a | None => b end.

(* the host the request names *)
Definition named_host (r : sreq) : option string :=
  option_map auth_host (if s_h2 r then orelse (s_uri_auth r) (s_hdr_host r) else s_hdr_host r).

Definition handle (r : sreq) : sres :=
  match s_tls r with
  | None => Forward false                       (* not a TLS connection *)
  | Some None => RejectMissing
  | Some (Some sni) =>
      match named_host r with
      | Some h => if eq_ci h (auth_host sni) then Forward true else RejectInvalid
      | None => Forward (s_premarked r)          (* names no host: passed on untouched *)
      end
  end.
