From HD Require Import common.Base http.Model sni.Model sni.Spec.
Local Open Scope string_scope.

(* the raw strings come with the http crate's own host() so that the model's auth_host is
   checked against the oracle on every case *)
Record case := mkCase {
  k_req : sreq;
  k_oracle_hdr : option string;     (* Authority::host of the Host header, per the http crate *)
  k_oracle_uri : option string;
  k_oracle_sni : option string
}.

Inductive obs := OBad | ORes (r : sres).

Definition oracle_ok (k : case) : bool :=
  option_eqb String.eqb (option_map auth_host (s_hdr_host (k_req k))) (k_oracle_hdr k)
  && option_eqb String.eqb (option_map auth_host (s_uri_auth (k_req k))) (k_oracle_uri k)
  && option_eqb String.eqb
       (match s_tls (k_req k) with Some (Some n) => Some (auth_host n) | _ => None end) (k_oracle_sni k).

Definition model_obs (k : case) : obs := if oracle_ok k then ORes (handle (k_req k)) else OBad.

Definition obs_eqb (a b : obs) : bool :=
  match a, b with ORes x, ORes y => sres_eqb x y | _, _ => false end.

Definition mon (k : case) (o : obs) : bool :=
  match o with ORes r => mon_C20 (k_req k) r | OBad => false end.

Definition check_all (cs : list (case * obs)) : list N * list N :=
  (falses (map (fun co => obs_eqb (model_obs (fst co)) (snd co)) cs),
   falses (map (fun co => mon (fst co) (snd co)) cs)).
