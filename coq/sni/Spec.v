(* C20 monitor: forwarded only if the named host equals the TLS server name (case-insensitively,
   port ignored) and then marked validated; rejected when the names differ or no server name was
   sent; a matching host is never rejected. *)
From HD Require Import common.Base http.Model sni.Model.
Local Open Scope string_scope.

Definition sres_eqb (a b : sres) : bool :=
  match a, b with
  | Forward x, Forward y => Bool.eqb x y
  | RejectInvalid, RejectInvalid | RejectMissing, RejectMissing => true
  | _, _ => false
  end.

(* host the request names, per the property text: Host header; for HTTP/2 the authority or,
   failing that, the Host header; port and userinfo ignored *)
Definition spec_host (r : sreq) : option string :=
  let raw := if s_h2 r then match s_uri_auth r with Some a => Some a | None => s_hdr_host r end
             else s_hdr_host r in
  option_map auth_host raw.

Definition mon_C20 (r : sreq) (o : sres) : bool :=
  match s_tls r with
  | None => match o with Forward _ => true | _ => false end      (* not over TLS: not our business *)
  | Some sni =>
      match spec_host r, sni with
      | Some h, Some n =>
          if eq_ci h (auth_host n) then sres_eqb o (Forward true)      (* equal: never rejected, validated *)
          else sres_eqb o RejectInvalid                                 (* differ: rejected *)
      | Some h, None => sres_eqb o RejectMissing                        (* no server name: rejected *)
      | None, Some _ => match o with Forward b => implb b (s_premarked r) | _ => false end   (* names no host: never marked validated by this layer *)
      | None, None => match o with Forward true => false | _ => true end
      end
  end.
