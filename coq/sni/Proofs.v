From HD Require Import common.Base http.Model sni.Model sni.Spec.
Local Open Scope string_scope.

Lemma sres_eqb_refl o : sres_eqb o o = true.
Proof. destruct o as [[|]| |]; reflexivity. Qed.

Lemma named_host_spec r : named_host r = spec_host r.
Proof. unfold named_host, spec_host, orelse. destruct (s_h2 r), (s_uri_auth r); reflexivity. Qed.

(* the middleware satisfies the monitor for every request *)
Theorem handle_mon r : mon_C20 r (handle r) = true.
Proof.
  unfold mon_C20, handle. rewrite named_host_spec.
  destruct (s_tls r) as [[n|]|]; try reflexivity.
  - destruct (spec_host r) as [h|]; [|cbn [implb]; destruct (s_premarked r); reflexivity].
    destruct (eq_ci h (auth_host n)); reflexivity.
  - destruct (spec_host r); reflexivity.
Qed.

(* soundness and completeness in Prop form *)
Theorem handle_forward_sound r v :
  handle r = Forward v ->
  s_tls r = None \/
  exists n, s_tls r = Some (Some n) /\
    match spec_host r with
    | Some h => eq_ci h (auth_host n) = true /\ v = true
    | None => v = s_premarked r
    end.
Proof.
  unfold handle. rewrite named_host_spec. destruct (s_tls r) as [[n|]|]; intros H; try discriminate; auto.
  right. exists n. split; [reflexivity|].
  destruct (spec_host r) as [h|].
  - destruct (eq_ci h (auth_host n)); [|discriminate]. injection H as <-. auto.
  - injection H as <-. reflexivity.
Qed.

Theorem handle_never_rejects_equal r n h :
  s_tls r = Some (Some n) -> spec_host r = Some h -> eq_ci h (auth_host n) = true ->
  handle r = Forward true.
Proof. unfold handle. rewrite named_host_spec. intros -> -> ->. reflexivity. Qed.

(* ---- ASCII case-insensitive comparison is an equivalence ---- *)
Lemma eq_ci_refl s : eq_ci s s = true.
Proof. unfold eq_ci. apply String.eqb_refl. Qed.
Lemma eq_ci_sym a b : eq_ci a b = eq_ci b a.
Proof. unfold eq_ci. apply String.eqb_sym. Qed.
Lemma eq_ci_trans a b c : eq_ci a b = true -> eq_ci b c = true -> eq_ci a c = true.
Proof. unfold eq_ci. rewrite !String.eqb_eq. congruence. Qed.

(* ---- the port is ignored ---- *)
Fixpoint no_char (c : ascii) (s : string) : bool :=
  match s with
  | EmptyString => true
  | String x t => negb (Ascii.eqb x c) && no_char c t
  end.

Lemma until_char_app c h rest : no_char c h = true -> until_char c (h ++ String c rest) = h.
Proof.
  induction h as [|x t IH]; cbn [no_char append until_char]; intros H.
  - rewrite Ascii.eqb_refl. reflexivity.
  - apply andb_true_iff in H. destruct H as [H1 H2]. apply negb_true_iff in H1.
    rewrite H1, IH by exact H2. reflexivity.
Qed.

Lemma until_char_none c h : no_char c h = true -> until_char c h = h.
Proof.
  induction h as [|x t IH]; cbn [no_char until_char]; intros H; [reflexivity|].
  apply andb_true_iff in H. destruct H as [H1 H2]. apply negb_true_iff in H1.
  rewrite H1, IH by exact H2. reflexivity.
Qed.

Lemma after_last_at_none s acc : no_char at_sign s = true -> after_last_at s acc = acc.
Proof.
  revert acc. induction s as [|x t IH]; cbn [no_char after_last_at]; intros acc H; [reflexivity|].
  apply andb_true_iff in H. destruct H as [H1 H2]. apply negb_true_iff in H1. rewrite H1. apply IH. exact H2.
Qed.

Lemma no_char_app c a b : no_char c (a ++ b) = no_char c a && no_char c b.
Proof. induction a as [|x t IH]; cbn [append no_char]; [reflexivity|]. rewrite IH, andb_assoc. reflexivity. Qed.

(* a registered name or IPv4 literal (no '@', ':', '[') with any port suffix names the same host *)
Theorem auth_host_ignores_port h port :
  no_char at_sign h = true -> no_char colon h = true -> no_char at_sign port = true ->
  match h with String c _ => Ascii.eqb c lbracket = false | EmptyString => False end ->
  auth_host (h ++ ":" ++ port) = h /\ auth_host h = h.
Proof.
  intros Hat Hcol Hpat Hb. unfold auth_host.
  rewrite !after_last_at_none; try assumption.
  2:{ rewrite no_char_app, Hat. cbn [append no_char]. rewrite Hpat. reflexivity. }
  destruct h as [|c t]; [contradiction|]. cbn [append]. rewrite Hb. split.
  - exact (until_char_app colon (String c t) port Hcol).
  - apply until_char_none. exact Hcol.
Qed.

(* a flag that is already set when the request arrives decides nothing for a request that names a host *)
Theorem handle_premarked_irrelevant (h2 : bool) (hh ua : option string) tls b1 b2 :
  (if h2 then orelse ua hh else hh) <> None ->
  handle (mkSreq h2 hh ua tls b1) = handle (mkSreq h2 hh ua tls b2).
Proof.
  intros Hn. unfold handle, named_host. cbn [s_tls s_h2 s_uri_auth s_hdr_host s_premarked].
  destruct tls as [[n|]|]; try reflexivity.
  destruct (if h2 then orelse ua hh else hh); [reflexivity|contradiction].
Qed.
