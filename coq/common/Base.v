(* Common definitions shared by all models. Stdlib only (extraction-friendly). *)
From Coq Require Export List Arith NArith Bool Lia.
Export ListNotations.

Arguments N.add : simpl never.
Arguments N.sub : simpl never.
Arguments N.mul : simpl never.
Arguments N.eqb : simpl never.
Arguments N.ltb : simpl never.
Arguments N.leb : simpl never.
Arguments N.div : simpl never.
Arguments N.modulo : simpl never.

(* Comparison helper used by the correspondence files: indices of the cases on which
   two lists of observations differ (printed by vm_compute, parsed by the driver). *)
Section Mismatch.
  Context {A : Type} (eqb : A -> A -> bool).
  Fixpoint mismatches_from (i : N) (xs ys : list A) {struct xs} : list N :=
    match xs, ys with
    | [], [] => []
    | x :: xs', y :: ys' =>
        if eqb x y then mismatches_from (N.succ i) xs' ys'
        else i :: mismatches_from (N.succ i) xs' ys'
    | _ :: xs', [] => i :: mismatches_from (N.succ i) xs' []
    | [], _ :: _ => [i]
    end.
  Definition mismatches := mismatches_from 0%N.
End Mismatch.

Fixpoint list_eqb {A} (eqb : A -> A -> bool) (xs ys : list A) : bool :=
  match xs, ys with
  | [], [] => true
  | x :: xs', y :: ys' => eqb x y && list_eqb eqb xs' ys'
  | _, _ => false
  end.

Definition option_eqb {A} (eqb : A -> A -> bool) (x y : option A) : bool :=
  match x, y with
  | None, None => true
  | Some a, Some b => eqb a b
  | _, _ => false
  end.

(* indices of the [false] entries of a list of booleans *)
Fixpoint falses_from (i : N) (bs : list bool) : list N :=
  match bs with
  | [] => []
  | true :: t => falses_from (N.succ i) t
  | false :: t => i :: falses_from (N.succ i) t
  end.
Definition falses := falses_from 0%N.
