(* The monitor accepts every trace of the model: tracker state = abstraction of the model state. *)
From Coq Require Import Permutation Sorting.Sorted.
From HD Require Import common.Base ckphase.Model ckphase.Spec ckphase.Proofs.

Definition abs_st (st : rstate) : treq :=
  match st with
  | RIdle c => TIdle c
  | RWait None => TWait
  | RWait (Some c) => TProm c
  | RServed c => TServed c
  | _ => TOver
  end.
Definition abs_dial (d : dial) : tdial :=
  mkTD (match d_ph d with DNew => false | _ => true end) (match d_ph d with DGone => true | _ => false end) (d_t d) (d_h d).
Definition abs_req (q : req) : treqd := mkTR (abs_st (r_st q)) (abs_dial (r_dial q)).
Definition abs (s : state) : trk := mkT (map abs_req (reqs s)) (idle s) (nconn s) (connects s).

Lemma abs_nth s r : nth_error (t_reqs (abs s)) r = option_map abs_req (nth_error (reqs s) r).
Proof. cbn. apply nth_error_map. Qed.

Lemma abs_upd_req s r f f' :
  (forall q, nth_error (reqs s) r = Some q -> abs_req (f q) = f' (abs_req q)) ->
  abs (upd_req r f s) = t_upd r f' (abs s).
Proof. intros H. unfold abs, t_upd, t_set_reqs. cbn. f_equal. now apply map_upd_nth. Qed.

(* ---- PoolInner::push = clause (a)'s offer *)
Lemma walk_first s : forall l i q,
  StronglySorted lt q -> (forall x, In x q -> i <= x) ->
  (forall r, i <= r -> waiting s r = true -> In r q) ->
  (forall r, i <= r -> waiting s r = match nth_error l (r - i) with Some d => match q_st d with TWait => true | _ => false end | None => false end) ->
  fst (walk (waiting s) q) = first_wait_from i l.
Proof.
  induction l as [|d l IH]; intros i q Hs Hlo Hin Hl; cbn.
  - assert (Hall : forall x, In x q -> waiting s x = false).
    { intros x Hx. rewrite (Hl x (Hlo _ Hx)). now destruct (x - i). }
    clear - Hall. induction q as [|a q IH]; cbn; auto. rewrite (Hall a) by now left. apply IH. intros x Hx. apply Hall. now right.
  - pose proof (Hl i (le_n i)) as Hi. rewrite Nat.sub_diag in Hi. cbn in Hi.
    assert (Hl' : forall r, S i <= r -> waiting s r =
              match nth_error l (r - S i) with Some d => match q_st d with TWait => true | _ => false end | None => false end).
    { intros r Hr. rewrite (Hl r) by lia. replace (r - i) with (S (r - S i)) by lia. reflexivity. }
    destruct q as [|a q].
    + assert (Hrec : fst (walk (waiting s) []) = first_wait_from (S i) l).
      { apply (IH (S i) []); auto.
        - intros x [].
        - intros r Hr Hw. apply (Hin r); auto. lia. }
      cbn in *. destruct (q_st d) eqn:Ed; auto. destruct (Hin i (le_n i) Hi).
    + inversion Hs as [|? ? Hs' Hf]; subst. rewrite Forall_forall in Hf.
      destruct (Nat.eq_dec a i) as [->|Hne].
      * cbn. rewrite Hi. destruct (q_st d) eqn:Ed; auto;
          (apply (IH (S i) q); auto; try (intros x Hx; apply Hf in Hx; lia);
             try (intros r Hr Hw; destruct (Hin r) as [E|E]; auto; lia)).
      * assert (Hai : S i <= a). { pose proof (Hlo a (or_introl eq_refl)). lia. }
        assert (Hni : waiting s i = false).
        { destruct (waiting s i) eqn:E; auto. destruct (Hin i (le_n i) E) as [E1|E1]; [congruence|]. apply Hf in E1. lia. }
        rewrite Hni in Hi. destruct (q_st d) eqn:Ed; try discriminate;
          (apply (IH (S i) (a :: q)); auto; try (intros x [<-|Hx]; auto; apply Hf in Hx; lia);
             try (intros r Hr Hw; apply Hin; auto; lia)).
Qed.

Lemma waiting_abs s r : waiting s r =
  match nth_error (t_reqs (abs s)) (r - 0) with Some d => match q_st d with TWait => true | _ => false end | None => false end.
Proof.
  rewrite Nat.sub_0_r, abs_nth. unfold waiting, get_st. destruct (nth_error (reqs s) r) as [q|]; cbn; auto.
  destruct (r_st q) as [|[|]| | | |]; reflexivity.
Qed.

Lemma abs_push c s : QInv s -> abs (push c s) = offer c (abs s).
Proof.
  intros (Hs & Hb & Hw). unfold push, offer, first_wait.
  rewrite <- (walk_first s (t_reqs (abs s)) 0 (queue s)); auto.
  - destruct (walk (waiting s) (queue s)) as [[r|] q']; cbn [fst]; [|reflexivity].
    apply (abs_upd_req (set_queue q' s)). intros q _. reflexivity.
  - intros x _. lia.
  - intros r _. apply waiting_abs.
Qed.

Lemma holder_abs l : forall i c, t_holder_from i (map abs_req l) c = holder_from i l c.
Proof.
  induction l as [|q l IH]; intros i c; cbn; auto.
  destruct (r_st q) as [|[|]| | | |]; cbn; auto. now rewrite IH.
Qed.

(* ---- live waiters in the queue = waiting requests *)
Lemma count_first s : forall l i q,
  StronglySorted lt q -> (forall x, In x q -> i <= x) ->
  (forall r, i <= r -> waiting s r = true -> In r q) ->
  (forall r, i <= r -> waiting s r = match nth_error l (r - i) with Some d => match q_st d with TWait => true | _ => false end | None => false end) ->
  List.length (filter (waiting s) q) = List.length (filter (fun d => match q_st d with TWait => true | _ => false end) l).
Proof.
  induction l as [|d l IH]; intros i q Hs Hlo Hin Hl; cbn.
  - assert (Hall : forall x, In x q -> waiting s x = false).
    { intros x Hx. rewrite (Hl x (Hlo _ Hx)). now destruct (x - i). }
    clear - Hall. induction q as [|a q IH]; cbn; auto. rewrite (Hall a) by now left. apply IH. intros x Hx. apply Hall. now right.
  - pose proof (Hl i (le_n i)) as Hi. rewrite Nat.sub_diag in Hi. cbn in Hi.
    assert (Hl' : forall r, S i <= r -> waiting s r =
              match nth_error l (r - S i) with Some d => match q_st d with TWait => true | _ => false end | None => false end).
    { intros r Hr. rewrite (Hl r) by lia. replace (r - i) with (S (r - S i)) by lia. reflexivity. }
    destruct q as [|a q].
    + assert (Hrec : List.length (filter (waiting s) []) = List.length (filter (fun d => match q_st d with TWait => true | _ => false end) l)).
      { apply (IH (S i) []); auto.
        - intros x [].
        - intros r Hr Hw. apply (Hin r); auto. lia. }
      cbn in *. destruct (q_st d) eqn:Ed; auto. destruct (Hin i (le_n i) Hi).
    + inversion Hs as [|? ? Hs' Hf]; subst. rewrite Forall_forall in Hf.
      destruct (Nat.eq_dec a i) as [->|Hne].
      * assert (Hrec : List.length (filter (waiting s) q) = List.length (filter (fun d => match q_st d with TWait => true | _ => false end) l)).
        { apply (IH (S i) q); auto; try (intros x Hx; apply Hf in Hx; lia);
            try (intros r Hr Hw; destruct (Hin r) as [E|E]; auto; lia). }
        cbn. rewrite Hi. destruct (q_st d); cbn; auto.
      * assert (Hai : S i <= a). { pose proof (Hlo a (or_introl eq_refl)). lia. }
        assert (Hni : waiting s i = false).
        { destruct (waiting s i) eqn:E; auto. destruct (Hin i (le_n i) E) as [E1|E1]; [congruence|]. apply Hf in E1. lia. }
        assert (Hrec : List.length (filter (waiting s) (a :: q)) = List.length (filter (fun d => match q_st d with TWait => true | _ => false end) l)).
        { apply (IH (S i) (a :: q)); auto; try (intros x [<-|Hx]; auto; apply Hf in Hx; lia);
            try (intros r Hr Hw; apply Hin; auto; lia). }
        rewrite Hni in Hi. destruct (q_st d); try discriminate; exact Hrec.
Qed.

Lemma live_count_abs s : QInv s -> live_count s = wait_count (abs s).
Proof.
  intros (Hs & Hb & Hw). unfold live_count, wait_count. apply (count_first s (t_reqs (abs s)) 0); auto.
  - intros x _. lia.
  - intros r _. apply waiting_abs.
Qed.

(* ---- nobody holds a connection that is somewhere else, or does not exist yet *)
Lemma NoDup_locs s : Conserve [] s -> NoDup (locs s) /\ forall c, In c (locs s) -> c < nconn s.
Proof.
  unfold Conserve. cbn. intros H. split.
  - eapply Permutation_NoDup; [symmetry; exact H|apply seq_NoDup].
  - intros c Hc. eapply Permutation_in in Hc; [|exact H]. apply in_seq in Hc. lia.
Qed.

Lemma nodup_app {A} (a b : list A) : NoDup (a ++ b) -> NoDup a /\ NoDup b /\ forall x, In x a -> In x b -> False.
Proof.
  induction a as [|x a IH]; cbn; intros H.
  - repeat split; auto. constructor.
  - inversion H as [|? ? Hn Hnd]; subst. destruct (IH Hnd) as (A1 & B1 & C1). repeat split; auto.
    + constructor; auto. intros Hin. apply Hn. rewrite in_app_iff. now left.
    + intros y [<-|Hy] Hb; [apply Hn; rewrite in_app_iff; now right|eauto].
Qed.

Lemma flat_nodup (l : list req) : NoDup (flat_map rloc l) -> forall r r' q q' c,
  nth_error l r = Some q -> nth_error l r' = Some q' -> In c (rloc q) -> In c (rloc q') -> r = r'.
Proof.
  induction l as [|x l IH]; intros Hnd r r' q q' c Hq Hq' Hc Hc'; [destruct r; discriminate|].
  cbn in Hnd. destruct (nodup_app _ _ Hnd) as (_ & Hnd' & Hdisj).
  destruct r as [|r], r' as [|r']; cbn in *; auto.
  - injection Hq as <-. exfalso. apply (Hdisj c Hc). apply in_flat_map. exists q'. split; auto. eapply nth_error_In; eauto.
  - injection Hq' as <-. exfalso. apply (Hdisj c Hc'). apply in_flat_map. exists q. split; auto. eapply nth_error_In; eauto.
  - f_equal. eapply IH; eauto.
Qed.

Lemma held_abs_false s c :
  (forall r q, nth_error (reqs s) r = Some q -> r_st q <> RServed c) -> held (abs s) c = false.
Proof.
  intros H. unfold held. cbn. destruct (existsb _ _) eqn:E; auto. apply existsb_exists in E as (d & Hd & Hc).
  apply in_map_iff in Hd as (q & <- & Hq). apply In_nth_error in Hq as (r & Hr). cbn in Hc.
  destruct (r_st q) as [|[|]|c'| | |] eqn:Est; try discriminate. apply Nat.eqb_eq in Hc as <-. now destruct (H r q Hr).
Qed.

Lemma held_elsewhere s r q c : Conserve [] s -> nth_error (reqs s) r = Some q -> In c (rloc q) ->
  r_st q <> RServed c -> held (abs s) c = false.
Proof.
  intros HC Hq Hc Hns. apply held_abs_false. intros r' q' Hq' Est.
  destruct (NoDup_locs _ HC) as (Hnd & _). unfold locs in Hnd. apply nodup_app in Hnd as (Hnd & _ & _).
  assert (r = r'). { eapply (flat_nodup _ Hnd r r' q q' c); eauto. unfold rloc. rewrite Est. now left. }
  subst r'. congruence.
Qed.

Lemma held_fresh s : Conserve [] s -> held (abs s) (nconn s) = false.
Proof.
  intros HC. apply held_abs_false. intros r q Hq Est. destruct (NoDup_locs _ HC) as (_ & Hlt).
  assert (nconn s < nconn s); [|lia]. apply Hlt. unfold locs. rewrite in_app_iff. left. apply in_flat_map.
  exists q. split; [eapply nth_error_In; eauto|]. unfold rloc. rewrite Est. now left.
Qed.

(* ---------------------------------------------------------------- helpers for the step-by-step simulation *)
Lemma settle_nil f s : bgq s = [] -> settle f s = s.
Proof. intros E. destruct f; cbn; auto. now rewrite E. Qed.
Lemma settle_cons f s b rest : bgq s = b :: rest -> settle (S f) s = settle f (run_task b (set_bgq rest s)).
Proof. intros E. cbn. now rewrite E. Qed.

Lemma QInv_fields s s' : reqs s' = reqs s -> queue s' = queue s -> QInv s -> QInv s'.
Proof. destruct s, s'. cbn. intros -> -> H. exact H. Qed.

Lemma QInv_push c s : QInv s -> QInv (push c s).
Proof.
  intros HQ. unfold push.
  pose proof (walk_spec (waiting s) (queue s)) as W. destruct (walk (waiting s) (queue s)) as [[r|] q'].
  - destruct W as (pre & Eq & Hr & Hpre). destruct (waiting_nth _ _ Hr) as (q & Hq & Est).
    destruct HQ as (Hs & Hb & Hw). rewrite Eq in Hs. destruct (sorted_suffix _ _ _ Hs) as (Hs' & Hlt & Hn1 & Hn2).
    repeat split; cbn.
    + exact Hs'.
    + intros r' Hin. rewrite upd_nth_len. apply Hb. rewrite Eq, in_app_iff. right. now right.
    + intros r' Hr'. unfold waiting in Hr'. destruct (Nat.eq_dec r r') as [<-|Hne].
      * rewrite get_st_upd_eq in Hr'. cbn in Hr'. rewrite Hq in Hr'. discriminate.
      * rewrite get_st_upd_ne in Hr' by auto. change (waiting s r' = true) in Hr'.
        pose proof (Hw _ Hr') as Hin. rewrite Eq, in_app_iff in Hin. destruct Hin as [Hin|[->|Hin]]; auto.
        -- rewrite (Hpre _ Hin) in Hr'. discriminate.
        -- congruence.
  - destruct W as (-> & Hall). repeat split; cbn.
    + constructor.
    + intros r [].
    + intros r Hr. change (waiting s r = true) in Hr. destruct HQ as (_ & _ & Hw). rewrite (Hall _ (Hw _ Hr)) in Hr. discriminate.
Qed.

(* changing only the dial of a request that is not waiting *)
Lemma QInv_upd_dial s r f : QInv s -> QInv (upd_req r (upd_dial f) s).
Proof.
  intros HQ. destruct (nth_error (reqs s) r) as [q|] eqn:Hq.
  - eapply (QInv_upd s _ r q (upd_dial f q)); eauto. cbn. apply upd_nth_ext. intros x Hx. congruence.
  - eapply QInv_fields; [| |exact HQ]; cbn; auto. now apply upd_nth_none.
Qed.

(* what polling a connector gives, in the tracker's terms *)
Lemma dial_poll_abs d : dshape d -> d_ph d <> DGone ->
  snd (dial_poll d) = match d_t d, d_h d with
                      | Some false, _ => DErrT
                      | Some true, Some false => DErrH
                      | Some true, Some true => DOk
                      | _, _ => DPending
                      end /\
  abs_dial (fst (dial_poll d)) = match snd (dial_poll d) with
                                 | DPending => mkTD true false (d_t d) (d_h d)
                                 | _ => mkTD true true (d_t d) (d_h d)
                                 end.
Proof.
  destruct d as [ph t h bg]. unfold dshape, dial_poll, abs_dial. cbn.
  destruct ph, t as [[|]|], h as [[|]|]; cbn; intros Hs Hne; split; auto; try congruence;
    try (destruct Hs; congruence); try (destruct Hs; discriminate).
Qed.

(* an offer and an update of some request's dial / the connection counter do not interfere *)
Lemma first_wait_upd_dial l : forall i r f, first_wait_from i (upd_nth r (q_upd_dial f) l) = first_wait_from i l.
Proof.
  induction l as [|q l IH]; intros i [|r] f; cbn; auto.
  destruct (q_st q); auto.
Qed.
Lemma upd_nth_comm {A} (f g : A -> A) l : forall n m, (n = m -> forall x, f (g x) = g (f x)) ->
  upd_nth n f (upd_nth m g l) = upd_nth m g (upd_nth n f l).
Proof.
  induction l as [|x l IH]; intros [|n] [|m] H; cbn; auto.
  - now rewrite H.
  - rewrite IH; auto.
Qed.
Lemma offer_upd_dial c r f reqs idl n n' k :
  offer c (mkT (upd_nth r (q_upd_dial f) reqs) idl n' k) =
  (let t := offer c (mkT reqs idl n k) in mkT (upd_nth r (q_upd_dial f) (t_reqs t)) (t_idle t) n' k).
Proof.
  unfold offer, first_wait. cbn. rewrite first_wait_upd_dial.
  destruct (first_wait_from 0 reqs) as [w|]; cbn; [|reflexivity].
  unfold t_upd, t_set_reqs. cbn. f_equal. apply upd_nth_comm. intros _ x. reflexivity.
Qed.

Lemma upd_nth_id {A} (l : list A) : forall n, upd_nth n (fun x => x) l = l.
Proof. induction l as [|x l IH]; intros [|n]; cbn; auto. now rewrite IH. Qed.

Lemma upd_nth_same {A} (f : A -> A) (l : list A) : forall n, (forall x, nth_error l n = Some x -> f x = x) -> upd_nth n f l = l.
Proof. intros n H. rewrite <- (upd_nth_id l n) at 2. now apply upd_nth_ext. Qed.

Lemma abs_upd_same s r f : (forall q, nth_error (reqs s) r = Some q -> abs_req (f q) = abs_req q) -> abs (upd_req r f s) = abs s.
Proof.
  intros H. rewrite (abs_upd_req s r f (fun x => x)); auto. unfold t_upd, t_set_reqs. rewrite upd_nth_id. now destruct (abs s).
Qed.

(* the delayed checkout of r runs *)
Lemma run_dial_sim s1 r q :
  nth_error (reqs s1) r = Some q -> d_bg (r_dial q) = true -> started (r_dial q) = true -> dshape (r_dial q) ->
  let d := r_dial q in
  let s2 := run_task (BDial r) s1 in
  queue s2 = queue s1 /\ idle s2 = idle s1 /\ connects s2 = connects s1 /\ cont s2 = cont s1 /\
  (exists f, reqs s2 = upd_nth r (upd_dial f) (reqs s1)) /\
  match d_t d, d_h d with
  | Some true, Some true =>
      evs s2 = evs s1 ++ [ENew (nconn s1) r] /\ bgq s2 = bgq s1 ++ [BPush (nconn s1)] /\ nconn s2 = S (nconn s1) /\
      map abs_req (reqs s2) = upd_nth r (q_upd_dial kill) (map abs_req (reqs s1))
  | Some false, _ | Some true, Some false =>
      evs s2 = evs s1 /\ bgq s2 = bgq s1 /\ nconn s2 = nconn s1 /\
      map abs_req (reqs s2) = upd_nth r (q_upd_dial kill) (map abs_req (reqs s1))
  | _, _ => evs s2 = evs s1 /\ bgq s2 = bgq s1 /\ nconn s2 = nconn s1 /\ map abs_req (reqs s2) = map abs_req (reqs s1)
  end.
Proof.
  intros Hq Hbg Hst Hsh. cbn zeta. unfold run_task. rewrite (get_dial_nth _ _ _ Hq), Hbg.
  unfold poll_dial. rewrite (get_dial_nth _ _ _ Hq).
  assert (Hmap : forall d', map abs_req (upd_nth r (upd_dial (fun _ => d')) (reqs s1)) =
                      upd_nth r (fun x => mkTR (q_st x) (abs_dial d')) (map abs_req (reqs s1))).
  { intros d'. apply map_upd_nth. intros x _. reflexivity. }
  assert (Hk : forall g, (abs_dial (r_dial q) = abs_dial (r_dial q)) ->
             upd_nth r (fun x => mkTR (q_st x) (g (q_dial x))) (map abs_req (reqs s1)) =
             upd_nth r (fun x => mkTR (q_st x) (g (abs_dial (r_dial q)))) (map abs_req (reqs s1))).
  { intros g _. apply upd_nth_ext. intros x Hx. rewrite nth_error_map, Hq in Hx. injection Hx as <-. reflexivity. }
  destruct (r_dial q) as [ph t h bg] eqn:Ed. unfold started, dshape in *. cbn in *.
  destruct ph; try discriminate; destruct t as [[|]|], h as [[|]|]; cbn;
    try (destruct Hsh; discriminate); try discriminate;
    repeat split; eauto; rewrite Hmap; unfold q_upd_dial;
    try (rewrite (Hk kill eq_refl)); try reflexivity;
    try (apply upd_nth_same; intros x Hx;
         rewrite nth_error_map, Hq in Hx; injection Hx as <-; unfold abs_req; cbn; rewrite Ed; reflexivity).
Qed.

Lemma evs_push c s : evs (push c s) = evs s.
Proof. unfold push. destruct (walk (waiting s) (queue s)) as [[r|] q']; reflexivity. Qed.
Lemma cont_push c s : cont (push c s) = cont s.
Proof. unfold push. destruct (walk (waiting s) (queue s)) as [[r|] q']; reflexivity. Qed.

Definition offers (cs : list nat) (t : trk) := fold_left (fun t c => offer c t) cs t.

(* the WhenReady tasks run: each connection is offered in turn *)
Lemma settle_pushes : forall cs f S, bgq S = map BPush cs -> List.length cs <= f -> QInv S ->
  let S' := settle f S in
  abs S' = offers cs (abs S) /\ evs S' = evs S /\ bgq S' = [] /\ QInv S' /\ cont S' = cont S.
Proof.
  induction cs as [|c cs IH]; intros f S Eb Hf HQ; cbn zeta.
  - rewrite settle_nil by exact Eb. split; [|split; [|split; [|split]]]; auto.
  - destruct f as [|f]; [cbn in Hf; lia|]. rewrite (settle_cons f S (BPush c) (map BPush cs)) by exact Eb.
    cbn [run_task]. set (S1 := push c (set_bgq (map BPush cs) S)).
    assert (HQ1 : QInv S1). { apply QInv_push. eapply QInv_fields; [| |exact HQ]; reflexivity. }
    destruct (IH f S1) as (A & B & C & D & E); auto.
    + unfold S1. now rewrite bgq_push.
    + cbn in Hf. lia.
    + split; [|split; [|split; [|split]]]; auto.
      * rewrite A. unfold S1. rewrite abs_push by (eapply QInv_fields; [| |exact HQ]; reflexivity). reflexivity.
      * rewrite B. unfold S1. now rewrite evs_push.
      * rewrite E. unfold S1. now rewrite cont_push.
Qed.

Lemma offers_upd_dial cs r f : forall reqs idl n n' k,
  offers cs (mkT (upd_nth r (q_upd_dial f) reqs) idl n' k) =
  (let t := offers cs (mkT reqs idl n k) in mkT (upd_nth r (q_upd_dial f) (t_reqs t)) (t_idle t) n' k).
Proof.
  induction cs as [|c cs IH]; intros reqs idl n n' k; cbn; auto.
  rewrite (offer_upd_dial c r f reqs idl n n' k). cbn zeta.
  destruct (offer c (mkT reqs idl n k)) as [rq i2 n2 k2] eqn:E.
  assert (n2 = n /\ k2 = k) as (-> & ->).
  { unfold offer in E. destruct (first_wait _); cbn in E; injection E; auto. }
  cbn. apply IH.
Qed.
Lemma offers_nconn cs : forall t, t_nconn (offers cs t) = t_nconn t /\ t_connects (offers cs t) = t_connects t.
Proof.
  induction cs as [|c cs IH]; intros t; [cbn; auto|]. change (offers (c :: cs) t) with (offers cs (offer c t)).
  destruct (IH (offer c t)) as (-> & ->). unfold offer. destruct (first_wait t); auto.
Qed.
Lemma offers_dial cs r : forall t, option_map q_dial (nth_error (t_reqs (offers cs t)) r) = option_map q_dial (nth_error (t_reqs t) r).
Proof.
  induction cs as [|c cs IH]; intros t; [cbn; auto|]. change (offers (c :: cs) t) with (offers cs (offer c t)).
  rewrite IH. unfold offer. destruct (first_wait t) as [w|]; auto.
  cbn. destruct (Nat.eq_dec w r) as [->|Hne].
  - rewrite nth_error_upd_eq. now destruct (nth_error (t_reqs t) r).
  - now rewrite nth_error_upd_ne.
Qed.
Lemma offers_app a b t : offers (a ++ b) t = offers b (offers a t).
Proof. unfold offers. apply fold_left_app. Qed.

Definition spawns (tail : list nat) s := fold_left (fun s c => spawn (BPush c) s) tail s.
Lemma spawns_fields tail : forall s, cont (spawns tail s) = cont s /\ reqs (spawns tail s) = reqs s /\ queue (spawns tail s) = queue s /\
  idle (spawns tail s) = idle s /\ nconn (spawns tail s) = nconn s /\ connects (spawns tail s) = connects s /\
  evs (spawns tail s) = evs s /\ bgq (spawns tail s) = bgq s ++ map BPush tail.
Proof.
  induction tail as [|c tail IH]; intros s; cbn.
  - rewrite app_nil_r. repeat split.
  - destruct (IH (spawn (BPush c) s)) as (A & B & C & D & E & F & G & H). change (fold_left _ tail (spawn (BPush c) s)) with (spawns tail (spawn (BPush c) s)).
    rewrite A, B, C, D, E, F, G, H. cbn. rewrite <- app_assoc. repeat split.
Qed.
Lemma abs_fields s s' : reqs s' = reqs s -> idle s' = idle s -> nconn s' = nconn s -> connects s' = connects s -> abs s' = abs s.
Proof. intros A B C D. unfold abs. now rewrite A, B, C, D. Qed.

Lemma t_upd_mk r f (t : trk) : t_upd r f t = mkT (upd_nth r f (t_reqs t)) (t_idle t) (t_nconn t) (t_connects t).
Proof. reflexivity. Qed.

Lemma offers_t_upd_dial tail r f t : offers tail (t_upd r (q_upd_dial f) t) = t_upd r (q_upd_dial f) (offers tail t).
Proof.
  destruct t as [rq idl n k]. rewrite t_upd_mk. cbn [t_reqs t_idle t_nconn t_connects].
  rewrite (offers_upd_dial tail r f rq idl n n k). cbn zeta. rewrite t_upd_mk.
  destruct (offers_nconn tail (mkT rq idl n k)) as (-> & ->). reflexivity.
Qed.

Lemma ev_eqb_refl e : ev_eqb e e = true.
Proof. destruct e; cbn; rewrite ?Nat.eqb_refl, ?Bool.eqb_reflx; reflexivity. Qed.
Lemma evs_eqb_refl l : evs_eqb l l = true.
Proof. induction l as [|e l IH]; cbn; auto. now rewrite ev_eqb_refl. Qed.

Lemma abandon_sim sA r q tail :
  QInv sA -> bgq sA = [] -> nth_error (reqs sA) r = Some q -> is_wait q = false ->
  d_ph (r_dial q) <> DGone -> dshape (r_dial q) -> List.length tail <= 1 ->
  let s2 := settle fuel (spawns tail (abandon r sA)) in
  exists l, evs s2 = evs sA ++ l /\ abandon_check (cont sA) r l (offers tail (abs sA)) = Some (abs s2) /\
            QInv s2 /\ bgq s2 = [] /\ cont s2 = cont sA.
Proof.
  intros HQ Eb Hq Hnw Hne Hsh Hlen. cbn zeta.
  assert (HtA : exists q'', nth_error (t_reqs (offers tail (abs sA))) r = Some q'' /\ q_dial q'' = abs_dial (r_dial q)).
  { pose proof (offers_dial tail r (abs sA)) as H. rewrite abs_nth, Hq in H. cbn in H.
    destruct (nth_error (t_reqs (offers tail (abs sA))) r) as [q''|]; [|discriminate]. exists q''. split; auto. now injection H. }
  destruct HtA as (q'' & Hq'' & Hd'').
  unfold abandon_check. rewrite Hq'', Hd''. unfold abandon. rewrite (get_dial_nth _ _ _ Hq).
  assert (Hkill : abs (upd_req r (upd_dial (set_ph DGone)) sA) = t_upd r (q_upd_dial kill) (abs sA)).
  { apply abs_upd_req. intros x _. reflexivity. }
  (* the dial is dropped: cases (i) never started, (ii) started without continue_after_preemption *)
  assert (Hdrop : forall S0 l, reqs S0 = reqs (upd_req r (upd_dial (set_ph DGone)) sA) -> queue S0 = queue sA -> idle S0 = idle sA ->
            nconn S0 = nconn sA -> connects S0 = connects sA -> bgq S0 = [] -> evs S0 = evs sA ++ l -> cont S0 = cont sA ->
            let s2 := settle fuel (spawns tail S0) in
            evs s2 = evs sA ++ l /\ Some (t_upd r (q_upd_dial kill) (offers tail (abs sA))) = Some (abs s2) /\ QInv s2 /\ bgq s2 = [] /\ cont s2 = cont sA).
  { intros S0 l Er Equ Ei En Ek Eb0 Ee Ec. cbn zeta.
    destruct (spawns_fields tail S0) as (A & B & C & D & E & F & G & H).
    destruct (settle_pushes tail fuel (spawns tail S0)) as (A1 & B1 & C1 & D1 & E1).
    - now rewrite H, Eb0.
    - unfold fuel. lia.
    - eapply QInv_fields; [| |exact (QInv_upd_dial sA r (set_ph DGone) HQ)]; rewrite ?B, ?C, ?Er, ?Equ; reflexivity.
    - split; [|split; [|split; [|split]]]; auto; try congruence.
      rewrite A1. rewrite (abs_fields (upd_req r (upd_dial (set_ph DGone)) sA) (spawns tail S0)) by (rewrite ?B, ?D, ?E, ?F, ?Er, ?Ei, ?En, ?Ek; reflexivity).
      rewrite Hkill. now rewrite offers_t_upd_dial. }
  destruct (started (r_dial q)) eqn:Est.
  - assert (Hst : (k_st (abs_dial (r_dial q)) && negb (k_dead (abs_dial (r_dial q))))%bool = true).
    { unfold abs_dial, started in *. cbn. destruct (d_ph (r_dial q)); auto; discriminate. }
    rewrite Hst. destruct (cont sA) eqn:Ec.
    + (* the delayed checkout is spawned and runs first *)
      set (S0 := spawn (BDial r) (upd_req r (upd_dial (set_bg true)) sA)).
      destruct (spawns_fields tail S0) as (A & B & C & D & E & F & G & H).
      assert (Hb0 : bgq (spawns tail S0) = BDial r :: map BPush tail). { rewrite H. unfold S0. cbn. now rewrite Eb. }
      unfold fuel. rewrite (settle_cons 3 _ _ _ Hb0).
      set (s1 := set_bgq (map BPush tail) (spawns tail S0)).
      assert (Hq1 : nth_error (reqs s1) r = Some (upd_dial (set_bg true) q)).
      { unfold s1. cbn [reqs set_bgq]. rewrite B. unfold S0. cbn. now rewrite nth_error_upd_eq, Hq. }
      destruct (run_dial_sim s1 r _ Hq1) as (R1 & R2 & R3 & R4 & (f & R5) & R6); auto.
      assert (HQ1 : QInv s1).
      { eapply QInv_fields; [| |exact (QInv_upd_dial sA r (set_bg true) HQ)]; unfold s1; cbn [reqs queue set_bgq]; rewrite ?B, ?C; reflexivity. }
      assert (HQ2 : QInv (run_task (BDial r) s1)).
      { apply (QInv_fields (upd_req r (upd_dial f) s1)); [exact R5|exact R1|exact (QInv_upd_dial s1 r f HQ1)]. }
      assert (Hmap1 : map abs_req (reqs s1) = map abs_req (reqs sA)).
      { unfold s1. cbn [reqs set_bgq]. rewrite B. unfold S0. cbn. rewrite (map_upd_nth abs_req _ (fun x => x)); [apply upd_nth_id|intros x _; reflexivity]. }
      assert (Hs1 : cont s1 = cont sA /\ idle s1 = idle sA /\ nconn s1 = nconn sA /\ connects s1 = connects sA /\ evs s1 = evs sA /\
                    bgq s1 = map BPush tail).
      { unfold s1. cbn [cont idle nconn connects evs bgq set_bgq]. rewrite A, D, E, F, G. repeat split. }
      destruct Hs1 as (S1 & S2 & S3 & S4 & S5 & S6).
      set (s2' := run_task (BDial r) s1) in *.
      cbn [r_dial upd_dial set_bg d_t d_h] in R6.
      destruct (offers_nconn tail (abs sA)) as (On & Ok).
      unfold bg_check. rewrite Hq'', Hd''. cbn [abs_dial k_t k_h].
      assert (Hfin : forall cs, bgq s2' = map BPush cs -> List.length cs <= 3 ->
                let s2 := settle 3 s2' in abs s2 = offers cs (abs s2') /\ evs s2 = evs s2' /\ bgq s2 = [] /\ QInv s2 /\ cont s2 = cont sA).
      { intros cs Hb Hl. destruct (settle_pushes cs 3 s2' Hb Hl HQ2) as (A1 & B1 & C1 & D1 & E1). cbn zeta.
        split; [|split; [|split; [|split]]]; auto. rewrite E1, R4. exact S1. }
      assert (Habs' : forall n', nconn s2' = n' -> map abs_req (reqs s2') = upd_nth r (q_upd_dial kill) (map abs_req (reqs s1)) ->
                 offers tail (abs s2') = mkT (upd_nth r (q_upd_dial kill) (t_reqs (offers tail (abs sA)))) (t_idle (offers tail (abs sA))) n' (connects sA)).
      { intros n' En' Em. unfold abs at 1. rewrite Em, Hmap1, R2, S2, En', R3, S4.
        rewrite (offers_upd_dial tail r kill (map abs_req (reqs sA)) (idle sA) (nconn sA) n' (connects sA)). reflexivity. }
      destruct (d_t (r_dial q)) as [[|]|] eqn:Et; [destruct (d_h (r_dial q)) as [[|]|] eqn:Eh| |].
      * destruct R6 as (V1 & V2 & V3 & V4).
        destruct (Hfin (tail ++ [nconn s1])) as (A1 & B1 & C1 & D1 & E1).
        { rewrite V2, S6, map_app. reflexivity. }
        { rewrite app_length. cbn. lia. }
        exists [ENew (nconn sA) r]. split; [rewrite B1, V1, S5, S3; reflexivity|]. split; [|split; [exact D1|split; [exact C1|congruence]]].
        rewrite On. cbn [t_nconn abs]. rewrite evs_eqb_refl. f_equal.
        rewrite A1, offers_app. cbn [offers fold_left]. rewrite (Habs' (S (nconn sA))) by (rewrite ?V3, ?S3; auto).
        rewrite S3, Ok. reflexivity.
      * destruct R6 as (V1 & V2 & V3 & V4).
        destruct (Hfin tail) as (A1 & B1 & C1 & D1 & E1); [rewrite V2; exact S6|lia|].
        exists []. rewrite app_nil_r. split; [rewrite B1, V1, S5; reflexivity|]. split; [|split; [exact D1|split; [exact C1|congruence]]].
        cbn [evs_eqb list_eqb]. f_equal. rewrite A1, (Habs' (nconn sA)) by (rewrite ?V3, ?S3; auto).
        rewrite t_upd_mk, On, Ok. reflexivity.
      * destruct R6 as (V1 & V2 & V3 & V4).
        destruct (Hfin tail) as (A1 & B1 & C1 & D1 & E1); [rewrite V2; exact S6|lia|].
        exists []. rewrite app_nil_r. split; [rewrite B1, V1, S5; reflexivity|]. split; [|split; [exact D1|split; [exact C1|congruence]]].
        cbn [evs_eqb list_eqb]. f_equal. rewrite A1. f_equal. unfold abs. rewrite V4, Hmap1, R2, S2, V3, S3, R3, S4. reflexivity.
      * destruct R6 as (V1 & V2 & V3 & V4).
        destruct (Hfin tail) as (A1 & B1 & C1 & D1 & E1); [rewrite V2; exact S6|lia|].
        exists []. rewrite app_nil_r. split; [rewrite B1, V1, S5; reflexivity|]. split; [|split; [exact D1|split; [exact C1|congruence]]].
        cbn [evs_eqb list_eqb]. f_equal. rewrite A1, (Habs' (nconn sA)) by (rewrite ?V3, ?S3; auto).
        rewrite t_upd_mk, On, Ok. reflexivity.
      * destruct R6 as (V1 & V2 & V3 & V4).
        destruct (Hfin tail) as (A1 & B1 & C1 & D1 & E1); [rewrite V2; exact S6|lia|].
        exists []. rewrite app_nil_r. split; [rewrite B1, V1, S5; reflexivity|]. split; [|split; [exact D1|split; [exact C1|congruence]]].
        cbn [evs_eqb list_eqb]. f_equal. rewrite A1. f_equal. unfold abs. rewrite V4, Hmap1, R2, S2, V3, S3, R3, S4. reflexivity.
    + eexists [EDrop r]. cbn [evs_eqb list_eqb ev_eqb]. rewrite Nat.eqb_refl. cbn.
      apply Hdrop; cbn; auto.
  - assert (Hst : (k_st (abs_dial (r_dial q)) && negb (k_dead (abs_dial (r_dial q))))%bool = false).
    { unfold abs_dial, started in *. cbn. destruct (d_ph (r_dial q)); auto; try discriminate. }
    rewrite Hst. exists []. cbn [evs_eqb list_eqb]. rewrite app_nil_r.
    pose proof (Hdrop (upd_req r (upd_dial (set_ph DGone)) sA) []) as H. rewrite app_nil_r in H. apply H; cbn; auto.
Qed.

(* a delayed checkout that was woken runs *)
Lemma bg_sim S r q : QInv S -> bgq S = [BDial r] -> nth_error (reqs S) r = Some q ->
  d_bg (r_dial q) = true -> started (r_dial q) = true -> dshape (r_dial q) ->
  let s2 := settle fuel S in
  exists l, evs s2 = evs S ++ l /\ bg_check r l (abs S) = Some (abs s2) /\ QInv s2 /\ bgq s2 = [] /\ cont s2 = cont S.
Proof.
  intros HQ Eb Hq Hbg Hst Hsh. cbn zeta. unfold fuel. rewrite (settle_cons 3 _ _ _ Eb).
  set (s1 := set_bgq [] S).
  assert (Hq1 : nth_error (reqs s1) r = Some q) by exact Hq.
  destruct (run_dial_sim s1 r q Hq1 Hbg Hst Hsh) as (R1 & R2 & R3 & R4 & (f & R5) & R6).
  assert (HQ1 : QInv s1). { eapply QInv_fields; [| |exact HQ]; reflexivity. }
  set (s2' := run_task (BDial r) s1) in *.
  assert (HQ2 : QInv s2'). { apply (QInv_fields (upd_req r (upd_dial f) s1)); [exact R5|exact R1|exact (QInv_upd_dial s1 r f HQ1)]. }
  unfold bg_check. rewrite abs_nth, Hq. cbn [option_map abs_req q_dial abs_dial k_t k_h].
  assert (Hfin : forall cs, bgq s2' = map BPush cs -> List.length cs <= 3 ->
            let s2 := settle 3 s2' in abs s2 = offers cs (abs s2') /\ evs s2 = evs s2' /\ bgq s2 = [] /\ QInv s2 /\ cont s2 = cont S).
  { intros cs Hb Hl. destruct (settle_pushes cs 3 s2' Hb Hl HQ2) as (A1 & B1 & C1 & D1 & E1). cbn zeta.
    split; [|split; [|split; [|split]]]; auto. rewrite E1, R4. reflexivity. }
  change (bgq s1) with (@nil btask) in R6. change (evs s1) with (evs S) in R6. change (nconn s1) with (nconn S) in R6.
  change (reqs s1) with (reqs S) in R6. change (idle s1) with (idle S) in R2. change (connects s1) with (connects S) in R3.
  destruct (d_t (r_dial q)) as [[|]|] eqn:Et; [destruct (d_h (r_dial q)) as [[|]|] eqn:Eh| |];
    destruct R6 as (V1 & V2 & V3 & V4).
  - destruct (Hfin [nconn S]) as (A1 & B1 & C1 & D1 & E1); [exact V2|cbn; lia|].
    exists [ENew (nconn S) r]. split; [rewrite B1, V1; reflexivity|]. split; [|split; [exact D1|split; [exact C1|exact E1]]].
    cbn [t_nconn abs]. rewrite evs_eqb_refl. f_equal. rewrite A1. cbn [offers fold_left]. f_equal.
    unfold abs. rewrite V4, R2, V3, R3. reflexivity.
  - destruct (Hfin []) as (A1 & B1 & C1 & D1 & E1); [exact V2|cbn; lia|].
    exists []. rewrite app_nil_r. split; [rewrite B1, V1; reflexivity|]. split; [|split; [exact D1|split; [exact C1|exact E1]]].
    cbn [evs_eqb list_eqb]. f_equal. rewrite A1. cbn [offers fold_left]. unfold abs. rewrite V4, R2, V3, R3. reflexivity.
  - destruct (Hfin []) as (A1 & B1 & C1 & D1 & E1); [exact V2|cbn; lia|].
    exists []. rewrite app_nil_r. split; [rewrite B1, V1; reflexivity|]. split; [|split; [exact D1|split; [exact C1|exact E1]]].
    cbn [evs_eqb list_eqb]. f_equal. rewrite A1. cbn [offers fold_left]. unfold abs. rewrite V4, R2, V3, R3. reflexivity.
  - destruct (Hfin []) as (A1 & B1 & C1 & D1 & E1); [exact V2|cbn; lia|].
    exists []. rewrite app_nil_r. split; [rewrite B1, V1; reflexivity|]. split; [|split; [exact D1|split; [exact C1|exact E1]]].
    cbn [evs_eqb list_eqb]. f_equal. rewrite A1. cbn [offers fold_left]. unfold abs. rewrite V4, R2, V3, R3. reflexivity.
  - destruct (Hfin []) as (A1 & B1 & C1 & D1 & E1); [exact V2|cbn; lia|].
    exists []. rewrite app_nil_r. split; [rewrite B1, V1; reflexivity|]. split; [|split; [exact D1|split; [exact C1|exact E1]]].
    cbn [evs_eqb list_eqb]. f_equal. rewrite A1. cbn [offers fold_left]. unfold abs. rewrite V4, R2, V3, R3. reflexivity.
Qed.

(* ---------------------------------------------------------------- one step of the model is accepted *)
Lemma sim_issue s : Inv s -> tstep (cont s) Issue (evs (step s Issue)) (abs s) = Some (abs (step s Issue)).
Proof.
  intros (HK & Eb). rewrite step_eq. cbn [do_op]. unfold do_issue.
  change (idle (set_evs [] s)) with (idle s). cbn [tstep]. change (t_idle (abs s)) with (idle s).
  destruct (rev (idle s)) as [|c rest] eqn:Ei.
  - rewrite settle_nil by (cbn; exact Eb). cbn [evs set_queue set_reqs set_evs evs_eqb list_eqb].
    f_equal. unfold abs. cbn. rewrite map_app. reflexivity.
  - rewrite settle_nil by (cbn; exact Eb). cbn [evs set_idle set_reqs set_evs evs_eqb list_eqb].
    f_equal. unfold abs. cbn. rewrite map_app. reflexivity.
Qed.

Lemma sim_release c s : Inv s -> tstep (cont s) (Release c) (evs (step s (Release c))) (abs s) = Some (abs (step s (Release c))).
Proof.
  intros (HK & Eb). pose proof HK as (HQ & HD & HC & HP). rewrite step_eq. cbn [do_op tstep]. unfold do_release.
  change (holder (set_evs [] s) c) with (holder s c). change (t_holder_from 0 (t_reqs (abs s)) c) with (t_holder_from 0 (map abs_req (reqs s)) c).
  rewrite holder_abs. change (holder_from 0 (reqs s) c) with (holder s c).
  destruct (holder s c) as [r|] eqn:Hh.
  - destruct (holder_spec _ _ _ Hh) as (q & Hq & Est).
    set (S1 := spawn (BPush c) (upd_req r (set_st RDone) (set_evs [] s))).
    assert (HQ1 : QInv S1).
    { apply (QInv_fields (upd_req r (set_st RDone) s)); try reflexivity.
      eapply (QInv_upd s _ r q (set_st RDone q)); eauto. cbn. apply upd_nth_ext. intros x Hx. congruence. discriminate. }
    destruct (settle_pushes [c] fuel S1) as (A1 & B1 & C1 & D1 & E1); auto.
    + unfold S1. cbn. now rewrite Eb.
    + unfold fuel. cbn. lia.
    + rewrite B1, A1. cbn [evs S1 spawn set_bgq upd_req set_reqs set_evs evs_eqb list_eqb offers fold_left]. f_equal. f_equal.
      symmetry. change (abs S1) with (abs (upd_req r (set_st RDone) s)).
      apply abs_upd_req. intros x Hx. rewrite Hq in Hx. injection Hx as <-. unfold abs_req. cbn. now rewrite Est.
  - rewrite settle_nil by (cbn; exact Eb). reflexivity.
Qed.

(* the environment resolves one phase of a live dial *)
Lemma sim_env s r q f f' : Inv s -> nth_error (reqs s) r = Some q -> started (r_dial q) = true ->
  dshape (f (r_dial q)) -> d_ph (f (r_dial q)) = d_ph (r_dial q) -> d_bg (f (r_dial q)) = d_bg (r_dial q) ->
  abs_dial (f (r_dial q)) = f' (abs_dial (r_dial q)) ->
  let S := (let s' := upd_req r (upd_dial f) (set_evs [] s) in if d_bg (r_dial q) then spawn (BDial r) s' else s') in
  let t1 := t_upd r (q_upd_dial f') (abs s) in
  (if abandoned (abs_req q) then bg_check r (evs (settle fuel S)) t1
   else if evs_eqb (evs (settle fuel S)) [] then Some t1 else None) = Some (abs (settle fuel S)).
Proof.
  intros (HK & Eb) Hq Hst Hsh Hph Hbg Habs. pose proof HK as (HQ & HD & HC & HP). cbn zeta.
  destruct (DW_nth _ _ _ HD Hq) as (_ & Hown). unfold downer in Hown.
  assert (Ht1 : abs (upd_req r (upd_dial f) s) = t_upd r (q_upd_dial f') (abs s)).
  { apply abs_upd_req. intros x Hx. rewrite Hq in Hx. injection Hx as <-. unfold abs_req, q_upd_dial. cbn. now rewrite Habs. }
  assert (HQ1 : QInv (upd_req r (upd_dial f) s)) by now apply QInv_upd_dial.
  assert (Hcase : (abandoned (abs_req q) = false /\ d_bg (r_dial q) = false) \/ (abandoned (abs_req q) = true /\ d_bg (r_dial q) = true)).
  { unfold abandoned, abs_req, started in *. cbn [q_st abs_st].
    destruct (r_st q) as [c|[c|]|c| | |] eqn:Est; cbn [abs_st].
    - rewrite Hown in Hst. discriminate.
    - left. split; [reflexivity|apply Hown].
    - left. split; [reflexivity|apply Hown].
    - destruct Hown as [Hg|(Hb & _)]; [rewrite Hg in Hst; discriminate|right; auto].
    - destruct Hown as [Hg|(Hb & _)]; [rewrite Hg in Hst; discriminate|right; auto].
    - destruct Hown as [Hg|(Hb & _)]; [rewrite Hg in Hst; discriminate|right; auto].
    - destruct Hown as [Hg|(Hb & _)]; [rewrite Hg in Hst; discriminate|right; auto]. }
  destruct Hcase as [(-> & ->)|(-> & Hb)].
  - rewrite settle_nil by (cbn; exact Eb). cbn [evs upd_req set_reqs set_evs evs_eqb list_eqb]. f_equal. symmetry. exact Ht1.
  - rewrite Hb. set (S := spawn (BDial r) (upd_req r (upd_dial f) (set_evs [] s))).
    assert (G1 : QInv S) by (eapply QInv_fields; [| |exact HQ1]; reflexivity).
    assert (G2 : bgq S = [BDial r]) by (unfold S; cbn; now rewrite Eb).
    assert (G3 : nth_error (reqs S) r = Some (upd_dial f q)) by (unfold S; cbn; now rewrite nth_error_upd_eq, Hq).
    assert (G4 : d_bg (r_dial (upd_dial f q)) = true) by (cbn; congruence).
    assert (G5 : started (r_dial (upd_dial f q)) = true) by (unfold started in *; cbn; now rewrite Hph).
    destruct (bg_sim S r (upd_dial f q) G1 G2 G3 G4 G5 Hsh) as (l & E1 & E2 & _).
    change (evs S ++ l) with l in E1. rewrite E1. change (abs S) with (abs (upd_req r (upd_dial f) s)) in E2. rewrite Ht1 in E2. exact E2.
Qed.

Lemma sim_tdone r ok s : Inv s -> tstep (cont s) (TDone r ok) (evs (step s (TDone r ok))) (abs s) = Some (abs (step s (TDone r ok))).
Proof.
  intros HI. pose proof HI as (HK & Eb). pose proof HK as (HQ & HD & HC & HP). rewrite step_eq. cbn [do_op tstep]. unfold do_tdone.
  rewrite abs_nth. change (get_dial (set_evs [] s) r) with (get_dial s r).
  destruct (nth_error (reqs s) r) as [q|] eqn:Hq.
  2:{ unfold get_dial. rewrite Hq. cbn [no_dial d_ph d_t d_h option_map]. rewrite settle_nil by (cbn; exact Eb). reflexivity. }
  rewrite (get_dial_nth _ _ _ Hq). cbn [option_map abs_req q_dial abs_dial k_st k_dead k_t].
  destruct (DW_nth _ _ _ HD Hq) as (Hsh & _).
  assert (Hnop : tstep (cont s) (TDone r ok) [] (abs s) = tstep (cont s) (TDone r ok) [] (abs s)) by reflexivity.
  destruct (d_ph (r_dial q)) eqn:Eph; cbn [andb negb];
    try (rewrite settle_nil by (cbn; exact Eb); reflexivity).
  - destruct (d_t (r_dial q)) eqn:Et; try (rewrite settle_nil by (cbn; exact Eb); reflexivity).
    apply (sim_env s r q (set_t (Some ok)) (fun d => mkTD (k_st d) (k_dead d) (Some ok) (k_h d))); auto.
    + unfold started. now rewrite Eph.
    + unfold dshape in *. cbn. rewrite Eph in *. right. destruct Hsh; congruence.
  - unfold dshape in Hsh. rewrite Eph in Hsh. rewrite Hsh. rewrite settle_nil by (cbn; exact Eb). reflexivity.
Qed.

Lemma sim_hdone r ok s : Inv s -> tstep (cont s) (HDone r ok) (evs (step s (HDone r ok))) (abs s) = Some (abs (step s (HDone r ok))).
Proof.
  intros HI. pose proof HI as (HK & Eb). pose proof HK as (HQ & HD & HC & HP). rewrite step_eq. cbn [do_op tstep]. unfold do_hdone.
  rewrite abs_nth. change (get_dial (set_evs [] s) r) with (get_dial s r).
  destruct (nth_error (reqs s) r) as [q|] eqn:Hq.
  2:{ unfold get_dial. rewrite Hq. cbn [no_dial d_ph d_t d_h option_map]. rewrite settle_nil by (cbn; exact Eb). reflexivity. }
  rewrite (get_dial_nth _ _ _ Hq). cbn [option_map abs_req q_dial abs_dial k_st k_dead k_t k_h].
  destruct (DW_nth _ _ _ HD Hq) as (Hsh & _).
  destruct (d_ph (r_dial q)) eqn:Eph; cbn [andb negb];
    try (rewrite settle_nil by (cbn; exact Eb); reflexivity).
  - destruct (d_t (r_dial q)) as [[|]|] eqn:Et; try (rewrite settle_nil by (cbn; exact Eb); reflexivity).
    destruct (d_h (r_dial q)) eqn:Eh; try (rewrite settle_nil by (cbn; exact Eb); reflexivity).
    apply (sim_env s r q (set_h (Some ok)) (fun d => mkTD (k_st d) (k_dead d) (k_t d) (Some ok))); auto.
    + unfold started. now rewrite Eph.
    + unfold dshape in *. cbn. rewrite Eph in *. now left.
  - unfold dshape in Hsh. rewrite Eph in Hsh. rewrite Hsh.
    destruct (d_h (r_dial q)) eqn:Eh; try (rewrite settle_nil by (cbn; exact Eb); reflexivity).
    apply (sim_env s r q (set_h (Some ok)) (fun d => mkTD (k_st d) (k_dead d) (k_t d) (Some ok))); auto.
    + unfold started. now rewrite Eph.
    + unfold dshape in *. cbn. now rewrite Eph.
Qed.

Lemma sim_cancel r s : Inv s -> tstep (cont s) (Cancel r) (evs (step s (Cancel r))) (abs s) = Some (abs (step s (Cancel r))).
Proof.
  intros HI. pose proof HI as (HK & Eb). pose proof HK as (HQ & HD & HC & HP). rewrite step_eq. cbn [do_op tstep]. unfold do_cancel.
  rewrite abs_nth. change (nth_error (reqs (set_evs [] s)) r) with (nth_error (reqs s) r).
  destruct (nth_error (reqs s) r) as [q|] eqn:Hq.
  2:{ cbn [option_map]. rewrite settle_nil by (cbn; exact Eb). reflexivity. }
  cbn [option_map abs_req q_st].
  destruct (DW_nth _ _ _ HD Hq) as (Hsh & Hown). unfold downer in Hown.
  set (sA := upd_req r (set_st RCancelled) (set_evs [] s)).
  assert (HQA : QInv sA).
  { apply (QInv_fields (upd_req r (set_st RCancelled) s)); try reflexivity.
    eapply (QInv_upd s _ r q (set_st RCancelled q)); eauto. cbn. apply upd_nth_ext. intros x Hx. congruence. discriminate. }
  assert (HabsA : abs sA = t_upd r (q_set_st TOver) (abs s)).
  { change (abs sA) with (abs (upd_req r (set_st RCancelled) s)). apply abs_upd_req. intros x Hx. reflexivity. }
  assert (HqA : nth_error (reqs sA) r = Some (set_st RCancelled q)).
  { unfold sA. cbn. now rewrite nth_error_upd_eq, Hq. }
  destruct (r_st q) as [c|[c|]|c| | |] eqn:Est; cbn [abs_st];
    try (rewrite settle_nil by (cbn; exact Eb); reflexivity).
  - (* connection taken from the idle list goes back *)
    rewrite settle_nil by (rewrite bgq_push; cbn; exact Eb). rewrite evs_push. cbn [evs sA upd_req set_reqs set_evs evs_eqb list_eqb].
    f_equal. change (upd_req r (set_st RCancelled) (set_evs [] s)) with sA. rewrite abs_push by exact HQA. now rewrite HabsA.
  - destruct Hown as (Hbg & Hne).
    destruct (abandon_sim sA r (set_st RCancelled q) [c] HQA Eb HqA eq_refl Hne Hsh (le_n 1)) as (l & E1 & E2 & _).
    change (spawns [c] (abandon r sA)) with (spawn (BPush c) (abandon r sA)) in *.
    change (evs sA ++ l) with l in E1. rewrite E1. cbn [offers fold_left] in E2. rewrite HabsA in E2. exact E2.
  - destruct Hown as (Hbg & Hne).
    destruct (abandon_sim sA r (set_st RCancelled q) [] HQA Eb HqA eq_refl Hne Hsh (le_S _ _ (le_n 0))) as (l & E1 & E2 & _).
    change (spawns [] (abandon r sA)) with (abandon r sA) in *.
    change (evs sA ++ l) with l in E1. rewrite E1. cbn [offers fold_left] in E2. rewrite HabsA in E2. exact E2.
Qed.

Lemma sim_poll r s : Inv s -> tstep (cont s) (Poll r) (evs (step s (Poll r))) (abs s) = Some (abs (step s (Poll r))).
Proof.
  intros HI. pose proof HI as (HK & Eb). pose proof HK as (HQ & HD & HC & HP). rewrite step_eq. cbn [do_op tstep]. unfold do_poll.
  rewrite abs_nth. change (nth_error (reqs (set_evs [] s)) r) with (nth_error (reqs s) r).
  destruct (nth_error (reqs s) r) as [q|] eqn:Hq.
  2:{ cbn [option_map]. rewrite settle_nil by (cbn; exact Eb). reflexivity. }
  cbn [option_map abs_req q_st q_dial].
  destruct (DW_nth _ _ _ HD Hq) as (Hsh & Hown). unfold downer in Hown.
  destruct (r_st q) as [c|[c|]|c| | |] eqn:Est; cbn [abs_st];
    try (rewrite settle_nil by (cbn; exact Eb); reflexivity).
  - (* connection from the idle list *)
    rewrite settle_nil by (cbn; exact Eb). cbn [evs serve emit upd_req set_reqs set_evs app].
    rewrite evs_eqb_refl. rewrite (held_elsewhere s r q c HC Hq) by (first [unfold rloc; rewrite Est; now left|rewrite Est; discriminate]).
    cbn [andb negb]. f_equal. symmetry. apply (abs_upd_req (set_evs [] s)). intros x Hx. reflexivity.
  - (* offered connection: served by it, the own dial is abandoned *)
    destruct Hown as (Hbg & Hne).
    set (sA := serve r c (set_evs [] s)).
    assert (HQA : QInv sA).
    { apply (QInv_fields (upd_req r (set_st (RServed c)) s)); try reflexivity.
      eapply (QInv_upd s _ r q (set_st (RServed c) q)); eauto. cbn. apply upd_nth_ext. intros x Hx. congruence. discriminate. }
    assert (HabsA : abs sA = t_upd r (q_set_st (TServed c)) (abs s)).
    { change (abs sA) with (abs (upd_req r (set_st (RServed c)) s)). apply abs_upd_req. intros x Hx. reflexivity. }
    assert (HqA : nth_error (reqs sA) r = Some (set_st (RServed c) q)).
    { unfold sA. cbn. now rewrite nth_error_upd_eq, Hq. }
    destruct (abandon_sim sA r (set_st (RServed c) q) [] HQA Eb HqA eq_refl Hne Hsh (le_S _ _ (le_n 0))) as (l & E1 & E2 & _).
    change (spawns [] (abandon r sA)) with (abandon r sA) in *.
    change (evs sA ++ l) with (EHand r c :: l) in E1. rewrite E1. rewrite ev_eqb_refl.
    rewrite (held_elsewhere s r q c HC Hq) by (first [unfold rloc; rewrite Est; now left|rewrite Est; discriminate]).
    cbn [andb negb]. cbn [offers fold_left] in E2. rewrite HabsA in E2. exact E2.
  - (* own connector *)
    destruct Hown as (Hbg & Hne).
    assert (Hfresh : held (abs s) (nconn s) = false) by now apply held_fresh.
    assert (Hupd : forall F F' (s1 : state), reqs s1 = reqs s -> idle s1 = idle s ->
              (abs_req (F q) = F' (abs_req q)) ->
              forall n k, mkT (upd_nth r F' (map abs_req (reqs s))) (idle s) n k =
                          mkT (map abs_req (upd_nth r F (reqs s1))) (idle s1) n k).
    { intros F F' s1 E1 E2 HF n k. rewrite E1, E2. f_equal. symmetry. apply map_upd_nth. intros x Hx. rewrite Hq in Hx. now injection Hx as <-. }
    unfold poll_dial. change (get_dial (set_evs [] s) r) with (get_dial s r). rewrite (get_dial_nth _ _ _ Hq).
    destruct (r_dial q) as [ph t h bg] eqn:Ed. unfold dshape in Hsh. cbn in Hsh, Hne, Hbg. cbn [abs_dial d_ph d_t d_h k_st negb].
    destruct ph; try (now destruct Hne);
      destruct t as [[|]|], h as [[|]|]; try (destruct Hsh; discriminate); try discriminate;
      cbn [dial_poll d_ph d_t d_h set_ph];
      (rewrite settle_nil by (cbn; exact Eb));
      cbn -[held abs]; rewrite ?Nat.eqb_refl; cbn -[held abs]; rewrite ?Hfresh; cbn -[held abs];
      f_equal; unfold abs, t_upd, t_set_reqs; cbn -[held]; rewrite ?upd_nth_fuse; f_equal.
    all: first [ symmetry; apply map_upd_nth; intros x Hx; rewrite Hq in Hx; injection Hx as <-;
                 unfold abs_req, q_upd_dial, kill; cbn; rewrite ?Ed, ?Est; reflexivity
               | symmetry; rewrite (map_upd_nth abs_req _ (fun x => x)); [apply upd_nth_id|];
                 intros x Hx; rewrite Hq in Hx; injection Hx as <-;
                 unfold abs_req, q_upd_dial, kill; cbn; rewrite ?Ed, ?Est; reflexivity ].
Qed.

Lemma sim_step s o : Inv s -> tstep (cont s) o (evs (step s o)) (abs s) = Some (abs (step s o)).
Proof.
  intros HI. destruct o.
  - now apply sim_issue. - now apply sim_poll. - now apply sim_tdone. - now apply sim_hdone.
  - now apply sim_release. - now apply sim_cancel.
Qed.

Lemma snap_ok_abs s : Inv s -> snap_ok (observe s) (abs s) = true.
Proof.
  intros ((HQ & _) & _). unfold snap_ok, observe. cbn [o_idle o_live o_connects t_idle t_connects abs].
  rewrite (live_count_abs s HQ), !Nat.eqb_refl, !andb_true_r.
  induction (idle s) as [|a l IH]; cbn; auto. now rewrite Nat.eqb_refl.
Qed.

Lemma cont_poll_dial r s : cont (snd (poll_dial r s)) = cont s.
Proof. destruct (poll_dial_eq r s) as (s1 & -> & E & _). cbn. exact E. Qed.
Lemma cont_run_task b s : cont (run_task b s) = cont s.
Proof.
  destruct b as [c|r]; cbn [run_task]; [apply cont_push|].
  destruct (d_bg (get_dial s r)); auto. pose proof (cont_poll_dial r s) as E. destruct (poll_dial r s) as [res s1]. cbn in E.
  destruct res; cbn; auto.
Qed.
Lemma cont_settle f : forall s, cont (settle f s) = cont s.
Proof.
  induction f as [|f IH]; intros s; cbn; auto. destruct (bgq s) as [|b rest]; auto. rewrite IH, cont_run_task. reflexivity.
Qed.
Lemma cont_abandon r s : cont (abandon r s) = cont s.
Proof. unfold abandon. destruct (started (get_dial s r)); [destruct (cont s) eqn:E|]; cbn; auto. Qed.
Lemma cont_step s o : cont (step s o) = cont s.
Proof.
  rewrite step_eq, cont_settle. destruct o as [|r|r ok|r ok|c|r]; cbn [do_op].
  - unfold do_issue. destruct (rev (idle (set_evs [] s))); reflexivity.
  - unfold do_poll. destruct (nth_error (reqs (set_evs [] s)) r) as [q|]; auto.
    destruct (r_st q) as [c|[c|]|c| | |]; auto.
    + now rewrite cont_abandon.
    + pose proof (cont_poll_dial r (set_evs [] s)) as E. destruct (poll_dial r (set_evs [] s)) as [res s1]. cbn in E. destruct res; cbn; auto.
  - unfold do_tdone. destruct (d_ph (get_dial (set_evs [] s) r)); auto. destruct (d_t (get_dial (set_evs [] s) r)); auto.
    destruct (d_bg (get_dial (set_evs [] s) r)); auto.
  - unfold do_hdone.
    destruct (match d_ph (get_dial (set_evs [] s) r) with DTrans => match d_t (get_dial (set_evs [] s) r) with Some true => true | _ => false end | DHand => true | _ => false end); auto.
    destruct (d_h (get_dial (set_evs [] s) r)); auto. destruct (d_bg (get_dial (set_evs [] s) r)); auto.
  - unfold do_release. destruct (holder (set_evs [] s) c); auto.
  - unfold do_cancel. destruct (nth_error (reqs (set_evs [] s)) r) as [q|]; auto.
    destruct (r_st q) as [c|got|c| | |]; auto.
    + now rewrite cont_push.
    + destruct got; cbn; now rewrite cont_abandon.
Qed.

Lemma mon_from_run : forall ops s, Inv s -> mon_from (cont s) (abs s) ops (fst (run s ops)) = true.
Proof.
  induction ops as [|o ops IH]; intros s HI; [reflexivity|].
  pose proof (step_Inv s o HI) as HI'. specialize (IH (step s o) HI'). rewrite cont_step in IH.
  change (run s (o :: ops)) with (let s' := step s o in let '(l, s'') := run s' ops in (observe s' :: l, s'')). cbn zeta.
  destruct (run (step s o) ops) as [l s'']. cbn [fst mon_from] in *. change (o_evs (observe (step s o))) with (evs (step s o)).
  rewrite (sim_step s o HI). rewrite (snap_ok_abs _ HI'). exact IH.
Qed.

Theorem mon_ckphase_holds : forall cn ops, mon_ckphase cn ops (trace cn ops) = true.
Proof. intros cn ops. exact (mon_from_run ops (init cn) (Inv_init cn)). Qed.
Print Assumptions mon_ckphase_holds.
