(* C14 for a two-phase dial, as an executable monitor over OBSERVABLES only: the operations applied and, after
   each, the events seen (connect called, connection made, inner service called with a connection, request
   failed, poll pending, started dial dropped) and the pool snapshot (idle ids, live waiters, connects).
   The monitor keeps its own book (a tracker) of where every connection is and judges:
     (a)  a connection that comes back for the origin (released; pushed back by a cancelled checkout; made by
          an abandoned dial) is OFFERED to the request that has been waiting longest (issued when nothing was
          idle, not yet served / failed / cancelled, nothing offered to it yet) - whatever its own dial is
          doing - and only when nobody waits does it go to the idle list; a request with an offer is served by
          exactly that connection AT ITS NEXT POLL;
     (b)  the dial of a request that is pre-empted or cancelled: with continue_after_preemption (and the
          connect already called) it is not dropped, and once the environment has resolved transport and
          handshake successfully its connection exists and has been offered as in (a), in that very step;
          without, a started dial is dropped at once; a dropped / finished / failed dial never makes a
          connection;
     (c)  a request is handed a connection at most once, and never one that another request holds.
   The outcome of a request's OWN dial when it is polled (pending / served by the new connection / failed) is
   not prescribed - only its shape. *)
From HD Require Import common.Base ckphase.Model.

Inductive treq :=
| TIdle (c : nat)      (* holds a connection taken from the idle list, not served yet *)
| TWait                (* waiting, nothing offered *)
| TProm (c : nat)      (* waiting, c has been offered: must be served by c at its next poll *)
| TServed (c : nat)
| TOver.               (* completed, failed or cancelled *)
Record tdial := mkTD {
  k_st : bool;             (* connect was called *)
  k_dead : bool;           (* finished, failed, dropped or never there: must stay silent *)
  k_t : option bool;       (* transport result the environment gave *)
  k_h : option bool
}.
Record treqd := mkTR { q_st : treq; q_dial : tdial }.
Record trk := mkT { t_reqs : list treqd; t_idle : list nat; t_nconn : nat; t_connects : nat }.
Definition tinit := mkT [] [] 0 0.

Definition t_set_reqs v t := mkT v (t_idle t) (t_nconn t) (t_connects t).
Definition t_set_idle v t := mkT (t_reqs t) v (t_nconn t) (t_connects t).
Definition t_upd r f t := t_set_reqs (upd_nth r f (t_reqs t)) t.
Definition q_set_st v q := mkTR v (q_dial q).
Definition q_upd_dial f q := mkTR (q_st q) (f (q_dial q)).
Definition kill d := mkTD true true (k_t d) (k_h d).
Definition dead_dial := mkTD true true None None.

Definition ev_eqb (a b : event) : bool :=
  match a, b with
  | EStart r, EStart r' => Nat.eqb r r'
  | ENew c r, ENew c' r' => Nat.eqb c c' && Nat.eqb r r'
  | EHand r c, EHand r' c' => Nat.eqb r r' && Nat.eqb c c'
  | EFail r h, EFail r' h' => Nat.eqb r r' && Bool.eqb h h'
  | EPend r, EPend r' => Nat.eqb r r'
  | EDrop r, EDrop r' => Nat.eqb r r'
  | _, _ => false
  end.
Definition evs_eqb := list_eqb ev_eqb.

(* the request that has waited longest *)
Fixpoint first_wait_from (i : nat) (l : list treqd) : option nat :=
  match l with
  | [] => None
  | q :: t => match q_st q with TWait => Some i | _ => first_wait_from (S i) t end
  end.
Definition first_wait t := first_wait_from 0 (t_reqs t).
(* clause (a): a connection comes back *)
Definition offer (c : nat) t :=
  match first_wait t with
  | Some r => t_upd r (q_set_st (TProm c)) t
  | None => t_set_idle (t_idle t ++ [c]) t
  end.

Definition held t c := existsb (fun q => match q_st q with TServed c' => Nat.eqb c c' | _ => false end) (t_reqs t).
Fixpoint t_holder_from (i : nat) (l : list treqd) (c : nat) : option nat :=
  match l with
  | [] => None
  | q :: t => match q_st q with
              | TServed c' => if Nat.eqb c c' then Some i else t_holder_from (S i) t c
              | _ => t_holder_from (S i) t c
              end
  end.

(* clause (b), second half: the dial of r has been abandoned (its request was served by another connection
   or cancelled) and is still running: [evs] is what the step showed after the abandonment *)
Definition bg_check (r : nat) (evs : list event) t : option trk :=
  match nth_error (t_reqs t) r with
  | None => None
  | Some q =>
      let d := q_dial q in
      match k_t d, k_h d with
      | Some false, _ | Some true, Some false =>                    (* the attempt failed: nothing comes of it *)
          if evs_eqb evs [] then Some (t_upd r (q_upd_dial kill) t) else None
      | Some true, Some true =>                                     (* resolved: its connection is in the pool NOW *)
          let c := t_nconn t in
          if evs_eqb evs [ENew c r]
          then Some (offer c (mkT (upd_nth r (q_upd_dial kill) (t_reqs t)) (t_idle t) (S c) (t_connects t)))
          else None
      | _, _ => if evs_eqb evs [] then Some t else None
      end
  end.
(* clause (b), first half: the checkout of r goes away before its own dial finished *)
Definition abandon_check (cn : bool) (r : nat) (evs : list event) t : option trk :=
  match nth_error (t_reqs t) r with
  | None => None
  | Some q =>
      let d := q_dial q in
      if k_st d && negb (k_dead d) then
        if cn then bg_check r evs t
        else if evs_eqb evs [EDrop r] then Some (t_upd r (q_upd_dial kill) t) else None
      else if evs_eqb evs [] then Some (t_upd r (q_upd_dial kill) t) else None
  end.

Definition strip_start (r : nat) (need : bool) (evs : list event) : option (list event) :=
  if need then match evs with EStart r' :: rest => if Nat.eqb r r' then Some rest else None | _ => None end
  else Some evs.

Definition abandoned q := match q_st q with TServed _ | TOver => true | _ => false end.

Definition tstep (cn : bool) (o : op) (evs : list event) (t : trk) : option trk :=
  match o with
  | Issue =>
      if evs_eqb evs [] then
        match rev (t_idle t) with
        | c :: rest => Some (t_set_idle (rev rest) (t_set_reqs (t_reqs t ++ [mkTR (TIdle c) dead_dial]) t))
        | [] => Some (t_set_reqs (t_reqs t ++ [mkTR TWait (mkTD false false None None)]) t)
        end
      else None
  | Poll r =>
      match nth_error (t_reqs t) r with
      | None => if evs_eqb evs [] then Some t else None
      | Some q =>
          match q_st q with
          | TIdle c =>
              if evs_eqb evs [EHand r c] && negb (held t c) then Some (t_upd r (q_set_st (TServed c)) t) else None
          | TProm c =>                                   (* (a): the offered connection, at this poll *)
              match evs with
              | e :: rest =>
                  if ev_eqb e (EHand r c) && negb (held t c)
                  then abandon_check cn r rest (t_upd r (q_set_st (TServed c)) t)
                  else None
              | [] => None
              end
          | TWait =>
              let d := q_dial q in
              match strip_start r (negb (k_st d)) evs with
              | None => None                                (* the connect call is missing *)
              | Some evs =>
                  let t := if k_st d then t
                           else mkT (upd_nth r (q_upd_dial (fun d => mkTD true (k_dead d) (k_t d) (k_h d))) (t_reqs t))
                                    (t_idle t) (t_nconn t) (S (t_connects t)) in
                  match evs with
                  | [EPend r'] => if Nat.eqb r r' then Some t else None
                  | [EFail r' _] => if Nat.eqb r r' then Some (t_upd r (fun q => mkTR TOver (kill (q_dial q))) t) else None
                  | [ENew c r'; EHand r'' c'] =>
                      if Nat.eqb r r' && Nat.eqb r r'' && Nat.eqb c c' && Nat.eqb c (t_nconn t) && negb (held t c)
                      then Some (mkT (upd_nth r (fun q => mkTR (TServed c) (kill (q_dial q))) (t_reqs t)) (t_idle t) (S c) (t_connects t))
                      else None
                  | _ => None
                  end
              end
          | TServed _ | TOver => if evs_eqb evs [] then Some t else None
          end
      end
  | TDone r ok =>
      match nth_error (t_reqs t) r with
      | None => if evs_eqb evs [] then Some t else None
      | Some q =>
          let d := q_dial q in
          if k_st d && negb (k_dead d) && match k_t d with None => true | _ => false end then
            let t := t_upd r (q_upd_dial (fun d => mkTD (k_st d) (k_dead d) (Some ok) (k_h d))) t in
            if abandoned q then bg_check r evs t else if evs_eqb evs [] then Some t else None
          else if evs_eqb evs [] then Some t else None
      end
  | HDone r ok =>
      match nth_error (t_reqs t) r with
      | None => if evs_eqb evs [] then Some t else None
      | Some q =>
          let d := q_dial q in
          if k_st d && negb (k_dead d) && match k_t d, k_h d with Some true, None => true | _, _ => false end then
            let t := t_upd r (q_upd_dial (fun d => mkTD (k_st d) (k_dead d) (k_t d) (Some ok))) t in
            if abandoned q then bg_check r evs t else if evs_eqb evs [] then Some t else None
          else if evs_eqb evs [] then Some t else None
      end
  | Release c =>
      if evs_eqb evs [] then
        match t_holder_from 0 (t_reqs t) c with
        | Some r => Some (offer c (t_upd r (q_set_st TOver) t))
        | None => Some t
        end
      else None
  | Cancel r =>
      match nth_error (t_reqs t) r with
      | None => if evs_eqb evs [] then Some t else None
      | Some q =>
          match q_st q with
          | TIdle c => if evs_eqb evs [] then Some (offer c (t_upd r (q_set_st TOver) t)) else None
          | TWait => abandon_check cn r evs (t_upd r (q_set_st TOver) t)
          | TProm c => abandon_check cn r evs (offer c (t_upd r (q_set_st TOver) t))
          | TServed _ | TOver => if evs_eqb evs [] then Some t else None
          end
      end
  end.

Definition wait_count t := List.length (filter (fun q => match q_st q with TWait => true | _ => false end) (t_reqs t)).
Definition snap_ok (o : oobs) t : bool :=
  list_eqb Nat.eqb (o_idle o) (t_idle t) && Nat.eqb (o_live o) (wait_count t) && Nat.eqb (o_connects o) (t_connects t).

Fixpoint mon_from (cn : bool) (t : trk) (ops : list op) (obs : list oobs) : bool :=
  match ops, obs with
  | [], [] => true
  | o :: ops', b :: obs' =>
      match tstep cn o (o_evs b) t with
      | Some t' => snap_ok b t' && mon_from cn t' ops' obs'
      | None => false
      end
  | _, _ => false
  end.
Definition mon_ckphase (cn : bool) (ops : list op) (obs : list oobs) : bool := mon_from cn tinit ops obs.
