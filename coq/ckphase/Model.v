(* M-CKPHASE: ONE origin of the client pool with a TWO-PHASE dial per request (transport, then protocol
   handshake), HTTP/1 (non-shareable) connections only.  Mirrors
     src/client/pool/checkout.rs   Checkout::poll (waiter polled BEFORE the connector on every poll),
                                   Waiting::poll, as_delayed, PinnedDrop, register_connected
     src/client/conn/connector.rs  Connector::poll_connector (PollReadyTransport -> Connect ->
                                   PollReadyHandshake -> Handshake), is_started
     src/client/pool/mod.rs        Pool::checkout (pop / queue a waiter), PoolInner::push (walk the waiters:
                                   closed ones are discarded, the first live one gets the connection, else
                                   idle list), Pooled::drop + WhenReady (a released connection is pushed by a
                                   spawned task), idle pop (most recent first)
     src/client/pool/service.rs    ResponseFuture::poll (the inner service is called with the connection, THEN
                                   the checkout is dropped)
   M-POOL (pool/Model.v) resolves a dial in ONE environment step (DialDone); here the environment resolves
   the transport (TDone) and the handshake (HDone) separately, so a poll can find "transport connected,
   handshake pending".  Where both apply they agree: DialDone r = TDone r ; HDone r with no poll in between
   (ckphase/Corr.v, Example overlap_with_pool_model).
   Assumptions of this component: one origin; max_idle_per_host >= number of connections; no idle timeout;
   connections stay open; background tasks (tokio::spawn: WhenReady, delayed checkout) run to quiescence, in
   FIFO order, after every operation (the harness does exactly that). *)
From HD Require Import common.Base.

Inductive op :=
| Issue                          (* a new HTTP/1 request for the origin (ids 0,1,2,... in issue order) *)
| Poll (r : nat)                 (* the request future is polled once *)
| TDone (r : nat) (ok : bool)    (* the transport future of r's dial resolves *)
| HDone (r : nat) (ok : bool)    (* the protocol handshake of r's dial resolves *)
| Release (c : nat)              (* the request holding connection c completes; c becomes ready again *)
| Cancel (r : nat).              (* the request future is dropped while still in its checkout *)

(* ---- the connector of a request *)
Inductive dphase :=
| DNew      (* PollReadyTransport: never polled, the transport was not asked yet *)
| DTrans    (* Connect: transport future pending as far as the connector has seen *)
| DHand     (* Handshake: a poll saw the transport connected; handshake future pending *)
| DGone.    (* finished, dropped, or never there *)
Record dial := mkDial {
  d_ph : dphase;
  d_t : option bool;     (* result of the transport future, once the environment resolved it *)
  d_h : option bool;     (* result of the handshake future *)
  d_bg : bool            (* polled by a spawned delayed checkout (continue_after_preemption) *)
}.
Definition set_ph p d := mkDial p (d_t d) (d_h d) (d_bg d).
Definition set_t v d := mkDial (d_ph d) v (d_h d) (d_bg d).
Definition set_h v d := mkDial (d_ph d) (d_t d) v (d_bg d).
Definition set_bg v d := mkDial (d_ph d) (d_t d) (d_h d) v.
Definition started d := match d_ph d with DTrans | DHand => true | _ => false end.

Inductive dres := DPending | DOk | DErrT | DErrH.
(* Connector::poll_connector: the loop runs through as many states as are ready *)
Definition dial_poll (d : dial) : dial * dres :=
  match d_ph d with
  | DGone => (d, DPending)
  | DHand =>
      match d_h d with
      | None => (d, DPending)
      | Some true => (set_ph DGone d, DOk)
      | Some false => (set_ph DGone d, DErrH)
      end
  | DNew | DTrans =>
      match d_t d with
      | None => (set_ph DTrans d, DPending)
      | Some false => (set_ph DGone d, DErrT)
      | Some true =>
          match d_h d with
          | None => (set_ph DHand d, DPending)
          | Some true => (set_ph DGone d, DOk)
          | Some false => (set_ph DGone d, DErrH)
          end
      end
  end.

(* ---- requests *)
Inductive rstate :=
| RIdle (c : nat)              (* checkout created with a connection popped from the idle list; not polled yet *)
| RWait (got : option nat)     (* queued waiter + own connector; got = connection sitting in its channel *)
| RServed (c : nat)            (* the inner service holds connection c for it *)
| RDone | RFailed | RCancelled.
Record req := mkReq { r_st : rstate; r_dial : dial }.
Definition set_st v q := mkReq v (r_dial q).
Definition upd_dial f q := mkReq (r_st q) (f (r_dial q)).

Inductive event :=
| EStart (r : nat)             (* Transport::connect called for r's dial *)
| ENew (c r : nat)             (* r's dial completed: connection c (ordinal) exists *)
| EHand (r c : nat)            (* the inner service is called for r with connection c *)
| EFail (r : nat) (hs : bool)  (* r resolves with a connect (false) / handshake (true) error *)
| EPend (r : nat)              (* poll of r returned Pending *)
| EDrop (r : nat).             (* r's started dial was dropped unresolved *)

Inductive btask := BPush (c : nat) | BDial (r : nat).

Record state := mkSt {
  cont : bool;                (* continue_after_preemption *)
  reqs : list req;
  queue : list nat;           (* PoolInner::waiting[token]: request ids, oldest first (closed ones stay until walked) *)
  idle : list nat;            (* PoolInner::idle[token], oldest first *)
  nconn : nat;
  connects : nat;
  bgq : list btask;           (* runnable spawned tasks, FIFO *)
  evs : list event
}.
Definition init (cn : bool) := mkSt cn [] [] [] 0 0 [] [].
Definition set_reqs v s := mkSt (cont s) v (queue s) (idle s) (nconn s) (connects s) (bgq s) (evs s).
Definition set_queue v s := mkSt (cont s) (reqs s) v (idle s) (nconn s) (connects s) (bgq s) (evs s).
Definition set_idle v s := mkSt (cont s) (reqs s) (queue s) v (nconn s) (connects s) (bgq s) (evs s).
Definition set_nconn v s := mkSt (cont s) (reqs s) (queue s) (idle s) v (connects s) (bgq s) (evs s).
Definition set_connects v s := mkSt (cont s) (reqs s) (queue s) (idle s) (nconn s) v (bgq s) (evs s).
Definition set_bgq v s := mkSt (cont s) (reqs s) (queue s) (idle s) (nconn s) (connects s) v (evs s).
Definition set_evs v s := mkSt (cont s) (reqs s) (queue s) (idle s) (nconn s) (connects s) (bgq s) v.
Definition emit e s := set_evs (evs s ++ [e]) s.
Definition spawn b s := set_bgq (bgq s ++ [b]) s.

Fixpoint upd_nth {A} (n : nat) (f : A -> A) (l : list A) : list A :=
  match l, n with
  | [], _ => []
  | x :: t, O => f x :: t
  | x :: t, S n' => x :: upd_nth n' f t
  end.
Definition upd_req r f s := set_reqs (upd_nth r f (reqs s)) s.
Definition get_st s r := match nth_error (reqs s) r with Some q => r_st q | None => RDone end.
Definition no_dial := mkDial DGone None None false.
Definition get_dial s r := match nth_error (reqs s) r with Some q => r_dial q | None => no_dial end.

(* ---- PoolInner::push for a non-shareable connection *)
Definition waiting s r := match get_st s r with RWait None => true | _ => false end.
Fixpoint walk (live : nat -> bool) (q : list nat) : option nat * list nat :=
  match q with
  | [] => (None, [])
  | r :: q' => if live r then (Some r, q') else walk live q'
  end.
Definition push (c : nat) s :=
  match walk (waiting s) (queue s) with
  | (Some r, q') => upd_req r (set_st (RWait (Some c))) (set_queue q' s)
  | (None, _) => set_idle (idle s ++ [c]) (set_queue [] s)
  end.

(* the checkout of r is dropped before its connector finished: PinnedDrop / as_delayed *)
Definition abandon r s :=
  let d := get_dial s r in
  if started d then
    if cont s then spawn (BDial r) (upd_req r (upd_dial (set_bg true)) s)
    else emit (EDrop r) (upd_req r (upd_dial (set_ph DGone)) s)
  else upd_req r (upd_dial (set_ph DGone)) s.

Definition serve r c s := emit (EHand r c) (upd_req r (set_st (RServed c)) s).

(* the connector of r is polled (by the request itself or by the delayed checkout) *)
Definition poll_dial r s : dres * state :=
  let d := get_dial s r in
  let s := match d_ph d with DNew => emit (EStart r) (set_connects (S (connects s)) s) | _ => s end in
  let '(d', res) := dial_poll d in
  (res, upd_req r (upd_dial (fun _ => d')) s).

Definition do_issue s :=
  let r := List.length (reqs s) in
  match rev (idle s) with
  | c :: rest => set_idle (rev rest) (set_reqs (reqs s ++ [mkReq (RIdle c) no_dial]) s)
  | [] => set_queue (queue s ++ [r]) (set_reqs (reqs s ++ [mkReq (RWait None) (mkDial DNew None None false)]) s)
  end.

Definition do_poll r s :=
  match nth_error (reqs s) r with
  | None => s
  | Some q =>
      match r_st q with
      | RIdle c => serve r c s
      | RWait (Some c) => abandon r (serve r c s)         (* Waiting::poll first: the connection in the channel wins *)
      | RWait None =>
          let '(res, s) := poll_dial r s in
          match res with
          | DPending => emit (EPend r) s
          | DOk => let c := nconn s in serve r c (emit (ENew c r) (set_nconn (S c) s))
          | DErrT => emit (EFail r false) (upd_req r (set_st RFailed) s)
          | DErrH => emit (EFail r true) (upd_req r (set_st RFailed) s)
          end
      | _ => s
      end
  end.

Definition do_tdone r ok s :=
  let d := get_dial s r in
  match d_ph d, d_t d with
  | DTrans, None =>
      let s := upd_req r (upd_dial (set_t (Some ok))) s in
      if d_bg d then spawn (BDial r) s else s
  | _, _ => s
  end.

Definition do_hdone r ok s :=
  let d := get_dial s r in
  let live := match d_ph d, d_t d with DTrans, Some true => true | DHand, _ => true | _, _ => false end in
  match live, d_h d with
  | true, None =>
      let s := upd_req r (upd_dial (set_h (Some ok))) s in
      if d_bg d then spawn (BDial r) s else s
  | _, _ => s
  end.

Fixpoint holder_from (i : nat) (l : list req) (c : nat) : option nat :=
  match l with
  | [] => None
  | q :: t => match r_st q with
              | RServed c' => if Nat.eqb c c' then Some i else holder_from (S i) t c
              | _ => holder_from (S i) t c
              end
  end.
Definition holder s c := holder_from 0 (reqs s) c.

Definition do_release c s :=
  match holder s c with
  | Some r => spawn (BPush c) (upd_req r (set_st RDone) s)
  | None => s
  end.

Definition do_cancel r s :=
  match nth_error (reqs s) r with
  | None => s
  | Some q =>
      match r_st q with
      | RIdle c => push c (upd_req r (set_st RCancelled) s)       (* PinnedDrop pushes it back at once *)
      | RWait got =>
          let s := abandon r (upd_req r (set_st RCancelled) s) in  (* PinnedDrop first, then the fields *)
          match got with Some c => spawn (BPush c) s | None => s end
      | _ => s
      end
  end.

(* ---- spawned tasks *)
Definition run_task b s :=
  match b with
  | BPush c => push c s
  | BDial r =>
      let d := get_dial s r in
      if d_bg d then
        let '(res, s) := poll_dial r s in
        match res with
        | DOk => let c := nconn s in spawn (BPush c) (emit (ENew c r) (set_nconn (S c) s))
        | _ => s
        end
      else s
  end.
Fixpoint settle (fuel : nat) s :=
  match fuel with
  | O => s
  | S f => match bgq s with
           | [] => s
           | b :: rest => settle f (run_task b (set_bgq rest s))
           end
  end.
(* at most three tasks run per operation (delayed checkout, the connection that sat in the channel, the
   connection the delayed checkout made); ckphase/Proofs.v: bgq is empty after every step *)
Definition fuel := 4.

Definition step s (o : op) : state :=
  let s := set_evs [] s in
  settle fuel
    match o with
    | Issue => do_issue s
    | Poll r => do_poll r s
    | TDone r ok => do_tdone r ok s
    | HDone r ok => do_hdone r ok s
    | Release c => do_release c s
    | Cancel r => do_cancel r s
    end.

(* ---- what the harness prints after every operation *)
Record oobs := mkO {
  o_evs : list event;
  o_idle : list nat;         (* verif_pool_snapshot: idle connection ids, oldest first *)
  o_live : nat;              (* queued waiters whose receiver is alive *)
  o_closed : nat;            (* queued waiters whose receiver is gone *)
  o_connects : nat           (* Transport::connect calls so far *)
}.
Definition live_count s := List.length (filter (waiting s) (queue s)).
Definition observe s := mkO (evs s) (idle s) (live_count s) (List.length (queue s) - live_count s) (connects s).

Fixpoint run s (ops : list op) : list oobs * state :=
  match ops with
  | [] => ([], s)
  | o :: t => let s' := step s o in let '(l, s'') := run s' t in (observe s' :: l, s'')
  end.
Definition trace (cn : bool) (ops : list op) : list oobs := fst (run (init cn) ops).
Definition final (cn : bool) (ops : list op) : state := snd (run (init cn) ops).
