(* Correspondence for M-CKPHASE: case = continue_after_preemption + operation list
   (harness/src/bin/ckphase.rs drives the real ConnectionPoolService with a gated transport and a gated
   protocol handshake); after every operation the events and the pool snapshot the model predicts are
   compared with the implementation's; mon_ckphase judges the implementation's own observations. *)
From HD Require Import common.Base ckphase.Model ckphase.Spec.

Record case := mkCase { c_cont : bool; c_ops : list op }.
Inductive obs := OBad | OObs (l : list oobs).

Definition model_obs (k : case) : obs := OObs (trace (c_cont k) (c_ops k)).

Definition oobs_eqb (a b : oobs) : bool :=
  evs_eqb (o_evs a) (o_evs b) && list_eqb Nat.eqb (o_idle a) (o_idle b) && Nat.eqb (o_live a) (o_live b)
  && Nat.eqb (o_closed a) (o_closed b) && Nat.eqb (o_connects a) (o_connects b).
Definition obs_eqb (a b : obs) : bool :=
  match a, b with OObs x, OObs y => list_eqb oobs_eqb x y | _, _ => false end.

Definition mon (k : case) (o : obs) : bool :=
  match o with OObs l => mon_ckphase (c_cont k) (c_ops k) l | OBad => false end.

Definition check_all (cs : list (case * obs)) : list N * list N :=
  (falses (map (fun co => obs_eqb (model_obs (fst co)) (snd co)) cs),
   falses (map (fun co => mon (fst co) (snd co)) cs)).
