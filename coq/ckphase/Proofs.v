(* Proofs for M-CKPHASE: invariant of the model at operation boundaries, the monitor accepts every model
   trace, and the Prop-level readings of C14 for a two-phase dial. *)
From Coq Require Import Permutation Sorting.Sorted.
From HD Require Import common.Base ckphase.Model ckphase.Spec.

(* ---------------------------------------------------------------- lists *)
Lemma upd_nth_len {A} (f : A -> A) l : forall n, List.length (upd_nth n f l) = List.length l.
Proof. induction l as [|x l IH]; intros [|n]; cbn; auto. Qed.

Lemma nth_error_upd_eq {A} (f : A -> A) l : forall n, nth_error (upd_nth n f l) n = option_map f (nth_error l n).
Proof. induction l as [|x l IH]; intros [|n]; cbn; auto. Qed.

Lemma nth_error_upd_ne {A} (f : A -> A) l : forall n m, n <> m -> nth_error (upd_nth n f l) m = nth_error l m.
Proof. induction l as [|x l IH]; intros [|n] [|m] H; cbn; auto; try congruence. Qed.

Lemma upd_nth_none {A} (f : A -> A) l : forall n, nth_error l n = None -> upd_nth n f l = l.
Proof. induction l as [|x l IH]; intros [|n] H; cbn in *; auto; try discriminate. now rewrite IH. Qed.

Lemma map_upd_nth {A B} (g : A -> B) (f : A -> A) (f' : B -> B) l :
  forall n, (forall x, nth_error l n = Some x -> g (f x) = f' (g x)) -> map g (upd_nth n f l) = upd_nth n f' (map g l).
Proof.
  induction l as [|x l IH]; intros [|n] H; cbn; auto.
  - now rewrite H.
  - now rewrite IH.
Qed.

Lemma nth_error_snoc {A} (l : list A) x n :
  nth_error (l ++ [x]) n = if Nat.ltb n (List.length l) then nth_error l n else if Nat.eqb n (List.length l) then Some x else None.
Proof.
  revert n. induction l as [|y l IH]; intros [|n]; cbn; auto.
  - now destruct n.
  - rewrite IH. change (Nat.ltb (S n) (S (List.length l))) with (Nat.ltb n (List.length l)). reflexivity.
Qed.

Lemma flat_map_upd {A} (f : A -> list nat) g l : forall n x, nth_error l n = Some x ->
  Permutation (f x ++ flat_map f (upd_nth n g l)) (f (g x) ++ flat_map f l).
Proof.
  induction l as [|y l IH]; intros [|n] x H; cbn in *; try discriminate.
  - injection H as ->. rewrite !app_assoc. apply Permutation_app_tail, Permutation_app_comm.
  - specialize (IH _ _ H). rewrite !app_assoc.
    rewrite (Permutation_app_comm (f x) (f y)), (Permutation_app_comm (f (g x)) (f y)), <- !app_assoc.
    now apply Permutation_app_head.
Qed.

(* ---------------------------------------------------------------- frames of the primitives *)
Lemma get_st_upd_eq s r f : get_st (upd_req r f s) r = match nth_error (reqs s) r with Some q => r_st (f q) | None => RDone end.
Proof. unfold get_st, upd_req. cbn. rewrite nth_error_upd_eq. now destruct (nth_error (reqs s) r). Qed.
Lemma get_st_upd_ne s r r' f : r <> r' -> get_st (upd_req r f s) r' = get_st s r'.
Proof. intros H. unfold get_st, upd_req. cbn. now rewrite nth_error_upd_ne. Qed.
Lemma get_dial_upd_eq s r f : get_dial (upd_req r f s) r = match nth_error (reqs s) r with Some q => r_dial (f q) | None => no_dial end.
Proof. unfold get_dial, upd_req. cbn. rewrite nth_error_upd_eq. now destruct (nth_error (reqs s) r). Qed.
Lemma get_dial_upd_ne s r r' f : r <> r' -> get_dial (upd_req r f s) r' = get_dial s r'.
Proof. intros H. unfold get_dial, upd_req. cbn. now rewrite nth_error_upd_ne. Qed.

(* ---------------------------------------------------------------- invariants *)
Definition rloc (q : req) : list nat :=
  match r_st q with RIdle c | RWait (Some c) | RServed c => [c] | _ => [] end.
Definition bloc (b : btask) : list nat := match b with BPush c => [c] | BDial _ => [] end.
(* where the connections are: in a checkout, in a waiter's channel, held by a request, idle, or carried by a
   spawned WhenReady task *)
Definition locs s := flat_map rloc (reqs s) ++ idle s ++ flat_map bloc (bgq s).
(* X = connections in the hands of the operation being executed *)
Definition Conserve (X : list nat) s := Permutation (X ++ locs s) (seq 0 (nconn s)).

Definition is_wait (q : req) := match r_st q with RWait _ => true | _ => false end.
Definition dshape (d : dial) : Prop :=
  match d_ph d with
  | DNew => d_t d = None /\ d_h d = None
  | DTrans => d_t d = Some true \/ d_h d = None
  | DHand => d_t d = Some true
  | DGone => True
  end.
Definition downer (cn : bool) (q : req) : Prop :=
  let d := r_dial q in
  match r_st q with
  | RWait _ => d_bg d = false /\ d_ph d <> DGone
  | RIdle _ => d_ph d = DGone
  | _ => d_ph d = DGone \/ (d_bg d = true /\ cn = true /\ started d = true)
  end.
Definition dwf (cn : bool) (q : req) : Prop := dshape (r_dial q) /\ downer cn q.
Definition DW s := Forall (dwf (cont s)) (reqs s).

Definition QInv s :=
  StronglySorted lt (queue s) /\ (forall r, In r (queue s) -> r < List.length (reqs s)) /\
  (forall r, waiting s r = true -> In r (queue s)).

(* a delayed checkout that is not runnable has seen everything the environment did to its dial *)
Definition parked (d : dial) := dial_poll d = (d, DPending).
Definition PK s := forall r q, nth_error (reqs s) r = Some q -> is_wait q = false ->
  parked (r_dial q) \/ In (BDial r) (bgq s).

Definition K (X : list nat) s := QInv s /\ DW s /\ Conserve X s /\ PK s.
Definition Inv s := K [] s /\ bgq s = [].

Lemma upd_nth_fuse {A} (f g : A -> A) l : forall n, upd_nth n f (upd_nth n g l) = upd_nth n (fun x => f (g x)) l.
Proof. induction l as [|x l IH]; intros [|n]; cbn; auto. now rewrite IH. Qed.
Lemma upd_nth_ext {A} (f g : A -> A) l : forall n, (forall x, nth_error l n = Some x -> f x = g x) -> upd_nth n f l = upd_nth n g l.
Proof. induction l as [|x l IH]; intros [|n] H; cbn; auto. - now rewrite H. - now rewrite IH. Qed.

(* K only looks at these fields *)
Lemma K_fields X s s' : cont s' = cont s -> reqs s' = reqs s -> queue s' = queue s -> idle s' = idle s ->
  nconn s' = nconn s -> bgq s' = bgq s -> K X s -> K X s'.
Proof.
  destruct s, s'. cbn. intros -> -> -> -> -> -> H. exact H.
Qed.

Lemma QInv_upd s s' r q q' :
  QInv s -> nth_error (reqs s) r = Some q ->
  reqs s' = upd_nth r (fun _ => q') (reqs s) -> queue s' = queue s ->
  (r_st q' = RWait None -> r_st q = RWait None) -> QInv s'.
Proof.
  intros HQ Hq Er Eq Hw.
  assert (Hnth : forall r', nth_error (reqs s') r' = if Nat.eqb r r' then Some q' else nth_error (reqs s) r').
  { intros r'. rewrite Er. destruct (Nat.eqb_spec r r') as [<-|Hne].
    - rewrite nth_error_upd_eq, Hq. reflexivity.
    - now rewrite nth_error_upd_ne. }
  repeat split.
  - rewrite Eq. apply HQ.
  - intros r'. rewrite Eq, Er, upd_nth_len. apply HQ.
  - intros r'. rewrite Eq. unfold waiting, get_st. rewrite Hnth. destruct (Nat.eqb_spec r r') as [<-|Hne].
    + intros H. apply HQ. unfold waiting, get_st. rewrite Hq.
      destruct (r_st q') as [|[|]| | | |] eqn:E; try discriminate. now rewrite Hw.
    + apply HQ.
Qed.

Lemma K_upd X Y s s' r q q' l :
  K X s -> nth_error (reqs s) r = Some q ->
  cont s' = cont s -> reqs s' = upd_nth r (fun _ => q') (reqs s) -> QInv s' -> idle s' = idle s ->
  nconn s' = nconn s -> bgq s' = bgq s ++ l -> flat_map bloc l = [] ->
  dwf (cont s) q' ->
  Permutation (Y ++ rloc q') (X ++ rloc q) ->
  (is_wait q' = false -> parked (r_dial q') \/ In (BDial r) (bgq s')) ->
  K Y s'.
Proof.
  intros (HQ & HD & HC & HP) Hq Ec Er HQ' Ei En Eb Hl Hd Hperm Hpk.
  assert (Hnth : forall r', nth_error (reqs s') r' = if Nat.eqb r r' then Some q' else nth_error (reqs s) r').
  { intros r'. rewrite Er. destruct (Nat.eqb_spec r r') as [<-|Hne].
    - rewrite nth_error_upd_eq, Hq. reflexivity.
    - now rewrite nth_error_upd_ne. }
  split; [exact HQ'|]. split; [|split].
  - unfold DW. rewrite Ec, Er. clear - HD Hd Hq. unfold DW in HD. revert r Hq.
    induction HD as [|x l Hx HD IH]; intros [|r] Hq; cbn in *; try discriminate; constructor; auto.
  - unfold Conserve, locs in *. rewrite En, Ei, Eb, Er. rewrite flat_map_app, Hl, app_nil_r.
    apply (Permutation_app_inv_r (rloc q)).
    rewrite <- HC.
    pose proof (flat_map_upd rloc (fun _ => q') (reqs s) r q Hq) as F.
    set (R := idle s ++ flat_map bloc (bgq s)) in *.
    set (FM' := flat_map rloc (upd_nth r (fun _ => q') (reqs s))) in *. set (FM := flat_map rloc (reqs s)) in *.
    transitivity (Y ++ (rloc q ++ FM') ++ R).
    { rewrite <- !app_assoc. apply Permutation_app_head. rewrite (Permutation_app_comm (rloc q)).
      rewrite <- !app_assoc. reflexivity. }
    rewrite F. transitivity ((Y ++ rloc q') ++ FM ++ R). { now rewrite <- !app_assoc. }
    rewrite Hperm. rewrite <- !app_assoc. apply Permutation_app_head.
    rewrite (Permutation_app_comm (rloc q)). now rewrite <- !app_assoc.
  - intros r' q0. rewrite Hnth. destruct (Nat.eqb_spec r r') as [<-|Hne].
    + intros [= <-]. exact Hpk.
    + intros Hq0 Hw. destruct (HP _ _ Hq0 Hw); auto. right. rewrite Eb, in_app_iff. auto.
Qed.

(* ---------------------------------------------------------------- PoolInner::push *)
Lemma walk_spec live q :
  match walk live q with
  | (Some r, q') => exists pre, q = pre ++ r :: q' /\ live r = true /\ forall x, In x pre -> live x = false
  | (None, q') => q' = [] /\ forall x, In x q -> live x = false
  end.
Proof.
  induction q as [|a q IH]; cbn.
  - split; auto. intros x [].
  - destruct (live a) eqn:E.
    + exists []. cbn. repeat split; auto. intros x [].
    + destruct (walk live q) as [[r|] q'].
      * destruct IH as (pre & -> & Hr & Hpre). exists (a :: pre). cbn. repeat split; auto.
        intros x [<-|H]; auto.
      * destruct IH as (-> & H). split; auto. intros x [<-|Hx]; auto.
Qed.

Lemma sorted_suffix (pre : list nat) r q : StronglySorted lt (pre ++ r :: q) ->
  StronglySorted lt q /\ Forall (lt r) q /\ ~ In r pre /\ ~ In r q.
Proof.
  induction pre as [|a pre IH]; cbn; intros H.
  - inversion H as [|? ? Hs Hf]; subst. repeat split; auto.
    intros Hin. rewrite Forall_forall in Hf. specialize (Hf _ Hin). lia.
  - inversion H as [|? ? Hs Hf]; subst. destruct (IH Hs) as (A & B & C & D). repeat split; auto.
    intros [->|Hin]; auto. rewrite Forall_forall in Hf. specialize (Hf r). rewrite in_app_iff in Hf.
    assert (r < r) by (apply Hf; right; left; reflexivity). lia.
Qed.

Lemma waiting_nth s r : waiting s r = true -> exists q, nth_error (reqs s) r = Some q /\ r_st q = RWait None.
Proof.
  unfold waiting, get_st. destruct (nth_error (reqs s) r) as [q|]; [|discriminate].
  destruct (r_st q) as [|[|]| | | |] eqn:E; try discriminate. eauto.
Qed.

Lemma K_push X c s : K (c :: X) s -> K X (push c s).
Proof.
  intros HK. pose proof HK as (HQ & HD & HC & HP). unfold push.
  pose proof (walk_spec (waiting s) (queue s)) as W. destruct (walk (waiting s) (queue s)) as [[r|] q'].
  - destruct W as (pre & Eq & Hr & Hpre). destruct (waiting_nth _ _ Hr) as (q & Hq & Est).
    destruct HQ as (Hs & Hb & Hw). rewrite Eq in Hs. destruct (sorted_suffix _ _ _ Hs) as (Hs' & Hlt & Hn1 & Hn2).
    eapply (K_upd (c :: X) X s _ r q (set_st (RWait (Some c)) q) []); eauto.
    + cbn. apply upd_nth_ext. intros x Hx. congruence.
    + repeat split; cbn.
      * exact Hs'.
      * intros r' Hin. rewrite upd_nth_len. apply Hb. rewrite Eq, in_app_iff. right. now right.
      * intros r' Hr'. unfold waiting in Hr'. destruct (Nat.eq_dec r r') as [<-|Hne].
        -- rewrite get_st_upd_eq in Hr'. cbn in Hr'. rewrite Hq in Hr'. discriminate.
        -- rewrite get_st_upd_ne in Hr' by auto. change (waiting s r' = true) in Hr'.
           pose proof (Hw _ Hr') as Hin. rewrite Eq, in_app_iff in Hin. destruct Hin as [Hin|[->|Hin]]; auto.
           ++ rewrite (Hpre _ Hin) in Hr'. discriminate.
           ++ congruence.
    + cbn. now rewrite app_nil_r.
    + unfold DW in HD. rewrite Forall_forall in HD. specialize (HD q (nth_error_In _ _ Hq)). unfold dwf, downer in *. cbn. now rewrite Est in HD.
    + unfold rloc. cbn. rewrite Est. rewrite app_nil_r. symmetry. apply Permutation_cons_append.
    + cbn. discriminate.
  - destruct W as (-> & Hall). repeat split; cbn.
    + constructor.
    + intros r [].
    + intros r Hr. change (waiting s r = true) in Hr. destruct HQ as (_ & _ & Hw). rewrite (Hall _ (Hw _ Hr)) in Hr. discriminate.
    + exact HD.
    + unfold Conserve, locs in *. cbn in *. rewrite <- HC. rewrite <- !app_assoc. cbn.
      rewrite !app_assoc. symmetry. apply Permutation_middle.
    + exact HP.
Qed.

Lemma DW_nth s r q : DW s -> nth_error (reqs s) r = Some q -> dwf (cont s) q.
Proof. intros H Hq. unfold DW in H. rewrite Forall_forall in H. apply H. eapply nth_error_In; eauto. Qed.

Lemma K_upd_req X Y s r q f :
  K X s -> nth_error (reqs s) r = Some q ->
  (r_st (f q) = RWait None -> r_st q = RWait None) -> dwf (cont s) (f q) ->
  Permutation (Y ++ rloc (f q)) (X ++ rloc q) ->
  (is_wait (f q) = false -> parked (r_dial (f q)) \/ In (BDial r) (bgq s)) ->
  K Y (upd_req r f s).
Proof.
  intros HK Hq Hw Hd Hp Hpk.
  assert (Er : reqs (upd_req r f s) = upd_nth r (fun _ => f q) (reqs s)).
  { cbn. apply upd_nth_ext. intros x Hx. congruence. }
  eapply (K_upd X Y s _ r q (f q) []); eauto.
  - eapply QInv_upd; eauto. apply HK.
  - cbn. now rewrite app_nil_r.
Qed.

Lemma K_perm X Y s : Permutation X Y -> K X s -> K Y s.
Proof.
  intros HP (A & B & C & D). repeat split; auto; try apply A. unfold Conserve in *. now rewrite <- HP.
Qed.

Lemma K_spawn_push X c s : K (c :: X) s -> K X (spawn (BPush c) s).
Proof.
  intros (A & B & C & D). repeat split; try apply A; auto.
  - unfold Conserve, locs in *. cbn in *. rewrite <- C. rewrite flat_map_app. cbn.
    rewrite !app_assoc. symmetry. rewrite <- Permutation_cons_append. reflexivity.
  - intros r q Hq Hw. destruct (D r q Hq Hw); auto. right. cbn. rewrite in_app_iff. auto.
Qed.

Lemma K_spawn_dial X r s : K X s -> K X (spawn (BDial r) s).
Proof.
  intros (A & B & C & D). repeat split; try apply A; auto.
  - unfold Conserve, locs in *. cbn in *. rewrite flat_map_app. cbn. now rewrite app_nil_r.
  - intros r' q Hq Hw. destruct (D r' q Hq Hw); auto. right. cbn. rewrite in_app_iff. auto.
Qed.

Lemma K_new X s : K X s -> K (nconn s :: X) (set_nconn (S (nconn s)) s).
Proof.
  intros (A & B & C & D). repeat split; try apply A; auto.
  unfold Conserve in *. change (locs (set_nconn (S (nconn s)) s)) with (locs s).
  change (nconn (set_nconn (S (nconn s)) s)) with (S (nconn s)). rewrite seq_S. rewrite <- C.
  change (0 + nconn s) with (nconn s). apply Permutation_cons_append.
Qed.

Lemma K_pop_push X c rest s : bgq s = BPush c :: rest -> K X s -> K (c :: X) (set_bgq rest s).
Proof.
  intros Eb (A & B & C & D). repeat split; try apply A; auto.
  - unfold Conserve, locs in *. cbn in *. rewrite Eb in C. cbn in C. rewrite <- C.
    rewrite !app_assoc. apply Permutation_middle.
  - intros r q Hq Hw. destruct (D r q Hq Hw) as [|Hin]; auto. right. rewrite Eb in Hin. cbn in *. destruct Hin; [discriminate|auto].
Qed.

(* ---------------------------------------------------------------- connector *)
Lemma parked_gone d : d_ph d = DGone -> parked d.
Proof. unfold parked, dial_poll. intros ->. reflexivity. Qed.

Lemma dial_poll_spec d : dshape d -> d_ph d <> DGone ->
  let d' := fst (dial_poll d) in
  d_t d' = d_t d /\ d_h d' = d_h d /\ d_bg d' = d_bg d /\ dshape d' /\
  match snd (dial_poll d) with
  | DPending => parked d' /\ started d' = true
  | _ => d_ph d' = DGone
  end.
Proof.
  destruct d as [ph t h bg]. unfold dshape, parked, started, dial_poll. cbn.
  destruct ph, t as [[|]|], h as [[|]|]; cbn; intros Hs Hne; repeat split; auto; try congruence;
    try (destruct Hs; congruence); try (destruct Hs; discriminate).
Qed.

(* the checkout of r goes away (served through the waiter, or cancelled) while its connector is unfinished *)
Definition leave r st' s := abandon r (upd_req r (set_st st') s).

Lemma K_leave X Y s r q st' : K X s -> nth_error (reqs s) r = Some q -> is_wait q = true ->
  match st' with RServed _ | RCancelled => True | _ => False end ->
  Permutation (Y ++ rloc (set_st st' q)) (X ++ rloc q) ->
  K Y (leave r st' s).
Proof.
  intros HK Hq Hw Hst Hperm. pose proof HK as (HQ & HD & _ & _).
  destruct (DW_nth _ _ _ HD Hq) as (Hsh & Hown). unfold downer in Hown. unfold is_wait in Hw.
  destruct (r_st q) as [|got| | | |] eqn:Est; try discriminate. destruct Hown as (Hbg & Hgone).
  unfold leave, abandon. rewrite get_dial_upd_eq, Hq. cbn [r_dial set_st].
  change (cont (upd_req r (set_st st') s)) with (cont s).
  destruct (started (r_dial q)) eqn:Es; [destruct (cont s) eqn:Ec|].
  - eapply (K_upd X Y s _ r q (mkReq st' (set_bg true (r_dial q))) [BDial r]); eauto.
    + cbn. rewrite upd_nth_fuse. apply upd_nth_ext. intros x Hx. rewrite Hq in Hx. injection Hx as <-. reflexivity.
    + eapply (QInv_upd s _ r q (mkReq st' (set_bg true (r_dial q)))); eauto.
      * cbn. rewrite upd_nth_fuse. apply upd_nth_ext. intros x Hx. rewrite Hq in Hx. injection Hx as <-. reflexivity.
      * cbn. intros ->. destruct Hst.
    + split; [exact Hsh|]. unfold downer. cbn. rewrite Ec. destruct st'; try destruct Hst; right; auto.
    + cbn. right. rewrite in_app_iff. right. now left.
  - eapply (K_upd X Y s _ r q (mkReq st' (set_ph DGone (r_dial q))) []); eauto.
    + cbn. rewrite upd_nth_fuse. apply upd_nth_ext. intros x Hx. rewrite Hq in Hx. injection Hx as <-. reflexivity.
    + eapply (QInv_upd s _ r q (mkReq st' (set_ph DGone (r_dial q)))); eauto.
      * cbn. rewrite upd_nth_fuse. apply upd_nth_ext. intros x Hx. rewrite Hq in Hx. injection Hx as <-. reflexivity.
      * cbn. intros ->. destruct Hst.
    + cbn. now rewrite app_nil_r.
    + split; [exact I|]. unfold downer. cbn. destruct st'; try destruct Hst; left; auto.
    + cbn. left. apply parked_gone. reflexivity.
  - eapply (K_upd X Y s _ r q (mkReq st' (set_ph DGone (r_dial q))) []); eauto.
    + cbn. rewrite upd_nth_fuse. apply upd_nth_ext. intros x Hx. rewrite Hq in Hx. injection Hx as <-. reflexivity.
    + eapply (QInv_upd s _ r q (mkReq st' (set_ph DGone (r_dial q)))); eauto.
      * cbn. rewrite upd_nth_fuse. apply upd_nth_ext. intros x Hx. rewrite Hq in Hx. injection Hx as <-. reflexivity.
      * cbn. intros ->. destruct Hst.
    + cbn. now rewrite app_nil_r.
    + split; [exact I|]. unfold downer. cbn. destruct st'; try destruct Hst; left; auto.
    + cbn. left. apply parked_gone. reflexivity.
Qed.

(* ---------------------------------------------------------------- Issue *)
Lemma sorted_snoc (q : list nat) n : StronglySorted lt q -> (forall r, In r q -> r < n) -> StronglySorted lt (q ++ [n]).
Proof.
  induction 1 as [|a q Hs IH Hf]; intros Hb; cbn.
  - repeat constructor.
  - constructor.
    + apply IH. intros r Hr. apply Hb. now right.
    + rewrite Forall_forall in *. intros x Hx. rewrite in_app_iff in Hx. destruct Hx as [Hx|[<-|[]]]; auto.
      apply Hb. now left.
Qed.

Lemma get_st_snoc s' s q r : reqs s' = reqs s ++ [q] ->
  get_st s' r = if Nat.ltb r (List.length (reqs s)) then get_st s r else if Nat.eqb r (List.length (reqs s)) then r_st q else RDone.
Proof.
  intros E. unfold get_st. rewrite E, nth_error_snoc.
  destruct (Nat.ltb r (List.length (reqs s))) eqn:E1; auto. destruct (Nat.eqb r (List.length (reqs s))); auto.
Qed.

Lemma K_do_issue s : K [] s -> K [] (do_issue s).
Proof.
  intros (HQ & HD & HC & HP). destruct HQ as (Hs & Hb & Hw). unfold do_issue.
  destruct (rev (idle s)) as [|c rest] eqn:Ei.
  - set (q := mkReq (RWait None) (mkDial DNew None None false)). repeat split; cbn.
    + apply sorted_snoc; auto.
    + intros r. rewrite in_app_iff, app_length. cbn. intros [H|[<-|[]]]; [apply Hb in H|]; lia.
    + intros r Hr. unfold waiting in Hr. rewrite (get_st_snoc _ s q) in Hr by reflexivity. rewrite in_app_iff.
      destruct (Nat.ltb r (List.length (reqs s))) eqn:E1.
      * left. apply Hw. exact Hr.
      * destruct (Nat.eqb_spec r (List.length (reqs s))) as [->|]; [right; now left|discriminate].
    + unfold DW. cbn. apply Forall_app. split; auto. constructor; auto. repeat split; cbn; auto. discriminate.
    + unfold Conserve, locs in *. cbn in *. rewrite flat_map_app. cbn. now rewrite app_nil_r.
    + intros r q0 Hq0 Hw0. cbn in Hq0. rewrite nth_error_snoc in Hq0.
      destruct (Nat.ltb r (List.length (reqs s))); [eauto|]. destruct (Nat.eqb r (List.length (reqs s))); [|discriminate].
      injection Hq0 as <-. discriminate.
  - assert (Eidle : idle s = rev rest ++ [c]). { rewrite <- (rev_involutive (idle s)), Ei. reflexivity. }
    set (q := mkReq (RIdle c) no_dial). repeat split; cbn.
    + exact Hs.
    + intros r Hr. rewrite app_length. apply Hb in Hr. lia.
    + intros r Hr. unfold waiting in Hr. rewrite (get_st_snoc _ s q) in Hr by reflexivity.
      destruct (Nat.ltb r (List.length (reqs s))) eqn:E1.
      * apply Hw. exact Hr.
      * destruct (Nat.eqb r (List.length (reqs s))); discriminate.
    + unfold DW. cbn. apply Forall_app. split; auto. constructor; auto. repeat split; cbn; auto.
    + unfold Conserve, locs in *. cbn in *. rewrite flat_map_app. cbn. rewrite Eidle in HC. rewrite <- HC.
      rewrite <- !app_assoc. apply Permutation_app_head. cbn. apply Permutation_middle.
    + intros r q0 Hq0 Hw0. cbn in Hq0. rewrite nth_error_snoc in Hq0.
      destruct (Nat.ltb r (List.length (reqs s))); [eauto|]. destruct (Nat.eqb r (List.length (reqs s))); [|discriminate].
      injection Hq0 as <-. left. apply parked_gone. reflexivity.
Qed.

(* ---------------------------------------------------------------- Poll *)
Lemma K_abandon_evs X r v s : K X (abandon r s) -> K X (abandon r (set_evs v s)).
Proof.
  unfold abandon. change (get_dial (set_evs v s) r) with (get_dial s r). change (cont (set_evs v s)) with (cont s).
  destruct (started (get_dial s r)); [destruct (cont s)|]; apply K_fields; reflexivity.
Qed.

Lemma poll_dial_eq r s : exists s1,
  poll_dial r s = (snd (dial_poll (get_dial s r)), upd_req r (upd_dial (fun _ => fst (dial_poll (get_dial s r)))) s1) /\
  cont s1 = cont s /\ reqs s1 = reqs s /\ queue s1 = queue s /\ idle s1 = idle s /\ nconn s1 = nconn s /\ bgq s1 = bgq s.
Proof.
  unfold poll_dial. destruct (dial_poll (get_dial s r)) as [d' res]. cbn [fst snd].
  destruct (d_ph (get_dial s r)); eexists; split; try reflexivity; repeat split.
Qed.

Lemma K_do_poll r s : K [] s -> K [] (do_poll r s).
Proof.
  intros HK. pose proof HK as (HQ & HD & HC & HP). unfold do_poll.
  destruct (nth_error (reqs s) r) as [q|] eqn:Hq; [|exact HK].
  destruct (DW_nth _ _ _ HD Hq) as (Hsh & Hown). unfold downer in Hown.
  destruct (r_st q) as [c|[c|]|c| | |] eqn:Est; try exact HK.
  - (* idle connection taken at issue *)
    unfold serve. eapply K_fields; [| | | | | |eapply (K_upd_req [] [] s r q (set_st (RServed c))); eauto]; try reflexivity.
    + cbn. discriminate.
    + split; [exact Hsh|]. unfold downer. cbn. now left.
    + unfold rloc. cbn. now rewrite Est.
    + cbn. intros _. left. now apply parked_gone.
  - (* the connection in the channel wins *)
    unfold serve. apply K_abandon_evs. apply (K_leave [] [] s r q (RServed c)); auto.
    + unfold is_wait. now rewrite Est.
    + unfold rloc. cbn. now rewrite Est.
  - (* own connector *)
    destruct (poll_dial_eq r s) as (s1 & -> & Ec & Er & Equ & Ei & En & Eb).
    assert (Hd : get_dial s r = r_dial q) by (unfold get_dial; now rewrite Hq). rewrite Hd.
    destruct Hown as (Hbg & Hne).
    destruct (dial_poll_spec _ Hsh Hne) as (Ht & Hh & Hb & Hsh' & Hres).
    destruct (dial_poll (r_dial q)) as [d' res]. cbn [fst snd] in *.
    assert (Hreqs : forall st', upd_nth r (fun _ => mkReq st' d') (reqs s) =
                      upd_nth r (set_st st') (upd_nth r (upd_dial (fun _ => d')) (reqs s1))).
    { intros st'. rewrite Er, upd_nth_fuse. apply upd_nth_ext. intros x Hx. reflexivity. }
    destruct res.
    + destruct Hres as (Hpk & Hst).
      eapply (K_upd [] [] s _ r q (mkReq (RWait None) d') []); eauto; cbn; try congruence.
      * rewrite Er. apply upd_nth_ext. intros x Hx. rewrite Hq in Hx. injection Hx as <-. unfold upd_dial. now rewrite Est.
      * eapply (QInv_upd s _ r q (mkReq (RWait None) d')); eauto; cbn; try congruence.
        rewrite Er. apply upd_nth_ext. intros x Hx. rewrite Hq in Hx. injection Hx as <-. unfold upd_dial. now rewrite Est.
      * rewrite Eb. now rewrite app_nil_r.
      * split; [exact Hsh'|]. unfold downer. cbn. split; [congruence|]. unfold started in Hst. destruct (d_ph d'); discriminate.
      * unfold rloc. cbn. now rewrite Est.
    + set (c := nconn s1).
      assert (HK1 : K [nconn s] (set_nconn (S (nconn s)) s)) by now apply K_new.
      eapply (K_upd [nconn s] [] (set_nconn (S (nconn s)) s) _ r q (mkReq (RServed c) d') []); eauto; cbn; try congruence.
      * rewrite <- Hreqs. reflexivity.
      * eapply (QInv_upd s _ r q (mkReq (RServed c) d')); eauto; cbn; try congruence. rewrite <- Hreqs. reflexivity.
      * rewrite Eb. now rewrite app_nil_r.
      * split; [exact Hsh'|]. unfold downer. cbn. now left.
      * unfold rloc, c. cbn. rewrite Est, En. reflexivity.
      * intros _. left. now apply parked_gone.
    + eapply (K_upd [] [] s _ r q (mkReq RFailed d') []); eauto; cbn; try congruence.
      * rewrite <- Hreqs. reflexivity.
      * eapply (QInv_upd s _ r q (mkReq RFailed d')); eauto; cbn; try congruence. rewrite <- Hreqs. reflexivity.
      * rewrite Eb. now rewrite app_nil_r.
      * split; [exact Hsh'|]. unfold downer. cbn. now left.
      * unfold rloc. cbn. now rewrite Est.
      * intros _. left. now apply parked_gone.
    + eapply (K_upd [] [] s _ r q (mkReq RFailed d') []); eauto; cbn; try congruence.
      * rewrite <- Hreqs. reflexivity.
      * eapply (QInv_upd s _ r q (mkReq RFailed d')); eauto; cbn; try congruence. rewrite <- Hreqs. reflexivity.
      * rewrite Eb. now rewrite app_nil_r.
      * split; [exact Hsh'|]. unfold downer. cbn. now left.
      * unfold rloc. cbn. now rewrite Est.
      * intros _. left. now apply parked_gone.
Qed.

(* ---------------------------------------------------------------- TDone / HDone *)
Lemma get_dial_nth s r q : nth_error (reqs s) r = Some q -> get_dial s r = r_dial q.
Proof. intros H. unfold get_dial. now rewrite H. Qed.

Lemma K_env_dial s r q f :
  K [] s -> nth_error (reqs s) r = Some q -> started (r_dial q) = true ->
  dshape (f (r_dial q)) -> d_ph (f (r_dial q)) = d_ph (r_dial q) -> d_bg (f (r_dial q)) = d_bg (r_dial q) ->
  K [] (let s' := upd_req r (upd_dial f) s in if d_bg (r_dial q) then spawn (BDial r) s' else s').
Proof.
  intros HK Hq Hst Hsh Hph Hbg. pose proof HK as (HQ & HD & HC & HP).
  destruct (DW_nth _ _ _ HD Hq) as (_ & Hown).
  eapply (K_upd [] [] s _ r q (upd_dial f q) (if d_bg (r_dial q) then [BDial r] else [])); eauto.
  - destruct (d_bg (r_dial q)); reflexivity.
  - destruct (d_bg (r_dial q)); cbn; apply upd_nth_ext; intros x Hx; congruence.
  - eapply (QInv_upd s _ r q (upd_dial f q)); eauto.
    + destruct (d_bg (r_dial q)); cbn; apply upd_nth_ext; intros x Hx; congruence.
    + destruct (d_bg (r_dial q)); reflexivity.
  - destruct (d_bg (r_dial q)); reflexivity.
  - destruct (d_bg (r_dial q)); reflexivity.
  - destruct (d_bg (r_dial q)); cbn; auto. now rewrite app_nil_r.
  - destruct (d_bg (r_dial q)); reflexivity.
  - split; [exact Hsh|]. unfold downer in *. cbn. unfold started in *. rewrite Hph, Hbg.
    destruct (r_st q); auto.
  - intros Hw. unfold downer in Hown. unfold is_wait in Hw. cbn in Hw. unfold started in Hst.
    destruct (r_st q) eqn:Est; try discriminate; try (rewrite Hown in Hst; discriminate);
      (destruct Hown as [Hg|(Hb & _)]; [rewrite Hg in Hst; discriminate|]; rewrite Hb; right; cbn; rewrite in_app_iff; right; now left).
Qed.

Lemma K_do_tdone r ok s : K [] s -> K [] (do_tdone r ok s).
Proof.
  intros HK. unfold do_tdone. destruct (nth_error (reqs s) r) as [q|] eqn:Hq.
  - rewrite (get_dial_nth _ _ _ Hq). destruct (d_ph (r_dial q)) eqn:Eph; try exact HK.
    destruct (d_t (r_dial q)) eqn:Et; try exact HK.
    destruct (DW_nth _ _ _ (proj1 (proj2 HK)) Hq) as (Hsh & _).
    apply (K_env_dial s r q (set_t (Some ok))); auto.
    + unfold started. now rewrite Eph.
    + unfold dshape in *. cbn. rewrite Eph in *. right. destruct Hsh; congruence.
  - unfold get_dial. rewrite Hq. exact HK.
Qed.

Lemma K_do_hdone r ok s : K [] s -> K [] (do_hdone r ok s).
Proof.
  intros HK. unfold do_hdone. destruct (nth_error (reqs s) r) as [q|] eqn:Hq.
  - rewrite (get_dial_nth _ _ _ Hq).
    destruct (DW_nth _ _ _ (proj1 (proj2 HK)) Hq) as (Hsh & _).
    destruct (d_ph (r_dial q)) eqn:Eph; try exact HK.
    + destruct (d_t (r_dial q)) as [[|]|] eqn:Et; try exact HK. destruct (d_h (r_dial q)) eqn:Eh; try exact HK.
      apply (K_env_dial s r q (set_h (Some ok))); auto.
      * unfold started. now rewrite Eph.
      * unfold dshape in *. cbn. rewrite Eph in *. now left.
    + destruct (d_h (r_dial q)) eqn:Eh; try exact HK.
      apply (K_env_dial s r q (set_h (Some ok))); auto.
      * unfold started. now rewrite Eph.
      * unfold dshape in *. cbn. now rewrite Eph in *.
  - unfold get_dial. rewrite Hq. exact HK.
Qed.

(* ---------------------------------------------------------------- Release / Cancel *)
Lemma holder_from_spec l : forall i c r, holder_from i l c = Some r ->
  exists q, nth_error l (r - i) = Some q /\ r_st q = RServed c /\ i <= r.
Proof.
  induction l as [|q l IH]; intros i c r H; cbn in H; [discriminate|].
  assert (Hrec : holder_from (S i) l c = Some r -> exists q0, nth_error (q :: l) (r - i) = Some q0 /\ r_st q0 = RServed c /\ i <= r).
  { intros H'. destruct (IH _ _ _ H') as (q0 & Hq0 & Hst & Hle). exists q0. repeat split; auto; [|lia].
    replace (r - i) with (S (r - S i)) by lia. exact Hq0. }
  destruct (r_st q) eqn:Est; auto.
  destruct (Nat.eqb_spec c c0) as [<-|]; auto.
  injection H as <-. exists q. rewrite Nat.sub_diag. auto.
Qed.
Lemma holder_spec s c r : holder s c = Some r -> exists q, nth_error (reqs s) r = Some q /\ r_st q = RServed c.
Proof.
  intros H. destruct (holder_from_spec _ _ _ _ H) as (q & Hq & Hst & _). rewrite Nat.sub_0_r in Hq. eauto.
Qed.

Lemma K_do_release c s : K [] s -> K [] (do_release c s).
Proof.
  intros HK. unfold do_release. destruct (holder s c) as [r|] eqn:Hh; [|exact HK].
  destruct (holder_spec _ _ _ Hh) as (q & Hq & Est). pose proof HK as (HQ & HD & HC & HP).
  destruct (DW_nth _ _ _ HD Hq) as (Hsh & Hown). unfold downer in Hown. rewrite Est in Hown.
  apply K_spawn_push. apply (K_upd_req [] [c] s r q (set_st RDone)); auto.
  - cbn. discriminate.
  - split; [exact Hsh|]. exact Hown.
  - unfold rloc. cbn. now rewrite Est.
  - cbn. intros _. apply (HP r q Hq). unfold is_wait. now rewrite Est.
Qed.

Lemma K_do_cancel r s : K [] s -> K [] (do_cancel r s).
Proof.
  intros HK. unfold do_cancel. destruct (nth_error (reqs s) r) as [q|] eqn:Hq; [|exact HK].
  pose proof HK as (HQ & HD & HC & HP).
  destruct (DW_nth _ _ _ HD Hq) as (Hsh & Hown). unfold downer in Hown.
  destruct (r_st q) as [c|got|c| | |] eqn:Est; try exact HK.
  - apply K_push. apply (K_upd_req [] [c] s r q (set_st RCancelled)); auto.
    + cbn. discriminate.
    + split; [exact Hsh|]. unfold downer. cbn. now left.
    + unfold rloc. cbn. now rewrite Est.
    + cbn. intros _. left. now apply parked_gone.
  - change (abandon r (upd_req r (set_st RCancelled) s)) with (leave r RCancelled s).
    destruct got as [c|].
    + apply K_spawn_push. apply (K_leave [] [c] s r q RCancelled); auto.
      * unfold is_wait. now rewrite Est.
      * unfold rloc. cbn. now rewrite Est.
    + apply (K_leave [] [] s r q RCancelled); auto.
      * unfold is_wait. now rewrite Est.
      * unfold rloc. cbn. now rewrite Est.
Qed.

(* ---------------------------------------------------------------- spawned tasks *)
Lemma dial_poll_any d : dshape d ->
  let d' := fst (dial_poll d) in
  d_t d' = d_t d /\ d_h d' = d_h d /\ d_bg d' = d_bg d /\ dshape d' /\
  (d_ph d = DGone -> d_ph d' = DGone) /\ (started d = true -> d_ph d' = DGone \/ started d' = true) /\
  match snd (dial_poll d) with DPending => parked d' | _ => d_ph d' = DGone end.
Proof.
  destruct d as [ph t h bg]. unfold dshape, parked, started, dial_poll. cbn.
  destruct ph, t as [[|]|], h as [[|]|]; cbn; intros Hs; repeat split; auto; try congruence;
    try (destruct Hs; congruence); try (destruct Hs; discriminate).
Qed.

Lemma K_pop_dial X r rest s : bgq s = BDial r :: rest -> K X s ->
  (forall q, nth_error (reqs s) r = Some q -> is_wait q = false -> parked (r_dial q)) -> K X (set_bgq rest s).
Proof.
  intros Eb (A & B & C & D) Hp. repeat split; try apply A; auto.
  - unfold Conserve, locs in *. cbn in *. rewrite Eb in C. exact C.
  - intros r' q Hq Hw. cbn in Hq. destruct (D r' q Hq Hw) as [|Hin]; auto. rewrite Eb in Hin.
    destruct Hin as [[= <-]|Hin]; auto.
Qed.

Lemma K_run_dial X r rest s : bgq s = BDial r :: rest -> K X s -> K X (run_task (BDial r) (set_bgq rest s)).
Proof.
  intros Eb HK. pose proof HK as (HQ & HD & HC & HP). unfold run_task.
  change (get_dial (set_bgq rest s) r) with (get_dial s r).
  destruct (nth_error (reqs s) r) as [q|] eqn:Hq.
  2:{ unfold get_dial. rewrite Hq. cbn. apply (K_pop_dial X r rest s); auto. intros q. rewrite Hq. discriminate. }
  rewrite (get_dial_nth _ _ _ Hq).
  destruct (DW_nth _ _ _ HD Hq) as (Hsh & Hown). unfold downer in Hown.
  destruct (d_bg (r_dial q)) eqn:Ebg.
  2:{ apply (K_pop_dial X r rest s); auto. intros q0. rewrite Hq. intros [= <-] Hw. unfold is_wait in Hw.
      destruct (r_st q); try discriminate; try (now apply parked_gone);
        (destruct Hown as [Hg|(Hb & _)]; [now apply parked_gone|congruence]). }
  assert (Hnw : is_wait q = false). { unfold is_wait. destruct (r_st q); auto. destruct Hown; congruence. }
  destruct (poll_dial_eq r (set_bgq rest s)) as (s1 & -> & Ec & Er & Equ & Ei & En & Eb1).
  cbn in Ec, Er, Equ, Ei, En, Eb1.
  change (get_dial (set_bgq rest s) r) with (get_dial s r). rewrite (get_dial_nth _ _ _ Hq).
  destruct (dial_poll_any _ Hsh) as (Ht & Hh & Hb & Hsh' & Hgone & Hstart & Hres).
  destruct (dial_poll (r_dial q)) as [d' res]. cbn [fst snd] in *.
  (* first the dial, with the task still queued; then the task leaves the queue *)
  assert (Hmid : K X (upd_req r (upd_dial (fun _ => d')) s)).
  { apply (K_upd_req X X s r q (upd_dial (fun _ => d'))); auto.
    - split; [exact Hsh'|]. unfold downer. cbn. rewrite Hb.
      destruct (r_st q); auto; try (destruct Hown; congruence);
        (destruct Hown as [Hg|(Hb1 & Hc & Hs1)]; [left; auto|destruct (Hstart Hs1); [left|right]; auto]).
    - right. rewrite Eb. now left. }
  assert (Hpop : K X (set_bgq rest (upd_req r (upd_dial (fun _ => d')) s))).
  { apply (K_pop_dial X r rest); auto. intros q0. cbn. rewrite nth_error_upd_eq, Hq. cbn. intros [= <-] _. cbn.
    destruct res; auto; now apply parked_gone. }
  destruct res; try (eapply K_fields; [| | | | | |exact Hpop]; cbn; congruence).
  apply K_spawn_push.
  change (nconn (upd_req r (upd_dial (fun _ => d')) s1)) with (nconn s1). rewrite En.
  eapply K_fields; [| | | | | |exact (K_new X _ Hpop)]; cbn; congruence.
Qed.

Lemma K_settle f : forall s, K [] s -> K [] (settle f s).
Proof.
  induction f as [|f IH]; intros s HK; cbn; auto.
  destruct (bgq s) as [|[c|r] rest] eqn:Eb; auto; apply IH.
  - cbn. apply K_push. now apply K_pop_push.
  - now apply K_run_dial.
Qed.

(* the run queue drains within the fuel *)
Definition weight b := match b with BDial _ => 2 | BPush _ => 1 end.
Fixpoint wsum (l : list btask) := match l with [] => 0 | b :: t => weight b + wsum t end.
Lemma wsum_app a b : wsum (a ++ b) = wsum a + wsum b.
Proof. induction a; cbn; lia. Qed.

Lemma bgq_push c s : bgq (push c s) = bgq s.
Proof. unfold push. destruct (walk (waiting s) (queue s)) as [[r|] q']; reflexivity. Qed.
Lemma bgq_poll_dial r s : bgq (snd (poll_dial r s)) = bgq s.
Proof. destruct (poll_dial_eq r s) as (s1 & -> & _ & _ & _ & _ & _ & E). cbn. exact E. Qed.

Lemma run_task_weight b rest s : wsum (bgq (run_task b (set_bgq rest s))) < weight b + wsum rest.
Proof.
  destruct b as [c|r]; cbn [run_task].
  - rewrite bgq_push. cbn. lia.
  - destruct (d_bg (get_dial (set_bgq rest s) r)); [|cbn; lia].
    pose proof (bgq_poll_dial r (set_bgq rest s)) as E. destruct (poll_dial r (set_bgq rest s)) as [res s1].
    cbn in E. destruct res; cbn; rewrite ?E; try lia. rewrite wsum_app. cbn. lia.
Qed.

Lemma settle_empty f : forall s, wsum (bgq s) <= f -> bgq (settle f s) = [].
Proof.
  induction f as [|f IH]; intros s H; cbn.
  - destruct (bgq s) as [|[|] ?]; cbn in *; auto; lia.
  - destruct (bgq s) as [|b rest] eqn:Eb; auto. apply IH.
    pose proof (run_task_weight b rest s). cbn in H. lia.
Qed.

Definition do_op (o : op) s :=
  match o with
  | Issue => do_issue s
  | Poll r => do_poll r s
  | TDone r ok => do_tdone r ok s
  | HDone r ok => do_hdone r ok s
  | Release c => do_release c s
  | Cancel r => do_cancel r s
  end.
Lemma step_eq s o : step s o = settle fuel (do_op o (set_evs [] s)).
Proof. destruct o; reflexivity. Qed.

Lemma bgq_abandon r s : exists l, bgq (abandon r s) = bgq s ++ l /\ wsum l <= 2.
Proof.
  unfold abandon. destruct (started (get_dial s r)); [destruct (cont s)|].
  - exists [BDial r]. cbn. auto.
  - exists []. cbn. rewrite app_nil_r. auto.
  - exists []. cbn. rewrite app_nil_r. auto.
Qed.

Lemma do_op_weight o s : bgq s = [] -> wsum (bgq (do_op o s)) <= 3.
Proof.
  intros Eb. destruct o as [|r|r ok|r ok|c|r]; cbn [do_op].
  - unfold do_issue. destruct (rev (idle s)); cbn; rewrite Eb; cbn; lia.
  - unfold do_poll. destruct (nth_error (reqs s) r) as [q|]; [|rewrite Eb; cbn; lia].
    destruct (r_st q) as [c|[c|]|c| | |]; try (rewrite Eb; cbn; lia).
    + cbn. rewrite Eb. cbn. lia.
    + destruct (bgq_abandon r (serve r c s)) as (l & -> & Hl). cbn. rewrite Eb. cbn. lia.
    + pose proof (bgq_poll_dial r s) as E. destruct (poll_dial r s) as [res s1]. cbn in E.
      destruct res; cbn; rewrite E, Eb; cbn; lia.
  - unfold do_tdone. destruct (d_ph (get_dial s r)); try (rewrite Eb; cbn; lia).
    destruct (d_t (get_dial s r)); try (rewrite Eb; cbn; lia).
    destruct (d_bg (get_dial s r)); cbn; rewrite Eb; cbn; lia.
  - unfold do_hdone.
    destruct (match d_ph (get_dial s r) with DTrans => match d_t (get_dial s r) with Some true => true | _ => false end | DHand => true | _ => false end);
      try (rewrite Eb; cbn; lia).
    destruct (d_h (get_dial s r)); try (rewrite Eb; cbn; lia).
    destruct (d_bg (get_dial s r)); cbn; rewrite Eb; cbn; lia.
  - unfold do_release. destruct (holder s c); cbn; rewrite Eb; cbn; lia.
  - unfold do_cancel. destruct (nth_error (reqs s) r) as [q|]; [|rewrite Eb; cbn; lia].
    destruct (r_st q) as [c|got|c| | |]; try (rewrite Eb; cbn; lia).
    + rewrite bgq_push. cbn. rewrite Eb. cbn. lia.
    + destruct (bgq_abandon r (upd_req r (set_st RCancelled) s)) as (l & E & Hl).
      destruct got; cbn; rewrite E; cbn; rewrite Eb; cbn; rewrite ?wsum_app; cbn; lia.
Qed.

Lemma K_do_op o s : K [] s -> K [] (do_op o s).
Proof.
  destruct o; cbn [do_op].
  - apply K_do_issue. - apply K_do_poll. - apply K_do_tdone. - apply K_do_hdone. - apply K_do_release. - apply K_do_cancel.
Qed.

Lemma Inv_init cn : Inv (init cn).
Proof.
  split; [|reflexivity]. repeat split; cbn.
  - constructor.
  - intros r [].
  - intros r H. unfold waiting, get_st in H. cbn in H. destruct r; discriminate.
  - constructor.
  - unfold Conserve. cbn. constructor.
  - intros r q H. destruct r; discriminate.
Qed.

Theorem step_Inv s o : Inv s -> Inv (step s o).
Proof.
  intros (HK & Eb). rewrite step_eq. split.
  - apply K_settle, K_do_op. eapply K_fields; [| | | | | |exact HK]; reflexivity.
  - apply settle_empty. pose proof (do_op_weight o (set_evs [] s) Eb). unfold fuel. lia.
Qed.
