(* Prop-level readings of C14 for the two-phase dial.  Facts about the monitor's tracker (they hold for every
   accepted trace, the implementation's included) are carried over to the model through the simulation of
   ckphase/Sim.v. *)
From Coq Require Import Permutation Sorting.Sorted.
From HD Require Import common.Base ckphase.Model ckphase.Spec ckphase.Proofs ckphase.Sim.

Definition qst (t : trk) (r : nat) : option treq := option_map q_st (nth_error (t_reqs t) r).
Definition hands (r : nat) (l : list event) : nat :=
  List.length (filter (fun e => match e with EHand r' _ => Nat.eqb r r' | _ => false end) l).

Lemma ev_eqb_eq a b : ev_eqb a b = true -> a = b.
Proof.
  destruct a, b; cbn; try discriminate; intros H;
    repeat match goal with
           | H : (_ && _)%bool = true |- _ => apply andb_true_iff in H as (? & ?)
           | H : Nat.eqb _ _ = true |- _ => apply Nat.eqb_eq in H; subst
           | H : Bool.eqb _ _ = true |- _ => apply Bool.eqb_prop in H; subst
           end; reflexivity.
Qed.
Lemma evs_eqb_eq a : forall b, evs_eqb a b = true -> a = b.
Proof.
  induction a as [|x a IH]; intros [|y b] H; cbn in H; try discriminate; auto.
  apply andb_true_iff in H as (H1 & H2). apply ev_eqb_eq in H1 as ->. f_equal. now apply IH.
Qed.

Lemma qst_t_upd_eq r f t : qst (t_upd r f t) r = option_map (fun q => q_st (f q)) (nth_error (t_reqs t) r).
Proof. unfold qst, t_upd. cbn. rewrite nth_error_upd_eq. now destruct (nth_error (t_reqs t) r). Qed.
Lemma qst_t_upd_ne r r' f t : r <> r' -> qst (t_upd r f t) r' = qst t r'.
Proof. intros H. unfold qst, t_upd. cbn. now rewrite nth_error_upd_ne. Qed.
Lemma qst_t_upd_dial r r' f t : qst (t_upd r (q_upd_dial f) t) r' = qst t r'.
Proof.
  destruct (Nat.eq_dec r r') as [<-|H]; [|now apply qst_t_upd_ne].
  rewrite qst_t_upd_eq. unfold qst. now destruct (nth_error (t_reqs t) r).
Qed.

Lemma first_wait_from_spec l : forall i r, first_wait_from i l = Some r ->
  i <= r /\ option_map q_st (nth_error l (r - i)) = Some TWait /\
  forall r', i <= r' -> r' < r -> option_map q_st (nth_error l (r' - i)) <> Some TWait.
Proof.
  induction l as [|q l IH]; intros i r H; cbn in H; [discriminate|].
  destruct (q_st q) eqn:Eq;
    try (destruct (IH _ _ H) as (A & B & C); split; [lia|]; split;
         [replace (r - i) with (S (r - S i)) by lia; exact B|
          intros r' H1 H2; destruct (Nat.eq_dec r' i) as [->|Hne];
            [rewrite Nat.sub_diag; cbn; rewrite Eq; discriminate|
             replace (r' - i) with (S (r' - S i)) by lia; apply C; lia]]).
  injection H as <-. rewrite Nat.sub_diag. cbn. rewrite Eq. repeat split; auto. intros r' H1 H2. lia.
Qed.

(* an offer changes at most one request: the longest-waiting one gets the promise *)
Lemma offer_qst c t r :
  qst (offer c t) r = qst t r \/ (first_wait t = Some r /\ qst t r = Some TWait /\ qst (offer c t) r = Some (TProm c)).
Proof.
  unfold offer. destruct (first_wait t) as [w|] eqn:Ew; [|now left].
  destruct (Nat.eq_dec w r) as [->|Hne]; [|left; now apply qst_t_upd_ne].
  right. destruct (first_wait_from_spec _ _ _ Ew) as (_ & B & _). rewrite Nat.sub_0_r in B.
  repeat split; auto. rewrite qst_t_upd_eq. fold (qst t r) in B. unfold qst in B.
  destruct (nth_error (t_reqs t) r); [reflexivity|discriminate].
Qed.

(* [keeps t t']: no request changes state, except that waiting requests may have been offered a connection *)
Definition keeps (t t' : trk) := forall r, qst t' r = qst t r \/ (qst t r = Some TWait /\ exists c, qst t' r = Some (TProm c)).
Lemma keeps_refl t : keeps t t.
Proof. intros r. now left. Qed.
Lemma keeps_trans a b c : keeps a b -> keeps b c -> keeps a c.
Proof.
  intros H1 H2 r. destruct (H1 r) as [E1|(E1 & c1 & E1')], (H2 r) as [E2|(E2 & c2 & E2')].
  - left. congruence. - right. rewrite <- E1. eauto. - right. split; auto. exists c1. congruence. - congruence.
Qed.
Lemma keeps_offer c t : keeps t (offer c t).
Proof. intros r. destruct (offer_qst c t r) as [E|(_ & E1 & E2)]; [now left|right; eauto]. Qed.
Lemma keeps_upd_dial r f t : keeps t (t_upd r (q_upd_dial f) t).
Proof. intros r'. left. apply qst_t_upd_dial. Qed.
Lemma keeps_dial_nconn r f t n : keeps t (mkT (upd_nth r (q_upd_dial f) (t_reqs t)) (t_idle t) n (t_connects t)).
Proof. intros r'. left. exact (qst_t_upd_dial r r' f t). Qed.

Lemma hands_nil r : hands r [] = 0. Proof. reflexivity. Qed.

Lemma bg_check_keeps r0 evs t t' : bg_check r0 evs t = Some t' -> keeps t t' /\ forall r, hands r evs = 0.
Proof.
  unfold bg_check. destruct (nth_error (t_reqs t) r0) as [q|]; [|discriminate].
  destruct (k_t (q_dial q)) as [[|]|]; [destruct (k_h (q_dial q)) as [[|]|]| |].
  - destruct (evs_eqb evs _) eqn:E; [|discriminate]. apply evs_eqb_eq in E as ->. intros [= <-]. split; [|reflexivity].
    eapply keeps_trans; [|apply keeps_offer]. apply keeps_dial_nconn.
  - destruct (evs_eqb evs _) eqn:E; [|discriminate]. apply evs_eqb_eq in E as ->. intros [= <-]. split; [|reflexivity]. apply keeps_upd_dial.
  - destruct (evs_eqb evs _) eqn:E; [|discriminate]. apply evs_eqb_eq in E as ->. intros [= <-]. split; [|reflexivity]. apply keeps_refl.
  - destruct (evs_eqb evs _) eqn:E; [|discriminate]. apply evs_eqb_eq in E as ->. intros [= <-]. split; [|reflexivity]. apply keeps_upd_dial.
  - destruct (evs_eqb evs _) eqn:E; [|discriminate]. apply evs_eqb_eq in E as ->. intros [= <-]. split; [|reflexivity]. apply keeps_refl.
Qed.

Lemma abandon_check_keeps cn r0 evs t t' : abandon_check cn r0 evs t = Some t' -> keeps t t' /\ forall r, hands r evs = 0.
Proof.
  unfold abandon_check. destruct (nth_error (t_reqs t) r0) as [q|]; [|discriminate].
  destruct (k_st (q_dial q) && negb (k_dead (q_dial q)))%bool; [destruct cn|].
  - apply bg_check_keeps.
  - destruct (evs_eqb evs _) eqn:E; [|discriminate]. apply evs_eqb_eq in E as ->. intros [= <-]. split; [|reflexivity]. apply keeps_upd_dial.
  - destruct (evs_eqb evs _) eqn:E; [|discriminate]. apply evs_eqb_eq in E as ->. intros [= <-]. split; [|reflexivity]. apply keeps_upd_dial.
Qed.

Definition open_st (o : option treq) : Prop := match o with Some (TIdle _) | Some TWait | Some (TProm _) => True | _ => False end.

(* what one accepted step can do to one request *)
Inductive req_step (o : op) (evs : list event) (t t' : trk) (r : nat) : Prop :=
| RS_keep : (qst t' r = qst t r \/ (qst t r = Some TWait /\ exists c, qst t' r = Some (TProm c))) -> hands r evs = 0 ->
            o <> Poll r \/ ~ open_st (qst t r) \/ (qst t r = Some TWait) -> req_step o evs t t' r
| RS_new : o = Issue -> qst t r = None -> open_st (qst t' r) -> hands r evs = 0 -> req_step o evs t t' r
| RS_served c : o = Poll r -> hands r evs = 1 -> In (EHand r c) evs -> qst t' r = Some (TServed c) ->
            (qst t r = Some (TIdle c) \/ qst t r = Some (TProm c) \/ qst t r = Some TWait) -> req_step o evs t t' r
| RS_over : hands r evs = 0 -> qst t' r = Some TOver ->
            ((o = Cancel r /\ open_st (qst t r)) \/ (o = Poll r /\ qst t r = Some TWait) \/ (exists c, o = Release c /\ qst t r = Some (TServed c))) ->
            req_step o evs t t' r.

Lemma keep_of_keeps o evs t t' r : keeps t t' -> hands r evs = 0 -> o <> Poll r \/ ~ open_st (qst t r) \/ (qst t r = Some TWait) -> req_step o evs t t' r.
Proof. intros H. apply RS_keep. apply H. Qed.

Lemma t_holder_from_spec l : forall i c r, t_holder_from i l c = Some r ->
  i <= r /\ option_map q_st (nth_error l (r - i)) = Some (TServed c).
Proof.
  induction l as [|q l IH]; intros i c r H; cbn in H; [discriminate|].
  assert (Hrec : t_holder_from (S i) l c = Some r -> i <= r /\ option_map q_st (nth_error (q :: l) (r - i)) = Some (TServed c)).
  { intros H'. destruct (IH _ _ _ H') as (A & B). split; [lia|]. replace (r - i) with (S (r - S i)) by lia. exact B. }
  destruct (q_st q) eqn:Eq; auto. destruct (Nat.eqb_spec c c0) as [<-|]; auto.
  injection H as <-. rewrite Nat.sub_diag. cbn. rewrite Eq. auto.
Qed.

Lemma qst_snoc t q r : qst (t_set_reqs (t_reqs t ++ [q]) t) r =
  if Nat.ltb r (List.length (t_reqs t)) then qst t r else if Nat.eqb r (List.length (t_reqs t)) then Some (q_st q) else None.
Proof.
  unfold qst, t_set_reqs. cbn [t_reqs]. rewrite nth_error_snoc. destruct (Nat.ltb r (List.length (t_reqs t))); auto.
  destruct (Nat.eqb r (List.length (t_reqs t))); reflexivity.
Qed.
Lemma qst_none_ge t r : List.length (t_reqs t) <= r -> qst t r = None.
Proof. intros H. unfold qst. now rewrite (proj2 (nth_error_None _ _) H). Qed.

Lemma qst_upd_gen t t' r0 f r : t_reqs t' = upd_nth r0 f (t_reqs t) ->
  qst t' r = if Nat.eqb r0 r then option_map (fun q => q_st (f q)) (nth_error (t_reqs t) r) else qst t r.
Proof.
  intros E. unfold qst. rewrite E. destruct (Nat.eqb_spec r0 r) as [<-|Hne].
  - rewrite nth_error_upd_eq. now destruct (nth_error (t_reqs t) r0).
  - now rewrite nth_error_upd_ne.
Qed.
Lemma hands_single_ne r r0 c : r <> r0 -> hands r [EHand r0 c] = 0.
Proof. intros H. unfold hands. cbn. destruct (Nat.eqb_spec r r0); [contradiction|reflexivity]. Qed.
Lemma hands_single_eq r c : hands r [EHand r c] = 1.
Proof. unfold hands. cbn. now rewrite Nat.eqb_refl. Qed.
Lemma hands_cons_hand r r0 c l : hands r (EHand r0 c :: l) = (if Nat.eqb r r0 then 1 else 0) + hands r l.
Proof. unfold hands. cbn. now destruct (Nat.eqb r r0). Qed.
Lemma hands_cons_other r e l : match e with EHand _ _ => False | _ => True end -> hands r (e :: l) = hands r l.
Proof. unfold hands. destruct e; cbn; auto; contradiction. Qed.

Lemma keeps_at t t' r v : keeps t t' -> qst t r = v -> v <> Some TWait -> qst t' r = v.
Proof. intros H E Hv. destruct (H r) as [E'|(E' & _)]; congruence. Qed.

Lemma tstep_req cn o evs t t' : tstep cn o evs t = Some t' -> forall r, req_step o evs t t' r.
Proof.
  intros H r. destruct o as [|r0|r0 ok|r0 ok|c0|r0]; cbn [tstep] in H.
  - (* Issue *)
    destruct (evs_eqb evs []) eqn:E; [|discriminate]. apply evs_eqb_eq in E as ->.
    assert (Hcase : forall q, open_st (Some (q_st q)) -> (forall r, qst t' r = qst (t_set_reqs (t_reqs t ++ [q]) t) r) -> req_step Issue [] t t' r).
    { intros q Hq Ht'. destruct (Nat.ltb r (List.length (t_reqs t))) eqn:E1.
      - apply RS_keep; auto. left. rewrite Ht', qst_snoc, E1. reflexivity. left. discriminate.
      - apply Nat.ltb_ge in E1 as E1'. destruct (Nat.eqb r (List.length (t_reqs t))) eqn:E2.
        + apply RS_new; auto. now apply qst_none_ge. rewrite Ht', qst_snoc, E1, E2. exact Hq.
        + apply RS_keep; auto. left. rewrite Ht', qst_snoc, E1, E2. symmetry. now apply qst_none_ge. left. discriminate. }
    destruct (rev (t_idle t)) as [|c rest]; injection H as <-.
    + apply (Hcase (mkTR TWait (mkTD false false None None))); [exact I|reflexivity].
    + apply (Hcase (mkTR (TIdle c) dead_dial)); [exact I|reflexivity].
  - (* Poll *)
    destruct (nth_error (t_reqs t) r0) as [q|] eqn:Hq.
    2:{ destruct (evs_eqb evs []) eqn:E; [|discriminate]. apply evs_eqb_eq in E as ->. injection H as <-.
        apply keep_of_keeps; [apply keeps_refl|reflexivity|]. destruct (Nat.eq_dec r0 r) as [->|Hne]; [|left; congruence].
        right. left. unfold qst. rewrite Hq. cbn. auto. }
    assert (Hqst0 : qst t r0 = Some (q_st q)) by (unfold qst; now rewrite Hq).
    destruct (q_st q) as [c| |c|c|] eqn:Est.
    + destruct (evs_eqb evs [EHand r0 c] && negb (held t c))%bool eqn:E; [|discriminate]. apply andb_true_iff in E as (E & _).
      apply evs_eqb_eq in E as ->. injection H as <-. destruct (Nat.eq_dec r0 r) as [->|Hne].
      * apply (RS_served _ _ _ _ _ c); auto. apply hands_single_eq. now left. rewrite qst_t_upd_eq, Hq. reflexivity.
      * apply RS_keep. left. now apply qst_t_upd_ne. apply hands_single_ne. congruence. left. congruence.
    + (* TWait: own connector polled *)
      destruct (strip_start r0 (negb (k_st (q_dial q))) evs) as [evs1|] eqn:Es; [|discriminate].
      set (t2 := if k_st (q_dial q) then t else _) in H.
      assert (Ht2 : forall r, qst t2 r = qst t r).
      { intros r1. unfold t2. destruct (k_st (q_dial q)); auto. exact (qst_t_upd_dial r0 r1 _ t). }
      assert (Hh : hands r evs = hands r evs1).
      { unfold strip_start in Es. destruct (negb (k_st (q_dial q))); [|now injection Es as <-].
        destruct evs as [|[r1| | | | |] rest]; try discriminate. destruct (Nat.eqb r0 r1); [|discriminate]. injection Es as <-. reflexivity. }
      assert (Hin : forall e, In e evs1 -> In e evs).
      { unfold strip_start in Es. destruct (negb (k_st (q_dial q))); [|now injection Es as <-].
        destruct evs as [|[r1| | | | |] rest]; try discriminate. destruct (Nat.eqb r0 r1); [|discriminate]. injection Es as <-. intros e He. now right. }
      destruct evs1 as [|e1 evs2]; [discriminate|]. destruct e1 as [r1|c r1|r1 c|r1 hs|r1|r1]; try discriminate.
      * (* [ENew c r'; EHand r'' c'] *)
        destruct evs2 as [|e2 evs3]; [discriminate|]. destruct e2 as [r2|c2 r2|r2 c0|r2 hs|r2|r2]; try discriminate.
        destruct evs3; [|discriminate].
        destruct (Nat.eqb r0 r1 && Nat.eqb r0 r2 && Nat.eqb c c0 && Nat.eqb c (t_nconn t2) && negb (held t2 c))%bool eqn:E; [|discriminate].
        apply andb_true_iff in E as (E & E5). apply andb_true_iff in E as (E & E4). apply andb_true_iff in E as (E & E3).
        apply andb_true_iff in E as (E1 & E2). apply Nat.eqb_eq in E1, E2, E3, E4. subst r1 r2 c0 c.
        injection H as <-. destruct (Nat.eq_dec r0 r) as [->|Hne].
        -- apply (RS_served _ _ _ _ _ (t_nconn t2)); auto.
           ++ rewrite Hh. rewrite hands_cons_other by exact I. apply hands_single_eq.
           ++ apply Hin. right. now left.
           ++ erewrite qst_upd_gen by reflexivity. rewrite Nat.eqb_refl. fold (qst t2 r). 
              assert (E2 := Ht2 r). unfold qst in E2 at 1. destruct (nth_error (t_reqs t2) r); [reflexivity|]. rewrite Hqst0 in E2. discriminate.
        -- apply RS_keep.
           ++ left. erewrite qst_upd_gen by reflexivity. destruct (Nat.eqb_spec r0 r); [contradiction|]. apply Ht2.
           ++ rewrite Hh. rewrite hands_cons_other by exact I. apply hands_single_ne. congruence.
           ++ left. congruence.
      * (* [EFail] *)
        destruct evs2; [|discriminate].
        destruct (Nat.eqb_spec r0 r1) as [<-|]; [|discriminate]. injection H as <-. destruct (Nat.eq_dec r0 r) as [->|Hne].
        -- apply RS_over.
           ++ exact Hh.
           ++ rewrite qst_t_upd_eq. assert (E2 := Ht2 r). unfold qst in E2 at 1. destruct (nth_error (t_reqs t2) r); [reflexivity|]. rewrite Hqst0 in E2. discriminate.
           ++ right. left. auto.
        -- apply RS_keep.
           ++ left. rewrite qst_t_upd_ne by auto. apply Ht2.
           ++ exact Hh.
           ++ left. congruence.
      * (* [EPend] *)
        destruct evs2; [|discriminate].
        destruct (Nat.eqb_spec r0 r1) as [<-|]; [|discriminate]. injection H as <-.
        apply RS_keep.
        -- left. apply Ht2.
        -- exact Hh.
        -- destruct (Nat.eq_dec r0 r) as [->|Hne]; [right; right; exact Hqst0|left; congruence].
    + (* TProm: the offered connection *)
      destruct evs as [|e rest]; [discriminate|].
      destruct (ev_eqb e (EHand r0 c) && negb (held t c))%bool eqn:E; [|discriminate]. apply andb_true_iff in E as (E & _).
      apply ev_eqb_eq in E as ->. destruct (abandon_check_keeps _ _ _ _ _ H) as (Hk & Hh0).
      destruct (Nat.eq_dec r0 r) as [->|Hne].
      * apply (RS_served _ _ _ _ _ c); auto.
        -- rewrite hands_cons_hand, Nat.eqb_refl, Hh0. reflexivity.
        -- now left.
        -- apply (keeps_at _ _ _ _ Hk); [|discriminate]. rewrite qst_t_upd_eq, Hq. reflexivity.
      * apply RS_keep.
        -- specialize (Hk r). rewrite qst_t_upd_ne in Hk by auto. exact Hk.
        -- rewrite hands_cons_hand, Hh0. destruct (Nat.eqb_spec r r0); [congruence|reflexivity].
        -- left. congruence.
    + destruct (evs_eqb evs []) eqn:E; [|discriminate]. apply evs_eqb_eq in E as ->. injection H as <-.
      apply keep_of_keeps; [apply keeps_refl|reflexivity|]. destruct (Nat.eq_dec r0 r) as [->|Hne]; [|left; congruence].
      right. left. rewrite Hqst0. cbn. auto.
    + destruct (evs_eqb evs []) eqn:E; [|discriminate]. apply evs_eqb_eq in E as ->. injection H as <-.
      apply keep_of_keeps; [apply keeps_refl|reflexivity|]. destruct (Nat.eq_dec r0 r) as [->|Hne]; [|left; congruence].
      right. left. rewrite Hqst0. cbn. auto.
  - (* TDone *)
    destruct (nth_error (t_reqs t) r0) as [q|] eqn:Hq.
    2:{ destruct (evs_eqb evs []) eqn:E; [|discriminate]. apply evs_eqb_eq in E as ->. injection H as <-.
        apply keep_of_keeps; [apply keeps_refl|reflexivity|left; discriminate]. }
    destruct (k_st (q_dial q) && negb (k_dead (q_dial q)) && match k_t (q_dial q) with None => true | _ => false end)%bool.
    + destruct (abandoned q).
      * destruct (bg_check_keeps _ _ _ _ H) as (Hk & Hh0). apply keep_of_keeps; auto; [|left; discriminate].
        eapply keeps_trans; [apply keeps_upd_dial|exact Hk].
      * destruct (evs_eqb evs []) eqn:E; [|discriminate]. apply evs_eqb_eq in E as ->. injection H as <-.
        apply keep_of_keeps; [apply keeps_upd_dial|reflexivity|left; discriminate].
    + destruct (evs_eqb evs []) eqn:E; [|discriminate]. apply evs_eqb_eq in E as ->. injection H as <-.
      apply keep_of_keeps; [apply keeps_refl|reflexivity|left; discriminate].
  - (* HDone *)
    destruct (nth_error (t_reqs t) r0) as [q|] eqn:Hq.
    2:{ destruct (evs_eqb evs []) eqn:E; [|discriminate]. apply evs_eqb_eq in E as ->. injection H as <-.
        apply keep_of_keeps; [apply keeps_refl|reflexivity|left; discriminate]. }
    destruct (k_st (q_dial q) && negb (k_dead (q_dial q)) && match k_t (q_dial q), k_h (q_dial q) with Some true, None => true | _, _ => false end)%bool.
    + destruct (abandoned q).
      * destruct (bg_check_keeps _ _ _ _ H) as (Hk & Hh0). apply keep_of_keeps; auto; [|left; discriminate].
        eapply keeps_trans; [apply keeps_upd_dial|exact Hk].
      * destruct (evs_eqb evs []) eqn:E; [|discriminate]. apply evs_eqb_eq in E as ->. injection H as <-.
        apply keep_of_keeps; [apply keeps_upd_dial|reflexivity|left; discriminate].
    + destruct (evs_eqb evs []) eqn:E; [|discriminate]. apply evs_eqb_eq in E as ->. injection H as <-.
      apply keep_of_keeps; [apply keeps_refl|reflexivity|left; discriminate].
  - (* Release *)
    destruct (evs_eqb evs []) eqn:E; [|discriminate]. apply evs_eqb_eq in E as ->.
    destruct (t_holder_from 0 (t_reqs t) c0) as [r0|] eqn:Hh; injection H as <-.
    2:{ apply keep_of_keeps; [apply keeps_refl|reflexivity|left; discriminate]. }
    destruct (t_holder_from_spec _ _ _ _ Hh) as (_ & Hst). rewrite Nat.sub_0_r in Hst. fold (qst t r0) in Hst.
    destruct (Nat.eq_dec r0 r) as [->|Hne].
    + apply RS_over; auto.
      * apply (keeps_at _ _ _ _ (keeps_offer c0 _)); [|discriminate]. rewrite qst_t_upd_eq. unfold qst in Hst.
        destruct (nth_error (t_reqs t) r); [reflexivity|discriminate].
      * right. right. eauto.
    + apply RS_keep; [|reflexivity|left; discriminate].
      pose proof (keeps_offer c0 (t_upd r0 (q_set_st TOver) t) r) as Hk. rewrite qst_t_upd_ne in Hk by auto. exact Hk.
  - (* Cancel *)
    destruct (nth_error (t_reqs t) r0) as [q|] eqn:Hq.
    2:{ destruct (evs_eqb evs []) eqn:E; [|discriminate]. apply evs_eqb_eq in E as ->. injection H as <-.
        apply keep_of_keeps; [apply keeps_refl|reflexivity|left; discriminate]. }
    assert (Hqst0 : qst t r0 = Some (q_st q)) by (unfold qst; now rewrite Hq).
    assert (Hover : qst (t_upd r0 (q_set_st TOver) t) r0 = Some TOver) by (rewrite qst_t_upd_eq, Hq; reflexivity).
    assert (Hfin : forall t1, keeps (t_upd r0 (q_set_st TOver) t) t1 -> hands r evs = 0 -> open_st (qst t r0) -> req_step (Cancel r0) evs t t1 r).
    { intros t1 Hk Hh0 Hop. destruct (Nat.eq_dec r0 r) as [->|Hne].
      - apply RS_over; auto. apply (keeps_at _ _ _ _ Hk); [exact Hover|discriminate].
      - apply RS_keep; auto; [|left; discriminate]. specialize (Hk r). rewrite qst_t_upd_ne in Hk by auto. exact Hk. }
    destruct (q_st q) as [c| |c|c|] eqn:Est.
    + destruct (evs_eqb evs []) eqn:E; [|discriminate]. apply evs_eqb_eq in E as ->. injection H as <-.
      apply Hfin; [apply keeps_offer|reflexivity|rewrite Hqst0; exact I].
    + destruct (abandon_check_keeps _ _ _ _ _ H) as (Hk & Hh0). apply Hfin; auto. rewrite Hqst0. exact I.
    + destruct (abandon_check_keeps _ _ _ _ _ H) as (Hk & Hh0). apply Hfin; auto.
      * eapply keeps_trans; [apply keeps_offer|exact Hk].
      * rewrite Hqst0. exact I.
    + destruct (evs_eqb evs []) eqn:E; [|discriminate]. apply evs_eqb_eq in E as ->. injection H as <-.
      apply keep_of_keeps; [apply keeps_refl|reflexivity|left; discriminate].
    + destruct (evs_eqb evs []) eqn:E; [|discriminate]. apply evs_eqb_eq in E as ->. injection H as <-.
      apply keep_of_keeps; [apply keeps_refl|reflexivity|left; discriminate].
Qed.

(* ================================================================ the model, through the simulation *)
Definition mst (s : state) (r : nat) : option rstate := option_map r_st (nth_error (reqs s) r).
Lemma qst_abs s r : qst (abs s) r = option_map abs_st (mst s r).
Proof. unfold qst, mst. rewrite abs_nth. now destruct (nth_error (reqs s) r). Qed.

Lemma abs_st_prom st c : abs_st st = TProm c -> st = RWait (Some c).
Proof. destruct st as [|[|]| | | |]; cbn; congruence. Qed.
Lemma abs_st_served st c : abs_st st = TServed c -> st = RServed c.
Proof. destruct st as [|[|]| | | |]; cbn; congruence. Qed.
Lemma abs_st_wait st : abs_st st = TWait -> st = RWait None.
Proof. destruct st as [|[|]| | | |]; cbn; congruence. Qed.

Lemma run_Inv : forall ops s, Inv s -> Inv (snd (run s ops)).
Proof.
  induction ops as [|o ops IH]; intros s HI; [exact HI|].
  change (run s (o :: ops)) with (let s' := step s o in let '(l, s'') := run s' ops in (observe s' :: l, s'')). cbn zeta.
  specialize (IH (step s o) (step_Inv s o HI)). destruct (run (step s o) ops) as [l s'']. exact IH.
Qed.
Theorem final_Inv cn ops : Inv (final cn ops).
Proof. apply run_Inv, Inv_init. Qed.

(* ---- clause (a) *)
Lemma first_wait_from_complete l : forall i r, i <= r -> option_map q_st (nth_error l (r - i)) = Some TWait ->
  (forall r', i <= r' -> r' < r -> option_map q_st (nth_error l (r' - i)) <> Some TWait) -> first_wait_from i l = Some r.
Proof.
  induction l as [|q l IH]; intros i r Hle Hr Hlt; cbn.
  - destruct (r - i); discriminate.
  - destruct (Nat.eq_dec r i) as [->|Hne].
    + rewrite Nat.sub_diag in Hr. cbn in Hr. injection Hr as ->. reflexivity.
    + assert (Hi : q_st q <> TWait).
      { intros E. apply (Hlt i); [lia|lia|]. rewrite Nat.sub_diag. cbn. now rewrite E. }
      assert (Hrec : first_wait_from (S i) l = Some r).
      { apply IH; [lia| |].
        - replace (r - i) with (S (r - S i)) in Hr by lia. exact Hr.
        - intros r' H1 H2. specialize (Hlt r'). replace (r' - i) with (S (r' - S i)) in Hlt by lia. apply Hlt; lia. }
      destruct (q_st q); auto. congruence.
Qed.

(* (a), the offer: the connection of a finished request goes to the request that has waited longest, whatever its
   own dial is doing (the hypotheses do not mention the dial of r at all) *)
Theorem release_offers_longest_waiting s c r0 r :
  Inv s -> holder s c = Some r0 ->
  mst s r = Some (RWait None) -> (forall r', r' < r -> mst s r' <> Some (RWait None)) ->
  mst (step s (Release c)) r = Some (RWait (Some c)).
Proof.
  intros HI Hh Hr Hlt. pose proof (sim_step s (Release c) HI) as H. cbn [tstep] in H.
  destruct (evs_eqb (evs (step s (Release c))) []); [|discriminate].
  change (t_holder_from 0 (t_reqs (abs s)) c) with (t_holder_from 0 (map abs_req (reqs s)) c) in H. rewrite holder_abs in H.
  change (holder_from 0 (reqs s) c) with (holder s c) in H. rewrite Hh in H. injection H as H.
  destruct (holder_spec _ _ _ Hh) as (q0 & Hq0 & Est0).
  assert (Hne : r0 <> r). { intros ->. unfold mst in Hr. rewrite Hq0 in Hr. cbn in Hr. congruence. }
  set (T := t_upd r0 (q_set_st TOver) (abs s)) in *.
  assert (HT : forall r', qst T r' = if Nat.eqb r0 r' then Some TOver else qst (abs s) r').
  { intros r'. destruct (Nat.eqb_spec r0 r') as [<-|Hn]; [|now apply qst_t_upd_ne].
    unfold T. rewrite qst_t_upd_eq, abs_nth, Hq0. reflexivity. }
  assert (Hfw : first_wait T = Some r).
  { apply first_wait_from_complete; [lia| |].
    - rewrite Nat.sub_0_r. fold (qst T r). rewrite HT. destruct (Nat.eqb_spec r0 r); [contradiction|]. rewrite qst_abs, Hr. reflexivity.
    - intros r' _ Hr'. rewrite Nat.sub_0_r. fold (qst T r'). rewrite HT. destruct (Nat.eqb_spec r0 r'); [discriminate|].
      rewrite qst_abs. specialize (Hlt r' Hr'). destruct (mst s r') as [st|]; [|discriminate]. cbn. intros [= E]. apply abs_st_wait in E. congruence. }
  assert (Hq : qst (abs (step s (Release c))) r = Some (TProm c)).
  { rewrite <- H. destruct (offer_qst c T r) as [E|(_ & _ & E)]; [|exact E].
    exfalso. unfold offer in E. rewrite Hfw in E. rewrite qst_t_upd_eq in E. fold (qst T r) in E.
    assert (E0 : qst T r = Some TWait). { rewrite HT. destruct (Nat.eqb_spec r0 r); [contradiction|]. rewrite qst_abs, Hr. reflexivity. }
    unfold qst in E0, E. destruct (nth_error (t_reqs T) r); cbn in *; congruence. }
  rewrite qst_abs in Hq. destruct (mst (step s (Release c)) r) as [st|]; [|discriminate]. cbn in Hq. injection Hq as Hq.
  now rewrite (abs_st_prom _ _ Hq).
Qed.

(* (a), the promise: a connection sitting in a request's channel stays there whatever else happens ... *)
Theorem offer_kept s o r c :
  Inv s -> mst s r = Some (RWait (Some c)) -> o <> Poll r -> o <> Cancel r -> mst (step s o) r = Some (RWait (Some c)).
Proof.
  intros HI Hr H1 H2. pose proof (tstep_req _ _ _ _ _ (sim_step s o HI) r) as RS.
  assert (Hq : qst (abs s) r = Some (TProm c)) by (rewrite qst_abs, Hr; reflexivity).
  assert (Hq' : qst (abs (step s o)) r = Some (TProm c)).
  { destruct RS as [[E|(E & _)] _ _|_ E _ _|c' E _ _ _ _|_ _ [(E & _)|[(E & _)|(c' & E & E')]]]; try congruence. }
  rewrite qst_abs in Hq'. destruct (mst (step s o) r) as [st|]; [|discriminate]. cbn in Hq'. injection Hq' as Hq'.
  now rewrite (abs_st_prom _ _ Hq').
Qed.

(* ... and serves the request at its next poll *)
Theorem offer_taken_at_poll s r c :
  Inv s -> mst s r = Some (RWait (Some c)) ->
  In (EHand r c) (evs (step s (Poll r))) /\ mst (step s (Poll r)) r = Some (RServed c).
Proof.
  intros HI Hr. pose proof (tstep_req _ _ _ _ _ (sim_step s (Poll r) HI) r) as RS.
  assert (Hq : qst (abs s) r = Some (TProm c)) by (rewrite qst_abs, Hr; reflexivity).
  destruct RS as [_ _ [E|[E|E]]|E _ _ _|c' _ _ Hin Hq' [E|[E|E]]|_ _ [(E & _)|[(_ & E)|(c' & E & _)]]]; try congruence; try discriminate.
  - exfalso. apply E. rewrite Hq. exact I.
  - assert (c' = c) by congruence. subst c'. split; [exact Hin|].
    rewrite qst_abs in Hq'. destruct (mst (step s (Poll r)) r) as [st|]; [|discriminate]. cbn in Hq'. injection Hq' as Hq'.
    now rewrite (abs_st_served _ _ Hq').
Qed.

Theorem offered_connection_serves_at_next_poll : forall ops s r c,
  Inv s -> mst s r = Some (RWait (Some c)) -> (forall o, In o ops -> o <> Poll r /\ o <> Cancel r) ->
  let s1 := snd (run s ops) in
  In (EHand r c) (evs (step s1 (Poll r))) /\ mst (step s1 (Poll r)) r = Some (RServed c).
Proof.
  induction ops as [|o ops IH]; intros s r c HI Hr Hops; cbn zeta.
  - now apply offer_taken_at_poll.
  - change (run s (o :: ops)) with (let s' := step s o in let '(l, s'') := run s' ops in (observe s' :: l, s'')). cbn zeta.
    destruct (Hops o (or_introl eq_refl)) as (H1 & H2).
    specialize (IH (step s o) r c (step_Inv s o HI) (offer_kept s o r c HI Hr H1 H2) (fun o' Ho' => Hops o' (or_intror Ho'))).
    cbn zeta in IH. destruct (run (step s o) ops) as [l s'']. exact IH.
Qed.

(* ---- clause (c) *)
(* every connection ever made is, at every operation boundary, in exactly one place: a checkout, one waiter's
   channel, one request's hands, or the idle list (nothing is lost, nothing is duplicated) *)
Theorem connections_conserved cn ops : let s := final cn ops in
  Permutation (flat_map rloc (reqs s) ++ idle s) (seq 0 (nconn s)).
Proof.
  cbn zeta. destruct (final_Inv cn ops) as ((_ & _ & HC & _) & Eb). unfold Conserve, locs in HC. rewrite Eb in HC.
  cbn in HC. now rewrite app_nil_r in HC.
Qed.

Theorem no_connection_serves_two s r1 r2 c :
  Inv s -> mst s r1 = Some (RServed c) -> mst s r2 = Some (RServed c) -> r1 = r2.
Proof.
  intros ((_ & _ & HC & _) & _) H1 H2. unfold mst in *.
  destruct (nth_error (reqs s) r1) as [q1|] eqn:E1; [|discriminate]. destruct (nth_error (reqs s) r2) as [q2|] eqn:E2; [|discriminate].
  cbn in H1, H2. injection H1 as H1. injection H2 as H2.
  destruct (NoDup_locs _ HC) as (Hnd & _). unfold locs in Hnd. apply nodup_app in Hnd as (Hnd & _ & _).
  eapply (flat_nodup _ Hnd r1 r2 q1 q2 c); eauto; unfold rloc; [rewrite H1|rewrite H2]; now left.
Qed.

Definition closed_st (o : option treq) : bool := match o with Some (TServed _) | Some TOver => true | _ => false end.
Lemma hands_app r a b : hands r (a ++ b) = hands r a + hands r b.
Proof. unfold hands. now rewrite filter_app, app_length. Qed.

Lemma mon_from_hands : forall ops obs cn t r, mon_from cn t ops obs = true ->
  hands r (flat_map o_evs obs) + (if closed_st (qst t r) then 1 else 0) <= 1.
Proof.
  induction ops as [|o ops IH]; intros [|b obs] cn t r H; cbn [mon_from] in H; try discriminate.
  - cbn. destruct (closed_st (qst t r)); lia.
  - destruct (tstep cn o (o_evs b) t) as [t'|] eqn:E; [|discriminate]. apply andb_true_iff in H as (_ & H).
    specialize (IH obs cn t' r H). cbn [flat_map]. rewrite hands_app.
    destruct (tstep_req _ _ _ _ _ E r) as [[E1|(E1 & c & E1')] Hh _|_ E1 E1' Hh|c _ Hh _ E1 E1'|Hh E1 E1'].
    + rewrite Hh. now rewrite E1 in IH.
    + rewrite Hh, E1. rewrite E1' in IH. cbn in *. lia.
    + rewrite Hh, E1. cbn. destruct (closed_st (qst t' r)); lia.
    + rewrite Hh. rewrite E1 in IH. cbn in IH. destruct E1' as [E0|[E0|E0]]; rewrite E0; cbn; lia.
    + rewrite Hh. rewrite E1 in IH. cbn in IH. destruct (closed_st (qst t r)); lia.
Qed.

(* (c) on every trace the monitor accepts - the implementation's included: no request is handed a connection twice *)
Theorem accepted_trace_serves_once cn ops obs r :
  mon_ckphase cn ops obs = true -> hands r (flat_map o_evs obs) <= 1.
Proof.
  intros H. pose proof (mon_from_hands ops obs cn tinit r H) as E. unfold qst in E. cbn in E. destruct r; cbn in E; lia.
Qed.
Theorem model_serves_once cn ops r : hands r (flat_map o_evs (trace cn ops)) <= 1.
Proof. apply (accepted_trace_serves_once cn ops). apply mon_ckphase_holds. Qed.

(* ---- clause (b) *)
Lemma some_inj {A} (a b : A) : Some a = Some b -> a = b.
Proof. now intros [= ->]. Qed.

Lemma offer_nconn c t : t_nconn (offer c t) = t_nconn t.
Proof. unfold offer. destruct (first_wait t); reflexivity. Qed.
Lemma offer_dial c t r : option_map q_dial (nth_error (t_reqs (offer c t)) r) = option_map q_dial (nth_error (t_reqs t) r).
Proof. exact (offers_dial [c] r t). Qed.

(* the checkout of r goes away before its own dial finished: what the monitor's book says about that step *)
Lemma sim_abandon s r q got o :
  Inv s -> nth_error (reqs s) r = Some q -> r_st q = RWait got -> (o = Cancel r \/ (o = Poll r /\ got <> None)) ->
  exists rest t1 q1,
    abandon_check (cont s) r rest t1 = Some (abs (step s o)) /\
    (forall e, In e rest -> In e (evs (step s o))) /\
    (forall e, In e (evs (step s o)) -> In e rest \/ exists c, e = EHand r c) /\
    nth_error (t_reqs t1) r = Some q1 /\ q_dial q1 = abs_dial (r_dial q) /\ abandoned q1 = true /\ t_nconn t1 = nconn s.
Proof.
  intros HI Hq Est Ho. pose proof (sim_step s o HI) as H.
  assert (Hn : nth_error (t_reqs (abs s)) r = Some (abs_req q)) by (rewrite abs_nth, Hq; reflexivity).
  assert (Hupd : forall st', nth_error (t_reqs (t_upd r (q_set_st st') (abs s))) r = Some (mkTR st' (abs_dial (r_dial q)))).
  { intros st'. unfold t_upd. cbn [t_reqs t_set_reqs]. change (t_reqs (abs s)) with (map abs_req (reqs s)).
    rewrite nth_error_upd_eq. change (map abs_req (reqs s)) with (t_reqs (abs s)). rewrite Hn. reflexivity. }
  destruct Ho as [->|(-> & Hgot)]; cbn [tstep] in H; rewrite Hn in H; cbn [abs_req q_st] in H; rewrite Est in H.
  - destruct got as [c|]; cbn [abs_st] in H.
    + set (T := t_upd r (q_set_st TOver) (abs s)) in *.
      pose proof (offer_dial c T r) as Hd. unfold T in Hd at 2. rewrite Hupd in Hd. cbn in Hd.
      destruct (offer_qst c T r) as [Eq|(_ & Eq & _)].
      2:{ unfold qst, T in Eq. rewrite Hupd in Eq. discriminate. }
      unfold qst in Eq. unfold T in Eq at 2. rewrite Hupd in Eq. cbn in Eq.
      destruct (nth_error (t_reqs (offer c T)) r) as [q1|] eqn:E1; [|discriminate].
      exists (evs (step s (Cancel r))), (offer c T), q1.
      repeat split; auto. now injection Hd. unfold abandoned. cbn in Eq. injection Eq as ->. reflexivity. now rewrite offer_nconn.
    + exists (evs (step s (Cancel r))), (t_upd r (q_set_st TOver) (abs s)), (mkTR TOver (abs_dial (r_dial q))). repeat split; auto.
  - destruct got as [c|]; [|now destruct Hgot]. cbn [abs_st] in H.
    destruct (evs (step s (Poll r))) as [|e rest] eqn:Ee; [discriminate|].
    destruct (ev_eqb e (EHand r c) && negb (held (abs s) c))%bool eqn:E; [|discriminate].
    apply andb_true_iff in E as (E & _). apply ev_eqb_eq in E as ->.
    exists rest, (t_upd r (q_set_st (TServed c)) (abs s)), (mkTR (TServed c) (abs_dial (r_dial q))). repeat split; auto.
    + intros e He. now right.
    + intros e [<-|He]; eauto.
Qed.

(* (b), continue_after_preemption = true: the pre-empted / cancelled attempt is not dropped; if the environment had
   already resolved it, its connection exists within this very step; if nothing is decided yet it runs on in
   the background *)
Theorem abandoned_dial_continues s r q got o :
  Inv s -> cont s = true -> nth_error (reqs s) r = Some q -> r_st q = RWait got -> started (r_dial q) = true ->
  (o = Cancel r \/ (o = Poll r /\ got <> None)) ->
  ~ In (EDrop r) (evs (step s o)) /\
  match d_t (r_dial q), d_h (r_dial q) with
  | Some true, Some true => In (ENew (nconn s) r) (evs (step s o))
  | Some false, _ | Some true, Some false => True
  | _, _ => exists q', nth_error (reqs (step s o)) r = Some q' /\ d_bg (r_dial q') = true /\ d_ph (r_dial q') <> DGone
  end.
Proof.
  intros HI Hc Hq Est Hst Ho. destruct (sim_abandon s r q got o HI Hq Est Ho) as (rest & t1 & q1 & H & Hin1 & Hin2 & Hq1 & Hd1 & Hab1 & Hn1).
  unfold abandon_check in H. rewrite Hq1, Hd1, Hc in H.
  assert (Hk : (k_st (abs_dial (r_dial q)) && negb (k_dead (abs_dial (r_dial q))))%bool = true).
  { unfold abs_dial, started in *. cbn. destruct (d_ph (r_dial q)); auto; discriminate. }
  rewrite Hk in H. unfold bg_check in H. rewrite Hq1, Hd1 in H. cbn [abs_dial k_t k_h] in H.
  assert (Hnodrop : forall l, rest = l -> ~ In (EDrop r) l -> ~ In (EDrop r) (evs (step s o))).
  { intros l -> Hl Hd. destruct (Hin2 _ Hd) as [Hd'|(c & Hd')]; [auto|discriminate]. }
  pose proof (step_Inv s o HI) as ((_ & HD' & _ & _) & _).
  assert (Halive : t1 = abs (step s o) -> exists q', nth_error (reqs (step s o)) r = Some q' /\ d_bg (r_dial q') = true /\ d_ph (r_dial q') <> DGone).
  { intros ->. rewrite abs_nth in Hq1. destruct (nth_error (reqs (step s o)) r) as [q'|] eqn:Hq'; [|discriminate].
    injection Hq1 as <-. exists q'. split; auto.
    assert (Hne : d_ph (r_dial q') <> DGone).
    { cbn in Hd1. unfold abs_dial in Hd1. injection Hd1 as _ Hdead _ _. unfold started in Hst.
      destruct (d_ph (r_dial q')), (d_ph (r_dial q)); congruence. }
    split; auto. destruct (DW_nth _ _ _ HD' Hq') as (_ & Hown). unfold downer in Hown. unfold abandoned, abs_req in Hab1. cbn in Hab1.
    destruct (r_st q') as [|[|]| | | |]; try discriminate; (destruct Hown as [|(? & _)]; [contradiction|assumption]). }
  destruct (d_t (r_dial q)) as [[|]|]; [destruct (d_h (r_dial q)) as [[|]|]| |];
    (destruct (evs_eqb rest _) eqn:E; [|discriminate]); apply evs_eqb_eq in E; apply some_inj in H.
  - split; [apply (Hnodrop _ E); intros [|[]]; discriminate|]. apply Hin1. rewrite E, Hn1. now left.
  - split; [apply (Hnodrop _ E); intros []|exact I].
  - split; [apply (Hnodrop _ E); intros []|auto].
  - split; [apply (Hnodrop _ E); intros []|exact I].
  - split; [apply (Hnodrop _ E); intros []|auto].
Qed.

(* (b), continue_after_preemption = false: the attempt is dropped there and then *)
Theorem abandoned_dial_dropped s r q got o :
  Inv s -> cont s = false -> nth_error (reqs s) r = Some q -> r_st q = RWait got ->
  (o = Cancel r \/ (o = Poll r /\ got <> None)) ->
  (started (r_dial q) = true -> In (EDrop r) (evs (step s o))) /\
  (forall c, ~ In (ENew c r) (evs (step s o))) /\
  d_ph (get_dial (step s o) r) = DGone.
Proof.
  intros HI Hc Hq Est Ho. destruct (sim_abandon s r q got o HI Hq Est Ho) as (rest & t1 & q1 & H & Hin1 & Hin2 & Hq1 & Hd1 & Hab1 & Hn1).
  unfold abandon_check in H. rewrite Hq1, Hd1, Hc in H.
  assert (Hgone : forall l, rest = l -> (forall c, ~ In (ENew c r) l) -> t_upd r (q_upd_dial kill) t1 = abs (step s o) ->
            (forall c, ~ In (ENew c r) (evs (step s o))) /\ d_ph (get_dial (step s o) r) = DGone).
  { intros l -> Hl Ht. split.
    - intros c Hc'. destruct (Hin2 _ Hc') as [Hd'|(c' & Hd')]; [now apply (Hl c)|discriminate].
    - assert (Hd : option_map (fun x => k_dead (q_dial x)) (nth_error (t_reqs (abs (step s o))) r) = Some true).
      { rewrite <- Ht. unfold t_upd. cbn [t_reqs t_set_reqs]. rewrite nth_error_upd_eq, Hq1. reflexivity. }
      rewrite abs_nth in Hd. unfold get_dial. destruct (nth_error (reqs (step s o)) r) as [q'|]; [|discriminate].
      cbn in Hd. destruct (d_ph (r_dial q')); try discriminate. reflexivity. }
  destruct (k_st (abs_dial (r_dial q)) && negb (k_dead (abs_dial (r_dial q))))%bool eqn:Hk.
  - destruct (evs_eqb rest [EDrop r]) eqn:E; [|discriminate]. apply evs_eqb_eq in E. apply some_inj in H.
    destruct (Hgone _ E) as (A & B); auto. { intros c [|[]]; discriminate. }
    split; [|split]; auto. intros _. apply Hin1. rewrite E. now left.
  - destruct (evs_eqb rest []) eqn:E; [|discriminate]. apply evs_eqb_eq in E. apply some_inj in H.
    destruct (Hgone _ E) as (A & B); auto.
    split; [|split]; auto. intros Hst. exfalso. unfold abs_dial, started in *. cbn in Hk. destruct (d_ph (r_dial q)); discriminate.
Qed.

(* a delayed checkout between two operations has seen everything the environment did to its dial *)
Lemma bg_parked s r q : Inv s -> nth_error (reqs s) r = Some q -> d_bg (r_dial q) = true -> d_ph (r_dial q) <> DGone ->
  is_wait q = false /\ started (r_dial q) = true /\
  ((d_ph (r_dial q) = DTrans /\ d_t (r_dial q) = None /\ d_h (r_dial q) = None) \/
   (d_ph (r_dial q) = DHand /\ d_t (r_dial q) = Some true /\ d_h (r_dial q) = None)).
Proof.
  intros ((_ & HD & _ & HP) & Eb) Hq Hbg Hne. destruct (DW_nth _ _ _ HD Hq) as (Hsh & Hown). unfold downer in Hown.
  assert (Hnw : is_wait q = false).
  { unfold is_wait. destruct (r_st q); auto. destruct Hown; congruence. }
  assert (Hst : started (r_dial q) = true).
  { destruct (r_st q) as [c|got|c| | |].
    - contradiction.
    - destruct Hown; congruence.
    - destruct Hown as [|(_ & _ & ?)]; auto; contradiction.
    - destruct Hown as [|(_ & _ & ?)]; auto; contradiction.
    - destruct Hown as [|(_ & _ & ?)]; auto; contradiction.
    - destruct Hown as [|(_ & _ & ?)]; auto; contradiction. }
  split; auto. split; auto.
  destruct (HP r q Hq Hnw) as [Hp|Hin]; [|rewrite Eb in Hin; destruct Hin].
  unfold parked, dial_poll, dshape, started in *. destruct (r_dial q) as [ph t h bg]. cbn in *.
  destruct ph; try discriminate; destruct t as [[|]|], h as [[|]|]; cbn in *; try discriminate; auto;
    try (destruct Hsh; discriminate).
Qed.

(* (b), the attempt that runs on: the transport resolves - it stays alive ... *)
Theorem background_dial_survives_transport s r q :
  Inv s -> nth_error (reqs s) r = Some q -> d_bg (r_dial q) = true -> d_ph (r_dial q) <> DGone -> d_t (r_dial q) = None ->
  exists q', nth_error (reqs (step s (TDone r true))) r = Some q' /\
             d_bg (r_dial q') = true /\ d_ph (r_dial q') <> DGone /\ d_t (r_dial q') = Some true.
Proof.
  intros HI Hq Hbg Hne Ht. destruct (bg_parked s r q HI Hq Hbg Hne) as (Hnw & Hst & [(Eph & _ & Eh)|(_ & Et & _)]); [|congruence].
  pose proof (sim_step s (TDone r true) HI) as H. cbn [tstep] in H. rewrite abs_nth, Hq in H. cbn [option_map abs_req q_dial abs_dial k_st k_dead k_t] in H.
  rewrite Eph, Ht in H. cbn [andb negb] in H.
  assert (Hab : forall d, abandoned (mkTR (abs_st (r_st q)) d) = true).
  { intros d. destruct HI as ((_ & HD & _ & _) & _). destruct (DW_nth _ _ _ HD Hq) as (_ & Hown). unfold downer, is_wait in *.
    destruct (r_st q) as [|[|]| | | |]; try discriminate; try reflexivity. congruence. }
  change (abandoned (abs_req q)) with (abandoned (mkTR (abs_st (r_st q)) (abs_dial (r_dial q)))) in H. rewrite Hab in H. unfold bg_check in H.
  set (T := t_upd r _ (abs s)) in H.
  assert (HT : nth_error (t_reqs T) r = Some (mkTR (abs_st (r_st q)) (mkTD true false (Some true) None))).
  { unfold T, t_upd. cbn [t_reqs t_set_reqs]. change (t_reqs (abs s)) with (map abs_req (reqs s)).
    rewrite nth_error_upd_eq, nth_error_map, Hq. unfold abs_req, abs_dial, q_upd_dial. cbn. rewrite ?Eph, ?Eh. reflexivity. }
  rewrite HT in H. cbn [q_dial k_t k_h] in H. destruct (evs_eqb _ []); [|discriminate]. apply some_inj in H.
  rewrite H, abs_nth in HT. destruct (nth_error (reqs (step s (TDone r true))) r) as [q'|] eqn:Hq'; [|discriminate].
  exists q'. split; auto. cbn [option_map] in HT. unfold abs_req, abs_dial in HT. injection HT as Hs _ Hdead Ht' _.
  assert (Hne' : d_ph (r_dial q') <> DGone) by (destruct (d_ph (r_dial q')); congruence).
  pose proof (step_Inv s (TDone r true) HI) as ((_ & HD' & _ & _) & _).
  destruct (DW_nth _ _ _ HD' Hq') as (_ & Hown). unfold downer in Hown.
  assert (Hnw' : is_wait q' = false).
  { unfold is_wait in *. destruct (r_st q') as [|[|]| | | |], (r_st q) as [|[|]| | | |]; cbn in Hs; congruence. }
  repeat split; auto. unfold is_wait in Hnw'.
  destruct (r_st q'); try discriminate; try contradiction; destruct Hown as [|(? & _)]; auto; contradiction.
Qed.

(* ... and when the handshake resolves its connection exists and is available in the pool: offered to the
   longest-waiting request, or idle *)
Theorem background_dial_completes_into_pool s r q :
  Inv s -> nth_error (reqs s) r = Some q -> d_bg (r_dial q) = true -> d_ph (r_dial q) <> DGone -> d_t (r_dial q) = Some true ->
  let s' := step s (HDone r true) in
  evs s' = [ENew (nconn s) r] /\ nconn s' = S (nconn s) /\
  (In (nconn s) (idle s') \/ exists r', mst s' r' = Some (RWait (Some (nconn s)))).
Proof.
  intros HI Hq Hbg Hne Ht. cbn zeta. destruct (bg_parked s r q HI Hq Hbg Hne) as (Hnw & Hst & [(_ & Et & _)|(Eph & _ & Eh)]); [congruence|].
  pose proof (sim_step s (HDone r true) HI) as H. cbn [tstep] in H. rewrite abs_nth, Hq in H. cbn [option_map abs_req q_dial abs_dial k_st k_dead k_t k_h] in H.
  rewrite Eph, Ht, Eh in H. cbn [andb negb] in H.
  assert (Hab : forall d, abandoned (mkTR (abs_st (r_st q)) d) = true).
  { intros d. destruct HI as ((_ & HD & _ & _) & _). destruct (DW_nth _ _ _ HD Hq) as (_ & Hown). unfold downer, is_wait in *.
    destruct (r_st q) as [|[|]| | | |]; try discriminate; try reflexivity. congruence. }
  change (abandoned (abs_req q)) with (abandoned (mkTR (abs_st (r_st q)) (abs_dial (r_dial q)))) in H. rewrite Hab in H. unfold bg_check in H.
  set (T := t_upd r _ (abs s)) in H.
  assert (HT : nth_error (t_reqs T) r = Some (mkTR (abs_st (r_st q)) (mkTD true false (Some true) (Some true)))).
  { unfold T, t_upd. cbn [t_reqs t_set_reqs]. change (t_reqs (abs s)) with (map abs_req (reqs s)).
    rewrite nth_error_upd_eq, nth_error_map, Hq. unfold abs_req, abs_dial, q_upd_dial. cbn. rewrite ?Eph, ?Ht. reflexivity. }
  rewrite HT in H. cbn [q_dial k_t k_h] in H. change (t_nconn T) with (nconn s) in H.
  destruct (evs_eqb _ [ENew (nconn s) r]) eqn:E; [|discriminate]. apply evs_eqb_eq in E. apply some_inj in H.
  split; [exact E|]. set (T2 := mkT _ _ _ _) in H.
  split. { change (nconn (step s (HDone r true))) with (t_nconn (abs (step s (HDone r true)))). rewrite <- H, offer_nconn. reflexivity. }
  unfold offer in H. destruct (first_wait T2) as [w|] eqn:Ew.
  - right. exists w. assert (Hq' : qst (abs (step s (HDone r true))) w = Some (TProm (nconn s))).
    { rewrite <- H, qst_t_upd_eq. destruct (first_wait_from_spec _ _ _ Ew) as (_ & B & _). rewrite Nat.sub_0_r in B.
      destruct (nth_error (t_reqs T2) w); [reflexivity|discriminate]. }
    rewrite qst_abs in Hq'. destruct (mst (step s (HDone r true)) w) as [st|]; [|discriminate]. cbn in Hq'. injection Hq' as Hq'.
    now rewrite (abs_st_prom _ _ Hq').
  - left. change (idle (step s (HDone r true))) with (t_idle (abs (step s (HDone r true)))). rewrite <- H. cbn. rewrite in_app_iff. right. now left.
Qed.

(* (b), continue_after_preemption = false (or any finished attempt): the environment cannot reach a dial that is gone *)
Theorem gone_dial_ignores_environment s r ok :
  Inv s -> d_ph (get_dial s r) = DGone -> step s (TDone r ok) = set_evs [] s /\ step s (HDone r ok) = set_evs [] s.
Proof.
  intros (_ & Eb) Hg. rewrite !step_eq. cbn [do_op]. unfold do_tdone, do_hdone.
  change (get_dial (set_evs [] s) r) with (get_dial s r). rewrite Hg. split; apply settle_nil; exact Eb.
Qed.

(* ================================================================ the same, for every state the model can reach *)
Theorem c_release_offers cn ops0 c r0 r : let s := final cn ops0 in
  holder s c = Some r0 -> mst s r = Some (RWait None) -> (forall r', r' < r -> mst s r' <> Some (RWait None)) ->
  mst (step s (Release c)) r = Some (RWait (Some c)).
Proof. cbn zeta. apply release_offers_longest_waiting, final_Inv. Qed.

Theorem c_offer_served_next_poll cn ops0 ops r c : let s := final cn ops0 in
  mst s r = Some (RWait (Some c)) -> (forall o, In o ops -> o <> Poll r /\ o <> Cancel r) ->
  let s1 := snd (run s ops) in
  In (EHand r c) (evs (step s1 (Poll r))) /\ mst (step s1 (Poll r)) r = Some (RServed c).
Proof. cbn zeta. intros H1 H2. apply offered_connection_serves_at_next_poll; auto. apply final_Inv. Qed.

Theorem c_dial_continues cn ops0 r q got o : let s := final cn ops0 in
  cont s = true -> nth_error (reqs s) r = Some q -> r_st q = RWait got -> started (r_dial q) = true ->
  (o = Cancel r \/ (o = Poll r /\ got <> None)) ->
  ~ In (EDrop r) (evs (step s o)) /\
  match d_t (r_dial q), d_h (r_dial q) with
  | Some true, Some true => In (ENew (nconn s) r) (evs (step s o))
  | Some false, _ | Some true, Some false => True
  | _, _ => exists q', nth_error (reqs (step s o)) r = Some q' /\ d_bg (r_dial q') = true /\ d_ph (r_dial q') <> DGone
  end.
Proof. cbn zeta. apply abandoned_dial_continues, final_Inv. Qed.

Theorem c_dial_survives_transport cn ops0 r q : let s := final cn ops0 in
  nth_error (reqs s) r = Some q -> d_bg (r_dial q) = true -> d_ph (r_dial q) <> DGone -> d_t (r_dial q) = None ->
  exists q', nth_error (reqs (step s (TDone r true))) r = Some q' /\
             d_bg (r_dial q') = true /\ d_ph (r_dial q') <> DGone /\ d_t (r_dial q') = Some true.
Proof. cbn zeta. apply background_dial_survives_transport, final_Inv. Qed.

Theorem c_dial_completes_into_pool cn ops0 r q : let s := final cn ops0 in
  nth_error (reqs s) r = Some q -> d_bg (r_dial q) = true -> d_ph (r_dial q) <> DGone -> d_t (r_dial q) = Some true ->
  let s' := step s (HDone r true) in
  evs s' = [ENew (nconn s) r] /\ nconn s' = S (nconn s) /\
  (In (nconn s) (idle s') \/ exists r', mst s' r' = Some (RWait (Some (nconn s)))).
Proof. cbn zeta. apply background_dial_completes_into_pool, final_Inv. Qed.

Theorem c_dial_dropped cn ops0 r q got o : let s := final cn ops0 in
  cont s = false -> nth_error (reqs s) r = Some q -> r_st q = RWait got ->
  (o = Cancel r \/ (o = Poll r /\ got <> None)) ->
  (started (r_dial q) = true -> In (EDrop r) (evs (step s o))) /\
  (forall c, ~ In (ENew c r) (evs (step s o))) /\
  d_ph (get_dial (step s o) r) = DGone.
Proof. cbn zeta. apply abandoned_dial_dropped, final_Inv. Qed.

Theorem c_gone_dial_ignores_environment cn ops0 r ok : let s := final cn ops0 in
  d_ph (get_dial s r) = DGone -> step s (TDone r ok) = set_evs [] s /\ step s (HDone r ok) = set_evs [] s.
Proof. cbn zeta. apply gone_dial_ignores_environment, final_Inv. Qed.

Theorem c_no_connection_serves_two cn ops0 r1 r2 c : let s := final cn ops0 in
  mst s r1 = Some (RServed c) -> mst s r2 = Some (RServed c) -> r1 = r2.
Proof. cbn zeta. apply no_connection_serves_two, final_Inv. Qed.

(* the seeded regression's scenario: request 0 holds connection 0; request 1 has been polled AFTER its transport
   connected (handshake pending); connection 0 is released; at its next poll request 1 takes it, and without
   continue_after_preemption its own dial is dropped *)
Example handshake_phase_example :
  let ops := [Issue; Poll 0; TDone 0 true; HDone 0 true; Poll 0; Issue; Poll 1; TDone 1 true; Poll 1; Release 0; Poll 1] in
  map o_evs (skipn 8 (trace false ops)) = [[EPend 1]; []; [EHand 1 0; EDrop 1]] /\
  map o_evs (skipn 8 (trace true (ops ++ [HDone 1 true]))) = [[EPend 1]; []; [EHand 1 0]; [ENew 1 1]] /\
  o_idle (last (trace true (ops ++ [HDone 1 true])) (observe (init true))) = [1].
Proof. vm_compute. repeat split. Qed.
