(* Prop-level readings of C14 for the two-phase dial.  Facts about the monitor's tracker (they hold for every
   accepted trace, the implementation's included) are carried over to the model through the simulation of
   ckphase/Sim.v. *)
From Coq Require Import Permutation Sorting.Sorted.
From HD Require Import common.Base ckphase.Model ckphase.Spec ckphase.Proofs ckphase.Sim.

Definition qst (t : trk) (r : nat) : option treq := option_map q_st (nth_error (t_reqs t) r).
Definition hands (r : nat) (l : list event) : nat :=
  List.length (filter (fun e => match e with EHand r' _ => Nat.eqb r r' | _ => false end) l).

Lemma ev_eqb_eq a b : ev_eqb a b = true -> a = b.
Proof.
  destruct a, b; cbn; try discriminate; intros H;
    repeat match goal with
           | H : (_ && _)%bool = true |- _ => apply andb_true_iff in H as (? & ?)
           | H : Nat.eqb _ _ = true |- _ => apply Nat.eqb_eq in H; subst
           | H : Bool.eqb _ _ = true |- _ => apply Bool.eqb_prop in H; subst
           end; reflexivity.
Qed.
Lemma evs_eqb_eq a : forall b, evs_eqb a b = true -> a = b.
Proof.
  induction a as [|x a IH]; intros [|y b] H; cbn in H; try discriminate; auto.
  apply andb_true_iff in H as (H1 & H2). apply ev_eqb_eq in H1 as ->. f_equal. now apply IH.
Qed.

Lemma qst_t_upd_eq r f t : qst (t_upd r f t) r = option_map (fun q => q_st (f q)) (nth_error (t_reqs t) r).
Proof. unfold qst, t_upd. cbn. rewrite nth_error_upd_eq. now destruct (nth_error (t_reqs t) r). Qed.
Lemma qst_t_upd_ne r r' f t : r <> r' -> qst (t_upd r f t) r' = qst t r'.
Proof. intros H. unfold qst, t_upd. cbn. now rewrite nth_error_upd_ne. Qed.
Lemma qst_t_upd_dial r r' f t : qst (t_upd r (q_upd_dial f) t) r' = qst t r'.
Proof.
  destruct (Nat.eq_dec r r') as [<-|H]; [|now apply qst_t_upd_ne].
  rewrite qst_t_upd_eq. unfold qst. now destruct (nth_error (t_reqs t) r).
Qed.

Lemma first_wait_from_spec l : forall i r, first_wait_from i l = Some r ->
  i <= r /\ option_map q_st (nth_error l (r - i)) = Some TWait /\
  forall r', i <= r' -> r' < r -> option_map q_st (nth_error l (r' - i)) <> Some TWait.
Proof.
  induction l as [|q l IH]; intros i r H; cbn in H; [discriminate|].
  destruct (q_st q) eqn:Eq;
    try (destruct (IH _ _ H) as (A & B & C); split; [lia|]; split;
         [replace (r - i) with (S (r - S i)) by lia; exact B|
          intros r' H1 H2; destruct (Nat.eq_dec r' i) as [->|Hne];
            [rewrite Nat.sub_diag; cbn; rewrite Eq; discriminate|
             replace (r' - i) with (S (r' - S i)) by lia; apply C; lia]]).
  injection H as <-. rewrite Nat.sub_diag. cbn. rewrite Eq. repeat split; auto. intros r' H1 H2. lia.
Qed.

(* an offer changes at most one request: the longest-waiting one gets the promise *)
Lemma offer_qst c t r :
  qst (offer c t) r = qst t r \/ (first_wait t = Some r /\ qst t r = Some TWait /\ qst (offer c t) r = Some (TProm c)).
Proof.
  unfold offer. destruct (first_wait t) as [w|] eqn:Ew; [|now left].
  destruct (Nat.eq_dec w r) as [->|Hne]; [|left; now apply qst_t_upd_ne].
  right. destruct (first_wait_from_spec _ _ _ Ew) as (_ & B & _). rewrite Nat.sub_0_r in B.
  repeat split; auto. rewrite qst_t_upd_eq. fold (qst t r) in B. unfold qst in B.
  destruct (nth_error (t_reqs t) r); [reflexivity|discriminate].
Qed.

(* [keeps t t']: no request changes state, except that waiting requests may have been offered a connection *)
Definition keeps (t t' : trk) := forall r, qst t' r = qst t r \/ (qst t r = Some TWait /\ exists c, qst t' r = Some (TProm c)).
Lemma keeps_refl t : keeps t t.
Proof. intros r. now left. Qed.
Lemma keeps_trans a b c : keeps a b -> keeps b c -> keeps a c.
Proof.
  intros H1 H2 r. destruct (H1 r) as [E1|(E1 & c1 & E1')], (H2 r) as [E2|(E2 & c2 & E2')].
  - left. congruence. - right. rewrite <- E1. eauto. - right. split; auto. exists c1. congruence. - congruence.
Qed.
Lemma keeps_offer c t : keeps t (offer c t).
Proof. intros r. destruct (offer_qst c t r) as [E|(_ & E1 & E2)]; [now left|right; eauto]. Qed.
Lemma keeps_upd_dial r f t : keeps t (t_upd r (q_upd_dial f) t).
Proof. intros r'. left. apply qst_t_upd_dial. Qed.
Lemma keeps_dial_nconn r f t n : keeps t (mkT (upd_nth r (q_upd_dial f) (t_reqs t)) (t_idle t) n (t_connects t)).
Proof. intros r'. left. exact (qst_t_upd_dial r r' f t). Qed.

Lemma hands_nil r : hands r [] = 0. Proof. reflexivity. Qed.

Lemma bg_check_keeps r0 evs t t' : bg_check r0 evs t = Some t' -> keeps t t' /\ forall r, hands r evs = 0.
Proof.
  unfold bg_check. destruct (nth_error (t_reqs t) r0) as [q|]; [|discriminate].
  destruct (k_t (q_dial q)) as [[|]|]; [destruct (k_h (q_dial q)) as [[|]|]| |].
  - destruct (evs_eqb evs _) eqn:E; [|discriminate]. apply evs_eqb_eq in E as ->. intros [= <-]. split; [|reflexivity].
    eapply keeps_trans; [|apply keeps_offer]. apply keeps_dial_nconn.
  - destruct (evs_eqb evs _) eqn:E; [|discriminate]. apply evs_eqb_eq in E as ->. intros [= <-]. split; [|reflexivity]. apply keeps_upd_dial.
  - destruct (evs_eqb evs _) eqn:E; [|discriminate]. apply evs_eqb_eq in E as ->. intros [= <-]. split; [|reflexivity]. apply keeps_refl.
  - destruct (evs_eqb evs _) eqn:E; [|discriminate]. apply evs_eqb_eq in E as ->. intros [= <-]. split; [|reflexivity]. apply keeps_upd_dial.
  - destruct (evs_eqb evs _) eqn:E; [|discriminate]. apply evs_eqb_eq in E as ->. intros [= <-]. split; [|reflexivity]. apply keeps_refl.
Qed.

Lemma abandon_check_keeps cn r0 evs t t' : abandon_check cn r0 evs t = Some t' -> keeps t t' /\ forall r, hands r evs = 0.
Proof.
  unfold abandon_check. destruct (nth_error (t_reqs t) r0) as [q|]; [|discriminate].
  destruct (k_st (q_dial q) && negb (k_dead (q_dial q)))%bool; [destruct cn|].
  - apply bg_check_keeps.
  - destruct (evs_eqb evs _) eqn:E; [|discriminate]. apply evs_eqb_eq in E as ->. intros [= <-]. split; [|reflexivity]. apply keeps_upd_dial.
  - destruct (evs_eqb evs _) eqn:E; [|discriminate]. apply evs_eqb_eq in E as ->. intros [= <-]. split; [|reflexivity]. apply keeps_upd_dial.
Qed.

Definition open_st (o : option treq) : Prop := match o with Some (TIdle _) | Some TWait | Some (TProm _) => True | _ => False end.

(* what one accepted step can do to one request *)
Inductive req_step (o : op) (evs : list event) (t t' : trk) (r : nat) : Prop :=
| RS_keep : (qst t' r = qst t r \/ (qst t r = Some TWait /\ exists c, qst t' r = Some (TProm c))) -> hands r evs = 0 ->
            o <> Poll r \/ ~ open_st (qst t r) \/ (qst t r = Some TWait) -> req_step o evs t t' r
| RS_new : o = Issue -> qst t r = None -> open_st (qst t' r) -> hands r evs = 0 -> req_step o evs t t' r
| RS_served c : o = Poll r -> hands r evs = 1 -> In (EHand r c) evs -> qst t' r = Some (TServed c) ->
            (qst t r = Some (TIdle c) \/ qst t r = Some (TProm c) \/ qst t r = Some TWait) -> req_step o evs t t' r
| RS_over : hands r evs = 0 -> qst t' r = Some TOver ->
            ((o = Cancel r /\ open_st (qst t r)) \/ (o = Poll r /\ qst t r = Some TWait) \/ (exists c, o = Release c /\ qst t r = Some (TServed c))) ->
            req_step o evs t t' r.

Lemma keep_of_keeps o evs t t' r : keeps t t' -> hands r evs = 0 -> o <> Poll r \/ ~ open_st (qst t r) \/ (qst t r = Some TWait) -> req_step o evs t t' r.
Proof. intros H. apply RS_keep. apply H. Qed.

Lemma t_holder_from_spec l : forall i c r, t_holder_from i l c = Some r ->
  i <= r /\ option_map q_st (nth_error l (r - i)) = Some (TServed c).
Proof.
  induction l as [|q l IH]; intros i c r H; cbn in H; [discriminate|].
  assert (Hrec : t_holder_from (S i) l c = Some r -> i <= r /\ option_map q_st (nth_error (q :: l) (r - i)) = Some (TServed c)).
  { intros H'. destruct (IH _ _ _ H') as (A & B). split; [lia|]. replace (r - i) with (S (r - S i)) by lia. exact B. }
  destruct (q_st q) eqn:Eq; auto. destruct (Nat.eqb_spec c c0) as [<-|]; auto.
  injection H as <-. rewrite Nat.sub_diag. cbn. rewrite Eq. auto.
Qed.

Lemma qst_snoc t q r : qst (t_set_reqs (t_reqs t ++ [q]) t) r =
  if Nat.ltb r (List.length (t_reqs t)) then qst t r else if Nat.eqb r (List.length (t_reqs t)) then Some (q_st q) else None.
Proof.
  unfold qst, t_set_reqs. cbn [t_reqs]. rewrite nth_error_snoc. destruct (Nat.ltb r (List.length (t_reqs t))); auto.
  destruct (Nat.eqb r (List.length (t_reqs t))); reflexivity.
Qed.
Lemma qst_none_ge t r : List.length (t_reqs t) <= r -> qst t r = None.
Proof. intros H. unfold qst. now rewrite (proj2 (nth_error_None _ _) H). Qed.
