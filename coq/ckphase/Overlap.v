(* Where M-CKPHASE and M-POOL both apply they agree.  The overlap: histories in which every successful
   transport completion is IMMEDIATELY followed by the handshake result of the same dial (no poll in between)
   - that pair is M-POOL's single environment step `DialDone r x`; a failed transport is `DialDone r
   DErrConnect`.  A M-CKPHASE operation is followed by a run of the spawned tasks, so every group of
   M-POOL operations ends with `Bg`; `Release c` is `Finish r; Poll r; ConnReady c` for the holder r.
   Compared per group: connect called / connection made (ordinal, dial) / inner service called (request,
   connection) / failure / pending, in order, and the pool snapshot (idle ids, live and closed waiters).
   Checked by computation on 400 histories (the systematic ones of lib/p_ckphase.py that lie in the overlap
   + seeded random ones), both continue_after_preemption settings: Example overlap_with_pool_model. *)
From Coq Require Import String.
From HD Require Import common.Base ckphase.Model.
From HD Require pool.Model.
Module P := HD.pool.Model.

Definition pcfg (cn : bool) : P.config := P.mkCfg true None 64 cn [Some ("http", "a.test")%string].

Definition in_checkout s r := match nth_error (reqs s) r with
                              | Some q => match r_st q with RIdle _ | RWait _ => true | _ => false end
                              | None => false end.

(* groups of (M-CKPHASE operations, M-POOL operations); None = the history leaves the overlap *)
Fixpoint groups (s : state) (ops : list op) : option (list (list op * list P.op)) :=
  let one o pops rest_groups := option_map (fun g => ([o], pops) :: g) rest_groups in
  match ops with
  | [] => Some []
  | TDone r true :: rest =>
      match rest with
      | HDone r' ok :: rest' =>
          if Nat.eqb r r'
          then option_map (fun g => ([TDone r true; HDone r ok],
                                     [P.DialDone r (if ok then P.DOk false else P.DErrHandshake); P.Bg]) :: g)
                          (groups (step (step s (TDone r true)) (HDone r ok)) rest')
          else None
      | _ => None
      end
  | TDone r false :: rest => one (TDone r false) [P.DialDone r P.DErrConnect; P.Bg] (groups (step s (TDone r false)) rest)
  | HDone _ _ :: _ => None
  | Issue :: rest => one Issue [P.Issue 0 P.H1; P.Bg] (groups (step s Issue) rest)
  | Poll r :: rest => one (Poll r) (if in_checkout s r then [P.Poll r; P.Bg] else []) (groups (step s (Poll r)) rest)
  | Cancel r :: rest => one (Cancel r) (if in_checkout s r then [P.Cancel r; P.Bg] else []) (groups (step s (Cancel r)) rest)
  | Release c :: rest =>
      one (Release c) (match holder s c with Some r => [P.Finish r; P.Poll r; P.ConnReady c; P.Bg] | None => [] end)
          (groups (step s (Release c)) rest)
  end.

(* the comparable part of an observation *)
Definition cmp_ev (e : event) : list event := match e with EDrop _ => [] | _ => [e] end.
Definition of_pool_ev (e : P.ev) : list event :=
  match e with
  | P.EDial r _ => [EStart r]
  | P.ENew c _ r => [ENew c r]
  | P.EHand r c _ _ _ _ => [EHand r c]
  | P.EPend r => [EPend r]
  | P.ERes r (P.RErr P.EConn) => [EFail r false]
  | P.ERes r (P.RErr P.EHs) => [EFail r true]
  | _ => []
  end.
Definition handed (l : list event) (r : nat) := existsb (fun e => match e with EHand r' _ => Nat.eqb r r' | _ => false end) l.
Definition drop_pend_after_hand (l : list event) :=
  filter (fun e => match e with EPend r => negb (handed l r) | _ => true end) l.

Definition snap3 (l : list P.snap) : list nat * nat * nat :=
  match l with
  | [] => ([], 0, 0)
  | sn :: _ => (P.sn_idle sn, P.sn_live sn, P.sn_closed sn)
  end.

Definition ev_eqb (a b : event) : bool :=
  match a, b with
  | EStart r, EStart r' => Nat.eqb r r'
  | ENew c r, ENew c' r' => Nat.eqb c c' && Nat.eqb r r'
  | EHand r c, EHand r' c' => Nat.eqb r r' && Nat.eqb c c'
  | EFail r h, EFail r' h' => Nat.eqb r r' && Bool.eqb h h'
  | EPend r, EPend r' => Nat.eqb r r'
  | EDrop r, EDrop r' => Nat.eqb r r'
  | _, _ => false
  end.

(* run both models group by group *)
Fixpoint agree (cn : bool) (s : state) (ps : P.state) (g : list (list op * list P.op)) : bool :=
  match g with
  | [] => true
  | (cops, pops) :: rest =>
      let '(cevs, s') := fold_left (fun '(l, s) o => let s' := step s o in (l ++ flat_map cmp_ev (evs s'), s')) cops ([], s) in
      let '(pevs, ps') := fold_left (fun '(l, ps) o => let ps' := P.step (pcfg cn) ps o in
                                                      (l ++ flat_map of_pool_ev (P.o_events (P.observe ps')), ps')) pops ([], ps) in
      let psnap := snap3 (P.snapshot ps') in
      list_eqb ev_eqb cevs (drop_pend_after_hand pevs)
      && list_eqb Nat.eqb (idle s') (fst (fst psnap))
      && Nat.eqb (live_count s') (snd (fst psnap))
      && Nat.eqb (List.length (queue s') - live_count s') (snd psnap)
      && agree cn s' ps' rest
  end.

Definition overlap_ok (c : bool * list op) : bool :=
  match groups (init (fst c)) (snd c) with
  | Some g => agree (fst c) (init (fst c)) P.init g
  | None => false
  end.
Definition overlap_cases : list (bool * list op) := [
  (false, [Issue; Poll 0; TDone 0 true; HDone 0 true; Poll 0; Issue; Release 0; Poll 1; TDone 1 true; HDone 1 true; Issue; Poll 2]);
  (false, [Issue; Poll 0; TDone 0 true; HDone 0 true; Poll 0; Issue; Release 0; Poll 1; Issue; Poll 2; TDone 1 true; HDone 1 true; Release 0]);
  (false, [Issue; Poll 0; TDone 0 true; HDone 0 true; Poll 0; Issue; Release 0; Poll 1; Cancel 1; TDone 1 true; HDone 1 true]);
  (false, [Issue; Poll 0; TDone 0 true; HDone 0 true; Poll 0; Issue; Release 0; TDone 1 true; HDone 1 true; Poll 1; TDone 1 true; HDone 1 true; Issue; Poll 2]);
  (false, [Issue; Poll 0; TDone 0 true; HDone 0 true; Poll 0; Issue; Release 0; TDone 1 true; HDone 1 true; Poll 1; Issue; Poll 2; TDone 1 true; HDone 1 true; Release 0]);
  (false, [Issue; Poll 0; TDone 0 true; HDone 0 true; Poll 0; Issue; Release 0; TDone 1 true; HDone 1 true; Poll 1; Cancel 1; TDone 1 true; HDone 1 true]);
  (false, [Issue; Poll 0; TDone 0 true; HDone 0 true; Poll 0; Issue; Release 0; TDone 1 false; Poll 1; TDone 1 true; HDone 1 true; Issue; Poll 2]);
  (false, [Issue; Poll 0; TDone 0 true; HDone 0 true; Poll 0; Issue; Release 0; TDone 1 false; Poll 1; Issue; Poll 2; TDone 1 true; HDone 1 true; Release 0]);
  (false, [Issue; Poll 0; TDone 0 true; HDone 0 true; Poll 0; Issue; Release 0; TDone 1 false; Poll 1; Cancel 1; TDone 1 true; HDone 1 true]);
  (false, [Issue; Poll 0; TDone 0 true; HDone 0 true; Poll 0; Issue; Poll 1; Release 0; Poll 1; TDone 1 true; HDone 1 true; Issue; Poll 2]);
  (false, [Issue; Poll 0; TDone 0 true; HDone 0 true; Poll 0; Issue; Poll 1; Release 0; Poll 1; Issue; Poll 2; TDone 1 true; HDone 1 true; Release 0]);
  (false, [Issue; Poll 0; TDone 0 true; HDone 0 true; Poll 0; Issue; Poll 1; Release 0; Poll 1; Cancel 1; TDone 1 true; HDone 1 true]);
  (false, [Issue; Poll 0; TDone 0 true; HDone 0 true; Poll 0; Issue; Poll 1; Release 0; TDone 1 true; HDone 1 true; Poll 1; TDone 1 true; HDone 1 true; Issue; Poll 2]);
  (false, [Issue; Poll 0; TDone 0 true; HDone 0 true; Poll 0; Issue; Poll 1; Release 0; TDone 1 true; HDone 1 true; Poll 1; Issue; Poll 2; TDone 1 true; HDone 1 true; Release 0]);
  (false, [Issue; Poll 0; TDone 0 true; HDone 0 true; Poll 0; Issue; Poll 1; Release 0; TDone 1 true; HDone 1 true; Poll 1; Cancel 1; TDone 1 true; HDone 1 true]);
  (false, [Issue; Poll 0; TDone 0 true; HDone 0 true; Poll 0; Issue; Poll 1; Release 0; TDone 1 false; Poll 1; TDone 1 true; HDone 1 true; Issue; Poll 2]);
  (false, [Issue; Poll 0; TDone 0 true; HDone 0 true; Poll 0; Issue; Poll 1; Release 0; TDone 1 false; Poll 1; Issue; Poll 2; TDone 1 true; HDone 1 true; Release 0]);
  (false, [Issue; Poll 0; TDone 0 true; HDone 0 true; Poll 0; Issue; Poll 1; Release 0; TDone 1 false; Poll 1; Cancel 1; TDone 1 true; HDone 1 true]);
  (false, [Issue; Poll 0; TDone 0 true; HDone 0 true; Poll 0; Issue; Poll 1; TDone 1 true; HDone 1 true; Release 0; Poll 1; TDone 1 true; HDone 1 true; Issue; Poll 2]);
  (false, [Issue; Poll 0; TDone 0 true; HDone 0 true; Poll 0; Issue; Poll 1; TDone 1 true; HDone 1 true; Release 0; Poll 1; Issue; Poll 2; TDone 1 true; HDone 1 true; Release 0]);
  (false, [Issue; Poll 0; TDone 0 true; HDone 0 true; Poll 0; Issue; Poll 1; TDone 1 true; HDone 1 true; Release 0; Poll 1; Cancel 1; TDone 1 true; HDone 1 true]);
  (false, [Issue; Poll 0; TDone 0 true; HDone 0 true; Poll 0; Issue; Poll 1; TDone 1 true; HDone 1 true; Release 0; TDone 1 true; HDone 1 true; Poll 1; TDone 1 true; HDone 1 true; Issue; Poll 2]);
  (false, [Issue; Poll 0; TDone 0 true; HDone 0 true; Poll 0; Issue; Poll 1; TDone 1 true; HDone 1 true; Release 0; TDone 1 true; HDone 1 true; Poll 1; Issue; Poll 2; TDone 1 true; HDone 1 true; Release 0]);
  (false, [Issue; Poll 0; TDone 0 true; HDone 0 true; Poll 0; Issue; Poll 1; TDone 1 true; HDone 1 true; Release 0; TDone 1 true; HDone 1 true; Poll 1; Cancel 1; TDone 1 true; HDone 1 true]);
  (false, [Issue; Poll 0; TDone 0 true; HDone 0 true; Poll 0; Issue; Poll 1; TDone 1 true; HDone 1 true; Release 0; TDone 1 false; Poll 1; TDone 1 true; HDone 1 true; Issue; Poll 2]);
  (false, [Issue; Poll 0; TDone 0 true; HDone 0 true; Poll 0; Issue; Poll 1; TDone 1 true; HDone 1 true; Release 0; TDone 1 false; Poll 1; Issue; Poll 2; TDone 1 true; HDone 1 true; Release 0]);
  (false, [Issue; Poll 0; TDone 0 true; HDone 0 true; Poll 0; Issue; Poll 1; TDone 1 true; HDone 1 true; Release 0; TDone 1 false; Poll 1; Cancel 1; TDone 1 true; HDone 1 true]);
  (false, [Issue; Poll 0; TDone 0 true; HDone 0 true; Poll 0; Issue; Issue; Release 0; Poll 2; Poll 1]);
  (false, [Issue; Poll 0; TDone 0 true; HDone 0 true; Poll 0; Issue; Issue; Release 0; Poll 1; Release 0; Poll 2]);
  (false, [Issue; Poll 0; TDone 0 true; HDone 0 true; Poll 0; Issue; Issue; Cancel 1; Release 0; Poll 2]);
  (false, [Issue; Poll 0; TDone 0 true; HDone 0 true; Poll 0; Issue; Issue; Release 0; Cancel 1; Poll 2]);
  (false, [Issue; Poll 0; TDone 0 true; HDone 0 true; Poll 0; Issue; Issue; Release 0; Poll 2; Poll 1; TDone 1 true; HDone 1 true; Poll 2; TDone 2 true; HDone 2 true]);
  (false, [Issue; Poll 0; TDone 0 true; HDone 0 true; Poll 0; Issue; Issue; Poll 2; Release 0; Poll 2; Poll 1]);
  (false, [Issue; Poll 0; TDone 0 true; HDone 0 true; Poll 0; Issue; Issue; Poll 2; Release 0; Poll 1; Release 0; Poll 2]);
  (false, [Issue; Poll 0; TDone 0 true; HDone 0 true; Poll 0; Issue; Issue; Poll 2; Cancel 1; Release 0; Poll 2]);
  (false, [Issue; Poll 0; TDone 0 true; HDone 0 true; Poll 0; Issue; Issue; Poll 2; Release 0; Cancel 1; Poll 2]);
  (false, [Issue; Poll 0; TDone 0 true; HDone 0 true; Poll 0; Issue; Issue; Poll 2; Release 0; Poll 2; Poll 1; TDone 1 true; HDone 1 true; Poll 2; TDone 2 true; HDone 2 true]);
  (false, [Issue; Poll 0; TDone 0 true; HDone 0 true; Poll 0; Issue; Issue; Poll 2; TDone 2 true; HDone 2 true; Release 0; Poll 2; Poll 1]);
  (false, [Issue; Poll 0; TDone 0 true; HDone 0 true; Poll 0; Issue; Issue; Poll 2; TDone 2 true; HDone 2 true; Release 0; Poll 1; Release 0; Poll 2]);
  (false, [Issue; Poll 0; TDone 0 true; HDone 0 true; Poll 0; Issue; Issue; Poll 2; TDone 2 true; HDone 2 true; Cancel 1; Release 0; Poll 2]);
  (false, [Issue; Poll 0; TDone 0 true; HDone 0 true; Poll 0; Issue; Issue; Poll 2; TDone 2 true; HDone 2 true; Release 0; Cancel 1; Poll 2]);
  (false, [Issue; Poll 0; TDone 0 true; HDone 0 true; Poll 0; Issue; Issue; Poll 2; TDone 2 true; HDone 2 true; Release 0; Poll 2; Poll 1; TDone 1 true; HDone 1 true; Poll 2; TDone 2 true; HDone 2 true]);
  (false, [Issue; Poll 0; TDone 0 true; HDone 0 true; Poll 0; Issue; Issue; Poll 1; Release 0; Poll 2; Poll 1]);
  (false, [Issue; Poll 0; TDone 0 true; HDone 0 true; Poll 0; Issue; Issue; Poll 1; Release 0; Poll 1; Release 0; Poll 2]);
  (false, [Issue; Poll 0; TDone 0 true; HDone 0 true; Poll 0; Issue; Issue; Poll 1; Cancel 1; Release 0; Poll 2]);
  (false, [Issue; Poll 0; TDone 0 true; HDone 0 true; Poll 0; Issue; Issue; Poll 1; Release 0; Cancel 1; Poll 2]);
  (false, [Issue; Poll 0; TDone 0 true; HDone 0 true; Poll 0; Issue; Issue; Poll 1; Release 0; Poll 2; Poll 1; TDone 1 true; HDone 1 true; Poll 2; TDone 2 true; HDone 2 true]);
  (false, [Issue; Poll 0; TDone 0 true; HDone 0 true; Poll 0; Issue; Issue; Poll 1; Poll 2; Release 0; Poll 2; Poll 1]);
  (false, [Issue; Poll 0; TDone 0 true; HDone 0 true; Poll 0; Issue; Issue; Poll 1; Poll 2; Release 0; Poll 1; Release 0; Poll 2]);
  (false, [Issue; Poll 0; TDone 0 true; HDone 0 true; Poll 0; Issue; Issue; Poll 1; Poll 2; Cancel 1; Release 0; Poll 2]);
  (false, [Issue; Poll 0; TDone 0 true; HDone 0 true; Poll 0; Issue; Issue; Poll 1; Poll 2; Release 0; Cancel 1; Poll 2]);
  (false, [Issue; Poll 0; TDone 0 true; HDone 0 true; Poll 0; Issue; Issue; Poll 1; Poll 2; Release 0; Poll 2; Poll 1; TDone 1 true; HDone 1 true; Poll 2; TDone 2 true; HDone 2 true]);
  (false, [Issue; Poll 0; TDone 0 true; HDone 0 true; Poll 0; Issue; Issue; Poll 1; Poll 2; TDone 2 true; HDone 2 true; Release 0; Poll 2; Poll 1]);
  (false, [Issue; Poll 0; TDone 0 true; HDone 0 true; Poll 0; Issue; Issue; Poll 1; Poll 2; TDone 2 true; HDone 2 true; Release 0; Poll 1; Release 0; Poll 2]);
  (false, [Issue; Poll 0; TDone 0 true; HDone 0 true; Poll 0; Issue; Issue; Poll 1; Poll 2; TDone 2 true; HDone 2 true; Cancel 1; Release 0; Poll 2]);
  (false, [Issue; Poll 0; TDone 0 true; HDone 0 true; Poll 0; Issue; Issue; Poll 1; Poll 2; TDone 2 true; HDone 2 true; Release 0; Cancel 1; Poll 2]);
  (false, [Issue; Poll 0; TDone 0 true; HDone 0 true; Poll 0; Issue; Issue; Poll 1; Poll 2; TDone 2 true; HDone 2 true; Release 0; Poll 2; Poll 1; TDone 1 true; HDone 1 true; Poll 2; TDone 2 true; HDone 2 true]);
  (false, [Issue; Poll 0; TDone 0 true; HDone 0 true; Poll 0; Issue; Issue; Poll 1; TDone 1 true; HDone 1 true; Release 0; Poll 2; Poll 1]);
  (false, [Issue; Poll 0; TDone 0 true; HDone 0 true; Poll 0; Issue; Issue; Poll 1; TDone 1 true; HDone 1 true; Release 0; Poll 1; Release 0; Poll 2]);
  (false, [Issue; Poll 0; TDone 0 true; HDone 0 true; Poll 0; Issue; Issue; Poll 1; TDone 1 true; HDone 1 true; Cancel 1; Release 0; Poll 2]);
  (false, [Issue; Poll 0; TDone 0 true; HDone 0 true; Poll 0; Issue; Issue; Poll 1; TDone 1 true; HDone 1 true; Release 0; Cancel 1; Poll 2]);
  (false, [Issue; Poll 0; TDone 0 true; HDone 0 true; Poll 0; Issue; Issue; Poll 1; TDone 1 true; HDone 1 true; Release 0; Poll 2; Poll 1; TDone 1 true; HDone 1 true; Poll 2; TDone 2 true; HDone 2 true]);
  (false, [Issue; Poll 0; TDone 0 true; HDone 0 true; Poll 0; Issue; Issue; Poll 1; TDone 1 true; HDone 1 true; Poll 2; Release 0; Poll 2; Poll 1]);
  (false, [Issue; Poll 0; TDone 0 true; HDone 0 true; Poll 0; Issue; Issue; Poll 1; TDone 1 true; HDone 1 true; Poll 2; Release 0; Poll 1; Release 0; Poll 2]);
  (false, [Issue; Poll 0; TDone 0 true; HDone 0 true; Poll 0; Issue; Issue; Poll 1; TDone 1 true; HDone 1 true; Poll 2; Cancel 1; Release 0; Poll 2]);
  (false, [Issue; Poll 0; TDone 0 true; HDone 0 true; Poll 0; Issue; Issue; Poll 1; TDone 1 true; HDone 1 true; Poll 2; Release 0; Cancel 1; Poll 2]);
  (false, [Issue; Poll 0; TDone 0 true; HDone 0 true; Poll 0; Issue; Issue; Poll 1; TDone 1 true; HDone 1 true; Poll 2; Release 0; Poll 2; Poll 1; TDone 1 true; HDone 1 true; Poll 2; TDone 2 true; HDone 2 true]);
  (false, [Issue; Poll 0; TDone 0 true; HDone 0 true; Poll 0; Issue; Issue; Poll 1; TDone 1 true; HDone 1 true; Poll 2; TDone 2 true; HDone 2 true; Release 0; Poll 2; Poll 1]);
  (false, [Issue; Poll 0; TDone 0 true; HDone 0 true; Poll 0; Issue; Issue; Poll 1; TDone 1 true; HDone 1 true; Poll 2; TDone 2 true; HDone 2 true; Release 0; Poll 1; Release 0; Poll 2]);
  (false, [Issue; Poll 0; TDone 0 true; HDone 0 true; Poll 0; Issue; Issue; Poll 1; TDone 1 true; HDone 1 true; Poll 2; TDone 2 true; HDone 2 true; Cancel 1; Release 0; Poll 2]);
  (false, [Issue; Poll 0; TDone 0 true; HDone 0 true; Poll 0; Issue; Issue; Poll 1; TDone 1 true; HDone 1 true; Poll 2; TDone 2 true; HDone 2 true; Release 0; Cancel 1; Poll 2]);
  (false, [Issue; Poll 0; TDone 0 true; HDone 0 true; Poll 0; Issue; Issue; Poll 1; TDone 1 true; HDone 1 true; Poll 2; TDone 2 true; HDone 2 true; Release 0; Poll 2; Poll 1; TDone 1 true; HDone 1 true; Poll 2; TDone 2 true; HDone 2 true]);
  (false, [Issue; Poll 0; TDone 0 true; HDone 0 true; Poll 0; Release 0; Issue; Cancel 1; Issue; Poll 2]);
  (false, [Issue; Poll 0; TDone 0 true; HDone 0 true; Poll 0; Issue; Issue; Poll 1; TDone 1 true; HDone 1 true; Release 0; Cancel 1; Poll 2]);
  (true, [Issue; Poll 0; TDone 0 true; HDone 0 true; Poll 0; Issue; Release 0; Poll 1; TDone 1 true; HDone 1 true; Issue; Poll 2]);
  (true, [Issue; Poll 0; TDone 0 true; HDone 0 true; Poll 0; Issue; Release 0; Poll 1; Issue; Poll 2; TDone 1 true; HDone 1 true; Release 0]);
  (true, [Issue; Poll 0; TDone 0 true; HDone 0 true; Poll 0; Issue; Release 0; Poll 1; Cancel 1; TDone 1 true; HDone 1 true]);
  (true, [Issue; Poll 0; TDone 0 true; HDone 0 true; Poll 0; Issue; Release 0; TDone 1 true; HDone 1 true; Poll 1; TDone 1 true; HDone 1 true; Issue; Poll 2]);
  (true, [Issue; Poll 0; TDone 0 true; HDone 0 true; Poll 0; Issue; Release 0; TDone 1 true; HDone 1 true; Poll 1; Issue; Poll 2; TDone 1 true; HDone 1 true; Release 0]);
  (true, [Issue; Poll 0; TDone 0 true; HDone 0 true; Poll 0; Issue; Release 0; TDone 1 true; HDone 1 true; Poll 1; Cancel 1; TDone 1 true; HDone 1 true]);
  (true, [Issue; Poll 0; TDone 0 true; HDone 0 true; Poll 0; Issue; Release 0; TDone 1 false; Poll 1; TDone 1 true; HDone 1 true; Issue; Poll 2]);
  (true, [Issue; Poll 0; TDone 0 true; HDone 0 true; Poll 0; Issue; Release 0; TDone 1 false; Poll 1; Issue; Poll 2; TDone 1 true; HDone 1 true; Release 0]);
  (true, [Issue; Poll 0; TDone 0 true; HDone 0 true; Poll 0; Issue; Release 0; TDone 1 false; Poll 1; Cancel 1; TDone 1 true; HDone 1 true]);
  (true, [Issue; Poll 0; TDone 0 true; HDone 0 true; Poll 0; Issue; Poll 1; Release 0; Poll 1; TDone 1 true; HDone 1 true; Issue; Poll 2]);
  (true, [Issue; Poll 0; TDone 0 true; HDone 0 true; Poll 0; Issue; Poll 1; Release 0; Poll 1; Issue; Poll 2; TDone 1 true; HDone 1 true; Release 0]);
  (true, [Issue; Poll 0; TDone 0 true; HDone 0 true; Poll 0; Issue; Poll 1; Release 0; Poll 1; Cancel 1; TDone 1 true; HDone 1 true]);
  (true, [Issue; Poll 0; TDone 0 true; HDone 0 true; Poll 0; Issue; Poll 1; Release 0; TDone 1 true; HDone 1 true; Poll 1; TDone 1 true; HDone 1 true; Issue; Poll 2]);
  (true, [Issue; Poll 0; TDone 0 true; HDone 0 true; Poll 0; Issue; Poll 1; Release 0; TDone 1 true; HDone 1 true; Poll 1; Issue; Poll 2; TDone 1 true; HDone 1 true; Release 0]);
  (true, [Issue; Poll 0; TDone 0 true; HDone 0 true; Poll 0; Issue; Poll 1; Release 0; TDone 1 true; HDone 1 true; Poll 1; Cancel 1; TDone 1 true; HDone 1 true]);
  (true, [Issue; Poll 0; TDone 0 true; HDone 0 true; Poll 0; Issue; Poll 1; Release 0; TDone 1 false; Poll 1; TDone 1 true; HDone 1 true; Issue; Poll 2]);
  (true, [Issue; Poll 0; TDone 0 true; HDone 0 true; Poll 0; Issue; Poll 1; Release 0; TDone 1 false; Poll 1; Issue; Poll 2; TDone 1 true; HDone 1 true; Release 0]);
  (true, [Issue; Poll 0; TDone 0 true; HDone 0 true; Poll 0; Issue; Poll 1; Release 0; TDone 1 false; Poll 1; Cancel 1; TDone 1 true; HDone 1 true]);
  (true, [Issue; Poll 0; TDone 0 true; HDone 0 true; Poll 0; Issue; Poll 1; TDone 1 true; HDone 1 true; Release 0; Poll 1; TDone 1 true; HDone 1 true; Issue; Poll 2]);
  (true, [Issue; Poll 0; TDone 0 true; HDone 0 true; Poll 0; Issue; Poll 1; TDone 1 true; HDone 1 true; Release 0; Poll 1; Issue; Poll 2; TDone 1 true; HDone 1 true; Release 0]);
  (true, [Issue; Poll 0; TDone 0 true; HDone 0 true; Poll 0; Issue; Poll 1; TDone 1 true; HDone 1 true; Release 0; Poll 1; Cancel 1; TDone 1 true; HDone 1 true]);
  (true, [Issue; Poll 0; TDone 0 true; HDone 0 true; Poll 0; Issue; Poll 1; TDone 1 true; HDone 1 true; Release 0; TDone 1 true; HDone 1 true; Poll 1; TDone 1 true; HDone 1 true; Issue; Poll 2]);
  (true, [Issue; Poll 0; TDone 0 true; HDone 0 true; Poll 0; Issue; Poll 1; TDone 1 true; HDone 1 true; Release 0; TDone 1 true; HDone 1 true; Poll 1; Issue; Poll 2; TDone 1 true; HDone 1 true; Release 0]);
  (true, [Issue; Poll 0; TDone 0 true; HDone 0 true; Poll 0; Issue; Poll 1; TDone 1 true; HDone 1 true; Release 0; TDone 1 true; HDone 1 true; Poll 1; Cancel 1; TDone 1 true; HDone 1 true]);
  (true, [Issue; Poll 0; TDone 0 true; HDone 0 true; Poll 0; Issue; Poll 1; TDone 1 true; HDone 1 true; Release 0; TDone 1 false; Poll 1; TDone 1 true; HDone 1 true; Issue; Poll 2]);
  (true, [Issue; Poll 0; TDone 0 true; HDone 0 true; Poll 0; Issue; Poll 1; TDone 1 true; HDone 1 true; Release 0; TDone 1 false; Poll 1; Issue; Poll 2; TDone 1 true; HDone 1 true; Release 0]);
  (true, [Issue; Poll 0; TDone 0 true; HDone 0 true; Poll 0; Issue; Poll 1; TDone 1 true; HDone 1 true; Release 0; TDone 1 false; Poll 1; Cancel 1; TDone 1 true; HDone 1 true]);
  (true, [Issue; Poll 0; TDone 0 true; HDone 0 true; Poll 0; Issue; Issue; Release 0; Poll 2; Poll 1]);
  (true, [Issue; Poll 0; TDone 0 true; HDone 0 true; Poll 0; Issue; Issue; Release 0; Poll 1; Release 0; Poll 2]);
  (true, [Issue; Poll 0; TDone 0 true; HDone 0 true; Poll 0; Issue; Issue; Cancel 1; Release 0; Poll 2]);
  (true, [Issue; Poll 0; TDone 0 true; HDone 0 true; Poll 0; Issue; Issue; Release 0; Cancel 1; Poll 2]);
  (true, [Issue; Poll 0; TDone 0 true; HDone 0 true; Poll 0; Issue; Issue; Release 0; Poll 2; Poll 1; TDone 1 true; HDone 1 true; Poll 2; TDone 2 true; HDone 2 true]);
  (true, [Issue; Poll 0; TDone 0 true; HDone 0 true; Poll 0; Issue; Issue; Poll 2; Release 0; Poll 2; Poll 1]);
  (true, [Issue; Poll 0; TDone 0 true; HDone 0 true; Poll 0; Issue; Issue; Poll 2; Release 0; Poll 1; Release 0; Poll 2]);
  (true, [Issue; Poll 0; TDone 0 true; HDone 0 true; Poll 0; Issue; Issue; Poll 2; Cancel 1; Release 0; Poll 2]);
  (true, [Issue; Poll 0; TDone 0 true; HDone 0 true; Poll 0; Issue; Issue; Poll 2; Release 0; Cancel 1; Poll 2]);
  (true, [Issue; Poll 0; TDone 0 true; HDone 0 true; Poll 0; Issue; Issue; Poll 2; Release 0; Poll 2; Poll 1; TDone 1 true; HDone 1 true; Poll 2; TDone 2 true; HDone 2 true]);
  (true, [Issue; Poll 0; TDone 0 true; HDone 0 true; Poll 0; Issue; Issue; Poll 2; TDone 2 true; HDone 2 true; Release 0; Poll 2; Poll 1]);
  (true, [Issue; Poll 0; TDone 0 true; HDone 0 true; Poll 0; Issue; Issue; Poll 2; TDone 2 true; HDone 2 true; Release 0; Poll 1; Release 0; Poll 2]);
  (true, [Issue; Poll 0; TDone 0 true; HDone 0 true; Poll 0; Issue; Issue; Poll 2; TDone 2 true; HDone 2 true; Cancel 1; Release 0; Poll 2]);
  (true, [Issue; Poll 0; TDone 0 true; HDone 0 true; Poll 0; Issue; Issue; Poll 2; TDone 2 true; HDone 2 true; Release 0; Cancel 1; Poll 2]);
  (true, [Issue; Poll 0; TDone 0 true; HDone 0 true; Poll 0; Issue; Issue; Poll 2; TDone 2 true; HDone 2 true; Release 0; Poll 2; Poll 1; TDone 1 true; HDone 1 true; Poll 2; TDone 2 true; HDone 2 true]);
  (true, [Issue; Poll 0; TDone 0 true; HDone 0 true; Poll 0; Issue; Issue; Poll 1; Release 0; Poll 2; Poll 1]);
  (true, [Issue; Poll 0; TDone 0 true; HDone 0 true; Poll 0; Issue; Issue; Poll 1; Release 0; Poll 1; Release 0; Poll 2]);
  (true, [Issue; Poll 0; TDone 0 true; HDone 0 true; Poll 0; Issue; Issue; Poll 1; Cancel 1; Release 0; Poll 2]);
  (true, [Issue; Poll 0; TDone 0 true; HDone 0 true; Poll 0; Issue; Issue; Poll 1; Release 0; Cancel 1; Poll 2]);
  (true, [Issue; Poll 0; TDone 0 true; HDone 0 true; Poll 0; Issue; Issue; Poll 1; Release 0; Poll 2; Poll 1; TDone 1 true; HDone 1 true; Poll 2; TDone 2 true; HDone 2 true]);
  (true, [Issue; Poll 0; TDone 0 true; HDone 0 true; Poll 0; Issue; Issue; Poll 1; Poll 2; Release 0; Poll 2; Poll 1]);
  (true, [Issue; Poll 0; TDone 0 true; HDone 0 true; Poll 0; Issue; Issue; Poll 1; Poll 2; Release 0; Poll 1; Release 0; Poll 2]);
  (true, [Issue; Poll 0; TDone 0 true; HDone 0 true; Poll 0; Issue; Issue; Poll 1; Poll 2; Cancel 1; Release 0; Poll 2]);
  (true, [Issue; Poll 0; TDone 0 true; HDone 0 true; Poll 0; Issue; Issue; Poll 1; Poll 2; Release 0; Cancel 1; Poll 2]);
  (true, [Issue; Poll 0; TDone 0 true; HDone 0 true; Poll 0; Issue; Issue; Poll 1; Poll 2; Release 0; Poll 2; Poll 1; TDone 1 true; HDone 1 true; Poll 2; TDone 2 true; HDone 2 true]);
  (true, [Issue; Poll 0; TDone 0 true; HDone 0 true; Poll 0; Issue; Issue; Poll 1; Poll 2; TDone 2 true; HDone 2 true; Release 0; Poll 2; Poll 1]);
  (true, [Issue; Poll 0; TDone 0 true; HDone 0 true; Poll 0; Issue; Issue; Poll 1; Poll 2; TDone 2 true; HDone 2 true; Release 0; Poll 1; Release 0; Poll 2]);
  (true, [Issue; Poll 0; TDone 0 true; HDone 0 true; Poll 0; Issue; Issue; Poll 1; Poll 2; TDone 2 true; HDone 2 true; Cancel 1; Release 0; Poll 2]);
  (true, [Issue; Poll 0; TDone 0 true; HDone 0 true; Poll 0; Issue; Issue; Poll 1; Poll 2; TDone 2 true; HDone 2 true; Release 0; Cancel 1; Poll 2]);
  (true, [Issue; Poll 0; TDone 0 true; HDone 0 true; Poll 0; Issue; Issue; Poll 1; Poll 2; TDone 2 true; HDone 2 true; Release 0; Poll 2; Poll 1; TDone 1 true; HDone 1 true; Poll 2; TDone 2 true; HDone 2 true]);
  (true, [Issue; Poll 0; TDone 0 true; HDone 0 true; Poll 0; Issue; Issue; Poll 1; TDone 1 true; HDone 1 true; Release 0; Poll 2; Poll 1]);
  (true, [Issue; Poll 0; TDone 0 true; HDone 0 true; Poll 0; Issue; Issue; Poll 1; TDone 1 true; HDone 1 true; Release 0; Poll 1; Release 0; Poll 2]);
  (true, [Issue; Poll 0; TDone 0 true; HDone 0 true; Poll 0; Issue; Issue; Poll 1; TDone 1 true; HDone 1 true; Cancel 1; Release 0; Poll 2]);
  (true, [Issue; Poll 0; TDone 0 true; HDone 0 true; Poll 0; Issue; Issue; Poll 1; TDone 1 true; HDone 1 true; Release 0; Cancel 1; Poll 2]);
  (true, [Issue; Poll 0; TDone 0 true; HDone 0 true; Poll 0; Issue; Issue; Poll 1; TDone 1 true; HDone 1 true; Release 0; Poll 2; Poll 1; TDone 1 true; HDone 1 true; Poll 2; TDone 2 true; HDone 2 true]);
  (true, [Issue; Poll 0; TDone 0 true; HDone 0 true; Poll 0; Issue; Issue; Poll 1; TDone 1 true; HDone 1 true; Poll 2; Release 0; Poll 2; Poll 1]);
  (true, [Issue; Poll 0; TDone 0 true; HDone 0 true; Poll 0; Issue; Issue; Poll 1; TDone 1 true; HDone 1 true; Poll 2; Release 0; Poll 1; Release 0; Poll 2]);
  (true, [Issue; Poll 0; TDone 0 true; HDone 0 true; Poll 0; Issue; Issue; Poll 1; TDone 1 true; HDone 1 true; Poll 2; Cancel 1; Release 0; Poll 2]);
  (true, [Issue; Poll 0; TDone 0 true; HDone 0 true; Poll 0; Issue; Issue; Poll 1; TDone 1 true; HDone 1 true; Poll 2; Release 0; Cancel 1; Poll 2]);
  (true, [Issue; Poll 0; TDone 0 true; HDone 0 true; Poll 0; Issue; Issue; Poll 1; TDone 1 true; HDone 1 true; Poll 2; Release 0; Poll 2; Poll 1; TDone 1 true; HDone 1 true; Poll 2; TDone 2 true; HDone 2 true]);
  (true, [Issue; Poll 0; TDone 0 true; HDone 0 true; Poll 0; Issue; Issue; Poll 1; TDone 1 true; HDone 1 true; Poll 2; TDone 2 true; HDone 2 true; Release 0; Poll 2; Poll 1]);
  (true, [Issue; Poll 0; TDone 0 true; HDone 0 true; Poll 0; Issue; Issue; Poll 1; TDone 1 true; HDone 1 true; Poll 2; TDone 2 true; HDone 2 true; Release 0; Poll 1; Release 0; Poll 2]);
  (true, [Issue; Poll 0; TDone 0 true; HDone 0 true; Poll 0; Issue; Issue; Poll 1; TDone 1 true; HDone 1 true; Poll 2; TDone 2 true; HDone 2 true; Cancel 1; Release 0; Poll 2]);
  (true, [Issue; Poll 0; TDone 0 true; HDone 0 true; Poll 0; Issue; Issue; Poll 1; TDone 1 true; HDone 1 true; Poll 2; TDone 2 true; HDone 2 true; Release 0; Cancel 1; Poll 2]);
  (true, [Issue; Poll 0; TDone 0 true; HDone 0 true; Poll 0; Issue; Issue; Poll 1; TDone 1 true; HDone 1 true; Poll 2; TDone 2 true; HDone 2 true; Release 0; Poll 2; Poll 1; TDone 1 true; HDone 1 true; Poll 2; TDone 2 true; HDone 2 true]);
  (true, [Issue; Poll 0; TDone 0 true; HDone 0 true; Poll 0; Release 0; Issue; Cancel 1; Issue; Poll 2]);
  (true, [Issue; Poll 0; TDone 0 true; HDone 0 true; Poll 0; Issue; Issue; Poll 1; TDone 1 true; HDone 1 true; Release 0; Cancel 1; Poll 2]);
  (false, [Issue; Issue; TDone 1 false; Poll 1; TDone 1 true; HDone 1 true; Release 0; TDone 1 true; HDone 1 true; TDone 1 true; HDone 1 true; Cancel 0; TDone 1 true; HDone 1 true; TDone 1 true; HDone 1 true; Poll 1; Release 1; Release 1; Poll 1]);
  (false, [Issue; Release 0; Cancel 0; Issue; Release 0; Release 0; TDone 0 true; HDone 0 true; Issue; Poll 2]);
  (false, [Issue; Release 0; Issue; Cancel 0; TDone 1 true; HDone 1 true; Poll 1; Release 0; Poll 1; Release 0; Release 0; TDone 1 true; HDone 1 false; TDone 1 false; TDone 1 true; HDone 1 true]);
  (true, [Issue; Release 0; Cancel 0; Release 0; Release 0; Release 0; Poll 0]);
  (true, [Issue; Release 0; Poll 0; Issue; Poll 0; TDone 0 true; HDone 0 true; Release 0; Cancel 1; TDone 0 true; HDone 0 true; Issue; Poll 1]);
  (false, [Issue; TDone 0 true; HDone 0 true; Poll 0; Release 0; Release 0; Issue; Release 0; Release 0; Poll 1; Issue]);
  (true, [Issue; Cancel 0; Release 0; Poll 0; Issue; Release 0; Poll 0; TDone 0 true; HDone 0 true; Issue; Release 0; Poll 1; Poll 1; TDone 1 true; HDone 1 true; Release 0; Poll 1; Poll 1; Release 1]);
  (false, [Issue; TDone 0 true; HDone 0 true; Poll 0; Release 0; Release 0; Release 0; Issue; TDone 0 true; HDone 0 true; Issue; Release 1; Release 0; Cancel 2; Poll 2; TDone 2 true; HDone 2 true; Release 0; Poll 1]);
  (false, [Issue; Issue; Poll 1; Cancel 0; TDone 1 true; HDone 1 true; TDone 1 true; HDone 1 false; Release 0; TDone 1 true; HDone 1 true; Poll 0; Cancel 0; TDone 1 true; HDone 1 false; Release 1]);
  (false, [Issue; Issue; TDone 0 true; HDone 0 true; TDone 0 true; HDone 0 true; Release 1; Release 0; Poll 1; Poll 1; TDone 1 true; HDone 1 true; Poll 1; TDone 1 true; HDone 1 true; Release 2; Poll 0; Cancel 1; Cancel 0; TDone 1 true; HDone 1 true; Poll 1; Poll 0]);
  (false, [Issue; Cancel 0; Poll 0; TDone 0 true; HDone 0 true; Release 0; TDone 0 true; HDone 0 true; Release 1; TDone 0 true; HDone 0 true; Poll 0; Poll 0; Issue; Issue; Poll 1; TDone 1 true; HDone 1 true; Poll 2]);
  (true, [Issue; Release 0; Poll 0; Poll 0; Issue; Issue; TDone 0 true; HDone 0 true; Cancel 2; Poll 0; Poll 0; Release 0]);
  (true, [Issue; Release 0; Issue; TDone 1 true; HDone 1 true; Poll 0; Poll 1; TDone 0 true; HDone 0 true; Release 0; Release 1; Release 0; Release 1; Poll 1; Poll 1; Cancel 1]);
  (true, [Issue; Poll 0; Issue; Poll 1; TDone 1 true; HDone 1 true]);
  (false, [Issue; Release 0; Issue; Issue; Poll 2; Release 0; Issue; Poll 0; Release 0; Release 0; TDone 2 true; HDone 2 true; Poll 2; Cancel 1; Release 0; TDone 2 true; HDone 2 true]);
  (false, [Issue; Poll 0; Poll 0; Poll 0; TDone 0 true; HDone 0 true; TDone 0 true; HDone 0 true; Issue]);
  (true, [Issue; Poll 0; Issue; Issue; Cancel 1; Poll 2]);
  (false, [Issue; Issue; Poll 1; Poll 0; Poll 0; Issue; Cancel 0; Release 0; Release 0; TDone 0 true; HDone 0 true]);
  (true, [Issue; Issue; Poll 1; TDone 1 true; HDone 1 true; TDone 1 true; HDone 1 true; TDone 1 false; Poll 1; Poll 1; Poll 0; Poll 1; Release 1; Poll 0; Cancel 0; Poll 0; Release 1; Poll 0]);
  (false, [Issue; Issue; Poll 1; Poll 1; Issue; TDone 1 true; HDone 1 true; Release 0]);
  (false, [Issue; Issue; TDone 0 true; HDone 0 true; Issue; Release 0; Release 0; TDone 0 true; HDone 0 true; Issue; Release 1; Poll 1; Poll 0; Poll 2]);
  (false, [Issue; Issue; Poll 1; Poll 1; Poll 0; Release 0; TDone 1 false; Release 0; Poll 0; Poll 1]);
  (true, [Issue; Release 0; Issue; TDone 1 true; HDone 1 true; Poll 1; Release 0; TDone 1 true; HDone 1 true; TDone 1 true; HDone 1 true; Poll 0; Poll 1; Poll 1; Poll 1; TDone 1 true; HDone 1 true; TDone 0 true; HDone 0 true; Poll 0; Poll 0; TDone 1 true; HDone 1 true]);
  (false, [Issue; Issue; Release 0; Poll 0; Poll 1; Issue]);
  (true, [Issue; Issue; Issue; Poll 2; Poll 0]);
  (true, [Issue; TDone 0 false; Poll 0; Release 0; Poll 0; Issue; Issue; Poll 2; TDone 0 false; TDone 0 true; HDone 0 true; Cancel 1; Cancel 2; Poll 2; Release 0]);
  (false, [Issue; Poll 0; Poll 0; Poll 0; TDone 0 true; HDone 0 true; Release 0; TDone 0 true; HDone 0 true]);
  (true, [Issue; Issue; Release 0; Poll 0; TDone 0 false; Release 0; Poll 0]);
  (true, [Issue; Release 0; Issue; Release 0; Release 0; Poll 0; Poll 0; Poll 0; TDone 0 true; HDone 0 true; TDone 0 true; HDone 0 true]);
  (true, [Issue; Poll 0; Release 0; Release 0; Poll 0; Poll 0; Issue; Issue; TDone 0 true; HDone 0 true]);
  (true, [Issue; Issue; Poll 1; TDone 1 true; HDone 1 true; Poll 0; Poll 1; Poll 1; Release 0; Release 0; Poll 1]);
  (false, [Issue; Cancel 0; Issue; TDone 0 true; HDone 0 true; Release 0; Release 0; Poll 0; Cancel 0; TDone 0 false; TDone 0 true; HDone 0 false]);
  (false, [Issue; Issue; Issue; Poll 1; Poll 0; Release 0; Poll 2; Cancel 1; Release 0; Release 0; TDone 2 true; HDone 2 false; TDone 2 true; HDone 2 true; Cancel 2; Poll 1; TDone 0 true; HDone 0 true]);
  (false, [Issue; Issue; Issue; Release 0; Release 0; Release 0; TDone 1 true; HDone 1 true; Issue; Release 0; Poll 1; Poll 3; Poll 1; Poll 3; Poll 0; TDone 1 true; HDone 1 true; Poll 2; Release 1]);
  (false, [Issue; Poll 0; TDone 0 true; HDone 0 true; Poll 0; Poll 0; Cancel 0; Release 0; Issue; TDone 0 true; HDone 0 true; Poll 0; TDone 0 true; HDone 0 true; Release 1]);
  (true, [Issue; Release 0; Poll 0; Cancel 0; Release 0; TDone 0 true; HDone 0 true; Release 0; Poll 0; Cancel 0; Release 0; Issue; TDone 0 true; HDone 0 true; Release 0; Release 0; Release 1; Poll 1; Cancel 0; TDone 0 true; HDone 0 false]);
  (true, [Issue; Poll 0; TDone 0 true; HDone 0 true; Poll 0; TDone 0 false; Poll 0; Poll 0; Release 0]);
  (false, [Issue; Cancel 0; Issue; TDone 0 true; HDone 0 true; Issue; Release 0; TDone 2 true; HDone 2 true]);
  (false, [Issue; Issue; Poll 0; TDone 0 true; HDone 0 true; TDone 0 true; HDone 0 false; Poll 1; Poll 0; TDone 0 true; HDone 0 true; TDone 0 true; HDone 0 true; Release 2; Poll 0; Release 0; Release 2; Poll 1; TDone 0 true; HDone 0 true; TDone 0 false; Release 0; Cancel 1]);
  (false, [Issue; Issue; TDone 0 true; HDone 0 true; Release 0; Release 0; Poll 0; Poll 0; TDone 0 true; HDone 0 false]);
  (true, [Issue; Poll 0; Poll 0; Issue; TDone 0 true; HDone 0 true; Issue; Poll 2; Poll 0]);
  (true, [Issue; Poll 0; Release 0; Poll 0; Release 0; Poll 0; Cancel 0; TDone 0 false; Poll 0; Poll 0; Release 0; Poll 0; Release 0; TDone 0 true; HDone 0 false; Issue; Cancel 1; Issue]);
  (true, [Issue; Release 0; Release 0; Poll 0; Poll 0; Poll 0; TDone 0 false; Issue; TDone 0 true; HDone 0 true]);
  (false, [Issue; TDone 0 true; HDone 0 true; Poll 0; Issue; Poll 0; Release 0; Cancel 1; Issue; Issue; TDone 0 true; HDone 0 true; TDone 0 true; HDone 0 true; Poll 1; Poll 3; TDone 0 false; Release 1; TDone 1 true; HDone 1 true; Poll 2; Cancel 0]);
  (false, [Issue; Poll 0; Issue; Cancel 0; Poll 1; TDone 1 true; HDone 1 true; Cancel 0; Release 0; Release 0; Poll 0; TDone 1 true; HDone 1 true; Poll 0; Poll 0; Release 0]);
  (false, [Issue; Issue; Poll 0; Release 0; Issue; Release 0; Poll 0]);
  (false, [Issue; Release 0; Cancel 0; Issue; TDone 0 true; HDone 0 true; Release 0; TDone 1 true; HDone 1 true; TDone 0 true; HDone 0 true; Release 1; Poll 1; Poll 0; Poll 1; Release 0; Poll 0; Poll 1]);
  (true, [Issue; Poll 0; Release 0; TDone 0 true; HDone 0 true; Poll 0; Poll 0; Issue; Release 0; Issue; Release 0; Poll 1]);
  (false, [Issue; Release 0; Release 0; Release 0; Cancel 0; Issue; TDone 0 true; HDone 0 true; Release 0]);
  (false, [Issue; Poll 0; Issue; Issue; Release 0; TDone 0 true; HDone 0 true; Poll 2; Release 0; Poll 2]);
  (false, [Issue; Poll 0; Release 0; Poll 0; Poll 0; Issue; Poll 1; Issue; Cancel 1; Poll 2; Poll 0; Poll 2; Poll 0; Cancel 1; Poll 1; TDone 1 true; HDone 1 false; TDone 2 true; HDone 2 false]);
  (true, [Issue; Cancel 0; Issue; Poll 0; Poll 1; Cancel 1; Release 0; Release 0; Cancel 1; Poll 0; Poll 0; Release 0; Cancel 0; Poll 1; Release 0; Release 0; Release 0; Poll 1]);
  (false, [Issue; Issue; Release 0; TDone 1 true; HDone 1 true; TDone 1 true; HDone 1 true; Poll 0; Poll 0]);
  (true, [Issue; TDone 0 true; HDone 0 true; Issue; Issue; Issue; Poll 3]);
  (false, [Issue; Release 0; Poll 0; TDone 0 false; Poll 0; TDone 0 true; HDone 0 true; Poll 0; Cancel 0; Cancel 0; Cancel 0; TDone 0 true; HDone 0 true]);
  (false, [Issue; Issue; Poll 1; TDone 1 true; HDone 1 true; Release 0]);
  (true, [Issue; Issue; Issue; Issue; Release 0; Poll 0; Poll 3; Poll 0; TDone 0 true; HDone 0 true; TDone 0 true; HDone 0 true; Release 0; TDone 0 true; HDone 0 true; Cancel 2; Release 1]);
  (false, [Issue; Poll 0; Poll 0; TDone 0 true; HDone 0 true; Issue; Release 0; Poll 0; Cancel 0; Release 0; Release 0; TDone 0 true; HDone 0 false; TDone 0 true; HDone 0 true; Release 0; TDone 0 true; HDone 0 true; Release 0; TDone 0 false]);
  (true, [Issue; Issue; Release 0; TDone 0 true; HDone 0 true; Poll 1; Issue; Release 0]);
  (false, [Issue; Poll 0; Issue; Poll 1; TDone 1 true; HDone 1 true; TDone 0 true; HDone 0 true; Poll 0; Poll 0; Release 1; Release 0]);
  (false, [Issue; TDone 0 true; HDone 0 true; Cancel 0; Cancel 0; Issue; TDone 0 true; HDone 0 true; Poll 1]);
  (false, [Issue; Poll 0; TDone 0 true; HDone 0 true; TDone 0 false; TDone 0 true; HDone 0 true; Issue; Cancel 0; TDone 0 true; HDone 0 true; Issue]);
  (true, [Issue; Poll 0; Poll 0; TDone 0 true; HDone 0 true; Cancel 0; Poll 0; Poll 0]);
  (false, [Issue; TDone 0 true; HDone 0 true; Issue; Poll 0; TDone 0 true; HDone 0 true; Poll 0; TDone 0 true; HDone 0 true]);
  (false, [Issue; Issue; Issue; Poll 0; Release 0; Poll 1; Poll 1; Release 0; Poll 1]);
  (true, [Issue; Release 0; Issue; Issue; Poll 0; Cancel 0; TDone 0 true; HDone 0 false; Poll 0; Poll 2; Poll 1]);
  (false, [Issue; Release 0; Release 0; TDone 0 true; HDone 0 true; Issue; Poll 1; Issue]);
  (true, [Issue; Release 0; Poll 0; Poll 0; Issue; Poll 0; Issue; Poll 1; TDone 0 true; HDone 0 true; Issue; Cancel 1; TDone 0 true; HDone 0 true; Poll 0]);
  (true, [Issue; TDone 0 true; HDone 0 true; TDone 0 true; HDone 0 false; Poll 0; Issue; Poll 1]);
  (true, [Issue; Issue; Release 0; Poll 0; Cancel 1; Poll 1; Poll 1]);
  (true, [Issue; Issue; Poll 0; Release 0; TDone 0 true; HDone 0 true]);
  (true, [Issue; Issue; Poll 1; Cancel 0; TDone 1 true; HDone 1 true; Poll 0; Release 0; TDone 0 true; HDone 0 true; Issue; Release 0; Poll 0; Poll 0; Poll 1; Release 0; Cancel 1; TDone 1 true; HDone 1 true; Poll 0; Release 2]);
  (false, [Issue; Issue; Issue; Cancel 1; Release 0; Poll 0; Poll 2; Poll 2; TDone 2 true; HDone 2 true; Poll 0; Poll 1; Poll 1; Issue; TDone 0 true; HDone 0 true; Poll 1; Release 1; TDone 2 true; HDone 2 true]);
  (true, [Issue; Cancel 0; TDone 0 true; HDone 0 false; TDone 0 true; HDone 0 true; TDone 0 true; HDone 0 false; Cancel 0; Issue; Poll 0; Poll 1; Poll 0; Poll 1]);
  (true, [Issue; TDone 0 true; HDone 0 true; TDone 0 false; Issue; Poll 1; Cancel 1; Cancel 0]);
  (true, [Issue; Issue; TDone 0 true; HDone 0 true; Poll 0; TDone 0 true; HDone 0 true; Poll 1; Poll 0; TDone 1 true; HDone 1 true; Poll 1; Release 0; TDone 0 false; Poll 0; Poll 1; Poll 1; Poll 0; Release 0]);
  (false, [Issue; Poll 0; Release 0; TDone 0 true; HDone 0 true; Release 0; Release 0; TDone 0 true; HDone 0 true]);
  (false, [Issue; Issue; Poll 0; Release 0; Release 0; Cancel 1; Poll 0; Issue; Poll 2; Release 0; Release 0; TDone 2 true; HDone 2 true; Poll 0; Release 0; TDone 0 true; HDone 0 true]);
  (false, [Issue; Cancel 0; Cancel 0; Issue; TDone 0 true; HDone 0 true; Poll 0; Poll 1; TDone 0 true; HDone 0 true; Poll 1; Release 1; Poll 1; Release 1; Release 0; Poll 0; Cancel 0]);
  (false, [Issue; Release 0; TDone 0 true; HDone 0 true; Cancel 0; Issue; Issue; Issue; TDone 2 true; HDone 2 true; Release 1]);
  (true, [Issue; Issue; TDone 0 false; Poll 0; Cancel 0; Poll 0; Release 0; Cancel 1; TDone 0 true; HDone 0 true; Poll 0; Release 0; Poll 0; Release 0; Poll 1; Poll 0; Release 0; Cancel 1]);
  (false, [Issue; Release 0; Cancel 0; TDone 0 true; HDone 0 false; Issue; TDone 0 true; HDone 0 true; Poll 0; Poll 1; TDone 1 true; HDone 1 true; Release 1; Poll 1; TDone 1 true; HDone 1 true; Poll 1; Release 2; Poll 1; Poll 1; Cancel 0]);
  (false, [Issue; Poll 0; TDone 0 true; HDone 0 true; Issue; Poll 0; TDone 0 true; HDone 0 true; Cancel 0; Poll 0; Poll 0; Poll 0]);
  (false, [Issue; TDone 0 true; HDone 0 true; Release 0; Poll 0; Issue; Poll 1; TDone 1 true; HDone 1 true; TDone 1 true; HDone 1 true]);
  (true, [Issue; Poll 0; Release 0; TDone 0 true; HDone 0 false; TDone 0 true; HDone 0 false]);
  (true, [Issue; TDone 0 true; HDone 0 false; Poll 0; Poll 0; Release 0; Release 0]);
  (false, [Issue; Cancel 0; Poll 0; Poll 0; Poll 0; Cancel 0; Issue; Release 0; Issue; Release 0; TDone 0 true; HDone 0 true; Poll 2; Poll 2; TDone 2 false; Issue; Release 0; Release 0; Poll 3]);
  (true, [Issue; TDone 0 true; HDone 0 true; Release 0; TDone 0 true; HDone 0 true; Issue; TDone 1 true; HDone 1 true; Poll 0; Release 1; Cancel 1; Issue; Cancel 2; Release 0; Release 1; Issue; TDone 0 true; HDone 0 true]);
  (true, [Issue; TDone 0 true; HDone 0 true; TDone 0 true; HDone 0 true; Cancel 0; Issue; Issue; Poll 0; Poll 1; Issue; Poll 3; TDone 0 true; HDone 0 true; TDone 0 true; HDone 0 true; TDone 0 true; HDone 0 true; Cancel 1; Release 0; Release 2]);
  (false, [Issue; Cancel 0; Poll 0; Poll 0; Poll 0; TDone 0 true; HDone 0 true; TDone 0 true; HDone 0 true; Cancel 0; Release 1; Issue; TDone 0 true; HDone 0 true; Release 1; Poll 1; Poll 1; Poll 1; Release 1; Poll 0; Release 0]);
  (false, [Issue; TDone 0 true; HDone 0 true; Poll 0; Cancel 0; Release 0; Poll 0; TDone 0 true; HDone 0 true; Issue; Poll 0; Poll 0; Poll 0; TDone 0 true; HDone 0 false; TDone 0 true; HDone 0 true; Poll 0]);
  (true, [Issue; Issue; TDone 1 true; HDone 1 true; TDone 0 true; HDone 0 true; TDone 0 true; HDone 0 false; Release 0; TDone 1 true; HDone 1 true]);
  (false, [Issue; Cancel 0; Poll 0; Issue; Release 0; Release 0; TDone 0 false; Issue; Release 0; Issue; TDone 0 true; HDone 0 true; Poll 1; Release 0]);
  (true, [Issue; TDone 0 true; HDone 0 true; Poll 0; Release 0; TDone 0 true; HDone 0 true; Poll 0; Poll 0; Release 0; Issue; Issue; Poll 2; Release 1; Release 0; Poll 0; Poll 0; Poll 0]);
  (true, [Issue; Poll 0; Issue; Release 0; Issue; Release 0; Poll 1; Poll 1; TDone 1 true; HDone 1 true]);
  (true, [Issue; TDone 0 true; HDone 0 true; Release 0; TDone 0 true; HDone 0 false; Issue; Cancel 1; Release 0; Poll 0; Poll 1; Poll 0; Poll 1]);
  (true, [Issue; Poll 0; Poll 0; Release 0; Release 0; Issue; Poll 0; TDone 0 true; HDone 0 true; Release 0]);
  (false, [Issue; Issue; TDone 0 true; HDone 0 true; Issue; Issue; Poll 2; TDone 2 false; TDone 2 true; HDone 2 true; TDone 2 true; HDone 2 true; Poll 2; Cancel 1; Poll 3]);
  (false, [Issue; Poll 0; Issue; Poll 1; TDone 1 true; HDone 1 true]);
  (true, [Issue; TDone 0 true; HDone 0 true; Poll 0; Issue; Issue]);
  (true, [Issue; Release 0; Poll 0; Release 0; Poll 0; Poll 0; Cancel 0; Poll 0; TDone 0 true; HDone 0 true]);
  (false, [Issue; Release 0; TDone 0 false; TDone 0 true; HDone 0 true; Release 0; Release 0; Issue; Poll 0; Cancel 1; Poll 1; Poll 1; Poll 0; TDone 1 true; HDone 1 true; Release 0; Release 1]);
  (false, [Issue; Issue; Release 0; Issue; TDone 0 true; HDone 0 true; Poll 0; Release 0; Poll 1; Release 0; TDone 1 true; HDone 1 true; Poll 0]);
  (false, [Issue; Issue; Issue; TDone 1 true; HDone 1 true; Issue; Cancel 0; Poll 2; TDone 2 true; HDone 2 true; Cancel 3; Poll 3; Poll 2]);
  (false, [Issue; Cancel 0; Issue; Poll 1; TDone 1 true; HDone 1 true; Issue; Poll 0; TDone 1 true; HDone 1 true; TDone 0 true; HDone 0 true; Release 1; Poll 1; Poll 0; Poll 1; TDone 1 true; HDone 1 true; Release 1; Poll 2]);
  (true, [Issue; Issue; TDone 0 true; HDone 0 true; TDone 0 true; HDone 0 true; TDone 1 true; HDone 1 true; Release 1; Poll 1; Cancel 0]);
  (false, [Issue; Release 0; Release 0; Issue; Release 0; Release 0; Issue; Poll 1; Poll 1; Cancel 0; Issue; Poll 0; TDone 1 false; Release 0; Cancel 1; TDone 0 true; HDone 0 true; Poll 2]);
  (false, [Issue; Release 0; Release 0; Release 0; TDone 0 true; HDone 0 true]);
  (false, [Issue; Poll 0; Poll 0; Poll 0; Issue; Issue; Poll 2; TDone 0 false; Poll 0; Release 0; TDone 0 true; HDone 0 false; Release 0; Cancel 1; Poll 0]);
  (false, [Issue; Issue; Release 0; Issue; Issue; Release 0; Release 0]);
  (false, [Issue; Release 0; Release 0; TDone 0 true; HDone 0 true; Poll 0; Poll 0; Issue; Cancel 0; Poll 0; Poll 1; TDone 1 true; HDone 1 true; Release 0; Issue; Issue; Poll 1; TDone 0 true; HDone 0 true]);
  (true, [Issue; Issue; Poll 0; Poll 0; TDone 0 true; HDone 0 true]);
  (false, [Issue; TDone 0 true; HDone 0 true; Cancel 0; TDone 0 true; HDone 0 true; TDone 0 true; HDone 0 true; Release 2]);
  (true, [Issue; Poll 0; TDone 0 true; HDone 0 true; Cancel 0; Poll 0; Issue]);
  (true, [Issue; TDone 0 true; HDone 0 true; Issue; Poll 0; Poll 1; Release 0; Poll 1; Poll 1; Poll 1; Cancel 0; Poll 1]);
  (true, [Issue; Issue; Poll 1; Issue; Poll 2; Issue]);
  (false, [Issue; Release 0; Release 0; TDone 0 true; HDone 0 true; Release 0; TDone 0 true; HDone 0 true; Issue; TDone 0 true; HDone 0 true; Poll 1; TDone 1 true; HDone 1 false; Cancel 0; TDone 1 true; HDone 1 true]);
  (true, [Issue; Poll 0; Issue; Issue; Poll 1; Poll 0; TDone 1 true; HDone 1 true]);
  (false, [Issue; Cancel 0; Poll 0; Poll 0; Poll 0; Cancel 0; Issue; Issue; TDone 0 true; HDone 0 true; Issue; Release 0; TDone 0 true; HDone 0 true; Poll 2]);
  (true, [Issue; Poll 0; Poll 0; Poll 0; Poll 0; Issue; Poll 0; Cancel 0]);
  (false, [Issue; Release 0; Poll 0; Poll 0; Release 0; Poll 0; Release 0; Issue]);
  (true, [Issue; Poll 0; Poll 0; Release 0; Issue; Poll 0; Poll 0; Poll 1; Poll 0; Cancel 0; Release 0; TDone 1 true; HDone 1 true; Poll 1; Cancel 0]);
  (false, [Issue; Poll 0; Poll 0; Issue; Poll 0; Cancel 1; TDone 0 true; HDone 0 true; Cancel 1; Poll 0; Poll 0; Poll 1; Release 0; TDone 1 true; HDone 1 true; Release 0; Cancel 0; Poll 1; Release 1; Cancel 0]);
  (false, [Issue; TDone 0 false; Cancel 0; TDone 0 true; HDone 0 true; Cancel 0; Issue; Cancel 0; Poll 0; Release 0; Issue; Issue; Poll 0]);
  (false, [Issue; Issue; Poll 1; Poll 0; Poll 0; TDone 1 false; Release 0]);
  (false, [Issue; Issue; Poll 0; Release 0; Poll 1; Release 0; Poll 0; Release 0; Poll 1; TDone 1 false; Poll 0; Poll 1; Cancel 1; Poll 1; Poll 1; Cancel 0]);
  (true, [Issue; TDone 0 true; HDone 0 true; Poll 0; Poll 0; Poll 0; Cancel 0; Poll 0; Release 0; Issue; TDone 0 true; HDone 0 true; TDone 0 true; HDone 0 true; Release 0; Poll 1; TDone 0 false; TDone 0 true; HDone 0 true]);
  (false, [Issue; Poll 0; TDone 0 true; HDone 0 true; Poll 0; Poll 0; Poll 0]);
  (true, [Issue; Poll 0; Poll 0; TDone 0 true; HDone 0 true; Poll 0; Issue; Release 0; Issue; Poll 0; Release 0; Issue; TDone 0 true; HDone 0 true; Cancel 2; Poll 2; TDone 0 true; HDone 0 true; Release 0; Cancel 2; Poll 3]);
  (false, [Issue; Issue; Poll 1; Release 0; Issue; Cancel 2; Poll 1; Release 0; TDone 1 true; HDone 1 true; Release 0; Issue; Release 0; TDone 1 true; HDone 1 false; TDone 1 true; HDone 1 false]);
  (true, [Issue; Release 0; Poll 0; Cancel 0; Issue; Release 0; Issue; Release 0; Poll 1; TDone 1 true; HDone 1 true; Issue; Release 0; Cancel 3]);
  (true, [Issue; Poll 0; Poll 0; TDone 0 true; HDone 0 true; Release 0; Poll 0]);
  (true, [Issue; Release 0; TDone 0 true; HDone 0 true; Issue; Poll 1; TDone 1 true; HDone 1 true; Cancel 1; TDone 1 true; HDone 1 true; TDone 1 true; HDone 1 true; Poll 0; Release 0; Release 2; Release 0; Poll 0; Cancel 1; Release 0; TDone 0 true; HDone 0 true]);
  (true, [Issue; Issue; Poll 0; Poll 0; Poll 0; Poll 0; Poll 0; Issue; Release 0]);
  (true, [Issue; TDone 0 true; HDone 0 true; Issue; Release 0; Issue; TDone 2 true; HDone 2 false]);
  (false, [Issue; Release 0; Poll 0; Cancel 0; Cancel 0; TDone 0 false; TDone 0 true; HDone 0 true; Poll 0; Release 0; Poll 0; Cancel 0; Issue; Issue; Release 0]);
  (false, [Issue; Poll 0; TDone 0 true; HDone 0 true; TDone 0 true; HDone 0 false; TDone 0 true; HDone 0 true; Poll 0; Poll 0; Poll 0; Poll 0; Issue; Poll 0; TDone 0 true; HDone 0 false; Issue; Release 1]);
  (false, [Issue; Issue; Poll 0; Release 0; Release 0; Poll 0; Poll 1; Poll 1; TDone 1 true; HDone 1 false; Cancel 1; TDone 0 true; HDone 0 true; Poll 0; Release 0; Release 0; Poll 1; Release 0]);
  (true, [Issue; Poll 0; Release 0; TDone 0 true; HDone 0 true; Issue; Cancel 0; Poll 1; Issue; Cancel 0; Release 0; Release 0; TDone 1 true; HDone 1 true; Poll 2; Release 1; Poll 1; Poll 0; TDone 0 false]);
  (true, [Issue; Poll 0; Issue; Poll 0; TDone 0 true; HDone 0 true; Poll 0; TDone 0 false; Release 0]);
  (true, [Issue; Poll 0; Issue; Poll 0; Issue]);
  (false, [Issue; Poll 0; Cancel 0; Issue; Poll 0; Poll 1; Poll 1; Poll 0; Poll 0; Cancel 0]);
  (false, [Issue; Poll 0; Release 0; Poll 0; Poll 0; Issue; Cancel 0; Poll 0; Release 0; Issue]);
  (false, [Issue; Cancel 0; Poll 0; Poll 0; Poll 0; Cancel 0; TDone 0 true; HDone 0 false; Issue; TDone 0 true; HDone 0 true; TDone 0 true; HDone 0 true; Cancel 1; TDone 0 true; HDone 0 true; TDone 0 true; HDone 0 true]);
  (false, [Issue; TDone 0 true; HDone 0 true; Poll 0; Issue; Issue; Release 0; Cancel 2; TDone 0 true; HDone 0 true; Issue; Poll 2; Release 0; TDone 2 true; HDone 2 true; Release 0; Poll 0; Release 2]);
  (false, [Issue; TDone 0 true; HDone 0 false; TDone 0 true; HDone 0 true; Cancel 0; TDone 0 true; HDone 0 true; Release 0; TDone 0 true; HDone 0 true; Cancel 0; Issue; Poll 0]);
  (false, [Issue; Poll 0; Cancel 0; Issue; Release 0; Release 0; Poll 0; Issue; Poll 1; TDone 1 true; HDone 1 true; Release 0; Release 0; Cancel 2; Release 0; Poll 0]);
  (true, [Issue; Issue; TDone 1 true; HDone 1 true; Issue; Release 0; TDone 2 true; HDone 2 true; TDone 1 true; HDone 1 true; Release 0; Poll 0; Release 2; Poll 2; Poll 2; Release 0; Cancel 2; Poll 0; Cancel 2]);
  (true, [Issue; Issue; Cancel 0; Release 0; Poll 1; Poll 0; Poll 0; TDone 1 true; HDone 1 true; Release 0; Poll 0; Poll 0; TDone 0 true; HDone 0 true; Poll 1; Poll 1; Poll 0; Poll 0]);
  (true, [Issue; Issue; TDone 1 true; HDone 1 true; Poll 0; Cancel 1; TDone 0 true; HDone 0 true; Poll 1; TDone 0 true; HDone 0 true]);
  (true, [Issue; TDone 0 true; HDone 0 true; Release 0; Poll 0; Poll 0; Cancel 0; Poll 0; Release 0; Issue; TDone 0 true; HDone 0 false; TDone 0 true; HDone 0 true; Issue; Cancel 2; TDone 0 true; HDone 0 true; Poll 1]);
  (false, [Issue; Poll 0; TDone 0 false; Release 0; TDone 0 true; HDone 0 true; Poll 0; Issue; TDone 0 false; TDone 0 true; HDone 0 true]);
  (false, [Issue; Cancel 0; Issue; Issue; Cancel 1; Poll 0; Poll 2; TDone 0 true; HDone 0 true; TDone 2 true; HDone 2 true; Release 0; Release 1]);
  (true, [Issue; Poll 0; Poll 0; Release 0; TDone 0 true; HDone 0 true; Poll 0; Poll 0; TDone 0 true; HDone 0 true; TDone 0 true; HDone 0 true; Poll 0; Cancel 0; TDone 0 true; HDone 0 true; Issue; Cancel 1; Issue; Poll 2]);
  (true, [Issue; Issue; Release 0; Release 0; TDone 1 true; HDone 1 true; Release 0; Cancel 0; Issue; Issue; Poll 2; Release 0; Poll 3; Poll 0; Poll 3; TDone 3 false; TDone 2 true; HDone 2 true; Release 1; Release 1]);
  (false, [Issue; Issue; TDone 1 true; HDone 1 true; Release 0; Poll 1; Poll 0; Release 0; Poll 1; TDone 1 true; HDone 1 true; Cancel 1; Release 0; Cancel 1]);
  (false, [Issue; TDone 0 true; HDone 0 true; TDone 0 false; Poll 0; Poll 0; Issue; Release 0; Release 0; Poll 0; Poll 1; TDone 0 true; HDone 0 true; Poll 1; TDone 1 true; HDone 1 true; TDone 0 true; HDone 0 false; Release 0; Poll 0; TDone 0 true; HDone 0 true; Poll 1]);
  (true, [Issue; Issue; Issue; Release 0; Issue; Poll 3; TDone 3 true; HDone 3 true; Poll 1; TDone 3 false]);
  (false, [Issue; Release 0; Issue; Issue; TDone 0 true; HDone 0 true; Release 0; Poll 2; TDone 2 true; HDone 2 true]);
  (true, [Issue; Issue; Issue; Release 0; TDone 1 true; HDone 1 true; Poll 2; TDone 2 true; HDone 2 false; Release 0; Cancel 2; TDone 2 true; HDone 2 true]);
  (false, [Issue; TDone 0 true; HDone 0 true; TDone 0 true; HDone 0 true; Poll 0; Poll 0; Release 0; Poll 0; Poll 0; Poll 0; Issue; Poll 0; Release 1; Issue; Poll 1]);
  (true, [Issue; TDone 0 true; HDone 0 true; Poll 0; Release 0; Cancel 0; Issue; Poll 1; Poll 0; TDone 1 true; HDone 1 true; Issue; Poll 2; Release 0; Release 1; Issue; Poll 3; Poll 2; Release 0]);
  (false, [Issue; Release 0; Cancel 0; Release 0; Poll 0; Issue; TDone 0 true; HDone 0 true; Poll 1; Release 0; Issue]);
  (false, [Issue; Issue; TDone 1 true; HDone 1 true; Cancel 1; Poll 1; Poll 0; Release 0; Poll 1; Cancel 0; Release 0; TDone 0 true; HDone 0 false]);
  (true, [Issue; Poll 0; Cancel 0; TDone 0 true; HDone 0 true; Poll 0; TDone 0 true; HDone 0 true]);
  (true, [Issue; Release 0; Issue; Issue; TDone 0 true; HDone 0 true; Poll 2; TDone 2 true; HDone 2 true; TDone 2 true; HDone 2 true; Poll 2; Release 2; Poll 0]);
  (true, [Issue; Release 0; TDone 0 true; HDone 0 true; Poll 0; Release 0; Issue; Release 0; Poll 0; Poll 1]);
  (true, [Issue; Poll 0; Poll 0; TDone 0 false; Poll 0; TDone 0 true; HDone 0 true; TDone 0 true; HDone 0 true; Issue; Poll 0]);
  (true, [Issue; Cancel 0; Poll 0; Poll 0; Issue; Poll 0; Poll 1; Poll 0]);
  (false, [Issue; Poll 0; Release 0; Poll 0; TDone 0 true; HDone 0 true; TDone 0 true; HDone 0 true; Release 0; TDone 0 true; HDone 0 true; Issue; TDone 0 true; HDone 0 false; TDone 0 true; HDone 0 true; TDone 0 true; HDone 0 true; TDone 0 true; HDone 0 true; Release 3; Poll 1; Poll 0; Release 3; TDone 0 true; HDone 0 true]);
  (true, [Issue; Poll 0; Issue; TDone 0 false; TDone 0 true; HDone 0 true; Cancel 1; Poll 1]);
  (true, [Issue; Issue; Release 0; Issue; Cancel 2; Poll 2; Poll 0; Release 0; Poll 1; Poll 0; Cancel 1]);
  (false, [Issue; Poll 0; TDone 0 false; Cancel 0; Issue; Release 0; Poll 1; TDone 0 true; HDone 0 true; Issue; Poll 1; Issue; TDone 1 true; HDone 1 true]);
  (false, [Issue; Poll 0; Release 0; TDone 0 true; HDone 0 true; Poll 0; Release 0; TDone 0 true; HDone 0 true; Issue; Issue; Issue; Poll 0; Release 0; Poll 3; Cancel 2; Poll 0; TDone 3 true; HDone 3 true]);
  (true, [Issue; TDone 0 true; HDone 0 true; Issue; Release 0; Release 0; Poll 0; Release 0; Poll 0; Release 0; Release 0; Poll 1; Release 0; Release 0; Poll 1; Release 0]);
  (true, [Issue; Issue; Cancel 0; TDone 1 true; HDone 1 true; Poll 0; Cancel 0; Release 0; Release 0; TDone 0 true; HDone 0 true; TDone 0 false; Poll 0; Poll 0; Poll 1; Poll 1; Release 0; Poll 1; Release 1]);
  (true, [Issue; TDone 0 true; HDone 0 true; Cancel 0; Release 0; TDone 0 true; HDone 0 true; TDone 0 true; HDone 0 true; TDone 0 false; TDone 0 true; HDone 0 true; Poll 0; Poll 0; Issue; TDone 0 false; Poll 0; Release 3; Issue; TDone 0 true; HDone 0 true; Issue]);
  (false, [Issue; Issue; Poll 1; Release 0; TDone 1 false; Poll 1; Poll 1; Release 0; Issue; Issue; TDone 1 true; HDone 1 true; Release 0; Poll 2; Poll 2; Poll 2; Cancel 1]);
  (false, [Issue; Issue; Poll 1; TDone 1 true; HDone 1 true; Cancel 1; Issue; TDone 1 true; HDone 1 true; Release 1; Poll 0; Poll 2]);
  (false, [Issue; TDone 0 false; Issue; TDone 0 true; HDone 0 false; Poll 0; Poll 0; TDone 0 true; HDone 0 false; Poll 1; TDone 1 true; HDone 1 true; Release 0; Poll 0; Poll 1; Cancel 0]);
  (true, [Issue; TDone 0 true; HDone 0 true; Issue; Issue; Cancel 2; Poll 2; Poll 2; Release 0; Cancel 0; Release 0; Poll 0]);
  (true, [Issue; TDone 0 false; Release 0; TDone 0 false; TDone 0 true; HDone 0 true; Issue; Cancel 1]);
  (false, [Issue; Poll 0; TDone 0 true; HDone 0 false; Issue; TDone 0 true; HDone 0 true; Poll 1; Poll 1; Poll 1; Issue; Poll 1; Issue; Poll 3; Release 0; Release 0; Cancel 0; Poll 1]);
  (false, [Issue; Poll 0; Release 0; Cancel 0; Issue]);
  (false, [Issue; Poll 0; Poll 0; Release 0; Release 0; Issue; Issue; Poll 0]);
  (true, [Issue; Poll 0; Issue; Release 0; Poll 1; Cancel 1; Issue; Issue; Release 0; Release 0; TDone 1 true; HDone 1 true; TDone 1 false; Release 0; Poll 0; Cancel 0; Cancel 0; TDone 0 true; HDone 0 true; Release 0]);
  (true, [Issue; TDone 0 true; HDone 0 true; TDone 0 true; HDone 0 true; Poll 0; Issue; TDone 0 true; HDone 0 true; Release 0; Poll 0; TDone 0 true; HDone 0 true; TDone 0 true; HDone 0 true; Issue; Issue; TDone 0 true; HDone 0 true; Release 4; Poll 3; Poll 3; Poll 2]);
  (true, [Issue; Issue; TDone 0 true; HDone 0 true; Poll 0; TDone 0 true; HDone 0 true]);
  (false, [Issue; Issue; Poll 1; Issue; Poll 1; Poll 1; Poll 0; Poll 0; Poll 0; Poll 0; Poll 1; Release 0; Poll 0; Cancel 2; Poll 1; Poll 1; Release 0]);
  (true, [Issue; Poll 0; Cancel 0; TDone 0 true; HDone 0 true; TDone 0 true; HDone 0 true; Issue; Poll 1; TDone 0 true; HDone 0 true; Poll 1; TDone 1 false; Issue; Cancel 0; Issue; Poll 2; Poll 2; Cancel 2; Poll 2; Release 0]);
  (false, [Issue; Release 0; TDone 0 false; Poll 0; Poll 0; TDone 0 true; HDone 0 true; Release 0; Poll 0; Poll 0; TDone 0 true; HDone 0 true; Issue; Poll 1]);
  (true, [Issue; Poll 0; Poll 0; Release 0; Poll 0; TDone 0 true; HDone 0 true; Poll 0; Poll 0; TDone 0 true; HDone 0 true]);
  (false, [Issue; TDone 0 false; Poll 0; Cancel 0; Issue; Release 0; Issue; TDone 0 true; HDone 0 true; Release 0; Release 0]);
  (false, [Issue; TDone 0 true; HDone 0 true; TDone 0 true; HDone 0 true; TDone 0 true; HDone 0 true; Release 2]);
  (false, [Issue; Issue; TDone 0 true; HDone 0 true; Release 0; TDone 1 true; HDone 1 false; Release 0; Release 0; Release 0; Poll 1]);
  (false, [Issue; Cancel 0; Poll 0; Poll 0; Release 0; TDone 0 true; HDone 0 true; Issue; Release 0]);
  (false, [Issue; Issue; TDone 1 true; HDone 1 true; Poll 0; TDone 0 true; HDone 0 true; Poll 1; TDone 0 true; HDone 0 true; Release 2; Poll 1; Poll 1; Poll 1; Release 1; Release 1; TDone 1 true; HDone 1 true]);
  (false, [Issue; Release 0; Poll 0; TDone 0 true; HDone 0 true; TDone 0 true; HDone 0 true; Issue; TDone 0 true; HDone 0 true; Issue; TDone 0 true; HDone 0 true; Poll 2; TDone 0 true; HDone 0 true; TDone 0 true; HDone 0 true; TDone 0 true; HDone 0 true; Release 0; Release 2; TDone 2 true; HDone 2 true]);
  (false, [Issue; Poll 0; Release 0; Release 0; Cancel 0; Issue; TDone 0 true; HDone 0 true; Issue; TDone 0 true; HDone 0 true; TDone 0 true; HDone 0 false]);
  (false, [Issue; Issue; TDone 0 true; HDone 0 true; Release 0; Release 0]);
  (true, [Issue; Issue; TDone 0 true; HDone 0 true; Poll 1; Poll 1; TDone 1 true; HDone 1 true; Release 0; Poll 0; Poll 1; Release 0]);
  (true, [Issue; Release 0; Release 0; Poll 0; Issue; Issue; TDone 0 true; HDone 0 true; Cancel 1]);
  (false, [Issue; Release 0; Issue; Poll 0; Issue; Release 0; Issue; Cancel 1; TDone 0 true; HDone 0 true; Release 0; Poll 0; TDone 0 true; HDone 0 true; Poll 3; Poll 2; Poll 2; Cancel 2; TDone 3 true; HDone 3 true; Release 0]);
  (true, [Issue; Release 0; Poll 0; Poll 0; TDone 0 true; HDone 0 true; Release 0]);
  (true, [Issue; Poll 0; Issue; Release 0; Poll 1; Poll 1; TDone 1 true; HDone 1 false; Release 0; Issue; TDone 0 true; HDone 0 true; TDone 1 true; HDone 1 true; Release 1; TDone 1 true; HDone 1 false; Poll 1; Poll 0; Issue; Poll 0; Poll 2]);
  (false, [Issue; Issue; Release 0; Poll 1; Release 0; Poll 1; Poll 0; Poll 1; Poll 0; Poll 0; TDone 1 true; HDone 1 true; Poll 1]);
  (true, [Issue; Release 0; Issue; Release 0; Issue]);
  (true, [Issue; TDone 0 true; HDone 0 true; Poll 0; Poll 0; Issue]);
  (true, [Issue; Issue; Poll 0; TDone 0 true; HDone 0 true; Release 0; TDone 0 true; HDone 0 true; Poll 0]);
  (true, [Issue; TDone 0 true; HDone 0 true; TDone 0 true; HDone 0 true; Issue; TDone 1 true; HDone 1 true; Release 1; Poll 1; Cancel 0; Release 1; TDone 1 true; HDone 1 true; Issue; TDone 1 false; Poll 0; Release 3; Poll 2; TDone 2 true; HDone 2 true; Release 3; Cancel 0]);
  (false, [Issue; Poll 0; TDone 0 true; HDone 0 true; Release 0; Poll 0; Poll 0; Issue; Poll 1; Release 0; Cancel 1; Poll 0]);
  (false, [Issue; TDone 0 true; HDone 0 true; Poll 0; Poll 0; Issue; TDone 0 false; Release 0; Release 0; Issue]);
  (true, [Issue; Issue; Cancel 1; Release 0; Issue; Release 0]);
  (true, [Issue; TDone 0 true; HDone 0 true; Issue; Poll 1; Poll 1; Poll 1; Poll 1; Issue; Poll 0; Release 0; Poll 0; Poll 0; Poll 1; Poll 2; Poll 0; TDone 2 false]);
  (false, [Issue; Issue; TDone 1 true; HDone 1 true; TDone 1 false; Cancel 0; Issue; Poll 1; Release 0; Poll 1; Poll 1; Cancel 2; Release 0; Cancel 0; Poll 1; Cancel 2; Poll 1; TDone 1 true; HDone 1 true]);
  (true, [Issue; Release 0; TDone 0 true; HDone 0 true; Poll 0; Poll 0; Issue; Poll 0]);
  (false, [Issue; Issue; Poll 0; TDone 0 true; HDone 0 true; Poll 0; Poll 0; Cancel 1; TDone 0 true; HDone 0 true; TDone 0 true; HDone 0 true; Poll 1; Poll 0; TDone 1 true; HDone 1 true; Poll 1; TDone 0 true; HDone 0 true; Release 1; Poll 0]);
  (true, [Issue; TDone 0 true; HDone 0 true; Release 0; TDone 0 true; HDone 0 true; Issue; Poll 1; Poll 1; TDone 1 true; HDone 1 true]);
  (true, [Issue; Issue; TDone 0 true; HDone 0 false; Release 0; Poll 0]);
  (false, [Issue; TDone 0 true; HDone 0 true; Poll 0; Poll 0; Poll 0; TDone 0 true; HDone 0 true]);
  (true, [Issue; Poll 0; Release 0; Poll 0; Poll 0; TDone 0 true; HDone 0 true; Release 0; Issue; Cancel 1; Issue; TDone 0 true; HDone 0 true; Poll 2; Release 1; Poll 1]);
  (true, [Issue; Release 0; Release 0; Poll 0; Release 0; Issue; TDone 0 true; HDone 0 true; Poll 0; Poll 0; Release 0; Release 0; Issue; Poll 2; Poll 2; Cancel 2; Release 0; Cancel 2; TDone 2 true; HDone 2 true]);
  (false, [Issue; Issue; Cancel 1; TDone 1 true; HDone 1 true; Release 0; Release 0; Cancel 0; Cancel 0; Issue; TDone 2 true; HDone 2 true; Release 1; Poll 1; TDone 1 true; HDone 1 true; Release 1; TDone 1 true; HDone 1 true; Issue; Poll 3]);
  (false, [Issue; Issue; TDone 1 true; HDone 1 true; Release 0; TDone 0 false]);
  (true, [Issue; Poll 0; Poll 0; Poll 0; Poll 0; Release 0; Cancel 0; Release 0; Poll 0; TDone 0 true; HDone 0 true; Poll 0; Poll 0; Poll 0]);
  (false, [Issue; Release 0; Poll 0; Issue; TDone 0 true; HDone 0 true; TDone 0 false]);
  (true, [Issue; Poll 0; Release 0; TDone 0 true; HDone 0 true; Issue; Issue; Release 0]);
  (false, [Issue; Poll 0; Poll 0; Issue; Poll 0; TDone 0 true; HDone 0 true; Poll 1; Poll 1; Cancel 0; Release 0; Release 0; TDone 0 true; HDone 0 true]);
  (false, [Issue; Issue; Cancel 1; TDone 0 true; HDone 0 true; Release 0; Release 0; Poll 0; TDone 0 true; HDone 0 true; Poll 0; Release 0; Poll 0; Poll 1; Poll 1; Poll 1; TDone 0 false; Poll 1]);
  (false, [Issue; Poll 0; Release 0; Issue; Release 0; TDone 0 true; HDone 0 true; TDone 0 true; HDone 0 true; Poll 0; TDone 0 true; HDone 0 true; Poll 1; Cancel 0; Poll 1]);
  (true, [Issue; Poll 0; Poll 0; Poll 0; TDone 0 true; HDone 0 true; Poll 0; Issue; Poll 0; TDone 0 true; HDone 0 true; TDone 0 true; HDone 0 true; Release 1; TDone 0 false; TDone 0 true; HDone 0 true; Release 1; Cancel 1]);
  (false, [Issue; Issue; TDone 0 true; HDone 0 true; Poll 1; TDone 1 true; HDone 1 true; Poll 1; Release 1; Release 0]);
  (true, [Issue; Release 0; TDone 0 true; HDone 0 true; Release 0; TDone 0 true; HDone 0 true; Issue; Poll 1; TDone 1 true; HDone 1 true; TDone 1 true; HDone 1 true; Release 3]);
  (false, [Issue; Release 0; Poll 0; Issue; Release 0; Issue; Release 0; Cancel 0; Poll 0; Issue; TDone 0 true; HDone 0 true; Poll 3; TDone 3 true; HDone 3 true]);
  (true, [Issue; Issue; TDone 0 false; Release 0; Poll 0]);
  (true, [Issue; TDone 0 true; HDone 0 true; Issue; Poll 1; Issue]);
  (true, [Issue; TDone 0 true; HDone 0 true; Issue; Release 0; Poll 1; Release 0; TDone 1 true; HDone 1 true; Issue; Poll 0; Release 1; Poll 1; Release 1; Release 1; TDone 0 true; HDone 0 true; TDone 1 true; HDone 1 true]);
  (false, [Issue; Poll 0; Release 0; Issue; Poll 1; Cancel 0; TDone 1 false; Release 0; Issue; Release 0; TDone 1 true; HDone 1 true; Release 0; TDone 1 true; HDone 1 true; Cancel 1; Poll 0]);
  (true, [Issue; Cancel 0; Poll 0; Poll 0; TDone 0 false; Release 0; Poll 0; Issue; TDone 0 true; HDone 0 true; Poll 1; Issue; Issue; Poll 1; Release 0; Cancel 3; Poll 0]);
  (false, [Issue; Cancel 0; TDone 0 true; HDone 0 false; Release 0; TDone 0 true; HDone 0 true; Cancel 0; Cancel 0; TDone 0 true; HDone 0 true; Poll 0; TDone 0 true; HDone 0 true; TDone 0 true; HDone 0 true; TDone 0 true; HDone 0 false; Release 3]);
  (true, [Issue; Issue; TDone 1 true; HDone 1 true; Poll 0; Issue; Cancel 0; Release 0; Release 0]);
  (true, [Issue; Issue; Poll 1; Release 0; Poll 1; Cancel 1; Release 0; TDone 1 true; HDone 1 true; Release 0; TDone 1 true; HDone 1 true]);
  (false, [Issue; Poll 0; TDone 0 true; HDone 0 true; Issue; Poll 0; Poll 1; Issue; Poll 0; Poll 0; Poll 0; Issue; Poll 0; Poll 1; Release 0; Poll 0; TDone 0 false; Poll 0]);
  (false, [Issue; Poll 0; Issue; Release 0; Cancel 1; Poll 0; Poll 0; Release 0; Issue; Release 0; Release 0; Release 0; Release 0; Poll 1; Cancel 0; Release 0; Release 0; TDone 1 true; HDone 1 true]);
  (false, [Issue; Release 0; Poll 0; Poll 0; Poll 0; Issue; Poll 1; Issue; Poll 1; Poll 2; Poll 1; TDone 1 true; HDone 1 true; Poll 2; Release 0; Release 0; TDone 1 true; HDone 1 true; Poll 2; Poll 2]);
  (false, [Issue; Cancel 0; Issue; Poll 1; Issue; Cancel 0; Poll 1]);
  (true, [Issue; TDone 0 true; HDone 0 true; Cancel 0; Cancel 0; Issue; TDone 1 true; HDone 1 true; Poll 0; Poll 1]);
  (false, [Issue; Poll 0; Release 0; Poll 0; Cancel 0; Release 0; Cancel 0; Release 0; Poll 0; TDone 0 true; HDone 0 true; Issue; Poll 1; Cancel 1; Poll 1; Poll 1; Poll 1; Release 0; Release 0]);
  (true, [Issue; Issue; Release 0; Issue; Poll 1; Cancel 1; Issue; Release 0; Release 0; Poll 2; TDone 1 true; HDone 1 false; Cancel 1; TDone 1 true; HDone 1 true; Poll 3; TDone 1 true; HDone 1 false; TDone 2 true; HDone 2 true; TDone 3 true; HDone 3 true; TDone 2 true; HDone 2 true]);
  (true, [Issue; Poll 0; Issue; Release 0; Release 0; Poll 0; TDone 0 true; HDone 0 true; Release 0; TDone 0 true; HDone 0 true; Release 0; TDone 0 true; HDone 0 true; Poll 1; Release 1; Poll 0; Release 2; Poll 1; Release 2]);
  (true, [Issue; Cancel 0; Poll 0; Cancel 0; Issue; Release 0; TDone 0 true; HDone 0 true; TDone 0 true; HDone 0 true; TDone 0 true; HDone 0 true; Release 0; Release 2; TDone 0 true; HDone 0 true; Poll 0; Poll 1; Poll 0; Poll 0; TDone 0 true; HDone 0 true]);
  (true, [Issue; TDone 0 true; HDone 0 true; Release 0; Issue; TDone 1 true; HDone 1 true; Poll 0; Poll 1; Release 0; Poll 0; Release 1; Release 1; TDone 0 true; HDone 0 true])
].

Example overlap_with_pool_model : forallb overlap_ok overlap_cases = true.
Proof. vm_compute. reflexivity. Qed.
