(* Correspondence glue for M-SERVER: the harness' event log against the model's trace.
   Between two quiescent points the order in which independent tasks log is scheduler business;
   what is compared is, for every stretch between consecutive OQuiet marks, the multiset of
   observable events (so: which connection was accepted / spawned / told / finished / served, the
   server future's result, and in which stretch each of these happened). *)
From HD Require Import common.Base server.Model server.Spec.

Record case := mkCase { k_cfg : cfg; k_evs : list ev }.
Definition obs := list oev.

Definition model_obs (k : case) : obs := trace (run (k_cfg k) (k_evs k)).

Definition enc (o : oev) : N :=
  let f (t : N) (c : nat) := (t * 4096 + N.of_nat c)%N in
  match o with
  | OConnect c => f 1 c | OCancel => 2 | OLost => 3 | OMakeArm => 4 | OSignal => 5
  | OBegin c => f 6 c | OEnvDone c => f 7 c | OFault c => f 8 c
  | OAccept c => f 9 c | OAcceptErr => 10 | OSpawn c => f 11 c | OTold c => f 12 c
  | ODone c => f 13 c | OHandler c => f 14 c | OResp c => f 15 c | ORefused c => f 16 c
  | OServer true => 17 | OServer false => 18 | OQuiet => 19
  end%N.

Fixpoint insertN (x : N) (l : list N) : list N :=
  match l with
  | [] => [x]
  | y :: t => if N.leb x y then x :: l else y :: insertN x t
  end.
Definition sortN (l : list N) : list N := fold_right insertN [] l.

Fixpoint segs (cur : list N) (tr : list oev) : list (list N) :=
  match tr with
  | [] => [sortN cur]
  | OQuiet :: t => sortN cur :: segs [] t
  | o :: t => segs (enc o :: cur) t
  end.

Definition obs_eqb (a b : obs) : bool := list_eqb (list_eqb N.eqb) (segs [] a) (segs [] b).

Definition check_all_with (mon : list oev -> bool) (cs : list (case * obs)) : list N * list N :=
  (falses (map (fun co => obs_eqb (model_obs (fst co)) (snd co)) cs),
   falses (map (fun co => mon (snd co)) cs)).
Definition check_all_C07 := check_all_with mon_C07.
Definition check_all_C09 := check_all_with mon_C09.
