(* M-SERVER — executable model of the accept loop, graceful shutdown and the connection drivers.

   Mirrors (REPAIRED tree: D2 and D14 fixed):
     src/server/mod.rs        Serving::poll_once (Preparing / Accepting / Making), Serving::poll,
                              GracefulShutdown::poll (signal polled first, then `finished` — dead
                              code, never ready while the value holds a receiver —, then poll_once, in
                              a greedy loop), close(): the shutdown watch is closed when the signal
                              fires AND when the GracefulShutdown value is dropped for any other reason
     src/server/conn/drivers.rs ConnectionDriver::poll (errors swallowed),
                              GracefulConnectionDriver::poll (poll conn; on a closed watch call
                              graceful_shutdown once — Fuse — and keep polling)
     src/server/conn/auto.rs  UpgradableConnection::graceful_shutdown (cancel while sniffing)
     src/stream/duplex.rs     DuplexIncoming::poll_accept / DuplexConnectionRequest::ack (a request
                              whose client went away is skipped), end of all clients = listener lost
     src/stream/unix.rs       accept of a peer with a non-UTF-8 path = an ordinary connection
     src/server/conn/tls/acceptor.rs  the handshake is not in the accept path: a TLS connection is an
                              ordinary connection whose first bytes are the handshake
   What hyper does with a connection after graceful_shutdown / garbage / a handler error is oracle O5:
   it is written down here as observed (hyper 1.6) and compared on every correspondence case:
   h1 told while fresh or idle closes at once; told with a cut FIRST head it waits for the head and
   serves it, with a cut head on a kept-alive connection it closes ([c_kept]); told with running
   exchanges it finishes them and closes; h2 the same per stream; a handler error ends an h1
   connection and only resets the stream on h2; an HTTP/2-only server that has not yet seen the
   complete client preface only notes close_pending and stays open ([h2silent], known finding D18).
   The signal may also resolve INSIDE the accept loop (EMakeSignal: the make-service future of the
   connection being admitted resolves it); GracefulShutdown::poll polls it at the top of every
   iteration, so the connection in State::Making is still spawned and nothing after it is accepted.
   The server-side duplex buffer cap and the buffer size a client asks for (incl. 0) are abstracted
   away: the harness varies them, the observable behaviour must not depend on them.
   Environment rules shared with the harness: connection id = order of the EConnect events; actions
   on a missing / gone / closed connection do nothing; HTTP/1 clients have one request at a time; once
   the watch is closed no new request is begun; every action on a connection settles first.

   One run = a list of environment events [ev]; the model emits the observable trace [oev].
   Everything is a function [state -> state]; the trace is carried in the state (newest first). *)
From HD Require Import common.Base.

Inductive proto := PH1 | PH2 | PAuto.
(* what the client of a connection does: silent raw socket / hyper HTTP/1 client / hyper HTTP/2
   client (preface sent on connect) / HTTP/2 client whose writes are cut after 10 bytes *)
Inductive kind := KRaw | KH1 | KH2 | KCut.

Record cfg := mkCfg { g_graceful : bool; g_proto : proto }.

Inductive ev :=
| EConnect (k : kind)     (* a client queues a connect and waits for the ack *)
| ECancelled              (* a client queues a connect and goes away (per-connection fault) *)
| EConnectDead            (* tcp / unix: a client completes the transport-level connect and resets or
                             closes before the server accepts: the acceptor will hand over a dead
                             connection (per-connection fault) *)
| ELost                   (* every client handle is dropped: the listener is lost *)
| EMakeFail               (* the make-service will fail for the next connection *)
| ESignal                 (* the shutdown signal resolves *)
| EMakeSignal (n : nat)   (* arm: the make-service resolves the shutdown signal while it admits the
                             (n+1)-th connection from now (the signal resolves INSIDE the accept loop) *)
| ESettle                 (* the server future and every driver run until nothing is ready *)
| EPartial (c : nat)      (* client c begins a request but only 10 bytes of the head get out *)
| EReq (c : nat)          (* client c sends a complete head (or completes the cut one) *)
| EStep (c : nat)         (* oldest running request of c: body rest / handler released / response finished *)
| EDisconnect (c : nat)   (* fault: client c drops the connection *)
| EGarbage (c : nat)      (* fault: raw client c sends bytes that are no protocol *)
| EHandlerErr (c : nat)   (* fault: the handler of c's oldest request returns an error *)
| EKeepFuture.            (* the caller keeps the completed serving future alive (instead of dropping it at
                             once): the listener inside it stays open, connects still queued are never
                             answered *)

Inductive oev :=
(* echo of the environment *)
| OConnect (c : nat) | OCancel | OLost | OMakeArm | OSignal
| OBegin (c : nat)        (* client c began a request *)
| OEnvDone (c : nat)      (* the environment did the last thing one request of c needs *)
| OFault (c : nat)
(* reactions of the server *)
| OAccept (c : nat)       (* the acceptor handed connection c to the accept loop *)
| OAcceptErr              (* the acceptor handed an error to the accept loop *)
| OSpawn (c : nat)        (* the executor received the driver of c *)
| OTold (c : nat)         (* graceful_shutdown was called on c *)
| ODone (c : nat)         (* the driver of c finished (connection future complete, stream dropped) *)
| OHandler (c : nat)      (* the request handler was invoked on c *)
| OResp (c : nat)         (* client c received a complete response *)
| ORefused (c : nat)      (* client c's connect failed *)
| OServer (ok : bool)     (* the serving future completed *)
| OQuiet.                 (* nothing is ready any more *)

Inductive phase :=
| Queued      (* connect request in the listener's queue (or about to fail) *)
| Refused     (* connect failed *)
| Dropped     (* accepted, then dropped with the accept loop in state Making (make-service failure) *)
| Sniffing    (* auto: protocol not detected yet *)
| Open        (* Idle / InFlight n / Draining n: see [view] *)
| Closed.

Record conn := mkConn {
  c_kind : kind;
  c_ph : phase;
  c_told : bool;          (* the driver's fused shutdown future has fired: graceful_shutdown was called *)
  c_cut : bool;           (* an HTTP/1 request head is cut: begun, handler not invoked yet *)
  c_gate : bool;          (* KCut: the client's writes are still cut (partial preface) *)
  c_infl : list nat;      (* environment steps left (3,2,1) for each request whose handler runs, oldest first *)
  c_gone : bool;          (* the client disconnected *)
  c_faulty : bool;        (* a per-connection fault was injected here *)
  c_kept : bool           (* an exchange has completed here: hyper h1 is in keep-alive state *)
}.

(* the abstract connection machine of DESIGN 3.9 as a view of the record *)
Inductive cview := VNone | VSniffing | VIdle | VInFlight (n : nat) | VDraining (n : nat) | VClosed.
Definition view (x : conn) : cview :=
  match c_ph x with
  | Sniffing => VSniffing
  | Open => if c_told x then VDraining (length (c_infl x))
            else match c_infl x with [] => VIdle | l => VInFlight (length l) end
  | Closed => VClosed
  | _ => VNone
  end.

Inductive qent := QLive (c : nat) | QDead.
(* Making is entered and left inside one poll (the make-service future is ready at once) *)
Inductive sstate := SPreparing | SAccepting | SDone (ok : bool).

Record state := mkSt {
  s_srv : sstate;
  s_fired : bool;
  s_lost : bool;
  s_armed : bool;
  s_sigarm : option nat;  (* the make-service will resolve the signal: connections still to admit before *)
  s_keep : bool;          (* the completed serving future is kept alive by the caller *)
  s_queue : list qent;
  s_conns : list conn;
  s_out : list oev
}.

Definition init : state := mkSt SPreparing false false false None false [] [] [].

(* ---- setters *)
Definition emit (o : oev) (s : state) : state :=
  mkSt (s_srv s) (s_fired s) (s_lost s) (s_armed s) (s_sigarm s) (s_keep s) (s_queue s) (s_conns s) (o :: s_out s).
Definition set_srv (v : sstate) (s : state) : state :=
  mkSt v (s_fired s) (s_lost s) (s_armed s) (s_sigarm s) (s_keep s) (s_queue s) (s_conns s) (s_out s).
Definition set_fired (v : bool) (s : state) : state :=
  mkSt (s_srv s) v (s_lost s) (s_armed s) (s_sigarm s) (s_keep s) (s_queue s) (s_conns s) (s_out s).
Definition set_lost (v : bool) (s : state) : state :=
  mkSt (s_srv s) (s_fired s) v (s_armed s) (s_sigarm s) (s_keep s) (s_queue s) (s_conns s) (s_out s).
Definition set_armed (v : bool) (s : state) : state :=
  mkSt (s_srv s) (s_fired s) (s_lost s) v (s_sigarm s) (s_keep s) (s_queue s) (s_conns s) (s_out s).
Definition set_sigarm (v : option nat) (s : state) : state :=
  mkSt (s_srv s) (s_fired s) (s_lost s) (s_armed s) v (s_keep s) (s_queue s) (s_conns s) (s_out s).
Definition set_keep (v : bool) (s : state) : state :=
  mkSt (s_srv s) (s_fired s) (s_lost s) (s_armed s) (s_sigarm s) v (s_queue s) (s_conns s) (s_out s).
Definition set_queue (v : list qent) (s : state) : state :=
  mkSt (s_srv s) (s_fired s) (s_lost s) (s_armed s) (s_sigarm s) (s_keep s) v (s_conns s) (s_out s).
Definition set_conns (v : list conn) (s : state) : state :=
  mkSt (s_srv s) (s_fired s) (s_lost s) (s_armed s) (s_sigarm s) (s_keep s) (s_queue s) v (s_out s).

Fixpoint upd {A} (n : nat) (f : A -> A) (l : list A) : list A :=
  match l, n with
  | [], _ => []
  | x :: t, O => f x :: t
  | x :: t, S n' => x :: upd n' f t
  end.

Definition get (c : nat) (s : state) : option conn := nth_error (s_conns s) c.
Definition modc (c : nat) (f : conn -> conn) (s : state) : state := set_conns (upd c f (s_conns s)) s.

Definition w_ph (p : phase) (x : conn) :=
  mkConn (c_kind x) p (c_told x) (c_cut x) (c_gate x) (c_infl x) (c_gone x) (c_faulty x) (c_kept x).
Definition w_told (x : conn) :=
  mkConn (c_kind x) (c_ph x) true (c_cut x) (c_gate x) (c_infl x) (c_gone x) (c_faulty x) (c_kept x).
Definition w_cut (b : bool) (x : conn) :=
  mkConn (c_kind x) (c_ph x) (c_told x) b (c_gate x) (c_infl x) (c_gone x) (c_faulty x) (c_kept x).
Definition w_gate (b : bool) (x : conn) :=
  mkConn (c_kind x) (c_ph x) (c_told x) (c_cut x) b (c_infl x) (c_gone x) (c_faulty x) (c_kept x).
Definition w_infl (l : list nat) (x : conn) :=
  mkConn (c_kind x) (c_ph x) (c_told x) (c_cut x) (c_gate x) l (c_gone x) (c_faulty x) (c_kept x).
Definition w_gone (x : conn) :=
  mkConn (c_kind x) (c_ph x) (c_told x) (c_cut x) (c_gate x) (c_infl x) true true (c_kept x).
Definition w_faulty (x : conn) :=
  mkConn (c_kind x) (c_ph x) (c_told x) (c_cut x) (c_gate x) (c_infl x) (c_gone x) true (c_kept x).
Definition w_kept (x : conn) :=
  mkConn (c_kind x) (c_ph x) (c_told x) (c_cut x) (c_gate x) (c_infl x) (c_gone x) (c_faulty x) true.
(* the connection is over: nothing is in flight any more *)
Definition w_closed (x : conn) :=
  mkConn (c_kind x) Closed (c_told x) false (c_gate x) [] (c_gone x) (c_faulty x) (c_kept x).

Definition kind_eqb (a b : kind) : bool :=
  match a, b with KRaw, KRaw | KH1, KH1 | KH2, KH2 | KCut, KCut => true | _, _ => false end.
Definition is_h2proto (p : proto) : bool := match p with PH2 => true | _ => false end.
Definition is_auto (p : proto) : bool := match p with PAuto => true | _ => false end.

Definition live (x : conn) : bool := match c_ph x with Sniffing | Open => true | _ => false end.
Definition srv_done (s : state) : bool := match s_srv s with SDone _ => true | _ => false end.
(* the shutdown watch is closed: graceful mode and the GracefulShutdown value has fired or is gone *)
Definition watch_closed (g : cfg) (s : state) : bool := g_graceful g && srv_done s.

(* hyper's HTTP/2-only server, still waiting for the client preface, only notes close_pending *)
Definition h2silent (g : cfg) (x : conn) : bool :=
  is_h2proto (g_proto g) && (kind_eqb (c_kind x) KRaw || (kind_eqb (c_kind x) KCut && c_gate x)).

Definition idle (x : conn) : bool :=
  match c_infl x with [] => negb (c_cut x) | _ => false end.
(* nothing the connection would still finish once told: no handler runs, and a cut head counts
   only on a fresh connection (hyper h1 in keep-alive state closes although bytes of a next head
   are buffered; before the first request it waits for the head and serves it) *)
Definition drained (x : conn) : bool :=
  match c_infl x with [] => negb (c_cut x) || c_kept x | _ => false end.

(* ---- the spawned driver of connection c, polled *)
(* told, and nothing (left) to finish: the connection future completes, the driver ends *)
Definition closes (g : cfg) (x : conn) : bool :=
  c_told x &&
  match c_ph x with
  | Sniffing => true                                   (* ReadVersion cancelled: Err Interrupted, swallowed *)
  | Open => drained x && negb (h2silent g x)
  | _ => false
  end.

Definition close_if_idle (g : cfg) (c : nat) (s : state) : state :=
  match get c s with
  | Some x => if closes g x then emit (ODone c) (modc c w_closed s) else s
  | None => s
  end.

(* GracefulConnectionDriver::poll: poll the connection; if the watch is closed and the fused
   shutdown future has not fired yet, call graceful_shutdown (once) and poll the connection again.
   (ConnectionDriver::poll of a plain server is the same without the middle part.) *)
Definition mark_told (s : state) (c : nat) : state :=
  match get c s with
  | Some x => if live x && negb (c_told x) then emit (OTold c) (modc c w_told s) else s
  | None => s
  end.

Definition drive (g : cfg) (s : state) (c : nat) : state :=
  close_if_idle g c (if watch_closed g s then mark_told s c else s).

Definition drive_all (g : cfg) (s : state) : state :=
  fold_left (drive g) (seq 0 (length (s_conns s))) s.

(* ---- the accept loop *)
Definition finish (ok : bool) (s : state) : state := emit (OServer ok) (set_srv (SDone ok) s).

Definition initial_phase (g : cfg) (k : kind) : phase :=
  if is_auto (g_proto g) then (if kind_eqb k KH2 then Open else Sniffing) else Open.

Definition spawn_ph (g : cfg) (x : conn) : conn := w_ph (initial_phase g (c_kind x)) x.

(* the make-service future of the connection being admitted resolves the shutdown signal (armed by
   EMakeSignal).  The accept loop cannot look at the signal between Making and the spawn of that
   connection, so the model places OSignal after its OSpawn; the implementation's log has it
   between OAccept and OSpawn, which mon_C07 accepts (that connection was accepted before). *)
Definition make_signal (g : cfg) (s : state) : state :=
  match s_sigarm s with
  | Some O => let s1 := set_sigarm None s in
              if g_graceful g && negb (s_fired s1) then emit OSignal (set_fired true s1) else s1
  | Some (S k) => set_sigarm (Some k) s
  | None => s
  end.

(* the driver of a connection whose client was gone before it was accepted: the first read fails
   (or meets EOF), the error is swallowed, the driver ends *)
Definition reap (c : nat) (s : state) : state :=
  match get c s with
  | Some x => if c_gone x && live x then emit (ODone c) (modc c w_closed s) else s
  | None => s
  end.

(* poll_once iterated by the greedy loop, state Accepting, over the requests queued so far;
   GracefulShutdown::poll polls the signal at the top of EVERY iteration *)
Fixpoint accept_loop (g : cfg) (q : list qent) (s : state) : state :=
  if g_graceful g && s_fired s then finish true (set_queue q s)   (* signal first: Ready (Ok ()), the rest stays queued *)
  else
  match q with
  | [] =>
      if s_lost s then finish false (emit OAcceptErr (set_queue [] s))          (* recv = None *)
      else set_srv SAccepting (set_queue [] s)                                  (* Pending *)
  | QDead :: q' => accept_loop g q' s                  (* ack fails: skipped (repaired D2) *)
  | QLive c :: q' =>
      match get c s with
      | Some x =>
          match c_ph x with
          | Queued =>
              let s1 := emit (OAccept c) s in              (* Ok io -> Making *)
              if s_armed s1
              then finish false (set_queue q' (set_armed false (modc c (w_ph Dropped) s1)))   (* Err MakeService *)
              else accept_loop g q'                        (* Some conn: spawn; Preparing -> Accepting *)
                     (make_signal g (reap c (emit (OSpawn c) (modc c (spawn_ph g) s1))))
          | _ => accept_loop g q' s
          end
      | None => accept_loop g q' s
      end
  end.

(* Serving::poll / GracefulShutdown::poll *)
Definition server_poll (g : cfg) (s : state) : state :=
  match s_srv s with
  | SDone _ => s
  | _ => if g_graceful g && s_fired s then finish true s      (* signal first: close the watch, Ready (Ok ()) *)
         else accept_loop g (s_queue s) s
  end.

(* the listener went away with the serving future: every connect still waiting fails -- unless the
   caller keeps the completed future (and the listener in it) alive: then it just never gets an answer *)
Definition refuse (s : state) (c : nat) : state :=
  match get c s with
  | Some x => match c_ph x with
              | Queued => if s_keep s then modc c (w_ph Refused) s        (* never answered *)
                          else emit (ORefused c) (modc c (w_ph Refused) s)
              | _ => s
              end
  | None => s
  end.
Definition refuse_queued (s : state) : state :=
  if srv_done s then fold_left refuse (seq 0 (length (s_conns s))) s else s.

Definition settle (g : cfg) (s : state) : state := drive_all g (refuse_queued (server_poll g s)).

(* ---- environment actions on connection c (each is preceded by a settle and followed by OQuiet) *)
Definition usable (x : conn) : bool := negb (c_gone x) && negb (kind_eqb (c_kind x) KRaw) && live x.

Definition act_partial (g : cfg) (c : nat) (s : state) : state :=
  match get c s with
  | Some x =>
      if usable x && kind_eqb (c_kind x) KH1 && idle x && negb (watch_closed g s)
      then emit (OBegin c) (modc c (fun x => w_cut true (w_ph Open x)) s)
      else s
  | None => s
  end.

(* the cut client's writes are released: the preface completes *)
Definition open_gate (g : cfg) (c : nat) (s : state) : state :=
  match get c s with
  | Some x =>
      if kind_eqb (c_kind x) KCut && c_gate x
      then close_if_idle g c
             (modc c (fun x => w_gate false (match c_ph x with Sniffing => w_ph Open x | _ => x end)) s)
      else s
  | None => s
  end.

Definition act_req (g : cfg) (c : nat) (s : state) : state :=
  match get c s with
  | Some x0 =>
      if c_gone x0 then s else
      let s := open_gate g c s in
      match get c s with
      | Some x =>
          if c_cut x
          then emit (OHandler c) (modc c (fun x => w_infl (c_infl x ++ [3]) (w_cut false x)) s)
          else if usable x && negb (watch_closed g s)
                  && (negb (kind_eqb (c_kind x) KH1) || idle x)
               then emit (OHandler c) (emit (OBegin c)
                      (modc c (fun x => w_infl (c_infl x ++ [3]) (w_ph Open x)) s))
               else s
      | None => s
      end
  | None => s
  end.

Definition act_step (g : cfg) (c : nat) (s : state) : state :=
  match get c s with
  | Some x =>
      if c_gone x then s else
      match c_infl x with
      | n :: rest =>
          if Nat.leb n 1
          then close_if_idle g c (emit (OResp c) (emit (OEnvDone c) (modc c (fun x => w_kept (w_infl rest x)) s)))
          else modc c (w_infl (pred n :: rest)) s
      | [] => s
      end
  | None => s
  end.

Definition act_herr (g : cfg) (c : nat) (s : state) : state :=
  match get c s with
  | Some x =>
      if c_gone x then s else
      match c_infl x with
      | n :: rest =>
          if Nat.eqb n 2
          then let s1 := emit (OFault c) (modc c (fun x => w_faulty (w_infl rest x)) s) in
               if kind_eqb (c_kind x) KH1
               then emit (ODone c) (modc c w_closed s1)      (* hyper h1: the connection ends with an error *)
               else close_if_idle g c s1                      (* hyper h2: the stream is reset *)
          else s
      | [] => s
      end
  | None => s
  end.

Definition act_disc (c : nat) (s : state) : state :=
  match get c s with
  | Some x =>
      if c_gone x then s else
      let s1 := emit (OFault c) (modc c w_gone s) in
      if live x then emit (ODone c) (modc c w_closed s1) else s1
  | None => s
  end.

Definition act_garb (c : nat) (s : state) : state :=
  match get c s with
  | Some x =>
      if negb (c_gone x) && kind_eqb (c_kind x) KRaw && live x
      then emit (ODone c) (modc c w_closed (emit (OFault c) (modc c w_faulty s)))
      else s
  | None => s
  end.

Definition new_conn (k : kind) : conn := mkConn k Queued false false (kind_eqb k KCut) [] false false false.

(* the client of the connection just queued is gone already (its kind no longer matters) *)
Definition mark_dead (c : nat) (s : state) : state := emit (OFault c) (modc c w_gone s).

(* a connect request of a client of kind k reaches the listener *)
Definition connect (s : state) (k : kind) : state :=
  let c := length (s_conns s) in
  let s1 := emit (OConnect c) (set_conns (s_conns s ++ [new_conn k]) s) in
  if srv_done s || s_lost s then s1 else set_queue (s_queue s1 ++ [QLive c]) s1.

Definition step (g : cfg) (s : state) (e : ev) : state :=
  match e with
  | EConnectDead => mark_dead (length (s_conns s)) (connect s KH1)
  | EConnect k => connect s k
  | ECancelled =>
      let s1 := emit OCancel s in
      if srv_done s || s_lost s then s1 else set_queue (s_queue s1 ++ [QDead]) s1
  | ELost => if s_lost s then s else emit OLost (set_lost true s)
  | EMakeFail => emit OMakeArm (set_armed true s)
  | ESignal => if g_graceful g && negb (s_fired s) then emit OSignal (set_fired true s) else s
  | EMakeSignal n => if g_graceful g then set_sigarm (Some n) s else s
  | ESettle => emit OQuiet (settle g s)
  | EPartial c => emit OQuiet (act_partial g c (settle g s))
  | EReq c => emit OQuiet (act_req g c (settle g s))
  | EStep c => emit OQuiet (act_step g c (settle g s))
  | EDisconnect c => emit OQuiet (act_disc c (settle g s))
  | EGarbage c => emit OQuiet (act_garb c (settle g s))
  | EHandlerErr c => emit OQuiet (act_herr g c (settle g s))
  | EKeepFuture => set_keep true s
  end.

Definition run_from (g : cfg) (s : state) (evs : list ev) : state := fold_left (step g) evs s.
Definition run (g : cfg) (evs : list ev) : state := run_from g init evs.
Definition trace (s : state) : list oev := rev (s_out s).

(* result of the serving future *)
Inductive sres := StillServing | Finished (ok : bool).
Definition serving_result (s : state) : sres :=
  match s_srv s with SDone ok => Finished ok | _ => StillServing end.
