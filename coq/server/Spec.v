(* Executable specifications (monitors) for C07 and C09 over observable traces only.
   A trace is what the harness logs: the environment's own actions (echo) interleaved with the
   server's reactions; OQuiet marks a point where nothing was ready any more.  The monitors keep
   per-connection counters ([track]) and judge every event against the counters so far. *)
From HD Require Import common.Base server.Model.

Record cm := mkCm {
  m_connected : bool;
  m_accepted : bool;
  m_spawned : bool;
  m_told : nat;
  m_done : bool;
  m_hb : nat;          (* handler invocations before the signal *)
  m_begun : nat;
  m_envdone : nat;
  m_resp : nat;
  m_fault : bool
}.
Definition cm0 : cm := mkCm false false false 0 false 0 0 0 0 false.

Record ms := mkMs {
  k_fired : bool;                 (* the signal resolved *)
  k_cause : bool;                 (* signal, listener loss or an armed make-service failure seen *)
  k_server : option bool;         (* result of the serving future *)
  k_n : nat;                      (* connection ids seen are < k_n *)
  k_conns : nat -> cm;
  k_snap : nat -> cm              (* the counters at the moment of the (first) signal *)
}.
Definition ms0 : ms := mkMs false false None 0 (fun _ => cm0) (fun _ => cm0).

Definition updc (c : nat) (f : cm -> cm) (m : ms) : ms :=
  mkMs (k_fired m) (k_cause m) (k_server m) (Nat.max (k_n m) (S c))
       (fun i => if Nat.eqb i c then f (k_conns m c) else k_conns m i) (k_snap m).

(* counter updates *)
Definition cm_conn (x : cm) := mkCm true (m_accepted x) (m_spawned x) (m_told x) (m_done x) (m_hb x) (m_begun x) (m_envdone x) (m_resp x) (m_fault x).
Definition cm_acc (x : cm) := mkCm (m_connected x) true (m_spawned x) (m_told x) (m_done x) (m_hb x) (m_begun x) (m_envdone x) (m_resp x) (m_fault x).
Definition cm_sp (x : cm) := mkCm (m_connected x) (m_accepted x) true (m_told x) (m_done x) (m_hb x) (m_begun x) (m_envdone x) (m_resp x) (m_fault x).
Definition cm_told (x : cm) := mkCm (m_connected x) (m_accepted x) (m_spawned x) (S (m_told x)) (m_done x) (m_hb x) (m_begun x) (m_envdone x) (m_resp x) (m_fault x).
Definition cm_done (x : cm) := mkCm (m_connected x) (m_accepted x) (m_spawned x) (m_told x) true (m_hb x) (m_begun x) (m_envdone x) (m_resp x) (m_fault x).
(* a handler invocation counts in m_hb only before the signal *)
Definition cm_hand (fired : bool) (x : cm) := mkCm (m_connected x) (m_accepted x) (m_spawned x) (m_told x) (m_done x) (if fired then m_hb x else S (m_hb x)) (m_begun x) (m_envdone x) (m_resp x) (m_fault x).
Definition cm_begin (x : cm) := mkCm (m_connected x) (m_accepted x) (m_spawned x) (m_told x) (m_done x) (m_hb x) (S (m_begun x)) (m_envdone x) (m_resp x) (m_fault x).
Definition cm_env (x : cm) := mkCm (m_connected x) (m_accepted x) (m_spawned x) (m_told x) (m_done x) (m_hb x) (m_begun x) (S (m_envdone x)) (m_resp x) (m_fault x).
Definition cm_resp (x : cm) := mkCm (m_connected x) (m_accepted x) (m_spawned x) (m_told x) (m_done x) (m_hb x) (m_begun x) (m_envdone x) (S (m_resp x)) (m_fault x).
Definition cm_fault (x : cm) := mkCm (m_connected x) (m_accepted x) (m_spawned x) (m_told x) (m_done x) (m_hb x) (m_begun x) (m_envdone x) (m_resp x) true.

Definition track (m : ms) (o : oev) : ms :=
  match o with
  | OConnect c => updc c cm_conn m
  | OAccept c => updc c cm_acc m
  | OSpawn c => updc c cm_sp m
  | OTold c => updc c cm_told m
  | ODone c => updc c cm_done m
  | OHandler c => updc c (cm_hand (k_fired m)) m
  | OBegin c => updc c cm_begin m
  | OEnvDone c => updc c cm_env m
  | OResp c => updc c cm_resp m
  | OFault c => updc c cm_fault m
  | ORefused c => updc c (fun x => x) m
  | OSignal => mkMs true true (k_server m) (k_n m) (k_conns m) (if k_fired m then k_snap m else k_conns m)
  | OLost | OMakeArm => mkMs (k_fired m) true (k_server m) (k_n m) (k_conns m) (k_snap m)
  | OServer r => mkMs (k_fired m) (k_cause m) (Some r) (k_n m) (k_conns m) (k_snap m)
  | OCancel | OAcceptErr | OQuiet => m
  end.

Definition tracks (m : ms) (tr : list oev) : ms := fold_left track tr m.

(* generic monitor: every event is judged against the counters before it *)
Fixpoint mon_from (chk : ms -> oev -> bool) (m : ms) (tr : list oev) : bool :=
  match tr with
  | [] => true
  | o :: tr' => chk m o && mon_from chk (track m o) tr'
  end.

Definition all_conns (m : ms) (p : cm -> bool) : bool :=
  forallb (fun c => p (k_conns m c)) (seq 0 (k_n m)).

(* an idle keep-alive connection: spawned, not finished, every request it began was answered *)
Definition idle_cm (x : cm) : bool :=
  m_spawned x && negb (m_done x) && negb (m_fault x) && Nat.eqb (m_begun x) (m_resp x).

(* ------------------------------------------------------------------------------------ C07
   "Once the shutdown signal resolves the server accepts and serves no further connections and
    its future completes successfully.  Every request the server had already started to handle
    still receives its complete response, every open connection is told to shut down, finishes
    its in-flight exchanges and then closes, and idle keep-alive connections are closed."
   Connections on which the environment injected a fault are not judged here (that is C09). *)
Definition quiet07 (x : cm) : bool :=
  negb (m_spawned x) || m_fault x ||
  ((* told (exactly once), unless it had finished by itself *)
   (m_done x || Nat.eqb (m_told x) 1)
   (* the environment has nothing left to do for its requests: the connection is closed and
      every request whose handler had been invoked before the signal got its complete response *)
   && (negb (Nat.eqb (m_begun x) (m_envdone x)) || (m_done x && Nat.leb (m_hb x) (m_resp x)))).

(* [strict]: no driver at all is spawned after the signal; otherwise a connection that the acceptor
   had handed over BEFORE the signal resolved may still get its driver (the signal can resolve while
   that connection is in State::Making) *)
Definition chk07_gen (strict : bool) (m : ms) (o : oev) : bool :=
  match o with
  | OAccept _ => negb (k_fired m)                              (* accepts no further connections *)
  | OSpawn c => negb (k_fired m) || (negb strict && m_accepted (k_snap m c))   (* ... and serves none *)
  | OServer r => negb (k_fired m) || r                         (* completes successfully *)
  | OTold c => Nat.eqb (m_told (k_conns m c)) 0                (* told at most once *)
  | OHandler c => negb (k_fired m && idle_cm (k_snap m c))     (* an idle connection serves no further request *)
  | OQuiet =>
      negb (k_fired m)
      || (match k_server m with Some _ => true | None => false end && all_conns m quiet07)
  | _ => true
  end.
Definition chk07 := chk07_gen false.
(* what the model satisfies (its make-service resolves the signal only after the spawn) *)
Definition chk07_strict := chk07_gen true.
Definition mon_C07 (tr : list oev) : bool := mon_from chk07 ms0 tr.

(* ------------------------------------------------------------------------------------ C09
   "A failure confined to one client or connection neither stops the server from accepting new
    connections nor disturbs requests on other connections.  The serving future ends only on
    shutdown, on loss of the listener itself, or on a make-service failure." *)
Definition quiet09 (x : cm) : bool :=
  (* every client that asked was accepted and is being driven *)
  (negb (m_connected x) || (m_accepted x && m_spawned x))
  (* a well-behaved connection whose requests the environment has driven to the end got every response *)
  && (m_fault x || negb (Nat.eqb (m_begun x) (m_envdone x)) || Nat.eqb (m_resp x) (m_begun x)).

Definition chk09 (m : ms) (o : oev) : bool :=
  match o with
  | OServer _ => k_cause m                                     (* ends only for one of the three reasons *)
  | OQuiet => k_cause m || (match k_server m with None => true | Some _ => false end && all_conns m quiet09)
  | _ => true
  end.
Definition mon_C09 (tr : list oev) : bool := mon_from chk09 ms0 tr.
