(* Proofs for M-SERVER: the model's trace satisfies mon_C09 for every event list, and mon_C07 for
   every event list in which no HTTP/2-only server meets a client that never completes the preface
   (known finding D18).  Method: a relation [Rel] between the model state and the monitors'
   counters over the trace emitted so far, preserved by every micro step of the model; the checks
   of the monitors follow from [Rel] (safety) and from [Quiet], which every settle establishes
   (liveness at the quiescent points). *)
From HD Require Import common.Base server.Model server.Spec.

Local Ltac inv H := inversion H; subst; clear H.

(* ------------------------------------------------------------------ lists, upd, nth_error *)
Lemma upd_length : forall A (f : A -> A) l n, length (upd n f l) = length l.
Proof. induction l as [|a l IH]; intros [|n]; cbn; auto. Qed.

Lemma nth_upd_eq : forall A (f : A -> A) l n, nth_error (upd n f l) n = option_map f (nth_error l n).
Proof. induction l as [|a l IH]; intros [|n]; cbn; auto. Qed.

Lemma nth_upd_neq : forall A (f : A -> A) l n k, n <> k -> nth_error (upd n f l) k = nth_error l k.
Proof.
  induction l as [|a l IH]; intros [|n] [|k] Hn; cbn; auto; try congruence;
    try (apply IH; congruence).
Qed.

Lemma fold_left_inv : forall (A B : Type) (P : A -> Prop) (f : A -> B -> A) l s,
  (forall s c, P s -> P (f s c)) -> P s -> P (fold_left f l s).
Proof. induction l; cbn; auto. Qed.

(* a loop over connection ids: P is kept, and every visited id ends up with Q *)
Lemma fold_left_all : forall (A : Type) (P : A -> Prop) (Q : A -> nat -> Prop) (f : A -> nat -> A),
  (forall s c, P s -> P (f s c)) ->
  (forall s c, P s -> Q (f s c) c) ->
  (forall s c j, P s -> Q s j -> Q (f s c) j) ->
  forall l s, P s -> P (fold_left f l s) /\ forall j, In j l -> Q (fold_left f l s) j.
Proof.
  intros A P Q f HP HQ HK.
  assert (Keep : forall l s j, P s -> Q s j -> Q (fold_left f l s) j).
  { induction l; cbn; intros; auto. }
  induction l as [|c l IH]; cbn; intros s Ps.
  - split; [auto | intros j []].
  - destruct (IH (f s c) (HP _ _ Ps)) as [P' Q']. split; auto.
    intros j [<- | Hj]; auto.
Qed.

(* ------------------------------------------------------------------ trace and counters *)
Definition mstate (s : state) : ms := tracks ms0 (trace s).
Arguments mstate s : simpl never.
Definition emits (os : list oev) (s : state) : state :=
  mkSt (s_srv s) (s_fired s) (s_lost s) (s_armed s) (s_sigarm s) (s_keep s) (s_queue s) (s_conns s) (rev os ++ s_out s).
Definition Good (chk : ms -> oev -> bool) (s : state) : Prop := mon_from chk ms0 (trace s) = true.

Lemma tracks_app : forall a b m, tracks m (a ++ b) = tracks (tracks m a) b.
Proof. intros. unfold tracks. apply fold_left_app. Qed.

Lemma mon_from_app : forall chk a b m,
  mon_from chk m (a ++ b) = mon_from chk m a && mon_from chk (tracks m a) b.
Proof.
  induction a as [|o a IH]; cbn; intros; auto.
  rewrite IH, andb_assoc. reflexivity.
Qed.

Lemma trace_emits : forall os s, trace (emits os s) = trace s ++ os.
Proof. intros. unfold trace, emits. cbn. now rewrite rev_app_distr, rev_involutive. Qed.

Lemma mstate_emits : forall os s, mstate (emits os s) = tracks (mstate s) os.
Proof. intros. unfold mstate. now rewrite trace_emits, tracks_app. Qed.

Lemma emit_emits : forall o s, emit o s = emits [o] s.
Proof. reflexivity. Qed.

Lemma mstate_emit : forall o s, mstate (emit o s) = track (mstate s) o.
Proof. intros. rewrite emit_emits. apply (mstate_emits [o]). Qed.

Lemma good_emits : forall chk os s,
  Good chk s -> mon_from chk (mstate s) os = true -> Good chk (emits os s).
Proof.
  unfold Good, mstate. intros. rewrite trace_emits, mon_from_app, H, H0. reflexivity.
Qed.

Lemma good_emit : forall chk o s, Good chk s -> chk (mstate s) o = true -> Good chk (emit o s).
Proof. intros. rewrite emit_emits. apply (good_emits chk [o]); auto. cbn. now rewrite H0. Qed.

(* state changes that do not touch the trace *)
Lemma mstate_out : forall s s', s_out s' = s_out s -> mstate s' = mstate s.
Proof. unfold mstate, trace. intros ? ? ->. reflexivity. Qed.
Lemma good_out : forall chk s s', s_out s' = s_out s -> Good chk s -> Good chk s'.
Proof. unfold Good, trace. intros ? ? ? ->. auto. Qed.

(* ------------------------------------------------------------------ the relation *)
Definition b2n (b : bool) : nat := if b then 1 else 0.
Definition ph_acc (p : phase) := match p with Queued | Refused => false | _ => true end.
Definition ph_sp (p : phase) := match p with Sniffing | Open | Closed => true | _ => false end.
Definition ph_closed (p : phase) := match p with Closed => true | _ => false end.
Definition ph_pre (p : phase) := match p with Queued | Refused | Dropped => true | _ => false end.
Definition ph_dead (p : phase) := match p with Refused | Dropped => true | _ => false end.
Definition ph_open (p : phase) := match p with Open => true | _ => false end.

(* connection x of the model against its counters y; sd = the serving future has completed,
   cz = one of the three legitimate causes has been seen *)
Record Rc (g : cfg) (sd cz : bool) (x : conn) (y : cm) : Prop := mkRc {
  r_conn : m_connected y = true;
  r_acc : m_accepted y = ph_acc (c_ph x);
  r_sp : m_spawned y = ph_sp (c_ph x);
  r_told : m_told y = b2n (c_told x);
  r_done : m_done y = ph_closed (c_ph x);
  r_fault : m_fault y = c_faulty x;
  r_begun : c_faulty x = false -> m_envdone y + length (c_infl x) + b2n (c_cut x) <= m_begun y;
  r_resp : c_faulty x = false -> m_resp y = m_envdone y;
  r_hb : c_faulty x = false -> m_hb y <= m_resp y + length (c_infl x);
  r_quiet : ph_open (c_ph x) = false -> c_infl x = [] /\ c_cut x = false;
  r_pre : ph_pre (c_ph x) = true -> c_told x = false;
  r_dead : ph_dead (c_ph x) = true -> cz = true;
  r_wc : c_told x = true -> g_graceful g && sd = true
}.

Record Rel (g : cfg) (q : list qent) (s : state) (m : ms) : Prop := mkRel {
  g_fired : k_fired m = s_fired s;
  g_server : k_server m = match s_srv s with SDone r => Some r | _ => None end;
  g_n : k_n m = length (s_conns s);
  g_cause : s_fired s || s_lost s || s_armed s || srv_done s = true -> k_cause m = true;
  g_grace : s_fired s = true -> g_graceful g = true;
  g_conns : forall c x, nth_error (s_conns s) c = Some x -> Rc g (srv_done s) (k_cause m) x (k_conns m c);
  g_fresh : forall c, length (s_conns s) <= c -> k_conns m c = cm0;
  g_snap : s_fired s = true -> forall c x, nth_error (s_conns s) c = Some x ->
           c_cut x = true -> idle_cm (k_snap m c) = false;
  g_queue : forall c x, nth_error (s_conns s) c = Some x -> c_ph x = Queued ->
            In (QLive c) q \/ srv_done s = true \/ s_lost s = true
}.

(* an HTTP/2-only server never meets a client that does not complete the preface (D18) *)
Definition NoSilentK (g : cfg) (s : state) : Prop :=
  is_h2proto (g_proto g) = true ->
  forall c x, nth_error (s_conns s) c = Some x ->
  kind_eqb (c_kind x) KRaw = false /\ kind_eqb (c_kind x) KCut = false.

Definition Full (ns : bool) (g : cfg) (q : list qent) (s : state) : Prop :=
  Rel g q s (mstate s) /\ Good chk09 s /\ (ns = true -> NoSilentK g s /\ Good chk07_strict s).

(* what a settle establishes *)
Record Quiet (g : cfg) (s : state) : Prop := mkQuiet {
  q_fired : s_fired s = true -> srv_done s = true;
  q_queued : forall c x, nth_error (s_conns s) c = Some x -> c_ph x <> Queued;
  q_told : watch_closed g s = true -> forall c x, nth_error (s_conns s) c = Some x ->
           live x = true -> c_told x = true;
  q_stable : forall c x, nth_error (s_conns s) c = Some x -> closes g x = false
}.

(* the counters changed at connection c only, by fy *)
Record ConnOnly (c : nat) (fy : cm -> cm) (m m' : ms) : Prop := mkCO {
  o_fired : k_fired m' = k_fired m;
  o_cause : k_cause m' = k_cause m;
  o_server : k_server m' = k_server m;
  o_n : k_n m' = Nat.max (k_n m) (S c);
  o_at : k_conns m' c = fy (k_conns m c);
  o_else : forall c', c' <> c -> k_conns m' c' = k_conns m c';
  o_snap : forall c', k_snap m' c' = k_snap m c'
}.

Lemma conn_only_updc : forall c f m, ConnOnly c f m (updc c f m).
Proof.
  intros. constructor; cbn; auto.
  - now rewrite Nat.eqb_refl.
  - intros c' H. destruct (Nat.eqb_spec c' c); congruence.
Qed.

Lemma conn_only_nil : forall c m, c < k_n m -> ConnOnly c (fun y => y) m m.
Proof. intros. constructor; auto. lia. Qed.

Lemma conn_only_trans : forall c f1 f2 m m1 m2,
  ConnOnly c f1 m m1 -> ConnOnly c f2 m1 m2 -> ConnOnly c (fun y => f2 (f1 y)) m m2.
Proof.
  intros c f1 f2 m m1 m2 [] []. constructor; try congruence; try lia.
  all: intros; try (rewrite o_else1, o_else0; now auto); try now rewrite o_snap1, o_snap0.
Qed.

Lemma get_some_lt : forall c s x, get c s = Some x -> c < length (s_conns s).
Proof. unfold get. intros. apply nth_error_Some. congruence. Qed.

Lemma get_modc_eq : forall c f s, get c (modc c f s) = option_map f (get c s).
Proof. intros. unfold get, modc. cbn. apply nth_upd_eq. Qed.
Lemma get_modc_neq : forall c c' f s, c <> c' -> get c' (modc c f s) = get c' s.
Proof. intros. unfold get, modc. cbn. now apply nth_upd_neq. Qed.
Lemma get_emits : forall c os s, get c (emits os s) = get c s.
Proof. reflexivity. Qed.
Lemma get_emit : forall c o s, get c (emit o s) = get c s.
Proof. reflexivity. Qed.

(* THE step lemma for everything that happens on one connection:
   connection c goes from x to f x while the events os (all about c) are emitted *)
Lemma full_conn : forall ns g q s c x f fy os,
  Full ns g q s -> get c s = Some x ->
  ConnOnly c fy (mstate s) (tracks (mstate s) os) ->
  mon_from chk09 (mstate s) os = true ->
  (ns = true -> mon_from chk07_strict (mstate s) os = true) ->
  Rc g (srv_done s) (k_cause (mstate s)) (f x) (fy (k_conns (mstate s) c)) ->
  (c_ph (f x) = Queued -> c_ph x = Queued) ->
  (s_fired s = true -> c_cut (f x) = true -> c_cut x = true) ->
  c_kind (f x) = c_kind x ->
  Full ns g q (emits os (modc c f s)).
Proof.
  intros ns g q s c x f fy os [R [G9 G7]] Hx CO M9 M7 HRc Hq Hcut Hk.
  assert (Hlt := get_some_lt _ _ _ Hx).
  assert (Hm : mstate (emits os (modc c f s)) = tracks (mstate s) os).
  { rewrite mstate_emits. reflexivity. }
  destruct R, CO.
  split; [| split].
  - rewrite Hm. constructor; cbn.
    + congruence.
    + congruence.
    + rewrite upd_length. lia.
    + intro H. rewrite o_cause0. auto.
    + auto.
    + intros c' x' Hn. destruct (Nat.eq_dec c' c) as [-> | Hne].
      * rewrite nth_upd_eq in Hn. unfold get in Hx. rewrite Hx in Hn. cbn in Hn. inv Hn.
        rewrite o_at0, o_cause0. exact HRc.
      * rewrite nth_upd_neq in Hn by congruence. rewrite o_else0, o_cause0 by auto. now apply g_conns0.
    + intros c' Hc'. rewrite upd_length in Hc'. rewrite o_else0 by lia. auto.
    + intros Hf c' x' Hn Hc. rewrite o_snap0. destruct (Nat.eq_dec c' c) as [-> | Hne].
      * rewrite nth_upd_eq in Hn. unfold get in Hx. rewrite Hx in Hn. cbn in Hn. inv Hn.
        eapply g_snap0; eauto.
      * rewrite nth_upd_neq in Hn by congruence. eapply g_snap0; eauto.
    + intros c' x' Hn Hp. destruct (Nat.eq_dec c' c) as [-> | Hne].
      * rewrite nth_upd_eq in Hn. unfold get in Hx. rewrite Hx in Hn. cbn in Hn. inv Hn.
        eapply g_queue0; eauto.
      * rewrite nth_upd_neq in Hn by congruence. eapply g_queue0; eauto.
  - apply good_emits.
    + eapply good_out; [| exact G9]. reflexivity.
    + erewrite mstate_out; [exact M9 | reflexivity].
  - intro Hns. destruct (G7 Hns) as [NS G]. split.
    + intros Hp c' x' Hn. cbn in Hn. destruct (Nat.eq_dec c' c) as [-> | Hne].
      * rewrite nth_upd_eq in Hn. unfold get in Hx. rewrite Hx in Hn. cbn in Hn. inv Hn.
        rewrite Hk. eapply NS; eauto.
      * rewrite nth_upd_neq in Hn by congruence. eapply NS; eauto.
    + apply good_emits.
      * eapply good_out; [| exact G]. reflexivity.
      * erewrite mstate_out; [apply M7; auto | reflexivity].
Qed.

(* ------------------------------------------------------------------ quiescence bookkeeping *)
(* Quiet, except that connection c may be about to close *)
Record QuietEx (g : cfg) (c : nat) (s : state) : Prop := mkQuietEx {
  e_fired : s_fired s = true -> srv_done s = true;
  e_queued : forall c' x, nth_error (s_conns s) c' = Some x -> c_ph x <> Queued;
  e_told : watch_closed g s = true -> forall c' x, nth_error (s_conns s) c' = Some x ->
           live x = true -> c_told x = true;
  e_stable : forall c' x, c' <> c -> nth_error (s_conns s) c' = Some x -> closes g x = false
}.

Lemma quiet_weak : forall g c s, Quiet g s -> QuietEx g c s.
Proof. intros g c s []. constructor; eauto. Qed.

Lemma quietex_strong : forall g c s,
  QuietEx g c s -> (forall x, get c s = Some x -> closes g x = false) -> Quiet g s.
Proof.
  intros g c s [] H. constructor; eauto.
  intros c' x Hn. destruct (Nat.eq_dec c' c) as [-> | Hne]; eauto.
Qed.

Lemma quietex_conn : forall g s c x f os,
  QuietEx g c s -> get c s = Some x ->
  c_ph (f x) <> Queued ->
  (watch_closed g s = true -> live (f x) = true -> c_told (f x) = true) ->
  QuietEx g c (emits os (modc c f s)).
Proof.
  intros g s c x f os [] Hx Hp Ht. unfold get in Hx. constructor; cbn; auto.
  - intros c' x' Hn. destruct (Nat.eq_dec c' c) as [-> | Hne].
    + rewrite nth_upd_eq, Hx in Hn. cbn in Hn. inv Hn. auto.
    + rewrite nth_upd_neq in Hn by congruence. eauto.
  - intros Hw c' x' Hn Hl. destruct (Nat.eq_dec c' c) as [-> | Hne].
    + rewrite nth_upd_eq, Hx in Hn. cbn in Hn. inv Hn. auto.
    + rewrite nth_upd_neq in Hn by congruence. eauto.
  - intros c' x' Hne Hn. rewrite nth_upd_neq in Hn by congruence. eauto.
Qed.

Lemma closes_closed : forall g x, closes g (w_closed x) = false.
Proof. intros. unfold closes. cbn. apply andb_false_r. Qed.

Lemma quietex_close : forall g c s, QuietEx g c s -> Quiet g (close_if_idle g c s).
Proof.
  intros g c s Q. unfold close_if_idle. destruct (get c s) as [x|] eqn:Hx.
  - destruct (closes g x) eqn:Hc.
    + rewrite emit_emits. eapply quietex_strong with (c := c).
      * eapply quietex_conn; eauto; cbn; congruence.
      * intros x'. rewrite get_emits, get_modc_eq, Hx. cbn. intros H. inv H. apply closes_closed.
    + eapply quietex_strong; eauto. intros x' H. congruence.
  - eapply quietex_strong; eauto. intros x' H. congruence.
Qed.

(* ------------------------------------------------------------------ Rc helpers *)
Lemma rc_mono : forall g cz x y, Rc g false cz x y -> Rc g true cz x y.
Proof.
  intros g cz x y []. constructor; auto.
  intros H. apply r_wc0 in H. now rewrite andb_false_r in H.
Qed.

Lemma rc_cause : forall g sd x y, Rc g sd false x y -> Rc g sd true x y.
Proof. intros g sd x y []. constructor; auto. Qed.

Lemma b2n_false : b2n false = 0. Proof. reflexivity. Qed.
Lemma b2n_true : b2n true = 1. Proof. reflexivity. Qed.

Ltac rc_start H := destruct H as [Rconn Racc Rsp Rtold Rdone Rfault Rbegun Rresp Rhb Rquiet Rpre Rdead Rwc].

(* use every available premise, split, substitute, compute, then arithmetic *)
Ltac rc_fin :=
  repeat match goal with
  | H : ?a = ?a -> _ |- _ => specialize (H eq_refl)
  | H : ?p, I : ?p -> _ |- _ => specialize (I H)
  | H : _ /\ _ |- _ => destruct H
  end; subst; cbn in *; auto; try lia; try discriminate; try congruence.

Lemma full_rel : forall ns g q s, Full ns g q s -> Rel g q s (mstate s).
Proof. intros ns g q s [R _]. exact R. Qed.

Lemma full_get : forall ns g q s c x,
  Full ns g q s -> get c s = Some x -> Rc g (srv_done s) (k_cause (mstate s)) x (k_conns (mstate s) c).
Proof. intros ns g q s c x [R _] H. destruct R. auto. Qed.

Lemma full_lt : forall ns g q s c x, Full ns g q s -> get c s = Some x -> c < k_n (mstate s).
Proof. intros ns g q s c x [R _] H. destruct R. rewrite g_n0. eapply get_some_lt; eauto. Qed.

(* changes of connection c that emit nothing *)
Lemma full_conn_silent : forall ns g q s c x f,
  Full ns g q s -> get c s = Some x ->
  Rc g (srv_done s) (k_cause (mstate s)) (f x) (k_conns (mstate s) c) ->
  (c_ph (f x) = Queued -> c_ph x = Queued) ->
  (s_fired s = true -> c_cut (f x) = true -> c_cut x = true) ->
  c_kind (f x) = c_kind x ->
  Full ns g q (modc c f s).
Proof.
  intros. change (modc c f s) with (emits [] (modc c f s)).
  eapply full_conn with (fy := fun y => y) (x := x); auto.
  apply conn_only_nil. eapply full_lt; eauto.
Qed.

(* ------------------------------------------------------------------ the driver *)
Lemma full_close : forall ns g q s c, Full ns g q s -> Full ns g q (close_if_idle g c s).
Proof.
  intros ns g q s c F. unfold close_if_idle. destruct (get c s) as [x|] eqn:Hx; auto.
  destruct (closes g x) eqn:Hc; auto.
  assert (HR := full_get _ _ _ _ _ _ F Hx).
  rewrite emit_emits.
  eapply full_conn with (fy := cm_done) (x := x);
    [exact F | exact Hx | apply conn_only_updc | reflexivity | reflexivity | | discriminate | discriminate | reflexivity].
  rc_start HR. unfold closes in Hc. apply andb_prop in Hc. destruct Hc as [Ht Hc].
    destruct x as [k p t cu ga il go fa ke]. cbn in *.
    unfold drained in Hc. cbn in Hc.
    destruct p; try discriminate; constructor; cbn in *; auto; intros; rc_fin.
    all: destruct il; try discriminate; rc_fin.
Qed.

Lemma full_mark_told : forall ns g q s c,
  Full ns g q s -> watch_closed g s = true -> Full ns g q (mark_told s c).
Proof.
  intros ns g q s c F W. unfold mark_told. destruct (get c s) as [x|] eqn:Hx; auto.
  destruct (live x && negb (c_told x)) eqn:Hc; auto.
  apply andb_prop in Hc. destruct Hc as [Hl Ht]. apply negb_true_iff in Ht.
  assert (HR := full_get _ _ _ _ _ _ F Hx).
  rewrite emit_emits.
  eapply full_conn with (fy := cm_told) (x := x);
    [exact F | exact Hx | apply conn_only_updc | reflexivity | | | auto | auto | reflexivity].
  - intros _. cbn. rc_start HR. rewrite Rtold, Ht. reflexivity.
  - rc_start HR. unfold live in Hl. unfold watch_closed in W.
    destruct x as [k p t cu ga il go fa ke]. cbn in *. subst t.
    destruct p; try discriminate; constructor; cbn in *; auto; intros; rc_fin.
Qed.

Lemma full_drive : forall ns g q s c, Full ns g q s -> Full ns g q (drive g s c).
Proof.
  intros. unfold drive. apply full_close. destruct (watch_closed g s) eqn:W; auto.
  now apply full_mark_told.
Qed.

(* facts about the parts of the state the driver does not touch *)
Lemma close_if_idle_same : forall g c s,
  s_srv (close_if_idle g c s) = s_srv s /\ s_fired (close_if_idle g c s) = s_fired s
  /\ length (s_conns (close_if_idle g c s)) = length (s_conns s)
  /\ forall c', c' <> c -> get c' (close_if_idle g c s) = get c' s.
Proof.
  intros. unfold close_if_idle. destruct (get c s); [destruct (closes g c0) |]; cbn; repeat split; auto.
  - apply upd_length.
  - intros. unfold get. cbn. apply nth_upd_neq. congruence.
Qed.

Lemma mark_told_same : forall c s,
  s_srv (mark_told s c) = s_srv s /\ s_fired (mark_told s c) = s_fired s
  /\ length (s_conns (mark_told s c)) = length (s_conns s)
  /\ forall c', c' <> c -> get c' (mark_told s c) = get c' s.
Proof.
  intros. unfold mark_told. destruct (get c s); [destruct (live c0 && negb (c_told c0)) |]; cbn; repeat split; auto.
  - apply upd_length.
  - intros. unfold get. cbn. apply nth_upd_neq. congruence.
Qed.

Lemma drive_same : forall g c s,
  s_srv (drive g s c) = s_srv s /\ s_fired (drive g s c) = s_fired s
  /\ length (s_conns (drive g s c)) = length (s_conns s)
  /\ forall c', c' <> c -> get c' (drive g s c) = get c' s.
Proof.
  intros. unfold drive.
  destruct (close_if_idle_same g c (if watch_closed g s then mark_told s c else s)) as (A & B & C & D).
  destruct (mark_told_same c s) as (A' & B' & C' & D').
  destruct (watch_closed g s); repeat split; try congruence; auto.
  intros c' H. rewrite D, D'; auto.
Qed.

(* after its driver ran, connection c is told (if the watch is closed) and not about to close;
   phases never go back to Queued *)
Lemma mark_told_at : forall s c x,
  get c (mark_told s c) = Some x ->
  (live x = true -> c_told x = true) /\ (c_ph x = Queued -> exists x0, get c s = Some x0 /\ c_ph x0 = Queued).
Proof.
  intros s c x. unfold mark_told. destruct (get c s) as [x0|] eqn:Hx.
  - destruct (live x0 && negb (c_told x0)) eqn:Hc.
    + rewrite get_emit, get_modc_eq, Hx. cbn. intros H. inv H. cbn. split; auto.
      intros. eauto.
    + rewrite Hx. intros H. inv H. split; eauto.
      intros Hl. rewrite Hl in Hc. cbn in Hc. now apply negb_false_iff in Hc.
  - congruence.
Qed.

Lemma close_at : forall g s c x,
  get c (close_if_idle g c s) = Some x ->
  closes g x = false /\
  exists x0, get c s = Some x0 /\ (c_ph x = Queued -> c_ph x0 = Queued)
             /\ ((live x0 = true -> c_told x0 = true) -> live x = true -> c_told x = true).
Proof.
  intros g s c x. unfold close_if_idle. destruct (get c s) as [x0|] eqn:Hx.
  - destruct (closes g x0) eqn:Hc.
    + rewrite get_emit, get_modc_eq, Hx. cbn. intros H. inv H. split; [apply closes_closed|].
      exists x0. cbn. repeat split; auto; discriminate.
    + rewrite Hx. intros H. inv H. eauto 6.
  - congruence.
Qed.

Definition QAt (g : cfg) (s : state) (c : nat) : Prop :=
  forall x, get c s = Some x ->
  c_ph x <> Queued /\ (watch_closed g s = true -> live x = true -> c_told x = true) /\ closes g x = false.

Lemma watch_closed_same : forall g s s', s_srv s' = s_srv s -> watch_closed g s' = watch_closed g s.
Proof. unfold watch_closed, srv_done. intros g s s' ->. reflexivity. Qed.

Lemma drive_all_quiet : forall ns g q s,
  Full ns g q s -> (s_fired s = true -> srv_done s = true) ->
  (forall c x, get c s = Some x -> c_ph x <> Queued) ->
  Full ns g q (drive_all g s) /\ Quiet g (drive_all g s).
Proof.
  intros ns g q s F S1 S2. unfold drive_all.
  set (n := length (s_conns s)).
  pose (P := fun s' : state => Full ns g q s' /\ s_srv s' = s_srv s /\ s_fired s' = s_fired s
                               /\ length (s_conns s') = n
                               /\ (forall c x, get c s' = Some x -> c_ph x <> Queued)).
  destruct (fold_left_all state P (QAt g) (drive g)) with (l := seq 0 n) (s := s) as [HP HQ].
  - intros s' c (F' & A & B & C & D). destruct (drive_same g c s') as (A' & B' & C' & D').
    refine (conj _ (conj _ (conj _ (conj _ _)))); try congruence.
    + now apply full_drive.
    + intros c' x Hg. destruct (Nat.eq_dec c' c) as [-> | Hne].
      * unfold drive in Hg. apply close_at in Hg. destruct Hg as (_ & x0 & Hg & Hq & _).
        intros Hp. specialize (Hq Hp).
        destruct (watch_closed g s').
        -- apply mark_told_at in Hg. destruct Hg as (_ & Hg). destruct (Hg Hq) as (x1 & H1 & H2).
           eapply D; eauto.
        -- eapply D; eauto.
      * rewrite D' in Hg by auto. eapply D; eauto.
  - intros s' c (F' & A & B & C & D) x Hg.
    assert (W : watch_closed g (drive g s' c) = watch_closed g s').
    { apply watch_closed_same. apply drive_same. }
    rewrite W. unfold drive in Hg. apply close_at in Hg. destruct Hg as (Hc & x0 & Hg & Hq & Ht).
    repeat split; auto.
    + intros Hp. specialize (Hq Hp). destruct (watch_closed g s').
      * apply mark_told_at in Hg. destruct Hg as (_ & Hg). destruct (Hg Hq) as (x1 & H1 & H2).
        eapply D; eauto.
      * eapply D; eauto.
    + intros Hw. rewrite Hw in Hg. apply mark_told_at in Hg. destruct Hg as (Hg & _). auto.
  - intros s' c j (F' & A & B & C & D) HQ x Hg.
    assert (W : watch_closed g (drive g s' c) = watch_closed g s').
    { apply watch_closed_same. apply drive_same. }
    destruct (Nat.eq_dec j c) as [-> | Hne].
    + rewrite W. unfold drive in Hg. apply close_at in Hg. destruct Hg as (Hc & x0 & Hg & Hq & Ht).
      repeat split; auto.
      * intros Hp. specialize (Hq Hp). destruct (watch_closed g s').
        -- apply mark_told_at in Hg. destruct Hg as (_ & Hg). destruct (Hg Hq) as (x1 & H1 & H2).
           eapply D; eauto.
        -- eapply D; eauto.
      * intros Hw. rewrite Hw in Hg. apply mark_told_at in Hg. destruct Hg as (Hg & _). auto.
    + rewrite W. destruct (drive_same g c s') as (_ & _ & _ & D'). rewrite D' in Hg by auto.
      now apply HQ.
  - refine (conj _ (conj _ (conj _ (conj _ _)))); auto.
  - destruct HP as (F' & A & B & C & D). split; auto.
    set (s' := fold_left (drive g) (seq 0 n) s) in *.
    assert (HQ' : forall c x, get c s' = Some x -> QAt g s' c).
    { intros c x Hg. apply HQ. apply in_seq. apply get_some_lt in Hg. lia. }
    constructor.
    + rewrite B. unfold srv_done. rewrite A. exact S1.
    + intros c x Hg. eapply D; eauto.
    + intros Hw c x Hg. destruct (HQ' c x Hg x Hg) as (_ & H & _). auto.
    + intros c x Hg. destruct (HQ' c x Hg x Hg) as (_ & _ & H). auto.
Qed.

(* ------------------------------------------------------------------ global changes *)
Lemma full_queue_param : forall ns g q q' s,
  Full ns g q s ->
  (forall c x, get c s = Some x -> c_ph x = Queued -> In (QLive c) q ->
               In (QLive c) q' \/ srv_done s = true \/ s_lost s = true) ->
  Full ns g q' s.
Proof.
  intros ns g q q' s [R G] H. split; auto. destruct R. constructor; auto.
  intros c x Hn Hp. destruct (g_queue0 c x Hn Hp) as [Hi | Hd]; auto. eapply H; eauto.
Qed.

Lemma full_set_queue : forall ns g q v s, Full ns g q s -> Full ns g q (set_queue v s).
Proof.
  intros ns g q v s [R G]. split; [| exact G]. destruct R. constructor; auto.
Qed.

Lemma full_set_armed_false : forall ns g q s, Full ns g q s -> Full ns g q (set_armed false s).
Proof.
  intros ns g q s [R G]. split; [| exact G]. destruct R. constructor; auto.
  intros H. apply g_cause0. change (s_fired s || s_lost s || false || srv_done s = true) in H.
  destruct (s_fired s), (s_lost s), (srv_done s), (s_armed s); cbn in *; auto.
Qed.

Lemma full_set_accepting : forall ns g q s,
  Full ns g q s -> srv_done s = false -> Full ns g q (set_srv SAccepting s).
Proof.
  intros ns g q s [R G] Hd. split; [| exact G]. unfold srv_done in *. destruct R.
  change (mstate (set_srv SAccepting s)) with (mstate s). constructor; cbn; auto.
  - rewrite g_server0. destruct (s_srv s); auto; discriminate.
  - intros H. apply g_cause0. unfold srv_done. rewrite Hd. exact H.
  - intros c x Hn. specialize (g_conns0 c x Hn). unfold srv_done in g_conns0. now rewrite Hd in g_conns0.
  - intros c x Hn Hp. destruct (g_queue0 c x Hn Hp) as [|[|]]; auto. unfold srv_done in H. congruence.
Qed.

Lemma full_finish : forall ns g q q' s r,
  Full ns g q s -> srv_done s = false -> k_cause (mstate s) = true ->
  (ns = true -> s_fired s = true -> r = true) ->
  Full ns g q' (finish r s).
Proof.
  intros ns g q q' s r [R [G9 G7]] Hd Hc Hr. unfold finish.
  assert (Hm : mstate (emit (OServer r) (set_srv (SDone r) s)) = track (mstate s) (OServer r)).
  { rewrite mstate_emit. reflexivity. }
  destruct R. split; [| split].
  - rewrite Hm. constructor; cbn; auto.
    intros c x Hn. specialize (g_conns0 c x Hn). rewrite Hd in g_conns0. now apply rc_mono.
  - apply good_emit; [eapply good_out; [| exact G9]; reflexivity |].
    change (mstate (set_srv (SDone r) s)) with (mstate s). exact Hc.
  - intros Hns. destruct (G7 Hns) as [NS G]. split; [exact NS |].
    apply good_emit; [eapply good_out; [| exact G]; reflexivity |].
    change (mstate (set_srv (SDone r) s)) with (mstate s). cbn. rewrite g_fired0.
    destruct (s_fired s) eqn:Hf; cbn; auto.
Qed.

(* an event that leaves the counters alone *)
Lemma full_emit_plain : forall ns g q s o,
  Full ns g q s -> track (mstate s) o = mstate s ->
  chk09 (mstate s) o = true -> (ns = true -> chk07_strict (mstate s) o = true) ->
  Full ns g q (emit o s).
Proof.
  intros ns g q s o [R [G9 G7]] Ht H9 H7. split; [| split].
  - rewrite mstate_emit, Ht. destruct R. constructor; auto.
  - now apply good_emit.
  - intros Hns. destruct (G7 Hns). split; auto. apply good_emit; auto.
Qed.

(* ------------------------------------------------------------------ refusing *)
Lemma full_refuse : forall ns g q s c,
  Full ns g q s -> srv_done s = true -> Full ns g q (refuse s c).
Proof.
  intros ns g q s c F Hd. unfold refuse. destruct (get c s) as [x|] eqn:Hx; auto.
  destruct (c_ph x) eqn:Hp; auto.
  assert (HR := full_get _ _ _ _ _ _ F Hx).
  assert (Hc : k_cause (mstate s) = true).
  { destruct (full_rel _ _ _ _ F). apply g_cause0. rewrite Hd. now rewrite !orb_true_r. }
  assert (E : (if s_keep s then modc c (w_ph Refused) s else emit (ORefused c) (modc c (w_ph Refused) s))
              = emits (if s_keep s then [] else [ORefused c]) (modc c (w_ph Refused) s)).
  { destruct (s_keep s); reflexivity. }
  rewrite E.
  eapply full_conn with (fy := fun y => y) (x := x);
    [exact F | exact Hx | | | | | discriminate | auto | reflexivity].
  - destruct (s_keep s); [apply conn_only_nil; eapply full_lt; eauto | apply conn_only_updc].
  - destruct (s_keep s); reflexivity.
  - destruct (s_keep s); reflexivity.
  - rc_start HR. destruct x as [k p t cu ga il go fa ke]. cbn in *. subst p.
    constructor; cbn in *; auto; intros; rc_fin.
Qed.

Lemma refuse_same : forall c s,
  s_srv (refuse s c) = s_srv s /\ s_fired (refuse s c) = s_fired s
  /\ length (s_conns (refuse s c)) = length (s_conns s)
  /\ (forall c', c' <> c -> get c' (refuse s c) = get c' s)
  /\ (forall x, get c (refuse s c) = Some x -> c_ph x <> Queued)
  /\ (forall c' x, get c' (refuse s c) = Some x -> c_ph x = Queued -> get c' s = Some x).
Proof.
  intros. unfold refuse. destruct (get c s) as [x0|] eqn:Hx.
  - destruct (c_ph x0) eqn:Hp;
      try (replace (if s_keep s then modc c (w_ph Refused) s else emit (ORefused c) (modc c (w_ph Refused) s))
             with (emits (if s_keep s then [] else [ORefused c]) (modc c (w_ph Refused) s))
             by (destruct (s_keep s); reflexivity));
      cbn; refine (conj _ (conj _ (conj _ (conj _ (conj _ _))))); auto;
      try (intros; congruence); try apply upd_length.
    + intros. unfold get. cbn. apply nth_upd_neq. congruence.
    + intros x. unfold get in *. cbn. rewrite nth_upd_eq, Hx. cbn. intros H. inv H. cbn. discriminate.
    + intros c' x. unfold get in *. cbn. destruct (Nat.eq_dec c' c) as [-> | Hne].
      * rewrite nth_upd_eq, Hx. cbn. intros H. inv H. cbn. discriminate.
      * rewrite nth_upd_neq by congruence. auto.
  - refine (conj _ (conj _ (conj _ (conj _ (conj _ _))))); auto; intros; congruence.
Qed.

Lemma refuse_queued_spec : forall ns g q s,
  Full ns g q s ->
  Full ns g q (refuse_queued s)
  /\ s_srv (refuse_queued s) = s_srv s /\ s_fired (refuse_queued s) = s_fired s
  /\ (srv_done s = true -> forall c x, get c (refuse_queued s) = Some x -> c_ph x <> Queued)
  /\ (forall c x, get c (refuse_queued s) = Some x -> c_ph x = Queued -> get c s = Some x).
Proof.
  intros ns g q s F. unfold refuse_queued. destruct (srv_done s) eqn:Hd.
  2:{ refine (conj _ (conj _ (conj _ (conj _ _)))); auto. discriminate. }
  set (n := length (s_conns s)).
  pose (P := fun s' : state => Full ns g q s' /\ s_srv s' = s_srv s /\ s_fired s' = s_fired s
                               /\ length (s_conns s') = n
                               /\ (forall c x, get c s' = Some x -> c_ph x = Queued -> get c s = Some x)).
  pose (Q := fun (s' : state) (c : nat) => forall x, get c s' = Some x -> c_ph x <> Queued).
  destruct (fold_left_all state P Q refuse) with (l := seq 0 n) (s := s) as [HP HQ].
  - intros s' c (F' & A & B & C & D). destruct (refuse_same c s') as (A' & B' & C' & D' & E' & G').
    refine (conj _ (conj _ (conj _ (conj _ _)))); try congruence.
    + apply full_refuse; auto. unfold srv_done in *. now rewrite A.
    + intros c' x Hg Hp. eapply D; eauto.
  - intros s' c _. destruct (refuse_same c s') as (_ & _ & _ & _ & E' & _). exact E'.
  - intros s' c j _ HQ x Hg Hp. destruct (refuse_same c s') as (_ & _ & _ & _ & _ & G').
    eapply HQ; eauto.
  - refine (conj _ (conj _ (conj _ (conj _ _)))); auto.
  - destruct HP as (F' & A & B & C & D).
    refine (conj _ (conj _ (conj _ (conj _ _)))); auto.
    intros _ c x Hg. apply (HQ c); auto. apply in_seq. apply get_some_lt in Hg. lia.
Qed.

Lemma rc_cause_any : forall g sd cz x y, Rc g sd cz x y -> Rc g sd true x y.
Proof. intros g sd cz x y []. constructor; auto. Qed.

(* the signal resolves (ESignal, or the armed make-service inside the accept loop) *)
Lemma full_fire : forall ns g q s,
  Full ns g q s -> g_graceful g = true -> s_fired s = false ->
  Full ns g q (emit OSignal (set_fired true s)).
Proof.
  intros ns g q s F Hg Hnf. destruct F as [R [G9 G7]].
  assert (Hm : mstate (emit OSignal (set_fired true s)) = track (mstate s) OSignal).
  { rewrite mstate_emit. reflexivity. }
  destruct R. split; [| split].
  - rewrite Hm. constructor; cbn; auto.
    + intros c x Hn. eapply rc_cause_any. apply g_conns0. exact Hn.
    + intros _ c x Hn Hcut. specialize (g_conns0 c x Hn). rc_start g_conns0.
      rewrite g_fired0, Hnf. unfold idle_cm. rewrite Rfault. destruct (c_faulty x) eqn:Hfa; cbn; [now rewrite !andb_false_r |].
      specialize (Rbegun eq_refl). specialize (Rresp eq_refl). rewrite Hcut in Rbegun. cbn in Rbegun.
      destruct (Nat.eqb_spec (m_begun (k_conns (mstate s) c)) (m_resp (k_conns (mstate s) c))); [lia |].
      now rewrite !andb_false_r.
  - apply good_emit; [eapply good_out; [| exact G9]; reflexivity | reflexivity].
  - intros Hns. destruct (G7 Hns) as [NS G]. split; [exact NS |].
    apply good_emit; [eapply good_out; [| exact G]; reflexivity | reflexivity].
Qed.

Lemma full_set_sigarm : forall ns g q v s, Full ns g q s -> Full ns g q (set_sigarm v s).
Proof.
  intros ns g q v s [R G]. split; [| exact G]. destruct R. constructor; auto.
Qed.

Lemma full_make_signal : forall ns g q s, Full ns g q s -> Full ns g q (make_signal g s).
Proof.
  intros ns g q s F. unfold make_signal. destruct (s_sigarm s) as [[|k]|]; auto.
  - change (s_fired (set_sigarm None s)) with (s_fired s).
    destruct (g_graceful g && negb (s_fired s)) eqn:Hc.
    + apply andb_prop in Hc. destruct Hc as [Hg Hnf]. apply negb_true_iff in Hnf.
      apply full_fire; auto. now apply full_set_sigarm.
    + now apply full_set_sigarm.
  - now apply full_set_sigarm.
Qed.

Lemma make_signal_same : forall g s,
  s_srv (make_signal g s) = s_srv s /\ s_lost (make_signal g s) = s_lost s
  /\ s_armed (make_signal g s) = s_armed s /\ s_conns (make_signal g s) = s_conns s.
Proof.
  intros. unfold make_signal. destruct (s_sigarm s) as [[|k]|]; auto.
  change (s_fired (set_sigarm None s)) with (s_fired s).
  destruct (g_graceful g && negb (s_fired s)); auto.
Qed.

(* ------------------------------------------------------------------ the accept loop *)
Lemma rc_spawn : forall g sd cz x y,
  Rc g sd cz x y -> c_ph x = Queued -> Rc g sd cz (spawn_ph g x) (cm_sp (cm_acc y)).
Proof.
  intros g sd cz x y HR Hp. rc_start HR. unfold spawn_ph, initial_phase.
  destruct x as [k p t cu ga il go fa ke]. cbn in *. subst p.
  destruct (is_auto (g_proto g)); [destruct (kind_eqb k KH2) |];
    constructor; cbn in *; auto; intros; rc_fin.
Qed.

Lemma spawn_ph_not_queued : forall g x, c_ph (spawn_ph g x) <> Queued.
Proof.
  intros. unfold spawn_ph, initial_phase. cbn.
  destruct (is_auto (g_proto g)); [destruct (kind_eqb (c_kind x) KH2) |]; discriminate.
Qed.

(* the driver of a connection that was dead on arrival ends at once *)
Lemma full_reap : forall ns g q s c x,
  Full ns g q s -> get c s = Some x -> c_infl x = [] -> c_cut x = false ->
  Full ns g q (reap c s).
Proof.
  intros ns g q s c x F Hx Hi Hc. unfold reap. rewrite Hx.
  destruct (c_gone x && live x) eqn:Hg; auto. apply andb_prop in Hg. destruct Hg as [_ Hl].
  assert (HR := full_get _ _ _ _ _ _ F Hx).
  rewrite emit_emits.
  eapply full_conn with (fy := cm_done) (x := x);
    [exact F | exact Hx | apply conn_only_updc | reflexivity | reflexivity | | discriminate | discriminate | reflexivity].
  rc_start HR. unfold live in Hl. destruct x as [k p t cu ga il go fa ke]. cbn in *. subst il cu.
  destruct p; try discriminate; constructor; cbn in *; auto; intros; rc_fin.
Qed.

Lemma reap_same : forall c s,
  s_srv (reap c s) = s_srv s
  /\ (forall c' x, get c' (reap c s) = Some x -> c_ph x = Queued -> get c' s = Some x).
Proof.
  intros. unfold reap. destruct (get c s) as [x0|] eqn:Hx; [| auto].
  destruct (c_gone x0 && live x0); [| auto]. split; [reflexivity |].
  intros c' x. rewrite get_emit. destruct (Nat.eq_dec c c') as [<- | Hne].
  - rewrite get_modc_eq, Hx. cbn. intros H. inv H. discriminate.
  - rewrite get_modc_neq by auto. auto.
Qed.

Lemma accept_loop_unfold : forall g q s,
  accept_loop g q s =
  if g_graceful g && s_fired s then finish true (set_queue q s)
  else
  match q with
  | [] =>
      if s_lost s then finish false (emit OAcceptErr (set_queue [] s))
      else set_srv SAccepting (set_queue [] s)
  | QDead :: q' => accept_loop g q' s
  | QLive c :: q' =>
      match get c s with
      | Some x =>
          match c_ph x with
          | Queued =>
              let s1 := emit (OAccept c) s in
              if s_armed s1
              then finish false (set_queue q' (set_armed false (modc c (w_ph Dropped) s1)))
              else accept_loop g q' (make_signal g (reap c (emit (OSpawn c) (modc c (spawn_ph g) s1))))
          | _ => accept_loop g q' s
          end
      | None => accept_loop g q' s
      end
  end.
Proof. intros. destruct q; reflexivity. Qed.

Lemma accept_loop_spec : forall ns g q s,
  Full ns g q s -> srv_done s = false ->
  (forall q0, Full ns g q0 (accept_loop g q s))
  /\ (s_fired (accept_loop g q s) = true -> srv_done (accept_loop g q s) = true)
  /\ (srv_done (accept_loop g q s) = true
      \/ forall c x, get c (accept_loop g q s) = Some x -> c_ph x <> Queued).
Proof.
  intros ns g q. induction q as [|e q' IH]; intros s F Hd; rewrite accept_loop_unfold.
  all: destruct (g_graceful g && s_fired s) eqn:Hgf.
  1, 3: (* the signal has resolved: Ready (Ok ()) *)
    apply andb_prop in Hgf; destruct Hgf as [Hg Hf];
    (split; [| split]; [| reflexivity | left; reflexivity]);
    intros q0; eapply full_finish;
      [apply full_set_queue; exact F | exact Hd
      | destruct (full_rel _ _ _ _ F) as [? ? ? gc ? ? ? ? ?]; apply gc; now rewrite Hf
      | reflexivity].
  all: assert (Hf : s_fired s = false)
    by (destruct (s_fired s) eqn:Hf; auto; destruct (full_rel _ _ _ _ F) as [? ? ? ? gg ? ? ? ?];
        rewrite (gg Hf) in Hgf; discriminate).
  - (* queue drained *)
    destruct (s_lost s) eqn:Hl.
    + assert (F1 : Full ns g [] (emit OAcceptErr (set_queue [] s))).
      { apply full_emit_plain; auto. now apply full_set_queue. }
      assert (Hc : k_cause (mstate (emit OAcceptErr (set_queue [] s))) = true).
      { destruct (full_rel _ _ _ _ F1). apply g_cause0. cbn. rewrite Hl. now rewrite orb_true_r. }
      split; [| split].
      * intros q0. eapply full_finish; eauto; intros _ H; cbn in H; congruence.
      * reflexivity.
      * left. reflexivity.
    + assert (F1 : Full ns g [] (set_srv SAccepting (set_queue [] s))).
      { apply full_set_accepting; auto. now apply full_set_queue. }
      assert (NQ : forall c x, get c (set_srv SAccepting (set_queue [] s)) = Some x -> c_ph x <> Queued).
      { intros c x Hg Hp. destruct (full_rel _ _ _ _ F1). destruct (g_queue0 c x Hg Hp) as [[] | [H | H]].
        - unfold srv_done in *. cbn in H. discriminate.
        - cbn in H. congruence. }
      split; [| split]; auto.
      * intros q0. eapply full_queue_param; [exact F1 |]. intros c x Hg Hp. now apply NQ in Hg.
      * cbn. intros H. congruence.
  - destruct e as [c |].
    2:{ (* a dead request: skipped *)
        apply IH; auto. eapply full_queue_param; [exact F |].
        intros c x _ _ [H | H]; [discriminate | auto]. }
    assert (Skip : (forall x, get c s = Some x -> c_ph x <> Queued) -> Full ns g q' s).
    { intros Hn. eapply full_queue_param; [exact F |]. intros c' x Hg Hp [H | H]; auto.
      inv H. now apply Hn in Hg. }
    destruct (get c s) as [x|] eqn:Hx.
    2:{ apply IH; auto. apply Skip. intros; congruence. }
    destruct (c_ph x) eqn:Hp; try (apply IH; auto; apply Skip; intros x' H; inv H; congruence).
    assert (HR := full_get _ _ _ _ _ _ F Hx).
    assert (Hfm : k_fired (mstate s) = false).
    { destruct (full_rel _ _ _ _ F). congruence. }
    cbv zeta. change (s_armed (emit (OAccept c) s)) with (s_armed s).
    destruct (s_armed s) eqn:Ha.
    + (* the make-service fails: the connection is dropped with the accept loop *)
      assert (Hc : k_cause (mstate s) = true).
      { destruct (full_rel _ _ _ _ F). apply g_cause0. rewrite Ha. now rewrite orb_true_r. }
      assert (F1 : Full ns g (QLive c :: q') (emits [OAccept c] (modc c (w_ph Dropped) s))).
      { eapply full_conn with (fy := cm_acc) (x := x);
          [exact F | exact Hx | apply conn_only_updc | reflexivity | | | discriminate | auto | reflexivity].
        - intros _. cbn. now rewrite Hfm.
        - rc_start HR. destruct x as [k p t cu ga il go fa ke]. cbn in *. subst p.
          constructor; cbn in *; auto; intros; rc_fin. }
      change (finish false (set_queue q' (set_armed false (modc c (w_ph Dropped) (emit (OAccept c) s)))))
        with (finish false (set_queue q' (set_armed false (emits [OAccept c] (modc c (w_ph Dropped) s))))).
      split; [| split].
      * intros q0. eapply full_finish.
        -- apply full_set_queue. apply full_set_armed_false. exact F1.
        -- exact Hd.
        -- change (k_cause (mstate (emits [OAccept c] (modc c (w_ph Dropped) s))) = true).
           rewrite mstate_emits. exact Hc.
        -- intros _ H. cbn in H. congruence.
      * reflexivity.
      * left. reflexivity.
    + (* spawned; its make-service may resolve the signal *)
      change (emit (OSpawn c) (modc c (spawn_ph g) (emit (OAccept c) s)))
        with (emits [OAccept c; OSpawn c] (modc c (spawn_ph g) s)).
      assert (F1 : Full ns g (QLive c :: q') (emits [OAccept c; OSpawn c] (modc c (spawn_ph g) s))).
      { eapply full_conn with (fy := fun y => cm_sp (cm_acc y)) (x := x);
          [exact F | exact Hx | eapply conn_only_trans; apply conn_only_updc | reflexivity | | now apply rc_spawn
           | intros H; now apply spawn_ph_not_queued in H | auto | reflexivity].
        intros _. cbn. now rewrite Hfm. }
      set (s2 := emits [OAccept c; OSpawn c] (modc c (spawn_ph g) s)) in *.
      assert (Hx2 : get c s2 = Some (spawn_ph g x)).
      { subst s2. rewrite get_emits, get_modc_eq, Hx. reflexivity. }
      destruct (reap_same c s2) as (R1 & R2).
      destruct (make_signal_same g (reap c s2)) as (M1 & M2 & M3 & M4).
      apply IH.
      * apply full_make_signal. eapply full_queue_param.
        -- eapply full_reap; [exact F1 | exact Hx2 | |];
             rc_start HR; destruct x as [k p t cu ga il go fa ke]; cbn in *; subst p;
             destruct (Rquiet eq_refl); auto.
        -- intros c' x' Hg Hq [H | H]; auto.
           inv H. apply R2 in Hg; auto. rewrite Hx2 in Hg. inv Hg.
           now apply spawn_ph_not_queued in Hq.
      * unfold srv_done. rewrite M1, R1. exact Hd.
Qed.

Lemma server_poll_done : forall g s, srv_done s = true -> server_poll g s = s.
Proof. intros g s. unfold server_poll, srv_done. destruct (s_srv s); auto; discriminate. Qed.

Lemma server_poll_live : forall g s, srv_done s = false ->
  server_poll g s = if g_graceful g && s_fired s then finish true s else accept_loop g (s_queue s) s.
Proof. intros g s. unfold server_poll, srv_done. destruct (s_srv s); auto; discriminate. Qed.

Lemma server_poll_spec : forall ns g s,
  Full ns g (s_queue s) s ->
  (forall q0, Full ns g q0 (server_poll g s))
  /\ (s_fired (server_poll g s) = true -> srv_done (server_poll g s) = true)
  /\ (srv_done (server_poll g s) = true
      \/ forall c x, get c (server_poll g s) = Some x -> c_ph x <> Queued).
Proof.
  intros ns g s F.
  destruct (srv_done s) eqn:Hd.
  - rewrite server_poll_done by auto. rewrite Hd.
    refine (conj _ (conj _ _)); auto. intros q0. eapply full_queue_param; [exact F |]. auto.
  - rewrite server_poll_live by auto. destruct (g_graceful g && s_fired s) eqn:Hg.
    + apply andb_prop in Hg. destruct Hg as [Hg Hf].
      refine (conj _ (conj _ _)); auto.
      intros q0. eapply full_finish; eauto.
      destruct (full_rel _ _ _ _ F). apply g_cause0. now rewrite Hf.
    + now apply accept_loop_spec.
Qed.

Lemma settle_spec : forall ns g s,
  Full ns g (s_queue s) s ->
  (forall q0, Full ns g q0 (settle g s)) /\ Quiet g (settle g s).
Proof.
  intros ns g s F. unfold settle.
  destruct (server_poll_spec ns g s F) as (F1 & B1 & C1).
  set (s1 := server_poll g s) in *.
  destruct (refuse_queued_spec ns g [] s1 (F1 [])) as (F2 & A2 & B2 & C2 & D2).
  set (s2 := refuse_queued s1) in *.
  assert (Hd : srv_done s2 = srv_done s1) by (unfold srv_done; now rewrite A2).
  assert (NQ : forall c x, get c s2 = Some x -> c_ph x <> Queued).
  { intros c x Hg Hp. destruct C1 as [C1 | C1].
    - eapply C2; eauto.
    - eapply C1; eauto. }
  destruct (drive_all_quiet ns g [] s2 F2) as [F3 Q3]; auto.
  - intros Hf. rewrite Hd. apply B1. congruence.
  - split; auto. intros q0. eapply full_queue_param; [exact F3 |].
    intros c x Hg Hp. destruct Q3. now apply q_queued0 in Hg.
Qed.

(* ------------------------------------------------------------------ environment actions *)
Definition FQx (ns : bool) (g : cfg) (q : list qent) (c : nat) (s : state) : Prop :=
  Full ns g q s /\ QuietEx g c s.
Definition FQ (ns : bool) (g : cfg) (q : list qent) (s : state) : Prop :=
  Full ns g q s /\ Quiet g s.

Lemma fq_weak : forall ns g q c s, FQ ns g q s -> FQx ns g q c s.
Proof. intros ns g q c s [F Q]. split; auto. now apply quiet_weak. Qed.

Lemma fq_close : forall ns g q c s, FQx ns g q c s -> FQ ns g q (close_if_idle g c s).
Proof. intros ns g q c s [F Q]. split; [now apply full_close | now apply quietex_close]. Qed.

Lemma fq_strong : forall ns g q c s,
  FQx ns g q c s -> (forall x, get c s = Some x -> closes g x = false) -> FQ ns g q s.
Proof. intros ns g q c s [F Q] H. split; auto. eapply quietex_strong; eauto. Qed.

Lemma fq_conn : forall ns g q s c x f fy os,
  FQx ns g q c s -> get c s = Some x ->
  ConnOnly c fy (mstate s) (tracks (mstate s) os) ->
  mon_from chk09 (mstate s) os = true ->
  (ns = true -> mon_from chk07_strict (mstate s) os = true) ->
  Rc g (srv_done s) (k_cause (mstate s)) (f x) (fy (k_conns (mstate s) c)) ->
  c_ph (f x) <> Queued ->
  (s_fired s = true -> c_cut (f x) = true -> c_cut x = true) ->
  c_kind (f x) = c_kind x ->
  (watch_closed g s = true -> live (f x) = true -> c_told (f x) = true) ->
  FQx ns g q c (emits os (modc c f s)).
Proof.
  intros ns g q s c x f fy os [F Q] Hx CO M9 M7 HR Hp Hc Hk Ht. split.
  - eapply full_conn; eauto. intros H. now apply Hp in H.
  - eapply quietex_conn; eauto.
Qed.

Lemma fq_get : forall ns g q c s x,
  FQx ns g q c s -> get c s = Some x ->
  Rc g (srv_done s) (k_cause (mstate s)) x (k_conns (mstate s) c)
  /\ c_ph x <> Queued
  /\ (watch_closed g s = true -> live x = true -> c_told x = true)
  /\ (s_fired s = true -> watch_closed g s = true)
  /\ k_fired (mstate s) = s_fired s.
Proof.
  intros ns g q c s x [F Q] Hx. destruct Q. destruct (full_rel _ _ _ _ F).
  refine (conj _ (conj _ (conj _ (conj _ _)))); eauto.
  intros Hf. unfold watch_closed. rewrite g_grace0, e_fired0; auto.
Qed.

Lemma closes_infl : forall g x n l, c_ph x = Open -> c_infl x = n :: l -> closes g x = false.
Proof.
  intros g x n l Hp H. unfold closes, drained. rewrite H, Hp. cbn. apply andb_false_r.
Qed.

Lemma closes_untold : forall g x, c_told x = false -> closes g x = false.
Proof. intros g x H. unfold closes. now rewrite H. Qed.

Lemma fq_act_partial : forall ns g q c s, FQ ns g q s -> FQ ns g q (act_partial g c s).
Proof.
  intros ns g q c s FQ0. unfold act_partial. destruct (get c s) as [x|] eqn:Hx; auto.
  destruct (usable x && kind_eqb (c_kind x) KH1 && idle x && negb (watch_closed g s)) eqn:Hc; auto.
  apply andb_prop in Hc. destruct Hc as [Hc Hw]. apply andb_prop in Hc. destruct Hc as [Hc Hi].
  apply andb_prop in Hc. destruct Hc as [Hu Hk]. apply negb_true_iff in Hw.
  assert (FX := fq_weak _ _ _ c _ FQ0).
  destruct (fq_get _ _ _ _ _ _ FX Hx) as (HR & Hq & Ht & Hfw & Hfm).
  assert (Htold : c_told x = false).
  { rc_start HR. destruct (c_told x) eqn:E; auto. specialize (Rwc eq_refl).
    unfold watch_closed in Hw. congruence. }
  rewrite emit_emits. eapply fq_strong with (c := c).
  - eapply fq_conn with (fy := cm_begin) (x := x);
      [exact FX | exact Hx | apply conn_only_updc | reflexivity | reflexivity | | discriminate | | reflexivity | ].
    + rc_start HR. unfold usable, live, idle in *.
      destruct x as [k p t cu ga il go fa ke]. cbn in *.
      destruct il; try discriminate. apply negb_true_iff in Hi. subst cu.
      destruct p; rewrite ?andb_false_r in Hu; try discriminate; constructor; cbn in *; auto; intros; rc_fin.
    + intros Hf. apply Hfw in Hf. congruence.
    + intros H. congruence.
  - intros x'. rewrite get_emits, get_modc_eq, Hx. cbn. intros H. inv H.
    apply closes_untold. exact Htold.
Qed.

Lemma fq_open_gate : forall ns g q c s, FQ ns g q s -> FQ ns g q (open_gate g c s).
Proof.
  intros ns g q c s FQ0. unfold open_gate. destruct (get c s) as [x|] eqn:Hx; auto.
  destruct (kind_eqb (c_kind x) KCut && c_gate x) eqn:Hc; auto.
  assert (FX := fq_weak _ _ _ c _ FQ0).
  destruct (fq_get _ _ _ _ _ _ FX Hx) as (HR & Hq & Ht & Hfw & Hfm).
  apply fq_close.
  set (f := fun x0 : conn => w_gate false match c_ph x0 with Sniffing => w_ph Open x0 | _ => x0 end).
  change (modc c f s) with (emits [] (modc c f s)).
  eapply fq_conn with (fy := fun y => y) (x := x);
    [exact FX | exact Hx | | reflexivity | reflexivity | | | | | ].
  - apply conn_only_nil. destruct FX as [F _]. eapply full_lt; eauto.
  - rc_start HR. subst f. destruct x as [k p t cu ga il go fa ke]. cbn in *.
    destruct p; constructor; cbn in *; auto; intros; rc_fin.
  - subst f. destruct x as [k p t cu ga il go fa ke]. cbn in *. destruct p; cbn; congruence.
  - subst f. destruct x as [k p t cu ga il go fa ke]. cbn in *. destruct p; cbn; auto.
  - subst f. destruct x as [k p t cu ga il go fa ke]. cbn in *. destruct p; reflexivity.
  - intros Hw Hl. subst f. unfold live in *. destruct x as [k p t cu ga il go fa ke]. cbn in *.
    destruct p; cbn in *; try discriminate; auto.
Qed.

Lemma rc_open_of_cut : forall g sd cz x y, Rc g sd cz x y -> c_cut x = true -> c_ph x = Open.
Proof.
  intros g sd cz x y HR Hc. rc_start HR. destruct (c_ph x); auto;
    destruct (Rquiet eq_refl) as [_ H]; congruence.
Qed.

Lemma rc_open_of_infl : forall g sd cz x y n l, Rc g sd cz x y -> c_infl x = n :: l -> c_ph x = Open.
Proof.
  intros g sd cz x y n l HR Hc. rc_start HR. destruct (c_ph x); auto;
    destruct (Rquiet eq_refl) as [H _]; congruence.
Qed.

Lemma fq_act_req : forall ns g q c s, FQ ns g q s -> FQ ns g q (act_req g c s).
Proof.
  intros ns g q c s FQ0. unfold act_req. destruct (get c s) as [x0|] eqn:Hx0; auto.
  destruct (c_gone x0); auto.
  assert (FQ1 := fq_open_gate ns g q c s FQ0).
  set (s1 := open_gate g c s) in *. clearbody s1. clear Hx0 x0 FQ0.
  destruct (get c s1) as [x|] eqn:Hx; auto.
  assert (FX := fq_weak _ _ _ c _ FQ1).
  destruct (fq_get _ _ _ _ _ _ FX Hx) as (HR & Hq & Ht & Hfw & Hfm).
  destruct (c_cut x) eqn:Hcut.
  - (* the cut head is completed: the handler is invoked *)
    assert (Hop := rc_open_of_cut _ _ _ _ _ HR Hcut).
    rewrite emit_emits. eapply fq_strong with (c := c).
    + eapply fq_conn with (fy := cm_hand (k_fired (mstate s1))) (x := x);
        [exact FX | exact Hx | apply conn_only_updc | reflexivity | | | | | reflexivity | ].
      * intros _. cbn. rewrite andb_true_r. destruct (k_fired (mstate s1)) eqn:Hf; auto. cbn.
        destruct FX as [F _]. destruct (full_rel _ _ _ _ F). rewrite g_snap0 with (x := x); auto; congruence.
      * rc_start HR. destruct x as [k p t cu ga il go fa ke]. cbn in *. subst p cu.
        destruct (k_fired (mstate s1)); constructor; cbn in *; auto; intros; rewrite ?app_length in *; rc_fin.
      * cbn. congruence.
      * cbn. discriminate.
      * cbn. unfold live. cbn. rewrite Hop. intros Hw _. apply Ht; auto. unfold live. now rewrite Hop.
    + intros x'. rewrite get_emits, get_modc_eq, Hx. cbn. intros H. inv H.
      destruct (c_infl x) eqn:Hi; eapply closes_infl; cbn; eauto; rewrite Hi; reflexivity.
  - destruct (usable x && negb (watch_closed g s1) && (negb (kind_eqb (c_kind x) KH1) || idle x)) eqn:Hc; auto.
    apply andb_prop in Hc. destruct Hc as [Hc _]. apply andb_prop in Hc. destruct Hc as [Hu Hw].
    apply negb_true_iff in Hw.
    assert (Hnf : k_fired (mstate s1) = false).
    { rewrite Hfm. destruct (s_fired s1) eqn:Hf; auto. rewrite Hfw in Hw; [discriminate | reflexivity]. }
    change (emit (OHandler c) (emit (OBegin c) (modc c (fun x1 => w_infl (c_infl x1 ++ [3]) (w_ph Open x1)) s1)))
      with (emits [OBegin c; OHandler c] (modc c (fun x1 => w_infl (c_infl x1 ++ [3]) (w_ph Open x1)) s1)).
    eapply fq_strong with (c := c).
    + eapply fq_conn with (fy := fun y => cm_hand (k_fired (mstate s1)) (cm_begin y)) (x := x);
        [exact FX | exact Hx | eapply conn_only_trans; apply conn_only_updc | reflexivity | | | | | reflexivity | ].
      * intros _. cbn. now rewrite Hnf.
      * rc_start HR. rewrite Hnf. unfold usable, live in Hu.
        destruct x as [k p t cu ga il go fa ke]. cbn in *. subst cu.
        destruct p; rewrite ?andb_false_r in Hu; try discriminate;
          constructor; cbn in *; auto; intros; rewrite ?app_length in *; rc_fin.
      * cbn. discriminate.
      * cbn. auto.
      * cbn. intros Hw'. congruence.
    + intros x'. rewrite get_emits, get_modc_eq, Hx. cbn. intros H. inv H.
      destruct (c_infl x) eqn:Hi; eapply closes_infl; cbn; eauto; rewrite Hi; reflexivity.
Qed.

Lemma fq_act_step : forall ns g q c s, FQ ns g q s -> FQ ns g q (act_step g c s).
Proof.
  intros ns g q c s FQ0. unfold act_step. destruct (get c s) as [x|] eqn:Hx; auto.
  destruct (c_gone x); auto. destruct (c_infl x) as [|n rest] eqn:Hi; auto.
  assert (FX := fq_weak _ _ _ c _ FQ0).
  destruct (fq_get _ _ _ _ _ _ FX Hx) as (HR & Hq & Ht & Hfw & Hfm).
  assert (Hop := rc_open_of_infl _ _ _ _ _ _ _ HR Hi).
  destruct (Nat.leb n 1).
  - (* the response is finished *)
    apply fq_close.
    change (emit (OResp c) (emit (OEnvDone c) (modc c (fun x0 => w_kept (w_infl rest x0)) s)))
      with (emits [OEnvDone c; OResp c] (modc c (fun x0 => w_kept (w_infl rest x0)) s)).
    eapply fq_conn with (fy := fun y => cm_resp (cm_env y)) (x := x);
      [exact FX | exact Hx | eapply conn_only_trans; apply conn_only_updc | reflexivity | reflexivity | | | | reflexivity | ].
    + rc_start HR. destruct x as [k p t cu ga il go fa ke]. cbn in *. subst p il.
      constructor; cbn in *; auto; intros; rc_fin.
    + cbn. congruence.
    + cbn. auto.
    + cbn. unfold live. cbn. rewrite Hop. intros Hw _. apply Ht; auto. unfold live. now rewrite Hop.
  - (* one stage further *)
    change (modc c (w_infl (pred n :: rest)) s) with (emits [] (modc c (w_infl (pred n :: rest)) s)).
    eapply fq_strong with (c := c).
    + eapply fq_conn with (fy := fun y => y) (x := x);
        [exact FX | exact Hx | | reflexivity | reflexivity | | | | reflexivity | ].
      * apply conn_only_nil. destruct FX as [F _]. eapply full_lt; eauto.
      * rc_start HR. destruct x as [k p t cu ga il go fa ke]. cbn in *. subst p il.
        constructor; cbn in *; auto; intros; rc_fin.
      * cbn. congruence.
      * cbn. auto.
      * cbn. unfold live. cbn. rewrite Hop. intros Hw _. apply Ht; auto. unfold live. now rewrite Hop.
    + intros x'. rewrite get_emits, get_modc_eq, Hx. cbn. intros H. inv H.
      eapply closes_infl; cbn; eauto.
Qed.

(* a fault that ends the connection: OFault, then the driver finishes *)
Lemma fq_fault_close : forall ns g q c s x f,
  FQx ns g q c s -> get c s = Some x -> live x = true ->
  (forall y, f y = mkConn (c_kind y) (c_ph y) (c_told y) (c_cut y) (c_gate y) (c_infl (f y)) (c_gone (f y)) true (c_kept y)) ->
  (c_ph x = Open \/ c_infl (f x) = c_infl x) ->
  FQ ns g q (emit (ODone c) (modc c w_closed (emit (OFault c) (modc c f s)))).
Proof.
  intros ns g q c s x f FX Hx Hl Hf Hinf.
  destruct (fq_get _ _ _ _ _ _ FX Hx) as (HR & Hq & Ht & Hfw & Hfm).
  assert (F1 : FQx ns g q c (emits [OFault c] (modc c f s))).
  { eapply fq_conn with (fy := cm_fault) (x := x);
      [exact FX | exact Hx | apply conn_only_updc | reflexivity | reflexivity | | | | | ].
    - rc_start HR. rewrite (Hf x). unfold live in Hl.
      destruct x as [k p t cu ga il go fa ke]. cbn in *.
      destruct p; try discriminate; constructor; cbn in *; auto; intros; try discriminate.
      destruct Hinf as [H0 | H0]; [discriminate |]. rewrite H0. auto.
    - rewrite (Hf x). cbn. exact Hq.
    - intros _. rewrite (Hf x). cbn. auto.
    - rewrite (Hf x). reflexivity.
    - rewrite (Hf x). unfold live. cbn. exact Ht. }
  change (emit (ODone c) (modc c w_closed (emit (OFault c) (modc c f s))))
    with (emits [ODone c] (modc c w_closed (emits [OFault c] (modc c f s)))).
  set (s1 := emits [OFault c] (modc c f s)) in *.
  assert (Hx1 : get c s1 = Some (f x)).
  { subst s1. rewrite get_emits, get_modc_eq, Hx. reflexivity. }
  destruct (fq_get _ _ _ _ _ _ F1 Hx1) as (HR1 & _).
  eapply fq_strong with (c := c).
  - eapply fq_conn with (fy := cm_done) (x := f x);
      [exact F1 | exact Hx1 | apply conn_only_updc | reflexivity | reflexivity | | | | reflexivity | ].
    + rc_start HR1. rewrite (Hf x) in *. unfold live in Hl.
      destruct x as [k p t cu ga il go fa ke]. cbn in *.
      destruct p; try discriminate; constructor; cbn in *; auto; intros; try discriminate.
    + cbn. discriminate.
    + cbn. discriminate.
    + cbn. unfold live. cbn. discriminate.
  - intros x'. rewrite get_emits, get_modc_eq, Hx1. cbn. intros H. inv H. apply closes_closed.
Qed.

Lemma fq_act_herr : forall ns g q c s, FQ ns g q s -> FQ ns g q (act_herr g c s).
Proof.
  intros ns g q c s FQ0. unfold act_herr. destruct (get c s) as [x|] eqn:Hx; auto.
  destruct (c_gone x); auto. destruct (c_infl x) as [|n rest] eqn:Hi; auto.
  destruct (Nat.eqb n 2); auto.
  assert (FX := fq_weak _ _ _ c _ FQ0).
  destruct (fq_get _ _ _ _ _ _ FX Hx) as (HR & Hq & Ht & Hfw & Hfm).
  assert (Hop := rc_open_of_infl _ _ _ _ _ _ _ HR Hi).
  destruct (kind_eqb (c_kind x) KH1).
  - eapply fq_fault_close with (x := x); eauto.
    unfold live. now rewrite Hop.
  - apply fq_close. rewrite emit_emits.
    eapply fq_conn with (fy := cm_fault) (x := x);
      [exact FX | exact Hx | apply conn_only_updc | reflexivity | reflexivity | | | | reflexivity | ].
    + rc_start HR. destruct x as [k p t cu ga il go fa ke]. cbn in *. subst p il.
      constructor; cbn in *; auto; intros; try discriminate.
    + cbn. congruence.
    + cbn. auto.
    + cbn. unfold live. cbn. rewrite Hop. intros Hw _. apply Ht; auto. unfold live. now rewrite Hop.
Qed.

Lemma fq_act_disc : forall ns g q c s, FQ ns g q s -> FQ ns g q (act_disc c s).
Proof.
  intros ns g q c s FQ0. unfold act_disc. destruct (get c s) as [x|] eqn:Hx; auto.
  destruct (c_gone x); auto.
  assert (FX := fq_weak _ _ _ c _ FQ0).
  destruct (fq_get _ _ _ _ _ _ FX Hx) as (HR & Hq & Ht & Hfw & Hfm).
  destruct (live x) eqn:Hl.
  - eapply fq_fault_close with (x := x); eauto.
  - rewrite emit_emits. eapply fq_strong with (c := c).
    + eapply fq_conn with (fy := cm_fault) (x := x);
        [exact FX | exact Hx | apply conn_only_updc | reflexivity | reflexivity | | | | reflexivity | ].
      * rc_start HR. unfold live in Hl. destruct x as [k p t cu ga il go fa ke]. cbn in *.
        destruct p; try discriminate; constructor; cbn in *; auto; intros; try discriminate.
      * cbn. exact Hq.
      * cbn. auto.
      * cbn. unfold live in *. cbn. rewrite Hl. discriminate.
    + intros x'. rewrite get_emits, get_modc_eq, Hx. cbn. intros H. inv H.
      destruct FQ0 as [_ Q0]. destruct Q0. apply (q_stable0 c x Hx).
Qed.

Lemma fq_act_garb : forall ns g q c s, FQ ns g q s -> FQ ns g q (act_garb c s).
Proof.
  intros ns g q c s FQ0. unfold act_garb. destruct (get c s) as [x|] eqn:Hx; auto.
  destruct (negb (c_gone x) && kind_eqb (c_kind x) KRaw && live x) eqn:Hc; auto.
  apply andb_prop in Hc. destruct Hc as [_ Hl].
  assert (FX := fq_weak _ _ _ c _ FQ0).
  eapply fq_fault_close with (x := x); eauto.
Qed.

(* ------------------------------------------------------------------ the quiescent point *)
Lemma all_conns_intro : forall m (p : cm -> bool),
  (forall c, c < k_n m -> p (k_conns m c) = true) -> all_conns m p = true.
Proof.
  intros. unfold all_conns. apply forallb_forall. intros c Hc. apply in_seq in Hc. apply H. lia.
Qed.

Lemma quiet09_conn : forall g sd x y, Rc g sd false x y -> c_ph x <> Queued -> quiet09 y = true.
Proof.
  intros g sd x y HR Hq. rc_start HR. unfold quiet09. rewrite Rconn, Racc, Rsp, Rfault. cbn.
  destruct x as [k p t cu ga il go fa ke]. cbn in *.
  assert (Hp : ph_acc p && ph_sp p = true).
  { destruct p; cbn in *; auto; try congruence; specialize (Rdead eq_refl); discriminate. }
  rewrite Hp. cbn. destruct fa; cbn; auto.
  destruct (Nat.eqb_spec (m_begun y) (m_envdone y)); cbn; auto.
  apply Nat.eqb_eq. rewrite Rresp by auto. lia.
Qed.

Lemma quiet09_ok : forall ns g q s, FQ ns g q s -> chk09 (mstate s) OQuiet = true.
Proof.
  intros ns g q s [F Q]. destruct (full_rel _ _ _ _ F). destruct Q. cbn.
  destruct (k_cause (mstate s)) eqn:Hc; auto. cbn.
  assert (Hd : srv_done s = false).
  { destruct (srv_done s) eqn:Hd; auto.
    assert (false = true) by (apply g_cause0; now rewrite !orb_true_r). discriminate. }
  assert (Hs : k_server (mstate s) = None).
  { rewrite g_server0. unfold srv_done in Hd. destruct (s_srv s); auto; discriminate. }
  rewrite Hs. cbn. apply all_conns_intro. intros c Hlt. rewrite g_n0 in Hlt.
  destruct (nth_error (s_conns s) c) as [x|] eqn:Hx; [| apply nth_error_None in Hx; lia].
  specialize (g_conns0 c x Hx).
  eapply quiet09_conn; eauto.
Qed.

Lemma quiet07_ok : forall g q s, FQ true g q s -> chk07_strict (mstate s) OQuiet = true.
Proof.
  intros g q s [F Q]. destruct F as [R [_ G7]]. destruct (G7 eq_refl) as [NS _]. destruct R. destruct Q. cbn.
  rewrite g_fired0. destruct (s_fired s) eqn:Hf; auto. cbn.
  assert (Hd := q_fired0 eq_refl). assert (Hg := g_grace0 eq_refl).
  assert (Hw : watch_closed g s = true) by (unfold watch_closed; now rewrite Hg, Hd).
  rewrite g_server0. unfold srv_done in Hd. destruct (s_srv s) eqn:Hs; try discriminate. cbn.
  apply all_conns_intro. intros c Hlt. rewrite g_n0 in Hlt.
  destruct (nth_error (s_conns s) c) as [x|] eqn:Hx; [| apply nth_error_None in Hx; lia].
  specialize (g_conns0 c x Hx). specialize (q_told0 Hw c x Hx). specialize (q_stable0 c x Hx).
  specialize (NS) as NS'. unfold NoSilentK in NS'. specialize (fun H => NS' H c x Hx).
  rc_start g_conns0. unfold quiet07. rewrite Rsp, Rfault, Rdone, Rtold.
  unfold closes, live, drained, h2silent in *.
  destruct x as [k p t cu ga il go fa ke]. cbn in *.
  destruct p; cbn in *; auto; destruct fa; cbn; auto.
  - (* Sniffing: told, so it would have closed *)
    rewrite q_told0 in * by auto. cbn in *. discriminate.
  - (* Open *)
    rewrite q_told0 in * by auto. cbn in *.
    destruct (Nat.eqb_spec (m_begun (k_conns (mstate s) c)) (m_envdone (k_conns (mstate s) c))); cbn; auto.
    exfalso. specialize (Rbegun eq_refl). destruct il; cbn in *; [| lia]. destruct cu; cbn in *; [lia |].
    destruct (is_h2proto (g_proto g)); cbn in *; [| discriminate].
    destruct (NS' eq_refl) as [H1 H2]. rewrite H1, H2 in q_stable0. cbn in *. discriminate.
  - (* Closed *)
    destruct (Nat.eqb_spec (m_begun (k_conns (mstate s) c)) (m_envdone (k_conns (mstate s) c))); cbn; auto.
    apply Nat.leb_le. destruct (Rquiet eq_refl) as [-> _]. specialize (Rhb eq_refl). cbn in *. lia.
Qed.

Lemma full_quiet : forall ns g q s, FQ ns g q s -> Full ns g q (emit OQuiet s).
Proof.
  intros ns g q s H. destruct H as [F Q] eqn:E. apply full_emit_plain; auto.
  - eapply quiet09_ok; split; eauto.
  - intros ->. eapply quiet07_ok; split; eauto.
Qed.

(* ------------------------------------------------------------------ the remaining events *)
Lemma rc_new_conn : forall g sd cz k, Rc g sd cz (new_conn k) (cm_conn cm0).
Proof. intros. constructor; cbn; auto; intros; try discriminate; lia. Qed.

Definition allowed (g : cfg) (e : ev) : Prop :=
  match e with
  | EConnect k => is_h2proto (g_proto g) = true -> kind_eqb k KRaw = false /\ kind_eqb k KCut = false
  | _ => True
  end.

Lemma full_connect : forall ns g s k,
  Full ns g (s_queue s) s -> (ns = true -> allowed g (EConnect k)) ->
  Full ns g (s_queue (step g s (EConnect k))) (step g s (EConnect k)).
Proof.
  intros ns g s k [R [G9 G7]] Hal.
  set (c := length (s_conns s)).
  set (s1 := emit (OConnect c) (set_conns (s_conns s ++ [new_conn k]) s)).
  assert (Hm : mstate s1 = updc c cm_conn (mstate s)).
  { subst s1. rewrite mstate_emit. reflexivity. }
  assert (F1 : forall q', (forall c', In (QLive c') (s_queue s) -> In (QLive c') q') ->
                          (srv_done s || s_lost s = false -> In (QLive c) q') ->
                          Full ns g q' s1).
  { intros q' Hq1 Hq2. destruct R. split; [| split].
    - rewrite Hm. constructor; cbn; auto.
      + rewrite app_length. cbn. fold c. lia.
      + intros c' x Hn. destruct (Nat.eq_dec c' c) as [-> | Hne].
        * rewrite Nat.eqb_refl. rewrite nth_error_app2 in Hn by (fold c; lia). fold c in Hn.
          rewrite Nat.sub_diag in Hn. cbn in Hn. inv Hn. rewrite g_fresh0 by (fold c; lia).
          apply rc_new_conn.
        * destruct (Nat.eqb_spec c' c); [congruence |].
          assert (c' < c).
          { assert (c' < length (s_conns s ++ [new_conn k])) by (apply nth_error_Some; congruence).
            rewrite app_length in H. cbn in H. fold c in H. lia. }
          rewrite nth_error_app1 in Hn by (fold c; lia). auto.
      + intros c' Hc'. rewrite app_length in Hc'. cbn in Hc'. fold c in Hc'.
        destruct (Nat.eqb_spec c' c); [lia |]. apply g_fresh0. fold c. lia.
      + intros Hf c' x Hn Hcut. destruct (Nat.eq_dec c' c) as [-> | Hne].
        * rewrite nth_error_app2 in Hn by (fold c; lia). fold c in Hn.
          rewrite Nat.sub_diag in Hn. cbn in Hn. inv Hn. discriminate.
        * assert (c' < c).
          { assert (c' < length (s_conns s ++ [new_conn k])) by (apply nth_error_Some; congruence).
            rewrite app_length in H. cbn in H. fold c in H. lia. }
          rewrite nth_error_app1 in Hn by (fold c; lia). eauto.
      + intros c' x Hn Hp. destruct (Nat.eq_dec c' c) as [-> | Hne].
        * change (srv_done (set_conns (s_conns s ++ [new_conn k]) s)) with (srv_done s).
          destruct (srv_done s) eqn:Hd; auto. destruct (s_lost s) eqn:Hl; auto.
        * assert (c' < c).
          { assert (c' < length (s_conns s ++ [new_conn k])) by (apply nth_error_Some; congruence).
            rewrite app_length in H. cbn in H. fold c in H. lia. }
          rewrite nth_error_app1 in Hn by (fold c; lia).
          destruct (g_queue0 c' x Hn Hp) as [H1 | H1]; auto.
    - subst s1. apply good_emit; [eapply good_out; [| exact G9]; reflexivity | reflexivity].
    - intros Hns. destruct (G7 Hns) as [NS G]. split.
      + intros Hp c' x Hn. cbn in Hn. destruct (Nat.eq_dec c' c) as [-> | Hne].
        * rewrite nth_error_app2 in Hn by (fold c; lia). fold c in Hn.
          rewrite Nat.sub_diag in Hn. cbn in Hn. inv Hn. cbn. apply (Hal eq_refl Hp).
        * assert (c' < c).
          { assert (c' < length (s_conns s ++ [new_conn k])) by (apply nth_error_Some; congruence).
            rewrite app_length in H. cbn in H. fold c in H. lia. }
          rewrite nth_error_app1 in Hn by (fold c; lia). eapply NS; eauto.
      + subst s1. apply good_emit; [eapply good_out; [| exact G]; reflexivity | reflexivity]. }
  cbn [step]. unfold connect. fold c. fold s1.
  destruct (srv_done s || s_lost s) eqn:Hdl.
  - apply F1; auto. intros; discriminate.
  - apply full_set_queue. cbn [set_queue s_queue]. apply F1.
    + intros c' H. apply in_or_app. auto.
    + intros _. apply in_or_app. right. now left.
Qed.

Lemma full_cancelled : forall ns g s,
  Full ns g (s_queue s) s -> Full ns g (s_queue (step g s ECancelled)) (step g s ECancelled).
Proof.
  intros ns g s F. cbn [step].
  assert (F1 : forall q', (forall c', In (QLive c') (s_queue s) -> In (QLive c') q') -> Full ns g q' (emit OCancel s)).
  { intros q' Hq. apply full_emit_plain; auto. eapply full_queue_param; [exact F |]. auto. }
  destruct (srv_done s || s_lost s).
  - apply F1. auto.
  - apply full_set_queue. cbn [set_queue s_queue]. apply F1. intros c' H. apply in_or_app. auto.
Qed.

(* listener lost / make-service armed: a legitimate cause is recorded *)
Lemma full_cause : forall ns g q s s' o,
  Full ns g q s ->
  track (mstate s) o = mkMs (k_fired (mstate s)) true (k_server (mstate s)) (k_n (mstate s))
                            (k_conns (mstate s)) (k_snap (mstate s)) ->
  chk09 (mstate s) o = true -> chk07_strict (mstate s) o = true ->
  s_out s' = o :: s_out s -> s_srv s' = s_srv s -> s_fired s' = s_fired s -> s_conns s' = s_conns s ->
  (s_lost s = true -> s_lost s' = true) ->
  Full ns g q s'.
Proof.
  intros ns g q s s' o [R [G9 G7]] Ht H9 H7 Ho Hs Hf Hc Hl.
  assert (Hm : mstate s' = track (mstate s) o).
  { unfold mstate, trace. rewrite Ho. cbn. unfold tracks. now rewrite fold_left_app. }
  assert (Gd : forall chk, Good chk s -> chk (mstate s) o = true -> Good chk s').
  { intros chk G H. unfold Good, trace in *. rewrite Ho. cbn. rewrite mon_from_app, G. cbn.
    unfold mstate, trace in H. now rewrite H. }
  destruct R. split; [| split].
  - rewrite Hm, Ht. constructor; cbn; unfold srv_done; rewrite ?Hs, ?Hf, ?Hc; auto.
    + intros c x Hn. eapply rc_cause_any. apply g_conns0. exact Hn.
    + intros c x Hn Hp. destruct (g_queue0 c x Hn Hp) as [H | [H | H]]; auto.
  - apply Gd; auto.
  - intros Hns. destruct (G7 Hns) as [NS G]. split.
    + intros Hp c x Hn. rewrite Hc in Hn. eapply NS; eauto.
    + apply Gd; auto.
Qed.

Lemma full_signal : forall ns g s,
  Full ns g (s_queue s) s -> Full ns g (s_queue (step g s ESignal)) (step g s ESignal).
Proof.
  intros ns g s F. cbn [step]. destruct (g_graceful g && negb (s_fired s)) eqn:Hc; auto.
  apply andb_prop in Hc. destruct Hc as [Hg Hnf]. apply negb_true_iff in Hnf.
  now apply full_fire.
Qed.

(* ------------------------------------------------------------------ one event, all events *)
Lemma full_step : forall ns g s e,
  Full ns g (s_queue s) s -> (ns = true -> allowed g e) ->
  Full ns g (s_queue (step g s e)) (step g s e).
Proof.
  intros ns g s e F Hal.
  assert (Act : forall act : state -> state,
            (forall q s0, FQ ns g q s0 -> FQ ns g q (act s0)) ->
            Full ns g (s_queue (emit OQuiet (act (settle g s)))) (emit OQuiet (act (settle g s)))).
  { intros act Hact. destruct (settle_spec ns g s F) as [F1 Q1].
    apply full_quiet. apply Hact. split; auto. }
  destruct e; cbn [step].
  - now apply full_connect.
  - now apply full_cancelled.
  - (* dead on arrival: an ordinary connect whose client is marked gone *)
    assert (F1 : Full ns g (s_queue (step g s (EConnect KH1))) (step g s (EConnect KH1))).
    { apply full_connect; auto. intros _ _. split; reflexivity. }
    change (step g s (EConnect KH1)) with (connect s KH1) in F1.
    set (c := length (s_conns s)). set (s1 := connect s KH1) in *.
    assert (Hx : get c s1 = Some (new_conn KH1)).
    { subst s1 c. unfold connect, get. destruct (srv_done s || s_lost s); cbn;
        rewrite nth_error_app2 by lia; now rewrite Nat.sub_diag. }
    assert (HR := full_get _ _ _ _ _ _ F1 Hx).
    unfold mark_dead. rewrite emit_emits.
    change (s_queue (emits [OFault c] (modc c w_gone s1))) with (s_queue s1).
    eapply full_conn with (fy := cm_fault) (x := new_conn KH1);
      [exact F1 | exact Hx | apply conn_only_updc | reflexivity | reflexivity | | auto | auto | reflexivity].
    rc_start HR. constructor; cbn in *; auto; intros; try discriminate.
  - destruct (s_lost s) eqn:Hl; auto.
    eapply full_cause with (s := s) (o := OLost); eauto; try reflexivity.
  - eapply full_cause with (s := s) (o := OMakeArm); eauto; try reflexivity.
  - now apply full_signal.
  - destruct (g_graceful g); auto. now apply full_set_sigarm.
  - apply (Act (fun s0 => s0)). auto.
  - apply (Act (act_partial g c)). intros. now apply fq_act_partial.
  - apply (Act (act_req g c)). intros. now apply fq_act_req.
  - apply (Act (act_step g c)). intros. now apply fq_act_step.
  - apply (Act (act_disc c)). intros. now apply fq_act_disc.
  - apply (Act (act_garb c)). intros. now apply fq_act_garb.
  - apply (Act (act_herr g c)). intros. now apply fq_act_herr.
  - (* the caller keeps the future: nothing observable yet *)
    destruct F as [R G]. split; [| exact G]. destruct R. constructor; auto.
Qed.

Lemma full_init : forall ns g, Full ns g (s_queue init) init.
Proof.
  intros. split; [| split].
  - constructor; cbn; auto; try discriminate.
    + intros [|c] x H; discriminate.
    + intros [|c] x H; discriminate.
  - reflexivity.
  - intros _. split; [| reflexivity]. intros _ [|c] x H; discriminate.
Qed.

Lemma full_run : forall ns g evs s,
  Full ns g (s_queue s) s -> (ns = true -> Forall (allowed g) evs) ->
  Full ns g (s_queue (run_from g s evs)) (run_from g s evs).
Proof.
  intros ns g evs. induction evs as [|e evs IH]; intros s F Hal; cbn; auto.
  apply IH.
  - apply full_step; auto. intros Hns. specialize (Hal Hns). now inv Hal.
  - intros Hns. specialize (Hal Hns). now inv Hal.
Qed.

(* the hypothesis under which C07 is proved: an HTTP/2-only server never meets a client that
   does not complete the HTTP/2 preface (known finding D18) *)
Definition h2_preface_done (g : cfg) (evs : list ev) : Prop := Forall (allowed g) evs.

Theorem model_mon_C09 : forall g evs, mon_C09 (trace (run g evs)) = true.
Proof.
  intros g evs. destruct (full_run false g evs init (full_init false g)) as [_ [G _]].
  - discriminate.
  - exact G.
Qed.

(* the model satisfies the strict form (no driver at all is spawned after the signal) ... *)
Theorem model_mon_C07_strict : forall g evs,
  h2_preface_done g evs -> mon_from chk07_strict ms0 (trace (run g evs)) = true.
Proof.
  intros g evs H. destruct (full_run true g evs init (full_init true g)) as [_ [_ G]].
  - intros _. exact H.
  - destruct (G eq_refl) as [_ G7]. exact G7.
Qed.

(* ... which implies the specification proper *)
Lemma chk07_strict_refined : forall m o, chk07_strict m o = true -> chk07 m o = true.
Proof.
  intros m o H. destruct o; auto. unfold chk07, chk07_strict, chk07_gen in *.
  rewrite andb_false_l, orb_false_r in H. rewrite H. reflexivity.
Qed.

Lemma mon_strict_refined : forall tr m, mon_from chk07_strict m tr = true -> mon_from chk07 m tr = true.
Proof.
  induction tr as [|o tr IH]; cbn; intros m H; auto.
  apply andb_prop in H. destruct H as [H1 H2]. rewrite (chk07_strict_refined _ _ H1), (IH _ H2). reflexivity.
Qed.

Theorem model_mon_C07 : forall g evs, h2_preface_done g evs -> mon_C07 (trace (run g evs)) = true.
Proof. intros g evs H. apply mon_strict_refined. now apply model_mon_C07_strict. Qed.

(* ------------------------------------------------------------------ reading the monitors
   Facts about the monitors alone (any trace), used to restate what they demand as propositions
   about the model's trace. *)
Definition is_cause (o : oev) : bool := match o with OSignal | OLost | OMakeArm => true | _ => false end.
Definition is_told (c : nat) (o : oev) : bool := match o with OTold c' => Nat.eqb c' c | _ => false end.

Lemma mon_from_split : forall chk a o b m,
  mon_from chk m (a ++ o :: b) = true ->
  mon_from chk m a = true /\ chk (tracks m a) o = true /\ mon_from chk (track (tracks m a) o) b = true.
Proof.
  intros chk a o b m H. rewrite mon_from_app in H. apply andb_prop in H. destruct H as [H1 H2].
  cbn in H2. apply andb_prop in H2. tauto.
Qed.

Lemma fired_track : forall m o, k_fired m = true -> k_fired (track m o) = true.
Proof. intros m o H. destruct o; cbn; auto. Qed.

Lemma fired_tracks : forall tr m, k_fired m = true -> k_fired (tracks m tr) = true.
Proof. induction tr; cbn; intros; auto. apply IHtr. now apply fired_track. Qed.

Lemma cause_source : forall tr m,
  k_cause (tracks m tr) = true -> k_cause m = true \/ existsb is_cause tr = true.
Proof.
  induction tr as [|o tr IH]; cbn; intros m H; auto.
  destruct (IH _ H) as [H1 | H1].
  - destruct o; cbn in *; auto.
  - right. now rewrite H1, orb_true_r.
Qed.

Lemma server_source : forall tr m r,
  k_server (tracks m tr) = Some r -> k_server m = Some r \/ In (OServer r) tr.
Proof.
  induction tr as [|o tr IH]; cbn; intros m r H; auto.
  destruct (IH _ _ H) as [H1 | H1]; auto.
  destruct o; cbn in *; auto. inv H1. auto.
Qed.

Lemma after_signal : forall tr m,
  k_fired m = true -> mon_from chk07_strict m tr = true ->
  (forall c, ~ In (OAccept c) tr) /\ (forall c, ~ In (OSpawn c) tr) /\ (forall r, In (OServer r) tr -> r = true).
Proof.
  induction tr as [|o tr IH]; intros m Hf H.
  - cbn. repeat split; intros; auto; try contradiction.
  - cbn in H. apply andb_prop in H. destruct H as [H0 H].
    destruct (IH _ (fired_track _ o Hf) H) as (A & B & C).
    repeat split.
    + intros c [-> | Hi]; [| eapply A; eauto]. cbn in H0. rewrite Hf in H0. discriminate.
    + intros c [-> | Hi]; [| eapply B; eauto]. cbn in H0. rewrite Hf in H0. discriminate.
    + intros r [-> | Hi]; [| eapply C; eauto]. cbn in H0. rewrite Hf in H0. exact H0.
Qed.

Lemma told_track_other : forall m o c, is_told c o = false ->
  m_told (k_conns (track m o) c) = m_told (k_conns m c).
Proof.
  intros m o c H. destruct o; cbn in *; auto;
    try (destruct (Nat.eqb_spec c c0); subst; cbn; auto).
  rewrite Nat.eqb_refl in H. discriminate.
Qed.

Lemma told_once : forall c tr m,
  mon_from chk07_strict m tr = true -> m_told (k_conns m c) <= 1 ->
  m_told (k_conns m c) + length (filter (is_told c) tr) <= 1.
Proof.
  intros c. induction tr as [|o tr IH]; intros m H Hle; cbn; [lia |].
  cbn in H. apply andb_prop in H. destruct H as [H0 H].
  destruct (is_told c o) eqn:Ht.
  - destruct o; try discriminate. cbn in Ht. apply Nat.eqb_eq in Ht. subst c0.
    cbn in H0. apply Nat.eqb_eq in H0.
    specialize (IH _ H). cbn in IH. rewrite Nat.eqb_refl in IH. cbn in IH. rewrite H0 in *. cbn in *.
    specialize (IH ltac:(lia)). lia.
  - specialize (IH _ H). rewrite told_track_other in IH by auto. auto.
Qed.

Lemma all_conns_elim : forall m p c, all_conns m p = true -> c < k_n m -> p (k_conns m c) = true.
Proof.
  intros m p c H Hc. unfold all_conns in H. rewrite forallb_forall in H. apply H. apply in_seq. lia.
Qed.

Lemma signal_fired : forall tr m, In OSignal tr -> k_fired (tracks m tr) = true.
Proof.
  induction tr as [|o tr IH]; cbn; intros m H; [contradiction |].
  destruct H as [-> | H]; [apply fired_tracks; reflexivity | now apply IH].
Qed.

(* what mon_C07 demands of a connection at a quiescent point after the signal *)
Definition settled07 (y : cm) : Prop :=
  m_spawned y = true -> m_fault y = false ->
  (m_done y = true \/ m_told y = 1)
  /\ (m_begun y = m_envdone y -> m_done y = true /\ m_hb y <= m_resp y).

Lemma quiet07_read : forall y, quiet07 y = true -> settled07 y.
Proof.
  unfold quiet07, settled07. intros y H Hs Hf. rewrite Hs, Hf in H. cbn in H.
  apply andb_prop in H. destruct H as [H1 H2]. split.
  - apply orb_prop in H1. destruct H1 as [H1 | H1]; auto. right. now apply Nat.eqb_eq.
  - intros He. apply orb_prop in H2. destruct H2 as [H2 | H2].
    + apply negb_true_iff, Nat.eqb_neq in H2. contradiction.
    + apply andb_prop in H2. destruct H2 as [H2 H3]. split; auto. now apply Nat.leb_le.
Qed.

(* what mon_C09 demands of a connection at a quiescent point while no cause has been seen *)
Definition settled09 (y : cm) : Prop :=
  (m_connected y = true -> m_accepted y = true /\ m_spawned y = true)
  /\ (m_fault y = false -> m_begun y = m_envdone y -> m_resp y = m_begun y).

Lemma quiet09_read : forall y, quiet09 y = true -> settled09 y.
Proof.
  unfold quiet09, settled09. intros y H. apply andb_prop in H. destruct H as [H1 H2]. split.
  - intros Hc. rewrite Hc in H1. cbn in H1. apply andb_prop in H1. tauto.
  - intros Hf He. rewrite Hf in H2. cbn in H2. apply orb_prop in H2. destruct H2 as [H2 | H2].
    + apply negb_true_iff, Nat.eqb_neq in H2. contradiction.
    + now apply Nat.eqb_eq.
Qed.

Lemma chk07_quiet : forall m, chk07_strict m OQuiet = true -> k_fired m = true ->
  (exists r, k_server m = Some r) /\ all_conns m quiet07 = true.
Proof.
  intros m H Hf. cbn in H. rewrite Hf in H. cbn in H. apply andb_prop in H. destruct H as [H1 H2].
  split; auto. destruct (k_server m) as [r|]; [eauto | discriminate].
Qed.

Lemma chk09_quiet : forall m, chk09 m OQuiet = true -> k_cause m = false ->
  k_server m = None /\ all_conns m quiet09 = true.
Proof.
  intros m H Hc. cbn in H. rewrite Hc in H. cbn in H. apply andb_prop in H. destruct H as [H1 H2].
  split; auto. destruct (k_server m); [discriminate | auto].
Qed.

(* ------------------------------------------------------------------ Prop-level readings *)
Theorem c07_stops_accepting_proof : forall g evs tr1 tr2,
  h2_preface_done g evs -> trace (run g evs) = tr1 ++ OSignal :: tr2 ->
  (forall c, ~ In (OAccept c) tr2) /\ (forall c, ~ In (OSpawn c) tr2)
  /\ (forall r, In (OServer r) tr2 -> r = true)
  /\ (forall a b, tr2 = a ++ OQuiet :: b -> exists r, In (OServer r) (tr1 ++ OSignal :: a)).
Proof.
  intros g evs tr1 tr2 Hh Ht. assert (M := model_mon_C07_strict g evs Hh). rewrite Ht in M.
  apply mon_from_split in M. destruct M as (_ & _ & M).
  assert (Hf : k_fired (track (tracks ms0 tr1) OSignal) = true) by reflexivity.
  destruct (after_signal _ _ Hf M) as (A & B & C). repeat split; auto.
  intros a b ->. apply mon_from_split in M. destruct M as (_ & M & _).
  apply chk07_quiet in M; [| now apply fired_tracks]. destruct M as [[r Hs] _].
  exists r. change (track (tracks ms0 tr1) OSignal) with (tracks (tracks ms0 tr1) [OSignal]) in Hs.
  rewrite <- !tracks_app in Hs. apply server_source in Hs. destruct Hs as [Hs | Hs]; [discriminate |].
  rewrite <- ?app_assoc in Hs. exact Hs.
Qed.

Theorem c07_every_driver_told_once_proof : forall g evs c,
  h2_preface_done g evs ->
  length (filter (is_told c) (trace (run g evs))) <= 1
  /\ forall a b, trace (run g evs) = a ++ OQuiet :: b -> In OSignal a ->
     c < k_n (tracks ms0 a) -> settled07 (k_conns (tracks ms0 a) c).
Proof.
  intros g evs c Hh. assert (M := model_mon_C07_strict g evs Hh). split.
  - apply (told_once c) in M; cbn in *; lia.
  - intros a b Ht Hs Hc. rewrite Ht in M. apply mon_from_split in M. destruct M as (_ & M & _).
    apply chk07_quiet in M; [| now apply signal_fired]. destruct M as [_ M].
    apply quiet07_read. now apply all_conns_elim.
Qed.

Theorem c09_survives_proof : forall g evs,
  existsb is_cause (trace (run g evs)) = false -> serving_result (run g evs) = StillServing.
Proof.
  intros g evs H. destruct (full_run false g evs init (full_init false g)) as [R _]; [discriminate |].
  destruct R. fold (run g evs) in *. unfold serving_result.
  destruct (s_srv (run g evs)) eqn:Hs; auto.
  assert (Hc : k_cause (mstate (run g evs)) = true).
  { apply g_cause0. unfold srv_done. rewrite Hs. now rewrite !orb_true_r. }
  apply cause_source in Hc. destruct Hc as [Hc | Hc]; [discriminate | congruence].
Qed.

Theorem c09_others_served_proof : forall g evs a b c,
  trace (run g evs) = a ++ OQuiet :: b -> existsb is_cause a = false ->
  k_server (tracks ms0 a) = None
  /\ (c < k_n (tracks ms0 a) -> settled09 (k_conns (tracks ms0 a) c)).
Proof.
  intros g evs a b c Ht Hn. assert (M := model_mon_C09 g evs). unfold mon_C09 in M. rewrite Ht in M.
  apply mon_from_split in M. destruct M as (_ & M & _).
  destruct (k_cause (tracks ms0 a)) eqn:Hc.
  { apply cause_source in Hc. destruct Hc as [Hc | Hc]; [discriminate | congruence]. }
  apply chk09_quiet in M; auto. destruct M as [M1 M2]. split; auto.
  intros Hlt. apply quiet09_read. now apply all_conns_elim.
Qed.

(* ------------------------------------------------------------------ where cause echoes come from
   OSignal / OLost / OMakeArm are emitted by the events ESignal / ELost / EMakeFail only. *)
(* the cause echoes emitted so far, together with the armed in-loop signal *)
Definition causes (s : state) : list oev * option nat := (filter is_cause (s_out s), s_sigarm s).
Definition is_cause_ev (e : ev) : bool :=
  match e with ESignal | EMakeSignal _ | ELost | EMakeFail => true | _ => false end.

Ltac causes_tac :=
  repeat (match goal with |- context [match ?x with _ => _ end] => destruct x eqn:? end);
  cbn; try reflexivity.

Lemma causes_close : forall g c s, causes (close_if_idle g c s) = causes s.
Proof. intros. unfold causes, close_if_idle. causes_tac. Qed.

Lemma causes_mark : forall c s, causes (mark_told s c) = causes s.
Proof. intros. unfold causes, mark_told. causes_tac. Qed.

Lemma causes_drive : forall g s c, causes (drive g s c) = causes s.
Proof.
  intros. unfold drive. rewrite causes_close. destruct (watch_closed g s); auto. apply causes_mark.
Qed.

Lemma causes_refuse : forall s c, causes (refuse s c) = causes s.
Proof. intros. unfold causes, refuse. causes_tac. Qed.

Lemma causes_fold : forall (f : state -> nat -> state) l s,
  (forall s c, causes (f s c) = causes s) -> causes (fold_left f l s) = causes s.
Proof. induction l; cbn; intros; auto. rewrite IHl; auto. Qed.

Lemma causes_none : forall s s', causes s' = causes s -> s_sigarm s = None -> s_sigarm s' = None.
Proof. unfold causes. intros s s' H Hn. inv H. congruence. Qed.

Lemma causes_accept_loop : forall g q s,
  s_sigarm s = None -> causes (accept_loop g q s) = causes s.
Proof.
  intros g q. induction q as [|e q IH]; intros s Hn; rewrite accept_loop_unfold.
  - unfold causes. causes_tac.
  - destruct (g_graceful g && s_fired s); [reflexivity |].
    destruct e as [c|]; auto. destruct (get c s) as [x|]; auto. destruct (c_ph x); auto.
    cbv zeta. change (s_armed (emit (OAccept c) s)) with (s_armed s). destruct (s_armed s).
    + reflexivity.
    + assert (Hr : causes (reap c (emit (OSpawn c) (modc c (spawn_ph g) (emit (OAccept c) s)))) = causes s).
      { unfold causes, reap. causes_tac. }
      unfold make_signal. rewrite (causes_none _ _ Hr Hn). rewrite IH; auto.
      eapply causes_none; eauto.
Qed.

Lemma causes_settle : forall g s, s_sigarm s = None -> causes (settle g s) = causes s.
Proof.
  intros g s Hn. unfold settle, drive_all, refuse_queued, server_poll.
  rewrite causes_fold by apply causes_drive.
  assert (H : forall s', causes (if srv_done s' then fold_left refuse (seq 0 (length (s_conns s'))) s' else s') = causes s').
  { intros s'. destruct (srv_done s'); auto. apply causes_fold. apply causes_refuse. }
  rewrite H. destruct (s_srv s); auto.
  all: destruct (g_graceful g && s_fired s); [reflexivity | now apply causes_accept_loop].
Qed.

Lemma causes_act_partial : forall g c s, causes (act_partial g c s) = causes s.
Proof. intros. unfold causes, act_partial. causes_tac. Qed.

Lemma causes_open_gate : forall g c s, causes (open_gate g c s) = causes s.
Proof.
  intros. unfold open_gate. destruct (get c s); auto. destruct (kind_eqb (c_kind c0) KCut && c_gate c0); auto.
  now rewrite causes_close.
Qed.

Lemma causes_act_req : forall g c s, causes (act_req g c s) = causes s.
Proof.
  intros. unfold act_req. destruct (get c s); auto. destruct (c_gone c0); auto.
  rewrite <- (causes_open_gate g c s). set (s1 := open_gate g c s). clearbody s1.
  unfold causes. causes_tac.
Qed.

Lemma causes_act_step : forall g c s, causes (act_step g c s) = causes s.
Proof.
  intros. unfold act_step. destruct (get c s); auto. destruct (c_gone c0); auto.
  destruct (c_infl c0); auto. destruct (Nat.leb n 1); [| reflexivity]. now rewrite causes_close.
Qed.

Lemma causes_act_herr : forall g c s, causes (act_herr g c s) = causes s.
Proof.
  intros. unfold act_herr. destruct (get c s); auto. destruct (c_gone c0); auto.
  destruct (c_infl c0); auto. destruct (Nat.eqb n 2); auto.
  destruct (kind_eqb (c_kind c0) KH1); [reflexivity | now rewrite causes_close].
Qed.

Lemma causes_act_disc : forall c s, causes (act_disc c s) = causes s.
Proof. intros. unfold causes, act_disc. causes_tac. Qed.

Lemma causes_act_garb : forall c s, causes (act_garb c s) = causes s.
Proof. intros. unfold causes, act_garb. causes_tac. Qed.

Lemma causes_step : forall g s e,
  s_sigarm s = None -> is_cause_ev e = false -> causes (step g s e) = causes s.
Proof.
  intros g s e Hn H.
  assert (Hs := causes_settle g s Hn). assert (Hn' := causes_none _ _ Hs Hn).
  destruct e; try discriminate; cbn [step].
  - unfold causes, connect. causes_tac.
  - unfold causes. causes_tac.
  - unfold causes, mark_dead, connect. causes_tac.
  - change (causes (emit OQuiet (settle g s))) with (causes (settle g s)). exact Hs.
  - change (causes (act_partial g c (settle g s)) = causes s). now rewrite causes_act_partial.
  - change (causes (act_req g c (settle g s)) = causes s). now rewrite causes_act_req.
  - change (causes (act_step g c (settle g s)) = causes s). now rewrite causes_act_step.
  - change (causes (act_disc c (settle g s)) = causes s). now rewrite causes_act_disc.
  - change (causes (act_garb c (settle g s)) = causes s). now rewrite causes_act_garb.
  - change (causes (act_herr g c (settle g s)) = causes s). now rewrite causes_act_herr.
  - reflexivity.
Qed.

Lemma causes_run : forall g evs s,
  s_sigarm s = None -> existsb is_cause_ev evs = false -> causes (run_from g s evs) = causes s.
Proof.
  intros g evs. induction evs as [|e evs IH]; cbn; intros s Hn H; auto.
  apply orb_false_iff in H. destruct H as [H1 H2].
  assert (Hs := causes_step g s e Hn H1).
  change (causes (run_from g (step g s e) evs) = causes s). rewrite IH; auto.
  eapply causes_none; eauto.
Qed.

Lemma existsb_filter_nil : forall (A : Type) (p : A -> bool) l, filter p l = [] -> existsb p l = false.
Proof.
  induction l as [|a l IH]; cbn; auto. destruct (p a); cbn; [discriminate | auto].
Qed.

Lemma no_cause_echo : forall g evs,
  existsb is_cause_ev evs = false -> existsb is_cause (trace (run g evs)) = false.
Proof.
  intros g evs H. unfold trace.
  assert (Hc := causes_run g evs init eq_refl H). unfold causes in Hc. cbn in Hc.
  apply (f_equal fst) in Hc. cbn in Hc.
  apply existsb_filter_nil in Hc.
  destruct (existsb is_cause (rev (s_out (run g evs)))) eqn:E; auto.
  apply existsb_exists in E. destruct E as (o & Ho & Hp). apply in_rev in Ho.
  assert (existsb is_cause (s_out (run g evs)) = true) by (apply existsb_exists; eauto).
  unfold run in H0. congruence.
Qed.

(* no event that resolves the shutdown signal: neither from outside nor from inside the accept loop *)
Definition no_signal (evs : list ev) : Prop := ~ In ESignal evs /\ forall n, ~ In (EMakeSignal n) evs.
Definition no_listener_loss (evs : list ev) : Prop := ~ In ELost evs.
Definition no_make_failure (evs : list ev) : Prop := ~ In EMakeFail evs.

Lemma no_cause_events : forall evs,
  no_listener_loss evs -> no_make_failure evs -> no_signal evs -> existsb is_cause_ev evs = false.
Proof.
  intros evs A B C. destruct (existsb is_cause_ev evs) eqn:E; auto.
  apply existsb_exists in E. destruct E as (e & He & Hp). destruct C as [C1 C2].
  destruct e; try discriminate; try contradiction. destruct (C2 _ He).
Qed.

Theorem c09_survives_events : forall g evs,
  no_listener_loss evs -> no_make_failure evs -> no_signal evs ->
  serving_result (run g evs) = StillServing.
Proof.
  intros. apply c09_survives_proof. apply no_cause_echo. now apply no_cause_events.
Qed.

Lemma existsb_app_false : forall (A : Type) (p : A -> bool) a b,
  existsb p (a ++ b) = false -> existsb p a = false.
Proof. intros A p a b H. rewrite existsb_app in H. now apply orb_false_iff in H. Qed.

Theorem c09_others_served_events : forall g evs a b c,
  no_listener_loss evs -> no_make_failure evs -> no_signal evs ->
  trace (run g evs) = a ++ OQuiet :: b ->
  k_server (tracks ms0 a) = None
  /\ (c < k_n (tracks ms0 a) -> settled09 (k_conns (tracks ms0 a) c)).
Proof.
  intros g evs a b c A B C Ht. eapply c09_others_served_proof; eauto.
  assert (H := no_cause_echo g evs (no_cause_events _ A B C)). rewrite Ht in H.
  eapply existsb_app_false; eauto.
Qed.

(* ------------------------------------------------------------------ C07: idle connections *)
Lemma snap_track : forall m o c, k_fired m = true -> k_snap (track m o) c = k_snap m c.
Proof. intros m o c H. destruct o; cbn; auto. now rewrite H. Qed.

Lemma idle_no_handler : forall c tr m,
  k_fired m = true -> idle_cm (k_snap m c) = true -> mon_from chk07_strict m tr = true ->
  ~ In (OHandler c) tr.
Proof.
  intros c. induction tr as [|o tr IH]; intros m Hf Hi H; [intros [] |].
  cbn in H. apply andb_prop in H. destruct H as [H0 H].
  intros [-> | Hin].
  - cbn in H0. rewrite Hf, Hi in H0. discriminate.
  - apply (IH (track m o)); auto.
    + now apply fired_track.
    + now rewrite snap_track.
Qed.

Theorem c07_inflight_complete_proof : forall g evs,
  h2_preface_done g evs ->
  (* at every quiescent point after the signal: a connection for whose requests the environment
     has nothing left to do is closed, and every request whose handler had been invoked before
     the signal got its complete response *)
  (forall a b c, trace (run g evs) = a ++ OQuiet :: b -> In OSignal a -> c < k_n (tracks ms0 a) ->
     settled07 (k_conns (tracks ms0 a) c))
  (* a connection that was idle when the (first) signal fired never sees its handler again *)
  /\ (forall tr1 tr2 c, trace (run g evs) = tr1 ++ OSignal :: tr2 -> ~ In OSignal tr1 ->
        idle_cm (k_conns (tracks ms0 tr1) c) = true -> ~ In (OHandler c) tr2).
Proof.
  intros g evs Hh. split.
  - intros a b c. apply (c07_every_driver_told_once_proof g evs c Hh).
  - intros tr1 tr2 c Ht Hn Hi. assert (M := model_mon_C07_strict g evs Hh). rewrite Ht in M.
    apply mon_from_split in M. destruct M as (_ & _ & M).
    eapply idle_no_handler; [| | exact M]; [reflexivity |].
    cbn. destruct (k_fired (tracks ms0 tr1)) eqn:Hf; auto.
    exfalso. assert (Hc : k_cause (tracks ms0 tr1) = true \/ True) by auto.
    clear Hc. revert Hf Hn. clear. intros Hf Hn.
    assert (G : forall tr m, k_fired (tracks m tr) = true -> k_fired m = true \/ In OSignal tr).
    { induction tr as [|o tr IH]; cbn; intros m H; auto.
      destruct (IH _ H) as [H1 | H1]; auto. destruct o; cbn in *; auto. }
    destruct (G _ _ Hf) as [H | H]; [discriminate | contradiction].
Qed.
