(* Proofs for M-SERVER: the model's trace satisfies mon_C09 for every event list, and mon_C07 for
   every event list in which no HTTP/2-only server meets a client that never completes the preface
   (known finding D15).  Method: a relation [Rel] between the model state and the monitors'
   counters over the trace emitted so far, preserved by every micro step of the model; the checks
   of the monitors follow from [Rel] (safety) and from [Quiet], which every settle establishes
   (liveness at the quiescent points). *)
From HD Require Import common.Base server.Model server.Spec.

Local Ltac inv H := inversion H; subst; clear H.

(* ------------------------------------------------------------------ lists, upd, nth_error *)
Lemma upd_length : forall A (f : A -> A) l n, length (upd n f l) = length l.
Proof. induction l as [|a l IH]; intros [|n]; cbn; auto. Qed.

Lemma nth_upd_eq : forall A (f : A -> A) l n, nth_error (upd n f l) n = option_map f (nth_error l n).
Proof. induction l as [|a l IH]; intros [|n]; cbn; auto. Qed.

Lemma nth_upd_neq : forall A (f : A -> A) l n k, n <> k -> nth_error (upd n f l) k = nth_error l k.
Proof.
  induction l as [|a l IH]; intros [|n] [|k] Hn; cbn; auto; try congruence;
    try (apply IH; congruence).
Qed.

Lemma fold_left_inv : forall (A B : Type) (P : A -> Prop) (f : A -> B -> A) l s,
  (forall s c, P s -> P (f s c)) -> P s -> P (fold_left f l s).
Proof. induction l; cbn; auto. Qed.

(* a loop over connection ids: P is kept, and every visited id ends up with Q *)
Lemma fold_left_all : forall (A : Type) (P : A -> Prop) (Q : A -> nat -> Prop) (f : A -> nat -> A),
  (forall s c, P s -> P (f s c)) ->
  (forall s c, P s -> Q (f s c) c) ->
  (forall s c j, P s -> Q s j -> Q (f s c) j) ->
  forall l s, P s -> P (fold_left f l s) /\ forall j, In j l -> Q (fold_left f l s) j.
Proof.
  intros A P Q f HP HQ HK.
  assert (Keep : forall l s j, P s -> Q s j -> Q (fold_left f l s) j).
  { induction l; cbn; intros; auto. }
  induction l as [|c l IH]; cbn; intros s Ps.
  - split; [auto | intros j []].
  - destruct (IH (f s c) (HP _ _ Ps)) as [P' Q']. split; auto.
    intros j [<- | Hj]; auto.
Qed.

(* ------------------------------------------------------------------ trace and counters *)
Definition mstate (s : state) : ms := tracks ms0 (trace s).
Definition emits (os : list oev) (s : state) : state :=
  mkSt (s_srv s) (s_fired s) (s_lost s) (s_armed s) (s_queue s) (s_conns s) (rev os ++ s_out s).
Definition Good (chk : ms -> oev -> bool) (s : state) : Prop := mon_from chk ms0 (trace s) = true.

Lemma tracks_app : forall a b m, tracks m (a ++ b) = tracks (tracks m a) b.
Proof. intros. unfold tracks. apply fold_left_app. Qed.

Lemma mon_from_app : forall chk a b m,
  mon_from chk m (a ++ b) = mon_from chk m a && mon_from chk (tracks m a) b.
Proof.
  induction a as [|o a IH]; cbn; intros; auto.
  rewrite IH, andb_assoc. reflexivity.
Qed.

Lemma trace_emits : forall os s, trace (emits os s) = trace s ++ os.
Proof. intros. unfold trace, emits. cbn. now rewrite rev_app_distr, rev_involutive. Qed.

Lemma mstate_emits : forall os s, mstate (emits os s) = tracks (mstate s) os.
Proof. intros. unfold mstate. now rewrite trace_emits, tracks_app. Qed.

Lemma emit_emits : forall o s, emit o s = emits [o] s.
Proof. reflexivity. Qed.

Lemma mstate_emit : forall o s, mstate (emit o s) = track (mstate s) o.
Proof. intros. rewrite emit_emits. apply (mstate_emits [o]). Qed.

Lemma good_emits : forall chk os s,
  Good chk s -> mon_from chk (mstate s) os = true -> Good chk (emits os s).
Proof.
  unfold Good, mstate. intros. rewrite trace_emits, mon_from_app, H, H0. reflexivity.
Qed.

Lemma good_emit : forall chk o s, Good chk s -> chk (mstate s) o = true -> Good chk (emit o s).
Proof. intros. rewrite emit_emits. apply (good_emits chk [o]); auto. cbn. now rewrite H0. Qed.

(* state changes that do not touch the trace *)
Lemma mstate_out : forall s s', s_out s' = s_out s -> mstate s' = mstate s.
Proof. unfold mstate, trace. intros ? ? ->. reflexivity. Qed.
Lemma good_out : forall chk s s', s_out s' = s_out s -> Good chk s -> Good chk s'.
Proof. unfold Good, trace. intros ? ? ? ->. auto. Qed.

(* ------------------------------------------------------------------ the relation *)
Definition b2n (b : bool) : nat := if b then 1 else 0.
Definition ph_acc (p : phase) := match p with Queued | Refused => false | _ => true end.
Definition ph_sp (p : phase) := match p with Sniffing | Open | Closed => true | _ => false end.
Definition ph_closed (p : phase) := match p with Closed => true | _ => false end.
Definition ph_pre (p : phase) := match p with Queued | Refused | Dropped => true | _ => false end.
Definition ph_dead (p : phase) := match p with Refused | Dropped => true | _ => false end.
Definition ph_open (p : phase) := match p with Open => true | _ => false end.

(* connection x of the model against its counters y; sd = the serving future has completed,
   cz = one of the three legitimate causes has been seen *)
Record Rc (g : cfg) (sd cz : bool) (x : conn) (y : cm) : Prop := mkRc {
  r_conn : m_connected y = true;
  r_acc : m_accepted y = ph_acc (c_ph x);
  r_sp : m_spawned y = ph_sp (c_ph x);
  r_told : m_told y = b2n (c_told x);
  r_done : m_done y = ph_closed (c_ph x);
  r_fault : m_fault y = c_faulty x;
  r_begun : c_faulty x = false -> m_envdone y + length (c_infl x) + b2n (c_cut x) <= m_begun y;
  r_resp : c_faulty x = false -> m_resp y = m_envdone y;
  r_hb : c_faulty x = false -> m_hb y <= m_resp y + length (c_infl x);
  r_quiet : ph_open (c_ph x) = false -> c_infl x = [] /\ c_cut x = false;
  r_pre : ph_pre (c_ph x) = true -> c_told x = false;
  r_dead : ph_dead (c_ph x) = true -> cz = true;
  r_wc : c_told x = true -> g_graceful g && sd = true
}.

Record Rel (g : cfg) (q : list qent) (s : state) (m : ms) : Prop := mkRel {
  g_fired : k_fired m = s_fired s;
  g_server : k_server m = match s_srv s with SDone r => Some r | _ => None end;
  g_n : k_n m = length (s_conns s);
  g_cause : s_fired s || s_lost s || s_armed s || srv_done s = true -> k_cause m = true;
  g_grace : s_fired s = true -> g_graceful g = true;
  g_conns : forall c x, nth_error (s_conns s) c = Some x -> Rc g (srv_done s) (k_cause m) x (k_conns m c);
  g_fresh : forall c, length (s_conns s) <= c -> k_conns m c = cm0;
  g_snap : s_fired s = true -> forall c x, nth_error (s_conns s) c = Some x ->
           c_cut x = true -> idle_cm (k_snap m c) = false;
  g_queue : forall c x, nth_error (s_conns s) c = Some x -> c_ph x = Queued ->
            In (QLive c) q \/ srv_done s = true \/ s_lost s = true
}.

(* an HTTP/2-only server never meets a client that does not complete the preface (D15) *)
Definition NoSilentK (g : cfg) (s : state) : Prop :=
  is_h2proto (g_proto g) = true ->
  forall c x, nth_error (s_conns s) c = Some x ->
  kind_eqb (c_kind x) KRaw = false /\ kind_eqb (c_kind x) KCut = false.

Definition Full (ns : bool) (g : cfg) (q : list qent) (s : state) : Prop :=
  Rel g q s (mstate s) /\ Good chk09 s /\ (ns = true -> NoSilentK g s /\ Good chk07 s).

(* what a settle establishes *)
Record Quiet (g : cfg) (s : state) : Prop := mkQuiet {
  q_fired : s_fired s = true -> srv_done s = true;
  q_queued : forall c x, nth_error (s_conns s) c = Some x -> c_ph x <> Queued;
  q_told : watch_closed g s = true -> forall c x, nth_error (s_conns s) c = Some x ->
           live x = true -> c_told x = true;
  q_stable : forall c x, nth_error (s_conns s) c = Some x -> closes g x = false
}.

(* the counters changed at connection c only, by fy *)
Record ConnOnly (c : nat) (fy : cm -> cm) (m m' : ms) : Prop := mkCO {
  o_fired : k_fired m' = k_fired m;
  o_cause : k_cause m' = k_cause m;
  o_server : k_server m' = k_server m;
  o_n : k_n m' = Nat.max (k_n m) (S c);
  o_at : k_conns m' c = fy (k_conns m c);
  o_else : forall c', c' <> c -> k_conns m' c' = k_conns m c';
  o_snap : forall c', k_snap m' c' = k_snap m c'
}.

Lemma conn_only_updc : forall c f m, ConnOnly c f m (updc c f m).
Proof.
  intros. constructor; cbn; auto.
  - now rewrite Nat.eqb_refl.
  - intros c' H. destruct (Nat.eqb_spec c' c); congruence.
Qed.

Lemma conn_only_nil : forall c m, c < k_n m -> ConnOnly c (fun y => y) m m.
Proof. intros. constructor; auto. lia. Qed.

Lemma conn_only_trans : forall c f1 f2 m m1 m2,
  ConnOnly c f1 m m1 -> ConnOnly c f2 m1 m2 -> ConnOnly c (fun y => f2 (f1 y)) m m2.
Proof.
  intros c f1 f2 m m1 m2 [] []. constructor; try congruence; try lia.
  all: intros; try (rewrite o_else1, o_else0; now auto); try now rewrite o_snap1, o_snap0.
Qed.

Lemma get_some_lt : forall c s x, get c s = Some x -> c < length (s_conns s).
Proof. unfold get. intros. apply nth_error_Some. congruence. Qed.

Lemma get_modc_eq : forall c f s, get c (modc c f s) = option_map f (get c s).
Proof. intros. unfold get, modc. cbn. apply nth_upd_eq. Qed.
Lemma get_modc_neq : forall c c' f s, c <> c' -> get c' (modc c f s) = get c' s.
Proof. intros. unfold get, modc. cbn. now apply nth_upd_neq. Qed.
Lemma get_emits : forall c os s, get c (emits os s) = get c s.
Proof. reflexivity. Qed.
Lemma get_emit : forall c o s, get c (emit o s) = get c s.
Proof. reflexivity. Qed.

(* THE step lemma for everything that happens on one connection:
   connection c goes from x to f x while the events os (all about c) are emitted *)
Lemma full_conn : forall ns g q s c x f fy os,
  Full ns g q s -> get c s = Some x ->
  ConnOnly c fy (mstate s) (tracks (mstate s) os) ->
  mon_from chk09 (mstate s) os = true ->
  (ns = true -> mon_from chk07 (mstate s) os = true) ->
  Rc g (srv_done s) (k_cause (mstate s)) (f x) (fy (k_conns (mstate s) c)) ->
  (c_ph (f x) = Queued -> c_ph x = Queued) ->
  (s_fired s = true -> c_cut (f x) = true -> c_cut x = true) ->
  c_kind (f x) = c_kind x ->
  Full ns g q (emits os (modc c f s)).
Proof.
  intros ns g q s c x f fy os [R [G9 G7]] Hx CO M9 M7 HRc Hq Hcut Hk.
  assert (Hlt := get_some_lt _ _ _ Hx).
  assert (Hm : mstate (emits os (modc c f s)) = tracks (mstate s) os).
  { rewrite mstate_emits. reflexivity. }
  destruct R, CO.
  split; [| split].
  - rewrite Hm. constructor; cbn.
    + congruence.
    + congruence.
    + rewrite upd_length. lia.
    + intro H. rewrite o_cause0. auto.
    + auto.
    + intros c' x' Hn. destruct (Nat.eq_dec c' c) as [-> | Hne].
      * rewrite nth_upd_eq in Hn. unfold get in Hx. rewrite Hx in Hn. cbn in Hn. inv Hn.
        rewrite o_at0, o_cause0. exact HRc.
      * rewrite nth_upd_neq in Hn by congruence. rewrite o_else0, o_cause0 by auto. now apply g_conns0.
    + intros c' Hc'. rewrite upd_length in Hc'. rewrite o_else0 by lia. auto.
    + intros Hf c' x' Hn Hc. rewrite o_snap0. destruct (Nat.eq_dec c' c) as [-> | Hne].
      * rewrite nth_upd_eq in Hn. unfold get in Hx. rewrite Hx in Hn. cbn in Hn. inv Hn.
        eapply g_snap0; eauto.
      * rewrite nth_upd_neq in Hn by congruence. eapply g_snap0; eauto.
    + intros c' x' Hn Hp. destruct (Nat.eq_dec c' c) as [-> | Hne].
      * rewrite nth_upd_eq in Hn. unfold get in Hx. rewrite Hx in Hn. cbn in Hn. inv Hn.
        eapply g_queue0; eauto.
      * rewrite nth_upd_neq in Hn by congruence. eapply g_queue0; eauto.
  - apply good_emits.
    + eapply good_out; [| exact G9]. reflexivity.
    + erewrite mstate_out; [exact M9 | reflexivity].
  - intro Hns. destruct (G7 Hns) as [NS G]. split.
    + intros Hp c' x' Hn. cbn in Hn. destruct (Nat.eq_dec c' c) as [-> | Hne].
      * rewrite nth_upd_eq in Hn. unfold get in Hx. rewrite Hx in Hn. cbn in Hn. inv Hn.
        rewrite Hk. eapply NS; eauto.
      * rewrite nth_upd_neq in Hn by congruence. eapply NS; eauto.
    + apply good_emits.
      * eapply good_out; [| exact G]. reflexivity.
      * erewrite mstate_out; [apply M7; auto | reflexivity].
Qed.

(* ------------------------------------------------------------------ quiescence bookkeeping *)
(* Quiet, except that connection c may be about to close *)
Record QuietEx (g : cfg) (c : nat) (s : state) : Prop := mkQuietEx {
  e_fired : s_fired s = true -> srv_done s = true;
  e_queued : forall c' x, nth_error (s_conns s) c' = Some x -> c_ph x <> Queued;
  e_told : watch_closed g s = true -> forall c' x, nth_error (s_conns s) c' = Some x ->
           live x = true -> c_told x = true;
  e_stable : forall c' x, c' <> c -> nth_error (s_conns s) c' = Some x -> closes g x = false
}.

Lemma quiet_weak : forall g c s, Quiet g s -> QuietEx g c s.
Proof. intros g c s []. constructor; eauto. Qed.

Lemma quietex_strong : forall g c s,
  QuietEx g c s -> (forall x, get c s = Some x -> closes g x = false) -> Quiet g s.
Proof.
  intros g c s [] H. constructor; eauto.
  intros c' x Hn. destruct (Nat.eq_dec c' c) as [-> | Hne]; eauto.
Qed.

Lemma quietex_conn : forall g s c x f os,
  QuietEx g c s -> get c s = Some x ->
  c_ph (f x) <> Queued ->
  (watch_closed g s = true -> live (f x) = true -> c_told (f x) = true) ->
  QuietEx g c (emits os (modc c f s)).
Proof.
  intros g s c x f os [] Hx Hp Ht. unfold get in Hx. constructor; cbn; auto.
  - intros c' x' Hn. destruct (Nat.eq_dec c' c) as [-> | Hne].
    + rewrite nth_upd_eq, Hx in Hn. cbn in Hn. inv Hn. auto.
    + rewrite nth_upd_neq in Hn by congruence. eauto.
  - intros Hw c' x' Hn Hl. destruct (Nat.eq_dec c' c) as [-> | Hne].
    + rewrite nth_upd_eq, Hx in Hn. cbn in Hn. inv Hn. auto.
    + rewrite nth_upd_neq in Hn by congruence. eauto.
  - intros c' x' Hne Hn. rewrite nth_upd_neq in Hn by congruence. eauto.
Qed.

Lemma closes_closed : forall g x, closes g (w_closed x) = false.
Proof. intros. unfold closes. cbn. apply andb_false_r. Qed.

Lemma quietex_close : forall g c s, QuietEx g c s -> Quiet g (close_if_idle g c s).
Proof.
  intros g c s Q. unfold close_if_idle. destruct (get c s) as [x|] eqn:Hx.
  - destruct (closes g x) eqn:Hc.
    + rewrite emit_emits. eapply quietex_strong with (c := c).
      * eapply quietex_conn; eauto; cbn; congruence.
      * intros x'. rewrite get_emits, get_modc_eq, Hx. cbn. intros H. inv H. apply closes_closed.
    + eapply quietex_strong; eauto. intros x' H. congruence.
  - eapply quietex_strong; eauto. intros x' H. congruence.
Qed.

(* ------------------------------------------------------------------ Rc helpers *)
Lemma rc_mono : forall g cz x y, Rc g false cz x y -> Rc g true cz x y.
Proof.
  intros g cz x y []. constructor; auto.
  intros H. apply r_wc0 in H. now rewrite andb_false_r in H.
Qed.

Lemma rc_cause : forall g sd x y, Rc g sd false x y -> Rc g sd true x y.
Proof. intros g sd x y []. constructor; auto. Qed.

Lemma b2n_false : b2n false = 0. Proof. reflexivity. Qed.
Lemma b2n_true : b2n true = 1. Proof. reflexivity. Qed.

Ltac rc_start H := destruct H as [Rconn Racc Rsp Rtold Rdone Rfault Rbegun Rresp Rhb Rquiet Rpre Rdead Rwc].

(* use every available premise, split, substitute, compute, then arithmetic *)
Ltac rc_fin :=
  repeat match goal with
  | H : ?a = ?a -> _ |- _ => specialize (H eq_refl)
  | H : ?p, I : ?p -> _ |- _ => specialize (I H)
  | H : _ /\ _ |- _ => destruct H
  end; subst; cbn in *; auto; try lia; try discriminate; try congruence.

Lemma full_rel : forall ns g q s, Full ns g q s -> Rel g q s (mstate s).
Proof. intros ns g q s [R _]. exact R. Qed.

Lemma full_get : forall ns g q s c x,
  Full ns g q s -> get c s = Some x -> Rc g (srv_done s) (k_cause (mstate s)) x (k_conns (mstate s) c).
Proof. intros ns g q s c x [R _] H. destruct R. auto. Qed.

Lemma full_lt : forall ns g q s c x, Full ns g q s -> get c s = Some x -> c < k_n (mstate s).
Proof. intros ns g q s c x [R _] H. destruct R. rewrite g_n0. eapply get_some_lt; eauto. Qed.

(* changes of connection c that emit nothing *)
Lemma full_conn_silent : forall ns g q s c x f,
  Full ns g q s -> get c s = Some x ->
  Rc g (srv_done s) (k_cause (mstate s)) (f x) (k_conns (mstate s) c) ->
  (c_ph (f x) = Queued -> c_ph x = Queued) ->
  (s_fired s = true -> c_cut (f x) = true -> c_cut x = true) ->
  c_kind (f x) = c_kind x ->
  Full ns g q (modc c f s).
Proof.
  intros. change (modc c f s) with (emits [] (modc c f s)).
  eapply full_conn with (fy := fun y => y); eauto.
  apply conn_only_nil. eapply full_lt; eauto.
Qed.

(* ------------------------------------------------------------------ the driver *)
Lemma full_close : forall ns g q s c, Full ns g q s -> Full ns g q (close_if_idle g c s).
Proof.
  intros ns g q s c F. unfold close_if_idle. destruct (get c s) as [x|] eqn:Hx; auto.
  destruct (closes g x) eqn:Hc; auto.
  assert (HR := full_get _ _ _ _ _ _ F Hx).
  rewrite emit_emits. eapply full_conn with (fy := cm_done); eauto.
  - apply conn_only_updc.
  - rc_start HR. unfold closes in Hc. apply andb_prop in Hc. destruct Hc as [Ht Hc].
    destruct x as [k p t cu ga il go fa ke]. cbn in *.
    unfold drained in Hc. cbn in Hc.
    destruct p; try discriminate; constructor; cbn in *; auto; intros; rc_fin.
    all: destruct il; try discriminate; rc_fin.
  - cbn. discriminate.
  - cbn. discriminate.
Qed.

Lemma full_mark_told : forall ns g q s c,
  Full ns g q s -> watch_closed g s = true -> Full ns g q (mark_told s c).
Proof.
  intros ns g q s c F W. unfold mark_told. destruct (get c s) as [x|] eqn:Hx; auto.
  destruct (live x && negb (c_told x)) eqn:Hc; auto.
  apply andb_prop in Hc. destruct Hc as [Hl Ht]. apply negb_true_iff in Ht.
  assert (HR := full_get _ _ _ _ _ _ F Hx).
  rewrite emit_emits. eapply full_conn with (fy := cm_told); eauto.
  - apply conn_only_updc.
  - intros _. cbn. rc_start HR. rewrite Rtold, Ht. reflexivity.
  - rc_start HR. unfold live in Hl. unfold watch_closed in W.
    destruct x as [k p t cu ga il go fa ke]. cbn in *. subst t.
    destruct p; try discriminate; constructor; cbn in *; auto; intros; rc_fin.
Qed.

Lemma full_drive : forall ns g q s c, Full ns g q s -> Full ns g q (drive g s c).
Proof.
  intros. unfold drive. apply full_close. destruct (watch_closed g s) eqn:W; auto.
  now apply full_mark_told.
Qed.

(* facts about the parts of the state the driver does not touch *)
Lemma close_if_idle_same : forall g c s,
  s_srv (close_if_idle g c s) = s_srv s /\ s_fired (close_if_idle g c s) = s_fired s
  /\ length (s_conns (close_if_idle g c s)) = length (s_conns s)
  /\ forall c', c' <> c -> get c' (close_if_idle g c s) = get c' s.
Proof.
  intros. unfold close_if_idle. destruct (get c s); [destruct (closes g c0) |]; cbn; repeat split; auto.
  - apply upd_length.
  - intros. unfold get. cbn. apply nth_upd_neq. congruence.
Qed.

Lemma mark_told_same : forall c s,
  s_srv (mark_told s c) = s_srv s /\ s_fired (mark_told s c) = s_fired s
  /\ length (s_conns (mark_told s c)) = length (s_conns s)
  /\ forall c', c' <> c -> get c' (mark_told s c) = get c' s.
Proof.
  intros. unfold mark_told. destruct (get c s); [destruct (live c0 && negb (c_told c0)) |]; cbn; repeat split; auto.
  - apply upd_length.
  - intros. unfold get. cbn. apply nth_upd_neq. congruence.
Qed.

Lemma drive_same : forall g c s,
  s_srv (drive g s c) = s_srv s /\ s_fired (drive g s c) = s_fired s
  /\ length (s_conns (drive g s c)) = length (s_conns s)
  /\ forall c', c' <> c -> get c' (drive g s c) = get c' s.
Proof.
  intros. unfold drive.
  destruct (close_if_idle_same g c (if watch_closed g s then mark_told s c else s)) as (A & B & C & D).
  destruct (mark_told_same c s) as (A' & B' & C' & D').
  destruct (watch_closed g s); repeat split; try congruence; auto.
  intros c' H. rewrite D, D'; auto.
Qed.

(* after its driver ran, connection c is told (if the watch is closed) and not about to close;
   phases never go back to Queued *)
Lemma mark_told_at : forall s c x,
  get c (mark_told s c) = Some x ->
  (live x = true -> c_told x = true) /\ (c_ph x = Queued -> exists x0, get c s = Some x0 /\ c_ph x0 = Queued).
Proof.
  intros s c x. unfold mark_told. destruct (get c s) as [x0|] eqn:Hx.
  - destruct (live x0 && negb (c_told x0)) eqn:Hc.
    + rewrite get_emit, get_modc_eq, Hx. cbn. intros H. inv H. cbn. split; auto.
      intros. eauto.
    + rewrite Hx. intros H. inv H. split; eauto.
      intros Hl. rewrite Hl in Hc. cbn in Hc. now apply negb_false_iff in Hc.
  - congruence.
Qed.

Lemma close_at : forall g s c x,
  get c (close_if_idle g c s) = Some x ->
  closes g x = false /\
  exists x0, get c s = Some x0 /\ (c_ph x = Queued -> c_ph x0 = Queued)
             /\ ((live x0 = true -> c_told x0 = true) -> live x = true -> c_told x = true).
Proof.
  intros g s c x. unfold close_if_idle. destruct (get c s) as [x0|] eqn:Hx.
  - destruct (closes g x0) eqn:Hc.
    + rewrite get_emit, get_modc_eq, Hx. cbn. intros H. inv H. split; [apply closes_closed|].
      exists x0. cbn. repeat split; auto; discriminate.
    + rewrite Hx. intros H. inv H. eauto 6.
  - congruence.
Qed.

Definition QAt (g : cfg) (s : state) (c : nat) : Prop :=
  forall x, get c s = Some x ->
  c_ph x <> Queued /\ (watch_closed g s = true -> live x = true -> c_told x = true) /\ closes g x = false.

Lemma watch_closed_same : forall g s s', s_srv s' = s_srv s -> watch_closed g s' = watch_closed g s.
Proof. unfold watch_closed, srv_done. intros g s s' ->. reflexivity. Qed.

Lemma drive_all_quiet : forall ns g q s,
  Full ns g q s -> (s_fired s = true -> srv_done s = true) ->
  (forall c x, get c s = Some x -> c_ph x <> Queued) ->
  Full ns g q (drive_all g s) /\ Quiet g (drive_all g s).
Proof.
  intros ns g q s F S1 S2. unfold drive_all.
  set (n := length (s_conns s)).
  pose (P := fun s' : state => Full ns g q s' /\ s_srv s' = s_srv s /\ s_fired s' = s_fired s
                               /\ length (s_conns s') = n
                               /\ (forall c x, get c s' = Some x -> c_ph x <> Queued)).
  destruct (fold_left_all state P (QAt g) (drive g)) with (l := seq 0 n) (s := s) as [HP HQ].
  - intros s' c (F' & A & B & C & D). destruct (drive_same g c s') as (A' & B' & C' & D').
    refine (conj _ (conj _ (conj _ (conj _ _)))); try congruence.
    + now apply full_drive.
    + intros c' x Hg. destruct (Nat.eq_dec c' c) as [-> | Hne].
      * unfold drive in Hg. apply close_at in Hg. destruct Hg as (_ & x0 & Hg & Hq & _).
        intros Hp. specialize (Hq Hp).
        destruct (watch_closed g s').
        -- apply mark_told_at in Hg. destruct Hg as (_ & Hg). destruct (Hg Hq) as (x1 & H1 & H2).
           eapply D; eauto.
        -- eapply D; eauto.
      * rewrite D' in Hg by auto. eapply D; eauto.
  - intros s' c (F' & A & B & C & D) x Hg.
    assert (W : watch_closed g (drive g s' c) = watch_closed g s').
    { apply watch_closed_same. apply drive_same. }
    rewrite W. unfold drive in Hg. apply close_at in Hg. destruct Hg as (Hc & x0 & Hg & Hq & Ht).
    repeat split; auto.
    + intros Hp. specialize (Hq Hp). destruct (watch_closed g s').
      * apply mark_told_at in Hg. destruct Hg as (_ & Hg). destruct (Hg Hq) as (x1 & H1 & H2).
        eapply D; eauto.
      * eapply D; eauto.
    + intros Hw. rewrite Hw in Hg. apply mark_told_at in Hg. destruct Hg as (Hg & _). auto.
  - intros s' c j (F' & A & B & C & D) HQ x Hg.
    assert (W : watch_closed g (drive g s' c) = watch_closed g s').
    { apply watch_closed_same. apply drive_same. }
    destruct (Nat.eq_dec j c) as [-> | Hne].
    + rewrite W. unfold drive in Hg. apply close_at in Hg. destruct Hg as (Hc & x0 & Hg & Hq & Ht).
      repeat split; auto.
      * intros Hp. specialize (Hq Hp). destruct (watch_closed g s').
        -- apply mark_told_at in Hg. destruct Hg as (_ & Hg). destruct (Hg Hq) as (x1 & H1 & H2).
           eapply D; eauto.
        -- eapply D; eauto.
      * intros Hw. rewrite Hw in Hg. apply mark_told_at in Hg. destruct Hg as (Hg & _). auto.
    + rewrite W. destruct (drive_same g c s') as (_ & _ & _ & D'). rewrite D' in Hg by auto.
      now apply HQ.
  - refine (conj _ (conj _ (conj _ (conj _ _)))); auto.
  - destruct HP as (F' & A & B & C & D). split; auto.
    set (s' := fold_left (drive g) (seq 0 n) s) in *.
    assert (HQ' : forall c x, get c s' = Some x -> QAt g s' c).
    { intros c x Hg. apply HQ. apply in_seq. apply get_some_lt in Hg. lia. }
    constructor.
    + rewrite B. unfold srv_done. rewrite A. exact S1.
    + intros c x Hg. eapply D; eauto.
    + intros Hw c x Hg. destruct (HQ' c x Hg x Hg) as (_ & H & _). auto.
    + intros c x Hg. destruct (HQ' c x Hg x Hg) as (_ & _ & H). auto.
Qed.

(* ------------------------------------------------------------------ global changes *)
Lemma full_queue_param : forall ns g q q' s,
  Full ns g q s ->
  (forall c x, get c s = Some x -> c_ph x = Queued -> In (QLive c) q ->
               In (QLive c) q' \/ srv_done s = true \/ s_lost s = true) ->
  Full ns g q' s.
Proof.
  intros ns g q q' s [R G] H. split; auto. destruct R. constructor; auto.
  intros c x Hn Hp. destruct (g_queue0 c x Hn Hp) as [Hi | Hd]; auto. eapply H; eauto.
Qed.

Lemma full_set_queue : forall ns g q v s, Full ns g q s -> Full ns g q (set_queue v s).
Proof.
  intros ns g q v s [R G]. split; [| exact G]. destruct R. constructor; auto.
Qed.

Lemma full_set_armed_false : forall ns g q s, Full ns g q s -> Full ns g q (set_armed false s).
Proof.
  intros ns g q s [R G]. split; [| exact G]. destruct R. constructor; auto.
  intros H. apply g_cause0. change (s_fired s || s_lost s || false || srv_done s = true) in H.
  destruct (s_fired s), (s_lost s), (srv_done s), (s_armed s); cbn in *; auto.
Qed.

Lemma full_set_accepting : forall ns g q s,
  Full ns g q s -> srv_done s = false -> Full ns g q (set_srv SAccepting s).
Proof.
  intros ns g q s [R G] Hd. split; [| exact G]. unfold srv_done in *. destruct R. constructor; cbn; auto.
  - rewrite g_server0. destruct (s_srv s); auto; discriminate.
  - intros H. apply g_cause0. unfold srv_done. rewrite Hd. exact H.
  - intros c x Hn. specialize (g_conns0 c x Hn). unfold srv_done in g_conns0. now rewrite Hd in g_conns0.
  - intros c x Hn Hp. destruct (g_queue0 c x Hn Hp) as [|[|]]; auto. unfold srv_done in H. congruence.
Qed.

Lemma full_finish : forall ns g q q' s r,
  Full ns g q s -> srv_done s = false -> k_cause (mstate s) = true ->
  (ns = true -> s_fired s = true -> r = true) ->
  Full ns g q' (finish r s).
Proof.
  intros ns g q q' s r [R [G9 G7]] Hd Hc Hr. unfold finish.
  assert (Hm : mstate (emit (OServer r) (set_srv (SDone r) s)) = track (mstate s) (OServer r)).
  { rewrite mstate_emit. reflexivity. }
  destruct R. split; [| split].
  - rewrite Hm. constructor; cbn; auto.
    intros c x Hn. specialize (g_conns0 c x Hn). rewrite Hd in g_conns0. now apply rc_mono.
  - apply good_emit; [eapply good_out; [| exact G9]; reflexivity |].
    erewrite mstate_out by reflexivity. exact Hc.
  - intros Hns. destruct (G7 Hns) as [NS G]. split; [exact NS |].
    apply good_emit; [eapply good_out; [| exact G]; reflexivity |].
    erewrite mstate_out by reflexivity. cbn. rewrite g_fired0.
    destruct (s_fired s) eqn:Hf; auto. cbn. now apply Hr.
Qed.

(* an event that leaves the counters alone *)
Lemma full_emit_plain : forall ns g q s o,
  Full ns g q s -> track (mstate s) o = mstate s ->
  chk09 (mstate s) o = true -> (ns = true -> chk07 (mstate s) o = true) ->
  Full ns g q (emit o s).
Proof.
  intros ns g q s o [R [G9 G7]] Ht H9 H7. split; [| split].
  - rewrite mstate_emit, Ht. destruct R. constructor; auto.
  - now apply good_emit.
  - intros Hns. destruct (G7 Hns). split; auto. apply good_emit; auto.
Qed.

(* ------------------------------------------------------------------ refusing *)
Lemma full_refuse : forall ns g q s c,
  Full ns g q s -> srv_done s = true -> Full ns g q (refuse s c).
Proof.
  intros ns g q s c F Hd. unfold refuse. destruct (get c s) as [x|] eqn:Hx; auto.
  destruct (c_ph x) eqn:Hp; auto.
  assert (HR := full_get _ _ _ _ _ _ F Hx).
  assert (Hc : k_cause (mstate s) = true).
  { destruct (full_rel _ _ _ _ F). apply g_cause0. rewrite Hd. now rewrite !orb_true_r. }
  rewrite emit_emits. eapply full_conn with (fy := fun y => y); eauto.
  - apply conn_only_updc.
  - rc_start HR. destruct x as [k p t cu ga il go fa ke]. cbn in *. subst p.
    constructor; cbn in *; auto; intros; rc_fin.
  - cbn. discriminate.
Qed.

Lemma refuse_same : forall c s,
  s_srv (refuse s c) = s_srv s /\ s_fired (refuse s c) = s_fired s
  /\ length (s_conns (refuse s c)) = length (s_conns s)
  /\ (forall c', c' <> c -> get c' (refuse s c) = get c' s)
  /\ (forall x, get c (refuse s c) = Some x -> c_ph x <> Queued)
  /\ (forall c' x, get c' (refuse s c) = Some x -> c_ph x = Queued -> get c' s = Some x).
Proof.
  intros. unfold refuse. destruct (get c s) as [x0|] eqn:Hx.
  - destruct (c_ph x0) eqn:Hp; cbn; refine (conj _ (conj _ (conj _ (conj _ (conj _ _))))); auto;
      try (intros; congruence); try apply upd_length.
    + intros. unfold get. cbn. apply nth_upd_neq. congruence.
    + intros x. unfold get in *. cbn. rewrite nth_upd_eq, Hx. cbn. intros H. inv H. cbn. discriminate.
    + intros c' x. unfold get in *. cbn. destruct (Nat.eq_dec c' c) as [-> | Hne].
      * rewrite nth_upd_eq, Hx. cbn. intros H. inv H. cbn. discriminate.
      * rewrite nth_upd_neq by congruence. auto.
  - refine (conj _ (conj _ (conj _ (conj _ (conj _ _))))); auto; intros; congruence.
Qed.

Lemma refuse_queued_spec : forall ns g q s,
  Full ns g q s ->
  Full ns g q (refuse_queued s)
  /\ s_srv (refuse_queued s) = s_srv s /\ s_fired (refuse_queued s) = s_fired s
  /\ (srv_done s = true -> forall c x, get c (refuse_queued s) = Some x -> c_ph x <> Queued)
  /\ (forall c x, get c (refuse_queued s) = Some x -> c_ph x = Queued -> get c s = Some x).
Proof.
  intros ns g q s F. unfold refuse_queued. destruct (srv_done s) eqn:Hd.
  2:{ refine (conj _ (conj _ (conj _ (conj _ _)))); auto. discriminate. }
  set (n := length (s_conns s)).
  pose (P := fun s' : state => Full ns g q s' /\ s_srv s' = s_srv s /\ s_fired s' = s_fired s
                               /\ length (s_conns s') = n
                               /\ (forall c x, get c s' = Some x -> c_ph x = Queued -> get c s = Some x)).
  pose (Q := fun (s' : state) (c : nat) => forall x, get c s' = Some x -> c_ph x <> Queued).
  destruct (fold_left_all state P Q refuse) with (l := seq 0 n) (s := s) as [HP HQ].
  - intros s' c (F' & A & B & C & D). destruct (refuse_same c s') as (A' & B' & C' & D' & E' & G').
    refine (conj _ (conj _ (conj _ (conj _ _)))); try congruence.
    + apply full_refuse; auto. unfold srv_done in *. now rewrite A.
    + intros c' x Hg Hp. eapply D; eauto.
  - intros s' c _. apply refuse_same.
  - intros s' c j _ HQ x Hg Hp. destruct (refuse_same c s') as (_ & _ & _ & _ & _ & G').
    eapply HQ; eauto.
  - refine (conj _ (conj _ (conj _ (conj _ _)))); auto.
  - destruct HP as (F' & A & B & C & D).
    refine (conj _ (conj _ (conj _ (conj _ _)))); auto.
    intros _ c x Hg. apply (HQ c); auto. apply in_seq. apply get_some_lt in Hg. lia.
Qed.
