(* M-E2E: executable abstract model of the end-to-end request/response path (C01).

   What is mirrored (the library's own logic; hyper/h2 framing and the runtime are NOT modelled):
     src/client/builder.rs        build_service: SetRequestHeader(user-agent, if absent) above the pool,
                                  SetHostHeader -> Http2Checks -> Http1Checks -> RequestExecutor below it
     src/service/host.rs, src/service/http.rs          = HD.http.Model.layers (REUSED, not re-modelled)
     src/client/conn/connection.rs HttpConnection::send_request: the version on the wire is the
                                  connection's                = HD.http.Model.wire_version (REUSED)
     src/service/client.rs        execute_request: one request is coupled to one connection handle for
                                  the duration of the send
     src/client/pool/service.rs   ResponseFuture::poll: checkout, then execute on the checked-out handle
     src/client/pool/mod.rs       Pooled::drop -> WhenReady: a non-multiplexed connection goes back to the
                                  pool only once it is ready again (event ERelease + hypothesis pool_ok)
     src/bridge/io.rs, src/rewind.rs, src/server/conn/auto.rs ReadVersion: byte transparency between
                                  the two hyper endpoints (C18 adapters + C08 rewind) is what makes a
                                  connection the FIFO of whole messages used here.

   The abstract connection answers WHOEVER CURRENTLY HOLDS IT (HTTP/1: the current holder of the
   sender handle; HTTP/2: the owner registered for the stream id), so cross-talk is expressible.
   The pool's guarantees enter only as the decidable hypothesis [pool_ok] on schedules:
   exclusivity + ready-before-reuse (C02) and same-origin (C06). *)
From HD Require Import common.Base http.Model.
Local Open Scope string_scope.

Definition rid := N.     (* request id *)
Definition cid := N.     (* connection id *)
Definition sid := N.     (* HTTP/2 stream id / exchange number *)
Definition body := list N.   (* body bytes; the correspondence run uses the digest [length; hash] *)

(* the caller's request *)
Record ereq := mkEreq {
  q_id : rid;
  q_origin : N;            (* which server (scheme+authority) the URI names *)
  q_req : req;             (* method, requested version, URI, headers: the record of M-HTTP *)
  q_body : body
}.

(* what is on the wire / what the server handler is given *)
Record wreq := mkWreq {
  w_method : string;
  w_version : hver;
  w_path : string;
  w_query : option string;
  w_headers : list (string * string);
  w_body : body
}.

Record resp := mkResp {
  p_status : N;
  p_headers : list (string * string);
  p_echo : wreq           (* the response body: here the handler's echo of what it was given *)
}.

(* ---- the rewriting applied by the client stack for a connection speaking [p] ---- *)
Definition add_user_agent (ua : string) (r : req) : req :=
  if has_header "user-agent" (r_headers r) then r
  else mkReq (r_method r) (r_version r) (r_uri r) (insert_header ("user-agent", ua) (r_headers r)).

Definition wire_request (ua : string) (p : proto) (q : ereq) : option wreq :=
  match layers p (add_user_agent ua (q_req q)) with
  | Sent r' => Some (mkWreq (r_method r') (wire_version p) (u_path (r_uri r')) (u_query (r_uri r'))
                            (r_headers r') (q_body q))
  | _ => None            (* rejected by the checks (CONNECT over HTTP/2, CONNECT without authority) *)
  end.

(* ---- schedules ---- *)
Inductive event :=
| EStart (r : rid) (c : cid)     (* r obtains (a handle on) connection c and its wire form is written *)
| EHandle (c : cid) (s : sid)    (* request bytes delivered and the handler runs: HTTP/1 the oldest
                                    unanswered request of c, HTTP/2 the one on stream s *)
| EDeliver (c : cid) (s : sid)   (* a response is delivered to whoever holds the exchange *)
| ECancel (r : rid)              (* the caller drops request r *)
| ERelease (c : cid)             (* the holder's handle on c goes back to the pool (c may be reused) *)
| EBreak (c : cid).              (* the peer breaks connection c *)

Inductive payload := PReq (w : wreq) | PResp (p : resp).
Record msg := mkMsg { m_sid : sid; m_tag : rid (* ghost: who wrote it *); m_pay : payload }.

Record conn := mkConn {
  c_dead : bool;
  c_holder : option rid;              (* HTTP/1: who holds the sender handle *)
  c_next : sid;
  c_streams : list (sid * rid);       (* HTTP/2: open streams and their owners *)
  c_q : list msg                      (* exchanges in flight, oldest first *)
}.

Inductive status :=
| SNone | SRunning (c : cid) (s : sid) | SDone (c : cid) (p : resp) | SCancelled | SRejected.

Record state := mkState {
  st_conn : cid -> conn;
  st_stat : rid -> status;
  st_log : list (cid * rid * wreq)    (* what the server handlers were given (rid = ghost tag) *)
}.

Record cfg := mkCfg {
  g_ua : string;
  g_reqs : list ereq;
  g_conns : list (cid * (proto * N))  (* connection -> protocol, origin (server) it is connected to *)
}.

Definition req_of (g : cfg) (r : rid) : option ereq := find (fun q => N.eqb (q_id q) r) (g_reqs g).
Definition conn_of (g : cfg) (c : cid) : option (proto * N) :=
  option_map snd (find (fun x => N.eqb (fst x) c) (g_conns g)).
Definition proto_of (g : cfg) (c : cid) : proto := match conn_of g c with Some (p, _) => p | None => PH1 end.
Definition origin_of (g : cfg) (c : cid) : N := match conn_of g c with Some (_, o) => o | None => 0%N end.

Definition lookup (s : sid) (l : list (sid * rid)) : option rid :=
  option_map snd (find (fun x => N.eqb (fst x) s) l).
Definition remove_sid (s : sid) (l : list (sid * rid)) : list (sid * rid) :=
  filter (fun x => negb (N.eqb (fst x) s)) l.

Definition upd {A} (f : N -> A) (k : N) (v : A) : N -> A := fun x => if N.eqb x k then v else f x.

Definition is_req (m : msg) : bool := match m_pay m with PReq _ => true | PResp _ => false end.

(* which message an event addresses: HTTP/1 is strictly sequential, HTTP/2 selects by stream id *)
Definition sel (p : proto) (s : sid) (m : msg) : bool :=
  match p with PH1 => true | PH2 => N.eqb (m_sid m) s end.

Section WithHandler.
Variable handler : N -> wreq -> resp.       (* server index -> request given -> response produced *)
Variable g : cfg.

(* the server handles the first unanswered selected request: it is answered in place *)
Fixpoint handle_q (o : N) (f : msg -> bool) (q : list msg) : option (rid * wreq) * list msg :=
  match q with
  | [] => (None, [])
  | m :: t =>
      match m_pay m with
      | PReq w => if f m then (Some (m_tag m, w), mkMsg (m_sid m) (m_tag m) (PResp (handler o w)) :: t)
                  else let (r, t') := handle_q o f t in (r, m :: t')
      | PResp _ => let (r, t') := handle_q o f t in (r, m :: t')
      end
  end.

(* the response that can be delivered next: HTTP/1 only the head of the queue (responses come in
   request order), HTTP/2 the first answered exchange on the selected stream *)
Fixpoint take_resp (p : proto) (s : sid) (q : list msg) : option (msg * resp) * list msg :=
  match q with
  | [] => (None, [])
  | m :: t =>
      match p, m_pay m with
      | PH1, PResp x => (Some (m, x), t)
      | PH1, PReq _ => (None, q)
      | PH2, PResp x => if N.eqb (m_sid m) s then (Some (m, x), t)
                        else let (r, t') := take_resp p s t in (r, m :: t')
      | PH2, PReq _ => let (r, t') := take_resp p s t in (r, m :: t')
      end
  end.

Definition recipient (p : proto) (k : conn) (s : sid) : option rid :=
  match p with PH1 => c_holder k | PH2 => lookup s (c_streams k) end.

Definition is_running (st : status) : bool := match st with SRunning _ _ => true | _ => false end.

Definition step (st : state) (e : event) : state :=
  match e with
  | EStart r c =>
      let k := st_conn st c in
      match st_stat st r, req_of g r with
      | SNone, Some q =>
          if c_dead k then st
          else match wire_request (g_ua g) (proto_of g c) q with
               | None => mkState (st_conn st) (upd (st_stat st) r SRejected) (st_log st)
               | Some w =>
                   let s := c_next k in
                   mkState (upd (st_conn st) c
                              (mkConn false (Some r) (N.succ s) ((s, r) :: c_streams k)
                                      (c_q k ++ [mkMsg s r (PReq w)])))
                           (upd (st_stat st) r (SRunning c s)) (st_log st)
               end
      | _, _ => st
      end
  | EHandle c s =>
      let k := st_conn st c in
      if c_dead k then st
      else match handle_q (origin_of g c) (sel (proto_of g c) s) (c_q k) with
           | (Some (r, w), q') =>
               mkState (upd (st_conn st) c (mkConn false (c_holder k) (c_next k) (c_streams k) q'))
                       (st_stat st) (st_log st ++ [(c, r, w)])
           | (None, _) => st
           end
  | EDeliver c s =>
      let k := st_conn st c in
      if c_dead k then st
      else match take_resp (proto_of g c) s (c_q k) with
           | (Some (m, x), q') =>
               let k' := mkConn false (c_holder k) (c_next k) (remove_sid (m_sid m) (c_streams k)) q' in
               match recipient (proto_of g c) k (m_sid m) with
               | Some r' =>
                   if is_running (st_stat st r')
                   then mkState (upd (st_conn st) c k') (upd (st_stat st) r' (SDone c x)) (st_log st)
                   else mkState (upd (st_conn st) c k') (st_stat st) (st_log st)
               | None => mkState (upd (st_conn st) c k') (st_stat st) (st_log st)
               end
           | (None, _) => st
           end
  | ECancel r =>
      match st_stat st r with
      | SNone => mkState (st_conn st) (upd (st_stat st) r SCancelled) (st_log st)
      | SRunning c s =>
          let k := st_conn st c in
          let k' := match proto_of g c with
                    | PH1 => mkConn true (c_holder k) (c_next k) (c_streams k) (c_q k)   (* an abandoned HTTP/1 exchange poisons the connection: it is closed *)
                    | PH2 => mkConn (c_dead k) (c_holder k) (c_next k) (remove_sid s (c_streams k)) (c_q k)  (* stream reset *)
                    end in
          mkState (upd (st_conn st) c k') (upd (st_stat st) r SCancelled) (st_log st)
      | _ => st
      end
  | ERelease c =>
      let k := st_conn st c in
      if c_dead k then st
      else mkState (upd (st_conn st) c (mkConn false None (c_next k) (c_streams k) (c_q k)))
                   (st_stat st) (st_log st)
  | EBreak c =>
      let k := st_conn st c in
      mkState (upd (st_conn st) c (mkConn true (c_holder k) (c_next k) (c_streams k) (c_q k)))
              (st_stat st) (st_log st)
  end.

Definition init : state :=
  mkState (fun c => mkConn (match conn_of g c with Some _ => false | None => true end) None 0%N [] [])
          (fun _ => SNone) [].

Definition run_from (st : state) (evs : list event) : state := fold_left step evs st.
Definition run_state (evs : list event) : state := run_from init evs.

(* ---- the pool's guarantees, as a decidable predicate on (state, next event) ---- *)
Definition is_nil {A} (l : list A) : bool := match l with [] => true | _ => false end.

Definition pool_ok (st : state) (e : event) : bool :=
  match e with
  | EStart r c =>
      let k := st_conn st c in
      (* C06: a request is only put on a connection to its own origin *)
      match req_of g r with Some q => N.eqb (origin_of g c) (q_origin q) | None => true end
      && (* C02 exclusivity: a non-multiplexed connection has at most one holder at a time *)
         match proto_of g c with
         | PH1 => match c_holder k with None => true | Some _ => false end
         | PH2 => true
         end
  | ERelease c =>
      (* C02 ready-before-reuse: hand-off only after the exchange is over *)
      match proto_of g c with PH1 => is_nil (c_q (st_conn st c)) | PH2 => true end
  | _ => true
  end.

Fixpoint sched_ok_from (st : state) (evs : list event) : bool :=
  match evs with
  | [] => true
  | e :: t => pool_ok st e && sched_ok_from (step st e) t
  end.
Definition sched_ok (evs : list event) : bool := sched_ok_from init evs.

(* ---- observable outcome of a request ---- *)
Inductive outcome :=
| ONotStarted | OPending | ODone (p : resp) | OCancelled | OBroken | ORejected.

Definition outcome_of (st : state) (r : rid) : outcome :=
  match st_stat st r with
  | SNone => ONotStarted
  | SRunning c _ => if c_dead (st_conn st c) then OBroken else OPending
  | SDone _ p => ODone p
  | SCancelled => OCancelled
  | SRejected => ORejected
  end.

Definition run (evs : list event) : list (rid * outcome) :=
  let st := run_state evs in map (fun q => (q_id q, outcome_of st (q_id q))) (g_reqs g).

(* what the server handled for request r (first entry) *)
Definition saw_of (st : state) (r : rid) : option wreq :=
  option_map snd (find (fun x => N.eqb (snd (fst x)) r) (st_log st)).

End WithHandler.

(* ---- the concrete handler used by the correspondence harness (harness/src/bin/e2e.rs handle) ----
   status derived from the id header, headers incl. the id and the server's own index, body =
   echo of everything the handler was given; an HTTP/1.1 request carrying Upgrade is answered 101 *)
Fixpoint str_sum (s : string) : nat :=
  match s with EmptyString => 0 | String c t => nat_of_ascii c + str_sum t end.

Definition header_value (name : string) (hs : list (string * string)) : string :=
  match find (fun h => String.eqb (fst h) name) hs with Some h => snd h | None => "" end.

Definition statuses : list N := [200; 201; 202; 203; 207; 226; 400; 404; 409; 418; 500; 503]%N.

Definition echo_handler (srv : N) (w : wreq) : resp :=
  let id := header_value "x-id" (w_headers w) in
  let st := if has_header "upgrade" (w_headers w) && match w_version w with V11 => true | _ => false end
            then 101%N else nth (Nat.modulo (str_sum id) 12) statuses 200%N in
  mkResp st [("x-id", id); ("x-srv", port_string srv)] w.
